"""Executable reference + differential runs for the byte transport under the record layer (C14 / C17, and the
C01 / C08 record-length caps): tlslite.bufferedsocket.BufferedSocket and tlslite.recordlayer.RecordSocket.

Everything here is written from the property text and the record formats (RFC 5246 6.2.1 / 6.2.3, RFC 8446 5.2,
RFC 8449 4, SSL 2.0 record header), not from the code:

  * a ScriptedSocket delivers a fixed peer stream under an adversarial schedule (random chunk sizes, would-block
    any number of times, a transport fault at a chosen call index, EOF when the stream ends) and accepts writes
    under partial-accept / would-block / fault schedules;
  * the same operation is also run over an UNCONSTRAINED socket (everything at once, never blocks);
  * the two outcomes, and the reference below, must agree.

Runs under /venv/bin/python (no z3).
"""
import errno
import socket


# --------------------------------------------------------------------------------------------------------
# scripted transport

class ScriptedSocket(object):
    """peer stream + schedule.  `chunker(k, want, left)` -> ('data', m) | ('block',) | ('fault', errno);
    `acceptor(k, n)` -> ('accept', m) | ('block',) | ('fault', errno) for send; for sendall ('accept', n) or
    ('fault', errno, m_partial)."""

    def __init__(self, stream=b'', chunker=None, acceptor=None):
        self.stream = bytes(stream)
        self.pos = 0
        self.wire = bytearray()
        self.chunker = chunker
        self.acceptor = acceptor
        self.recv_calls = 0
        self.send_calls = 0
        self.closed = False
        self.wire_at_close = None
        self.log = []

    def recv(self, n):
        k = self.recv_calls
        self.recv_calls += 1
        left = len(self.stream) - self.pos
        act = self.chunker(k, n, left) if self.chunker else ('data', min(n, left))
        if act[0] == 'block':
            self.log.append(('recv', n, 'block'))
            raise socket.error(errno.EWOULDBLOCK, 'would block')
        if act[0] == 'fault':
            self.log.append(('recv', n, 'fault'))
            raise socket.error(act[1], 'scripted fault')
        m = max(0, min(act[1], n, left))
        if left > 0 and n > 0:
            m = max(1, m)                       # b'' only at end of stream
        out = self.stream[self.pos:self.pos + m]
        self.pos += m
        self.log.append(('recv', n, m))
        return out

    def _accept(self, data, all_):
        k = self.send_calls
        self.send_calls += 1
        n = len(data)
        act = self.acceptor(k, n, all_) if self.acceptor else ('accept', n)
        if act[0] == 'block':
            raise socket.error(errno.EAGAIN, 'would block')
        if act[0] == 'fault':
            part = act[2] if len(act) > 2 and all_ else 0
            self.wire += bytes(data[:part])
            raise socket.error(act[1], 'scripted fault')
        m = n if all_ else max(1 if n else 0, min(n, act[1]))
        self.wire += bytes(data[:m])
        return m

    def send(self, data):
        return self._accept(data, False)

    def sendall(self, data):
        self._accept(data, True)
        return None

    def shutdown(self, how):
        if self.wire_at_close is None:
            self.wire_at_close = bytes(self.wire)
        self.closed = True

    def close(self):
        if self.wire_at_close is None:
            self.wire_at_close = bytes(self.wire)
        self.closed = True


def random_chunker(rng, p_block=0.3, fault_at=None, fault_errno=errno.ECONNRESET, one_byte=False):
    def f(k, want, left):
        if fault_at is not None and k == fault_at:
            return ('fault', fault_errno)
        if rng.random() < p_block:
            return ('block',)
        if one_byte:
            return ('data', 1)
        return ('data', rng.randint(1, max(1, min(want, left))) if left else 0)
    return f


def random_acceptor(rng, p_block=0.3, fault_at=None, fault_errno=errno.EPIPE, one_byte=False):
    def f(k, n, all_):
        if fault_at is not None and k == fault_at:
            return ('fault', fault_errno, rng.randint(0, n))
        if all_:
            return ('accept', n)
        if rng.random() < p_block:
            return ('block',)
        return ('accept', 1 if one_byte else rng.randint(1, max(1, n)))
    return f


def drive(gen, limit=200000):
    """run a 0/1 generator the way every consumer in tlslite does: collect the ints yielded, stop at the first
    non-int (completion value) or at StopIteration.  -> (yields, completion or None, exception or None)"""
    ys = []
    try:
        for v in gen:
            if isinstance(v, int) and not isinstance(v, bool) and v in (0, 1):
                ys.append(v)
                if len(ys) > limit:
                    return ys, None, RuntimeError('spins without completing')
                continue
            return ys, v, None
    except Exception as e:            # noqa: BLE001
        return ys, None, e
    return ys, None, None


# --------------------------------------------------------------------------------------------------------
# reference: record framing

TLS_CONTENT_TYPES = (20, 21, 22, 23, 24)


def ref_header(stream):
    """-> None (fewer bytes than the header needs) | dict(hlen, ssl2, type, version, length, padding, malformed)"""
    if len(stream) < 1:
        return None
    b0 = stream[0]
    if b0 in TLS_CONTENT_TYPES:
        if len(stream) < 5:
            return None
        return {'hlen': 5, 'ssl2': False, 'type': b0, 'version': (stream[1], stream[2]),
                'length': stream[3] * 256 + stream[4], 'padding': 0, 'malformed': False}
    if b0 >= 128:
        if len(stream) < 2:
            return None
        return {'hlen': 2, 'ssl2': True, 'type': 22, 'version': (2, 0), 'length': (b0 - 128) * 256 + stream[1],
                'padding': 0, 'malformed': False}
    if len(stream) < 3:
        return None
    length = (b0 % 64) * 256 + stream[1]
    pad = stream[2]
    return {'hlen': 3, 'ssl2': True, 'type': 22, 'version': (2, 0), 'length': length, 'padding': pad,
            'malformed': pad > length or (pad != 0 and length % 8 != 0)}


def ref_recv(stream, limit, tls13):
    """what RecordSocket.recv must do on `stream`: ('record', hdr, body, consumed) | ('abrupt',) |
    ('overflow', consumed_at_most) | ('illegal',)"""
    h = ref_header(stream)
    if h is None:
        return ('abrupt',)
    if h['malformed']:
        return ('illegal',)
    cap = limit + 256 if tls13 else limit + 2048
    if h['length'] > cap:
        return ('overflow', h['hlen'])
    end = h['hlen'] + h['length']
    if len(stream) < end:
        return ('abrupt',)
    return ('record', h, stream[h['hlen']:end], end)


def ref_wire(version, ctype, body, padding=0):
    n = len(body)
    if version in ((2, 0), (0, 2)):
        if padding == 0:
            return bytes([128 + n // 256, n % 256]) + body
        return bytes([n // 256, n % 256, padding]) + body
    return bytes([ctype, version[0], version[1], n // 256, n % 256]) + body


def _outcome_of_recv(ys, val, exc):
    from tlslite.errors import TLSAbruptCloseError, TLSRecordOverflow, TLSIllegalParameterException
    if exc is not None:
        if isinstance(exc, TLSAbruptCloseError):
            return ('abrupt',)
        if isinstance(exc, TLSRecordOverflow):
            return ('overflow',)
        if isinstance(exc, TLSIllegalParameterException):
            return ('illegal',)
        if isinstance(exc, socket.error):
            return ('socket.error', exc.args[0] if exc.args else None)
        return ('unexpected-exception', type(exc).__name__, str(exc))
    if val is None:
        return ('no-completion-value',)
    hdr, body = val
    return ('record', (hdr.type, tuple(hdr.version), hdr.length, bool(hdr.ssl2)), bytes(body))


def _mk_stream(rng, limit, tls13):
    """one record (sometimes followed by more bytes), with lengths around the caps; returns bytes"""
    kind = rng.random()
    cap = limit + (256 if tls13 else 2048)
    lens = [0, 1, 2, 5, 16, 255, 256, 257, limit, limit + 1, cap - 1, cap, cap + 1, cap + 2, limit + 2048, limit + 2049,
            min(65535, cap + 1000), 65535]
    n = rng.choice(lens) if rng.random() < 0.7 else rng.randrange(0, 2000)
    n = max(0, min(65535, n))
    if kind < 0.75:
        t = rng.choice(TLS_CONTENT_TYPES)
        v = rng.choice([(3, 0), (3, 1), (3, 3), (3, 4), (rng.randrange(256), rng.randrange(256))])
        hdr = bytes([t, v[0], v[1], n // 256, n % 256])
    elif kind < 0.88:
        n = min(n, 0x7fff)
        hdr = bytes([128 + n // 256, n % 256])
        if hdr[0] in TLS_CONTENT_TYPES:
            hdr = bytes([128 + 30, n % 256])
    else:
        n = min(n, 0x3fff)
        pad = rng.choice([0, 0, 8, 7, 1, 255, n % 256])
        b0 = (n // 256) | (0x40 if rng.random() < 0.3 else 0)
        if b0 in TLS_CONTENT_TYPES:
            b0 = 1
        hdr = bytes([b0, n % 256, pad])
    h = ref_header(hdr + b'\0' * 5)
    body_len = h['length']
    avail = body_len if rng.random() < 0.8 else rng.randrange(0, body_len + 1)      # sometimes truncated
    body = bytes(rng.randrange(256) for _ in range(min(avail, 64))) + bytes(max(0, avail - 64))
    tail = bytes(rng.randrange(256) for _ in range(rng.choice([0, 0, 3, 40]))) if avail == body_len else b''
    s = hdr + body + tail
    if rng.random() < 0.1:
        s = s[:rng.randrange(0, min(len(s), 6) + 1)]                                   # cut inside the header
    return s


def xcheck_recordsocket_recv(rng, n):
    from tlslite.recordlayer import RecordSocket
    from tlslite.bufferedsocket import BufferedSocket
    fails, seen, evals = [], set(), 0

    def fail(cls, what, inp):
        if len(fails) < 6:
            fails.append({'class': cls, 'what': what, 'input': inp})

    for case in range(n):
        limit = rng.choice([2 ** 14, 2 ** 14, 64, 511, 16383, 1000])
        tls13 = rng.random() < 0.4
        stream = _mk_stream(rng, limit, tls13)
        want = ref_recv(stream, limit, tls13)
        inp = {'stream_hex_prefix': stream[:16].hex(), 'stream_len': len(stream), 'recv_record_limit': limit,
               'tls13record': tls13}

        def run(chunker, buffered):
            raw = ScriptedSocket(stream, chunker)
            rs = RecordSocket(BufferedSocket(raw) if buffered else raw)
            rs.recv_record_limit = limit
            rs.tls13record = tls13
            ys, val, exc = drive(rs.recv())
            return raw, ys, _outcome_of_recv(ys, val, exc)

        raw0, ys0, base = run(None, False)                    # unconstrained: everything at once, never blocks
        evals += 1
        exp = want[0]
        seen.add((exp, limit, tls13, len(stream) > 5, stream[:1].hex()))
        if base[0] != exp:
            cls = {'overflow': 'record-cap-not-enforced', 'abrupt': 'recordsocket-eof-not-abrupt-close',
                   'illegal': 'ssl2-malformed-header-accepted', 'record': 'recordsocket-rejects-valid-record'}[exp]
            if exp == 'record' and base[0] == 'overflow':
                cls = 'record-cap-too-strict'
            fail(cls, 'unconstrained run gives %r, the record formats / length caps say %r' % (base[:2], want[:1]), inp)
            continue
        if exp == 'record':
            h = want[1]
            if base[1] != (h['type'], h['version'], h['length'], h['ssl2']) or base[2] != want[2]:
                fail('record-header-or-body-differs', 'got header %r body[%d], expected %r body[%d]'
                     % (base[1], len(base[2]), (h['type'], h['version'], h['length'], h['ssl2']), len(want[2])), inp)
            if base[1][2] != len(base[2]):
                fail('record-header-length-mismatch', 'header.length %d != len(body) %d' % (base[1][2], len(base[2])), inp)
            if raw0.pos != want[3]:
                fail('recordsocket-consumes-wrong-amount', 'consumed %d bytes, the record has %d' % (raw0.pos, want[3]), inp)
        if exp == 'overflow' and raw0.pos > want[1] and len(stream) > want[1]:
            # with an unbuffered socket the bytes taken out of the transport are exactly what was read
            fail('record-overflow-body-read-first', 'TLSRecordOverflow raised after %d bytes were read (header is %d)'
                 % (raw0.pos, want[1]), inp)
        # scripted schedules
        for sched in range(4):
            buffered = sched % 2 == 1
            one = sched >= 2 and len(stream) < 400
            raw, ys, got = run(random_chunker(rng, p_block=rng.choice([0.0, 0.3, 0.7]), one_byte=one), buffered)
            evals += 1
            if any(y != 0 for y in ys):
                fail('recordsocket-yield-not-0', 'receive generator yielded %r before completion' % sorted(set(ys)), inp)
            if got != base:
                fail('recordsocket-recv-schedule-dependent',
                     'outcome %r under chunking/would-block (buffered=%s, one_byte=%s) but %r over an unconstrained socket'
                     % (got[:2], buffered, one, base[:2]), dict(inp, recv_log=raw.log[:12]))
            elif exp == 'record' and not buffered and raw.pos != want[3]:
                fail('recordsocket-consumes-wrong-amount', 'consumed %d, record has %d' % (raw.pos, want[3]), inp)
            elif exp == 'overflow' and not buffered and raw.pos > want[1]:
                fail('record-overflow-body-read-first', 'overflow raised after reading %d bytes' % raw.pos, inp)
        # a transport fault at every recv call index of the unconstrained-length schedule
        nrecv = raw.recv_calls
        for k in range(min(nrecv, 6)):
            raw, ys, got = run(random_chunker(rng, p_block=0.0, fault_at=k), False)
            evals += 1
            if got[0] != 'socket.error' and raw.recv_calls > k:
                fail('transport-fault-not-reported', 'ECONNRESET at recv call %d gave %r instead of socket.error' % (k, got[:2]), inp)
    return {'evaluations': evals, 'distinct_nontrivial': len(seen),
            'bound': 'one record per case, body lengths 0..65535 around limit / limit+256 / limit+2048, limits {64..2^14}, '
                     'TLS + SSLv2 2/3-byte headers, truncation at random points, 4 random schedules + faults at the first 6 recv calls',
            'rule': 'distinct (expected outcome, limit, tls13, has body, first byte)', 'failures': fails}


def xcheck_recordsocket_send(rng, n):
    from tlslite.recordlayer import RecordSocket
    from tlslite.bufferedsocket import BufferedSocket
    from tlslite.messages import Message
    fails, seen, evals = [], set(), 0

    def fail(cls, what, inp):
        if len(fails) < 6:
            fails.append({'class': cls, 'what': what, 'input': inp})

    for case in range(n):
        ssl2 = rng.random() < 0.2
        version = rng.choice([(2, 0), (0, 2)]) if ssl2 else rng.choice([(3, 0), (3, 1), (3, 2), (3, 3), (3, 4)])
        ctype = rng.choice(TLS_CONTENT_TYPES)
        blen = rng.choice([0, 1, 2, 100, 255, 256, 257, 4096, 16383, 16384, 16385, 18432]) if rng.random() < 0.6 \
            else rng.randrange(0, 3000)
        if ssl2:
            blen = min(blen, 0x3fff)
        body = bytes(rng.randrange(256) for _ in range(min(blen, 48))) + bytes(max(0, blen - 48))
        padding = rng.choice([0, 0, 8]) if ssl2 else 0
        want = ref_wire(version, ctype, body, padding)
        inp = {'version': list(version), 'contentType': ctype, 'body_len': blen, 'padding': padding}
        seen.add((version, blen, padding))

        def run(acceptor, buffered=False):
            raw = ScriptedSocket(b'', None, acceptor)
            sock = BufferedSocket(raw) if buffered else raw
            rs = RecordSocket(sock)
            rs.version = version
            ys, val, exc = drive(rs.send(Message(ctype, bytearray(body)), padding))
            return raw, ys, val, exc

        raw0, ys0, v0, e0 = run(None)
        evals += 1
        if e0 is not None or bytes(raw0.wire) != want:
            fail('recordsocket-send-wire-differs', 'unconstrained send put %d bytes on the wire (%s...), expected header||body '
                 '%d bytes (%s...); exception %r' % (len(raw0.wire), bytes(raw0.wire[:8]).hex(), len(want), want[:8].hex(), e0), inp)
            continue
        h = ref_header(bytes(raw0.wire[:5]) + b'\0' * 5)
        if not ssl2 and (h['length'] != len(body)):
            fail('record-header-length-mismatch', 'length field %d, body %d' % (h['length'], len(body)), inp)
        for sched in range(3):
            raw, ys, val, exc = run(random_acceptor(rng, p_block=rng.choice([0.0, 0.4, 0.8]), one_byte=(sched == 2 and blen < 300)))
            evals += 1
            if any(y != 1 for y in ys):
                fail('recordsocket-send-yield-not-1', 'send generator yielded %r' % sorted(set(ys)), inp)
            if exc is not None or bytes(raw.wire) != want:
                fail('recordsocket-send-schedule-dependent', 'under partial accepts / would-block the wire holds %d bytes '
                     '(expected %d, equal prefix %s), exception %r'
                     % (len(raw.wire), len(want), bytes(raw.wire) == want[:len(raw.wire)], exc), inp)
        # fault at each send call index
        for k in range(min(raw.send_calls, 5)):
            raw, ys, val, exc = run(random_acceptor(rng, p_block=0.0, fault_at=k))
            evals += 1
            if raw.send_calls > k and not isinstance(exc, socket.error):
                fail('transport-fault-not-reported', 'EPIPE at send call %d: got %r' % (k, exc), inp)
            if bytes(raw.wire) != want[:len(raw.wire)]:
                fail('recordsocket-send-garbage-after-fault', 'wire after fault is not a prefix of header||body', inp)
        # round trip through recv (C01: same bytes, same framing)
        if not ssl2 and blen <= 2 ** 14 + 2048:
            rcv = RecordSocket(ScriptedSocket(want + b'tail', random_chunker(rng, 0.3)))
            ys, val, exc = drive(rcv.recv())
            evals += 1
            got = _outcome_of_recv(ys, val, exc)
            if got != ('record', (ctype, version, len(body), False), body):
                fail('record-roundtrip-differs', 'recv(send(x)) gave %r' % (got[:2],), inp)
    return {'evaluations': evals, 'distinct_nontrivial': len(seen),
            'bound': 'bodies 0..18432 bytes, 5 TLS versions + SSLv2 short/long header, 3 accept schedules + faults at the first 5 send calls',
            'rule': 'distinct (version, body length, padding)', 'failures': fails}


# --------------------------------------------------------------------------------------------------------
# reference: BufferedSocket as (read_buffer, write_queue) over the transport

def xcheck_bufferedsocket(rng, n):
    """random histories of recv / send / sendall / flush / buffer_writes toggles / close over a scripted socket.
    Oracle (from the property): (a) the concatenation of everything recv() returned is exactly the prefix of the
    peer stream taken so far minus what is still buffered -- in particular nothing is lost when the underlying recv
    raises; (b) recv(n>0) returns b'' only at end of stream; (c) the wire is the concatenation of the writes in order;
    queued writes appear only at flush/close/shutdown; (d) after flush -- also a failing one -- the queue is empty;
    (e) close/shutdown put the queued data on the wire before the socket is shut."""
    from tlslite.bufferedsocket import BufferedSocket
    fails, seen, evals = [], set(), 0

    def fail(cls, what, inp):
        if len(fails) < 6:
            fails.append({'class': cls, 'what': what, 'input': inp})

    for case in range(n):
        slen_ = rng.choice([0, 1, 10, 100, 5000, 9000])
        stream = bytes(rng.randrange(256) for _ in range(slen_))
        fault_recv = rng.choice([None, None, rng.randrange(0, 6)])
        fault_send = rng.choice([None, None, rng.randrange(0, 4)])
        raw = ScriptedSocket(stream, random_chunker(rng, p_block=0.35, fault_at=fault_recv),
                             random_acceptor(rng, p_block=0.0, fault_at=fault_send))
        bs = BufferedSocket(raw)
        delivered = bytearray()           # what the application got from recv()
        expect_wire = bytearray()         # reference: bytes that must be on the wire, in order
        pending = []                      # reference write queue
        ops = []
        ok = True
        for step in range(rng.randrange(3, 25)):
            op = rng.choice(['recv', 'recv', 'recv', 'send', 'sendall', 'toggle', 'flush'])
            evals += 1
            if op == 'recv':
                want_n = rng.choice([0, 1, 2, 5, 100, 4096, 5000, 20000])
                before_pos = raw.pos
                held_before = len(bs._read_buffer)
                try:
                    got = bs.recv(want_n)
                    err = None
                except socket.error as e:
                    got, err = None, e
                ops.append(('recv', want_n, None if got is None else len(got), 'err' if err else ''))
                if err is not None:
                    if len(bs._read_buffer) != held_before:
                        fail('bufferedsocket-recv-loses-bytes', 'socket.recv raised and the read buffer went from %d to %d bytes'
                             % (held_before, len(bs._read_buffer)), {'ops': ops[-8:], 'stream_len': slen_})
                        ok = False
                        break
                    continue
                delivered += got
                if len(got) > want_n:
                    fail('bufferedsocket-recv-returns-too-much', 'recv(%d) returned %d bytes' % (want_n, len(got)),
                         {'ops': ops[-8:], 'stream_len': slen_})
                    ok = False
                    break
                avail = held_before + (raw.pos - before_pos)
                if len(got) != min(want_n, avail):
                    cls = 'bufferedsocket-recv-empty-before-eof' if (len(got) == 0 and want_n > 0 and avail > 0) \
                        else 'bufferedsocket-recv-withholds-data'
                    fail(cls, 'recv(%d) returned %d bytes with %d available' % (want_n, len(got), avail),
                         {'ops': ops[-8:], 'stream_len': slen_})
                    ok = False
                    break
                if len(got) == 0 and want_n > 0 and raw.pos != len(stream):
                    fail('bufferedsocket-recv-empty-before-eof', 'recv(%d) returned b"" at stream position %d of %d'
                         % (want_n, raw.pos, len(stream)), {'ops': ops[-8:], 'stream_len': slen_})
                    ok = False
                    break
            elif op in ('send', 'sendall'):
                d = bytes(rng.randrange(256) for _ in range(rng.choice([0, 1, 7, 300])))
                buffering = bs.buffer_writes
                w0 = len(raw.wire)
                try:
                    r = getattr(bs, op)(bytearray(d))
                    err = None
                except socket.error as e:
                    r, err = None, e
                ops.append((op, len(d), 'buffered' if buffering else 'direct', 'err' if err else r))
                if buffering:
                    pending.append(d)
                    if err is not None or len(raw.wire) != w0 or (op == 'send' and r != len(d)):
                        fail('buffered-write-not-held', '%s with buffer_writes touched the socket / failed / returned %r' % (op, r),
                             {'ops': ops[-8:]})
                        ok = False
                        break
                else:
                    acc = len(raw.wire) - w0
                    if bytes(raw.wire[w0:]) != d[:acc] or (err is None and op == 'send' and r != acc) or \
                            (err is None and op == 'sendall' and acc != len(d)):
                        fail('send-passthrough-differs', '%s without buffering: socket accepted %d bytes, returned %r' % (op, acc, r),
                             {'ops': ops[-8:]})
                        ok = False
                        break
                    expect_wire += d[:acc]
                    if err is not None:
                        break                   # transport is dead; stop the history
            elif op == 'toggle':
                # the library toggles only after a flush (tlsrecordlayer / tlsconnection): do the same
                if bs.buffer_writes:
                    op = 'flush'
                else:
                    bs.buffer_writes = True
                    ops.append(('buffer_writes', True))
                    continue
            if op == 'flush':
                w0 = len(raw.wire)
                flat = b''.join(pending)
                try:
                    bs.flush()
                    err = None
                except socket.error as e:
                    err = e
                ops.append(('flush', len(flat), 'err' if err else 'ok'))
                acc = bytes(raw.wire[w0:])
                if len(bs._write_queue) != 0:
                    fail('flush-queue-not-cleared-on-error' if err else 'flush-queue-not-cleared',
                         'after %s flush() the write queue still holds %d element(s): a later flush/close sends them again'
                         % ('a failing' if err else 'a successful', len(bs._write_queue)), {'ops': ops[-8:]})
                    ok = False
                    break
                if (err is None and acc != flat) or (err is not None and acc != flat[:len(acc)]):
                    fail('flush-wrong-bytes-on-wire', 'flush put %d bytes on the wire, queued were %d; prefix-equal: %s'
                         % (len(acc), len(flat), acc == flat[:len(acc)]), {'ops': ops[-8:]})
                    ok = False
                    break
                expect_wire += acc
                pending = []
                bs.buffer_writes = False
                if err is not None:
                    break
        if not ok:
            continue
        # FIFO: delivered ++ still-buffered == consumed prefix of the peer stream
        if bytes(delivered) + bytes(bs._read_buffer) != stream[:raw.pos]:
            lost = raw.pos - len(delivered) - len(bs._read_buffer)
            fail('bufferedsocket-recv-loses-bytes' if lost > 0 else 'bufferedsocket-recv-duplicates-or-reorders',
                 'application got %d bytes + %d buffered, socket handed out %d; content equal prefix: %s'
                 % (len(delivered), len(bs._read_buffer), raw.pos, bytes(delivered) == stream[:len(delivered)]),
                 {'ops': ops[-10:], 'stream_len': slen_, 'recv_log': raw.log[-8:]})
            continue
        # close (or shutdown) flushes first
        flat = b''.join(pending)
        raw.acceptor = None                                   # let the final flush succeed
        closer = rng.choice(['close', 'shutdown'])
        try:
            bs.close() if closer == 'close' else bs.shutdown(socket.SHUT_RDWR)
            err = None
        except socket.error as e:
            err = e
        evals += 1
        seen.add((slen_, fault_recv, fault_send, len(ops) // 4, closer))
        if err is None:
            if not raw.closed or raw.wire_at_close != bytes(expect_wire) + flat:
                fail('close-does-not-flush-first', '%s(): %d bytes were on the wire when the socket was shut, expected %d '
                     '(queued %d)' % (closer, len(raw.wire_at_close or b''), len(expect_wire) + len(flat), len(flat)),
                     {'ops': ops[-8:]})
            elif bytes(raw.wire) != bytes(expect_wire) + flat:
                fail('flush-wrong-bytes-on-wire', 'final wire differs from the concatenation of the writes in order',
                     {'ops': ops[-8:]})
    return {'evaluations': evals, 'distinct_nontrivial': len(seen),
            'bound': 'histories of 3..25 operations, peer streams 0..9000 bytes, recv sizes 0..20000, would-block p=0.35, one recv '
                     'fault and one send fault per history at call index < 6',
            'rule': 'distinct (stream length, fault indexes, history length bucket, closing call)', 'failures': fails}


def xcheck_flush_failure_then_close(rng, n):
    """the C17 corner stated on its own: a flush that fails is not retried by close()/shutdown()/a later flush"""
    from tlslite.bufferedsocket import BufferedSocket
    fails, evals, seen = [], 0, set()
    for case in range(max(20, n // 10)):
        parts = [bytes(rng.randrange(256) for _ in range(rng.choice([1, 5, 200]))) for _ in range(rng.randrange(1, 5))]
        partial = rng.random() < 0.5
        raw = ScriptedSocket(b'', None, lambda k, n_, all_: ('fault', errno.EPIPE, (n_ // 2 if partial else 0)) if k == 0
                             else ('accept', n_))
        bs = BufferedSocket(raw)
        bs.buffer_writes = True
        for p in parts:
            bs.sendall(bytearray(p))
        try:
            bs.flush()
            raised = False
        except socket.error:
            raised = True
        evals += 1
        after_fail = bytes(raw.wire)
        later = rng.choice(['close', 'shutdown', 'flush'])
        try:
            bs.close() if later == 'close' else (bs.shutdown(socket.SHUT_RDWR) if later == 'shutdown' else bs.flush())
        except socket.error:
            pass
        seen.add((len(parts), partial, later))
        if not raised:
            fails.append({'class': 'transport-fault-not-reported', 'what': 'sendall raised EPIPE inside flush() but flush returned',
                          'input': {'parts': [len(p) for p in parts]}})
        elif len(bs._write_queue) != 0 or bytes(raw.wire) != after_fail:
            if len(fails) < 5:
                fails.append({'class': 'flush-queue-not-cleared-on-error',
                              'what': 'after a failing flush, %s() sent the stale queue again: wire grew from %d to %d bytes'
                                      % (later, len(after_fail), len(raw.wire)),
                              'input': {'parts': [len(p) for p in parts], 'partial_before_fault': partial, 'then': later}})
    return {'evaluations': evals, 'distinct_nontrivial': len(seen), 'bound': '1..4 queued writes, fault with/without partial accept',
            'rule': 'distinct (number of queued writes, partial, following call)', 'failures': fails}


XCHECKS = {'recordsocket_recv': xcheck_recordsocket_recv,
           'recordsocket_send': xcheck_recordsocket_send,
           'bufferedsocket_history': xcheck_bufferedsocket,
           'flush_failure_then_close': xcheck_flush_failure_then_close}
