"""Bounded stand-in / counterexample finder for C08 on the server: a well-formed ClientHello in which ONE extension is
replaced by an empty-body (or minimal malformed-body) extension of the same type must end in a TLS alert or a normal
handshake, never in an undocumented Python exception."""
import os
import socket
import threading

import tlslite
from tlslite.api import TLSConnection, HandshakeSettings, X509CertChain, X509, parsePEMKey
from tlslite.messages import ClientHello
from tlslite.extensions import TLSExtension
from tlslite.utils.codec import Parser
from tlslite.errors import TLSError, BaseTLSException

ROOT = os.path.dirname(os.path.dirname(os.path.abspath(tlslite.__file__)))


class _Capture(object):
    """socket that records what the client sends and then fails"""
    def __init__(self):
        self.data = bytearray()

    def sendall(self, b):
        self.data += b

    def send(self, b):
        self.data += b
        return len(b)

    def recv(self, n):
        raise socket.error('capture only')

    def close(self):
        pass


def client_hello_bytes(settings, session=None):
    cap = _Capture()
    c = TLSConnection(cap)
    try:
        c.handshakeClientCert(settings=settings, session=session)
    except Exception:
        pass
    rec = cap.data
    assert rec[0] == 22
    return bytearray(rec[5:5 + ((rec[3] << 8) | rec[4])])


def serve(hello_body, settings_mod=None):
    cert = X509CertChain([X509().parse(open(os.path.join(ROOT, 'tests', 'serverX509Cert.pem')).read())])
    key = parsePEMKey(open(os.path.join(ROOT, 'tests', 'serverX509Key.pem')).read(), private=True)
    a, b = socket.socketpair()
    a.settimeout(3)
    b.settimeout(3)
    res = {}

    def server():
        s = TLSConnection(b)
        st = HandshakeSettings()
        st.ticketKeys = [bytearray(b'k' * 32)]
        st.pskConfigs = [(b'id', bytearray(b's' * 32))]
        if settings_mod:
            settings_mod(st)
        try:
            s.handshakeServer(certChain=cert, privateKey=key, settings=st, alpn=[b'http/1.1'])
            res['r'] = 'completed'
        except (TLSError, BaseTLSException, socket.error) as e:
            res['r'] = 'documented:%s' % type(e).__name__
        except ValueError as e:
            res['r'] = 'settings rejected: %s' % e
        except Exception as e:
            import traceback
            tb = traceback.extract_tb(e.__traceback__)[-1]
            res['r'] = 'UNDOCUMENTED %s: %s (%s:%d %s)' % (type(e).__name__, e, os.path.basename(tb.filename), tb.lineno, tb.name)
    t = threading.Thread(target=server)
    t.start()
    try:
        try:
            a.sendall(bytearray([22, 3, 1, len(hello_body) >> 8, len(hello_body) & 255]) + hello_body)
            a.recv(4096)
        except Exception:
            pass
    finally:
        a.close()
    t.join()
    b.close()
    return res.get('r', 'no result')


def variants(body):
    """(description, new ClientHello body) with one extension replaced"""
    ch = ClientHello().parse(Parser(body[1:]))
    out = []
    for i, e in enumerate(ch.extensions or []):
        for desc, payload in (('empty body', bytearray(0)), ('one zero byte', bytearray(1)), ('two zero bytes', bytearray(2)),
                              ('three zero bytes', bytearray(3))):
            ch2 = ClientHello().parse(Parser(body[1:]))
            ch2.extensions[i] = TLSExtension(extType=e.extType).create(e.extType, payload)
            out.append(('extension %d with %s' % (e.extType, desc), ch2.write()))
    return out


def _insertions(body):
    """an extension type that is absent from the hello, added with an empty body (pre_shared_key stays last)"""
    ch = ClientHello().parse(Parser(body[1:]))
    present = set(e.extType for e in (ch.extensions or []))
    out = []
    for t in (9, 10, 11, 13, 27, 28, 34, 41, 43, 44, 45, 50, 51):
        if t in present:
            continue
        ch2 = ClientHello().parse(Parser(body[1:]))
        e = TLSExtension(extType=t).create(t, bytearray(0))
        if ch2.extensions and ch2.extensions[-1].extType == 41:
            ch2.extensions.insert(len(ch2.extensions) - 1, e)
        else:
            ch2.extensions.append(e)
        out.append(('extension %d added with empty body' % t, ch2.write()))
    return out


def _legacy(body):
    out = []
    for ver in ((3, 1), (3, 2)):
        for t in (43, 45, 51):
            ch = ClientHello().parse(Parser(body[1:]))
            ch.client_version = ver
            hit = False
            for i, e in enumerate(ch.extensions or []):
                if e.extType == t:
                    ch.extensions[i] = TLSExtension(extType=t).create(t, bytearray(0))
                    hit = True
            if hit:
                out.append(('legacy version %s, extension %d with empty body' % (ver, t), ch.write()))
    return out


def xcheck_empty_extensions(rng, n):
    fails, ev, seen = [], 0, set()
    profiles = []
    s13 = HandshakeSettings()
    s13.pskConfigs = [(b'id', bytearray(b's' * 32))]
    s13.record_size_limit = 2048
    profiles.append(('tls13', s13))
    s13k = HandshakeSettings()
    s13k.pskConfigs = [(b'id', bytearray(b's' * 32))]
    s13k.psk_modes = ['psk_ke']
    profiles.append(('tls13-psk_ke', s13k))
    s12 = HandshakeSettings()
    s12.maxVersion = (3, 3)
    s12.record_size_limit = 2048
    profiles.append(('tls12', s12))

    def srv12(st):
        st.maxVersion = (3, 3)
    servers = [('default server', None), ('TLS 1.2 server', srv12)]
    for pname, st in profiles:
        body = client_hello_bytes(st)
        for sname, smod in servers:
            for desc, b2 in variants(body) + _insertions(body) + _legacy(body):
                r = serve(b2, smod)
                ev += 1
                if r.startswith('UNDOC'):
                    key = r.split('(')[-1]
                    if key in seen:
                        continue
                    seen.add(key)
                    fails.append({'class': 'server-malformed-extension-undocumented-exception',
                                  'what': '%s ClientHello against %s, %s: %s' % (pname, sname, desc, r),
                                  'input': {'profile': pname, 'server': sname, 'variant': desc}})
    return {'evaluations': ev, 'distinct_nontrivial': ev,
            'bound': 'stock TLS 1.3 / TLS 1.3 psk_ke / TLS 1.2 ClientHello x (default, TLS 1.2-only) server: every extension replaced by 0-3 '
                     'zero bytes, absent extensions added empty, legacy versions (3,1)/(3,2) with empty supported_versions',
            'failures': fails[:12]}


XCHECKS = {'server_malformed_extension_bodies': xcheck_empty_extensions}


# ---------------------------------------------------------------------------------------------------------------------
# client side: the ServerHello of a real server is altered in flight (one extension body replaced)
from tlslite.messages import ServerHello


def _relay(src, dst, alter):
    """forward TLS records src -> dst; `alter(record_type, body) -> body` is applied to each record"""
    buf = bytearray()
    try:
        while True:
            chunk = src.recv(65536)
            if not chunk:
                break
            buf += chunk
            while len(buf) >= 5:
                ln = (buf[3] << 8) | buf[4]
                if len(buf) < 5 + ln:
                    break
                rec, buf = buf[:5 + ln], buf[5 + ln:]
                body = alter(rec[0], bytearray(rec[5:]))
                dst.sendall(bytes(rec[:3]) + bytes([len(body) >> 8, len(body) & 255]) + bytes(body))
    except Exception:
        pass
    finally:
        try:
            dst.shutdown(socket.SHUT_WR)
        except Exception:
            pass


def client_against_altered_server_hello(client_settings, ext_index, payload):
    cert = X509CertChain([X509().parse(open(os.path.join(ROOT, 'tests', 'serverX509Cert.pem')).read())])
    key = parsePEMKey(open(os.path.join(ROOT, 'tests', 'serverX509Key.pem')).read(), private=True)
    a, b = socket.socketpair()      # client <-> relay
    c, d = socket.socketpair()      # relay <-> server
    for s in (a, b, c, d):
        s.settimeout(3)
    res = {'exts': None}
    done = {'sh': False}

    def alter(rt, body):
        if rt == 22 and not done['sh'] and body and body[0] == 2:
            done['sh'] = True
            ln = (body[1] << 16) | (body[2] << 8) | body[3]
            sh = ServerHello().parse(Parser(body[1:4 + ln]))
            res['exts'] = [e.extType for e in (sh.extensions or [])]
            if sh.extensions and ext_index < len(sh.extensions):
                t = sh.extensions[ext_index].extType
                sh.extensions[ext_index] = TLSExtension(extType=t, server=True).create(t, payload)
                res['altered'] = t
                return sh.write() + body[4 + ln:]
        return body

    def server():
        s = TLSConnection(d)
        st = HandshakeSettings()
        try:
            s.handshakeServer(certChain=cert, privateKey=key, settings=st, alpn=[b'http/1.1'])
        except Exception:
            pass
    ts = [threading.Thread(target=server), threading.Thread(target=_relay, args=(c, b, alter)),
          threading.Thread(target=_relay, args=(b, c, lambda rt, body: body))]
    for t in ts:
        t.start()
    cl = TLSConnection(a)
    try:
        cl.handshakeClientCert(settings=client_settings, alpn=[b'http/1.1'], serverName='localhost')
        res['r'] = 'completed'
    except (TLSError, BaseTLSException, socket.error) as e:
        res['r'] = 'documented:%s' % type(e).__name__
    except Exception as e:
        import traceback
        tb = traceback.extract_tb(e.__traceback__)[-1]
        res['r'] = 'UNDOCUMENTED %s: %s (%s:%d %s)' % (type(e).__name__, e, os.path.basename(tb.filename), tb.lineno, tb.name)
    for s in (a, b, c, d):
        try:
            s.close()
        except Exception:
            pass
    for t in ts:
        t.join(5)
    return res


def xcheck_client_malformed_sh_extensions(rng, n):
    fails, ev, seen = [], 0, set()
    s13 = HandshakeSettings()
    s13.record_size_limit = 2048
    s12 = HandshakeSettings()
    s12.maxVersion = (3, 3)
    s12.record_size_limit = 2048
    for pname, st in (('tls13', s13), ('tls12', s12)):
        base = client_against_altered_server_hello(st, 99, bytearray())
        nexts = len(base.get('exts') or [])
        if base.get('r') != 'completed':
            fails.append({'class': 'client-relay-baseline-failed', 'what': repr(base), 'input': {'profile': pname}})
            continue
        for i in range(nexts):
            for payload in (bytearray(0), bytearray(1), bytearray(2), bytearray(3)):
                r = client_against_altered_server_hello(st, i, payload)
                ev += 1
                if r.get('r', '').startswith('UNDOC'):
                    key = r['r'].split('(')[-1]
                    if key in seen:
                        continue
                    seen.add(key)
                    fails.append({'class': 'client-malformed-extension-undocumented-exception',
                                  'what': '%s ServerHello, extension %s with %d zero bytes: %s' % (pname, r.get('altered'), len(payload), r['r']),
                                  'input': {'profile': pname, 'ext': r.get('altered'), 'len': len(payload)}})
    return {'evaluations': ev, 'distinct_nontrivial': ev,
            'bound': 'every extension of the ServerHello of a stock TLS 1.3 / TLS 1.2 server replaced by 0-3 zero bytes', 'failures': fails[:12]}


XCHECKS['client_malformed_server_hello_extension_bodies'] = xcheck_client_malformed_sh_extensions
