"""C10 (key agreement part): contracts on tlslite/keyexchange.py
FFDHKeyExchange._normalise_peer_share / calc_shared_key and the X25519/X448
branch of ECDHKeyExchange.calc_shared_key with _non_zero_check.

Contracts are stated from
  RFC 7919 section 5.1 / RFC 8446 section 4.2.8.1: "Peers MUST validate each other's public key Y by
      ensuring that 1 < Y < p-1";  RFC 8446 4.2.8.1: the share is "padded to the left with zeros to the size
      of p in bytes";  RFC 8446 7.4.1: the shared secret is left-padded to the size of the prime;
      RFC 5246 8.1.2: leading zero bytes of Z are stripped (TLS <= 1.2)
  RFC 7748 section 6 / RFC 8446 7.4.2: X25519/X448 shares are 32 / 56 bytes and "implementations MUST check
      whether the computed Diffie-Hellman shared secret is the all-zero value and abort if so".
The modular exponentiation and the X25519/X448 functions are uninterpreted.
"""
import z3

import tlslite.keyexchange as KX
from tlslite.errors import TLSIllegalParameterException

from pyvc.contract import contract, scenario, LoopSpec, REG
from pyvc.state import T
from pyvc import spec as S
from pyvc import smt
from pyvc import iters                      # noqa: F401
from pyvc import models_crypto as MC
from pyvc.smt import slen, sat, isb, Seq, I
from pyvc.values import VInt, VBool, VSeq, VNone, VStr, VTuple, VObj, VPy, Unsupported, truthy, _lift, fresh_name
from pyvc.executor import Outcome

KXQ = 'tlslite/keyexchange.py:'
ModExp = z3.Function('modexp', I, I, I, I)          # pow(b, e, m) as modelled by pyvc.builtins_model.m_pow
XFun = S.uf('XFun', [I, Seq, Seq], Seq, seq_ext=[1, 2])     # XFun(bits, k, u): the X25519 (255) / X448 (448) function

_VER = T.tuple(T.int(0, 255), T.int(0, 255))


def ffdh(version=_VER):
    return T.obj(KX.FFDHKeyExchange, prime=T.int(), generator=T.int(), version=version, group=T.int())


def P(ns):
    return ns.f(ns.self, 'prime')


# --- FFDHKeyExchange._normalise_peer_share -----------------------------------
contract(KXQ + 'FFDHKeyExchange._normalise_peer_share', name='FFDHKeyExchange._normalise_peer_share[bytes]',
         params={'self': ffdh(), 'peer_share': T.bytes()},
         requires=lambda ns: P(ns) > 2,
         result=T.int(),
         raises={TLSIllegalParameterException: ('iff', lambda ns: S.len_(ns.peer_share) != MC.numbytes(P(ns)))},
         ensures=lambda ns: S.And(ns.result == MC.b2i(ns.peer_share), ns.result >= 0),
         prop='C10',
         doc='a byte-string share must have exactly the length of the prime (RFC 8446 4.2.8.1); value = OS2IP(share)'
         ).variant = 'bytes'

contract(KXQ + 'FFDHKeyExchange._normalise_peer_share', name='FFDHKeyExchange._normalise_peer_share[int]',
         params={'self': ffdh(), 'peer_share': T.int()},
         requires=lambda ns: P(ns) > 2, result=T.int(), raises={},
         ensures=lambda ns: ns.result == ns.peer_share, prop='C10',
         doc='an integer share (TLS <= 1.2 wire format, already decoded) is passed through').variant = 'int'


# --- FFDHKeyExchange.calc_shared_key -------------------------------------------
def _Y(ns):
    return MC.b2i(ns.peer_share) if isinstance(ns.peer_share, VSeq) else ns.peer_share


def _ffdh_bad(ns):
    """the share must be refused: wrong length (byte-string shares), Y outside 1 < Y < p-1, or a shared
    secret in the order-1/2 subgroup"""
    Y, p = _Y(ns), P(ns)
    Z = VInt(ModExp(Y.t, ns.private.t, p.t))
    conds = [Y < 2, Y >= p - 1, Z == 1, Z == p - 1]
    if isinstance(ns.peer_share, VSeq):
        conds.append(S.len_(ns.peer_share) != MC.numbytes(p))
    return S.Or(*conds)


def _ffdh_ensures(ns):
    Y, p = _Y(ns), P(ns.old)
    Z = VInt(ModExp(Y.t, ns.private.t, p.t))
    v = ns.old.f(ns.self, 'version')
    nb = MC.numbytes(Z)
    minimal = MC.i2b(Z, S.max_(nb, 1))
    padded = MC.i2b(Z, MC.numbytes(p))
    return S.And(S.Not(_ffdh_bad(ns.old)), Y >= 2, Y <= p - 2,
                 S.implies(v < (3, 4), S.seq_eq(ns.result, minimal)),
                 S.implies(S.Not(v < (3, 4)), S.And(S.seq_eq(ns.result, padded), S.len_(ns.result) == MC.numbytes(p))),
                 S.is_bytes(ns.result))


for _kind, _pt in (('bytes', T.bytes()), ('int', T.int())):
    contract(KXQ + 'FFDHKeyExchange.calc_shared_key', name='FFDHKeyExchange.calc_shared_key[%s-share]' % _kind,
             params={'self': ffdh(), 'private': T.int(), 'peer_share': _pt, 'valid_point_formats': T.none()},
             requires=lambda ns: S.And(P(ns) > 2, ns.private >= 0),
             result=T.bytes(),
             raises={TLSIllegalParameterException: ('iff', _ffdh_bad)},
             ensures=_ffdh_ensures, prop='C10',
             doc='normal return only for 1 < Y < p-1 (and len(share) == len(p) for byte-string shares) with '
                 'Z = Y^x mod p not in {1, p-1}; result = Z big-endian, minimal length below TLS 1.3, '
                 'left-padded to len(p) in TLS 1.3; every other share raises TLSIllegalParameterException'
             ).variant = _kind


# --- ECDHKeyExchange._non_zero_check -------------------------------------------
def _inv_nz(ns):
    v, s = ns.value, ns.summa
    return S.And(s >= 0, s < 256, S.iff(s == 0, S.forall(lambda j: v[j] == 0, 0, ns.idx)))


contract(KXQ + 'ECDHKeyExchange._non_zero_check',
         params={'value': T.bytes()},
         result=T.none(),
         raises={TLSIllegalParameterException: ('iff', lambda ns: S.forall(lambda j: ns.value[j] == 0, 0, S.len_(ns.value)))},
         ensures=lambda ns: S.exists(lambda j: ns.value[j] != 0, 0, S.len_(ns.value)),
         loops={1: LoopSpec(_inv_nz, fingerprint='value')},
         prop='C10',
         doc='raises exactly when every byte is zero (loop invariant: summa == 0 <=> all bytes seen so far are zero)')


# --- ECDHKeyExchange.calc_shared_key, X25519 / X448 branch ----------------------
def _ext_xfun(bits, size):
    def f(ex, args, kw, st, fr, node):
        k, u = args
        if not (isinstance(k, VSeq) and isinstance(u, VSeq)):
            raise Unsupported('x25519/x448 arguments %r %r' % (k, u))
        r = VSeq(XFun(z3.IntVal(bits), k.t, u.t), 'byte', 'bytearray')
        st.assume(z3.And(slen(r.t) == size, isb(r.t)))       # numberToByteArray(ret, divceil(bits, 8), "little")
        return [Outcome('normal', st, r)]
    return f


REG.external['tlslite/utils/x25519.py:x25519'] = _ext_xfun(255, 32)
REG.external['tlslite/utils/x25519.py:x448'] = _ext_xfun(448, 56)
REG.no_inline.update(['tlslite/utils/x25519.py:x25519', 'tlslite/utils/x25519.py:x448'])

_X = {'x25519': (29, 255, 32), 'x448': (30, 448, 56)}


def _xres(ns, bits):
    return VSeq(XFun(z3.IntVal(bits), ns.private.t, ns.peer_share.t), 'byte', 'bytearray')


for _name, (_gid, _bits, _size) in _X.items():
    contract(KXQ + 'ECDHKeyExchange.calc_shared_key', name='ECDHKeyExchange.calc_shared_key[%s]' % _name,
             params={'self': T.obj(KX.ECDHKeyExchange, group=T.const(_gid), version=_VER),
                     'private': T.bytes(), 'peer_share': T.bytes(), 'valid_point_formats': T.none()},
             result=T.bytes(),
             raises={TLSIllegalParameterException: ('iff', (lambda b, sz: lambda ns: S.Or(
                 S.len_(ns.peer_share) != sz,
                 S.forall(lambda j: _xres(ns, b)[j] == 0, 0, sz)))(_bits, _size))},
             ensures=(lambda b, sz: lambda ns: S.And(
                 S.len_(ns.peer_share) == sz, S.seq_eq(ns.result, _xres(ns, b)), S.len_(ns.result) == sz,
                 S.exists(lambda j: ns.result[j] != 0, 0, sz)))(_bits, _size),
             prop='C10',
             doc='%s: the share must be exactly %d bytes and the computed secret must not be all zero (RFC 7748 6 / '
                 'RFC 8446 7.4.2); otherwise TLSIllegalParameterException' % (_name, _size)).variant = _name


REG.xchecks.append({'prop': 'C10', 'module': 'specs.rsa', 'name': 'ffdh_shared_key',
                    'function': KXQ + 'FFDHKeyExchange.calc_shared_key'})
REG.xchecks.append({'prop': 'C10', 'module': 'specs.rsa', 'name': 'x25519_shared_key',
                    'function': KXQ + 'ECDHKeyExchange.calc_shared_key'})
REG.note('C10', 'trusted', 'pow(b, e, m) is the uninterpreted modexp with 0 <= result < m for m > 0; x25519()/x448() are the '
                           'uninterpreted XFun(bits, k, u) of 32/56 bytes (the ladder itself is compared with RFC 7748 '
                           'vectors and an independent implementation in specs.rsa, bounded)')
REG.note('C10', 'assumptions', 'FFDH: prime > 2 (constructor enforces 1 < generator < prime), private exponent >= 0')
REG.note('C10', 'not_built', 'ECDHKeyExchange.calc_shared_key NIST-curve branch (on-curve check is ecdsa.ellipticcurve.'
                             'AbstractPoint.from_bytes; AssertionError -> TLSIllegalParameterException mapping not proved)')
REG.note('C10', 'not_built', 'both sides derive the same secret (pow_mul_comm over ZMod p; needs an algebra lemma outside SMT)')
REG.xchecks.append({'prop': 'C10', 'module': 'specs.ecdh_points', 'name': 'ecdh_point_encodings',
                    'function': 'tlslite/keyexchange.py:ECDHKeyExchange.calc_shared_key'})
