#!/bin/sh
# Verifies the offline tool chain; nothing is built or fetched.
set -e
python3-vt -c "import z3, cvc5; print('z3', z3.get_version_string())"
/venv/bin/python -c "import sys; sys.path.insert(0,'/repo'); import tlslite; print('tlslite', tlslite.__version__)"
PYTHONPATH=/repo:/venv/lib/python3.12/site-packages python3-vt -c "import tlslite.constants; print('constants importable under python3-vt')"
mkdir -p evidence replays
echo setup ok
