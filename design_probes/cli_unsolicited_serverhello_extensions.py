"""C03/C08 (RFC 5246 7.4.1.4): a <=1.2 client acts on ServerHello extensions it never offered.
usage: cli_unsolicited_serverhello_extensions.py etm|ems|rsl
 etm: client useEncryptThenMAC=False completes WITH encrypt-then-MAC;  ems: useExtendedMasterSecret=False completes with EMS;
 rsl: client record_size_limit=None (extension not offered) -> TypeError in _sendFinished (min(2**14, None)), no alert.
The server side is made to answer as if the extension had been offered (ClientHello.parse patched on the server thread's view only; the transcript bytes are untouched)."""
import sys
sys.path.insert(0, '/verif/design_probes')  # loop.py harness
from loop import *
from tlslite.messages import ClientHello
from tlslite.extensions import TLSExtension, RecordSizeLimitExtension
from tlslite.constants import ExtensionType
chain, key = creds()

which = sys.argv[1]
orig_parse = ClientHello.parse
def patched(self, p):
    r = orig_parse(self, p)
    # the (rogue / buggy) server acts as if the client had offered the extension
    if which in ('etm', 'ems'):
        et = {'etm': ExtensionType.encrypt_then_mac, 'ems': ExtensionType.extended_master_secret}[which]
        if self.getExtension(et) is None:
            self.addExtension(TLSExtension().create(et, bytearray(0)))
    if which == 'rsl':
        if self.getExtension(ExtensionType.record_size_limit) is None:
            self.addExtension(RecordSizeLimitExtension().create(1024))
    return r
ClientHello.parse = patched

cs = HandshakeSettings(); cs.maxVersion = (3, 3)
if which == 'etm': cs.useEncryptThenMAC = False
if which == 'ems': cs.useExtendedMasterSecret = False
if which == 'rsl': cs.record_size_limit = None
ss = HandshakeSettings(); ss.maxVersion = (3, 3)
cs.cipherNames = ['aes128']; cs.macNames = ['sha']

def client(conn):
    conn.handshakeClientCert(settings=cs)
    conn.write(b'hi'); r = conn.read(min=2, max=2)
    return ('completed', 'EtM in use:', conn._recordLayer.encryptThenMAC, 'EMS in use:', conn.session.extendedMasterSecret,
            'send limit:', conn._send_record_limit)
def server(conn):
    conn.handshakeServer(certChain=chain, privateKey=key, settings=ss); r = conn.read(min=2, max=2); conn.write(r)
    return ('completed',)
print(which, 'client settings: useEncryptThenMAC=%s useExtendedMasterSecret=%s record_size_limit=%s' % (
    cs.useEncryptThenMAC, cs.useExtendedMasterSecret, cs.record_size_limit))
print(run(client, server))
