"""C04/C05/C13: TLS 1.3 PSK binders (tlslite/handshakehelpers.py).
verify_binder returns normally only if the binder AT THE GIVEN POSITION equals (compared in full by ct_compare_digest)
the binder computed with the given secret and hash over a COPY of the running transcript extended by the ClientHello
truncated before the binders list; the live transcript is left untouched."""
import z3

from tlslite.errors import TLSIllegalParameterException
from pyvc.m2 import M2Spec, m2task, fresh_opaque
from pyvc.executor import Outcome
from pyvc.values import VBool, VOpaque, truthy, to_val, v_truthy
from pyvc import smt
from pyvc.contract import REG

HH = 'tlslite/handshakehelpers.py:HandshakeHelpers.'
GETITEM = z3.Function('v_getitem', smt.Val, smt.Val, smt.Val)
ATTR = lambda n, t: z3.Function('v_attr_' + n, smt.Val, smt.Val)(t)


def h_copy(ex, recv, args, kwargs, st, fr, node):
    r = fresh_opaque('hh_copy')
    st.ghost['copy_of'] = recv
    st.ghost['the_copy'] = r
    st.events.append(('copy', [recv], r))
    return [Outcome('normal', st, r)]


def h_update(ex, recv, args, kwargs, st, fr, node):
    st.ghost['updated_obj'] = recv
    st.ghost['updated_with'] = args[0]
    st.events.append(('update', [recv] + args, None))
    return [Outcome('normal', st, fresh_opaque('none'))]


def h_truncate(ex, recv, args, kwargs, st, fr, node):
    r = fresh_opaque('truncated_client_hello')
    st.ghost['truncate_of'] = recv
    st.ghost['truncated'] = r
    return [Outcome('normal', st, r)]


def h_calc(ex, recv, args, kwargs, st, fr, node):
    r = fresh_opaque('computed_binder')
    st.ghost['calc_args'] = args
    st.ghost['computed'] = r
    st.events.append(('_calc_binder', args, r))
    return [Outcome('normal', st, r)]


def h_cmp(ex, recv, args, kwargs, st, fr, node):
    r = fresh_opaque('digests_equal')
    st.ghost['cmp_args'] = args
    st.ghost['cmp_result'] = r
    return [Outcome('normal', st, r)]


SPEC = M2Spec(hooks={'copy': h_copy, 'update': h_update, 'psk_truncate': h_truncate, '_calc_binder': h_calc,
                     'ct_compare_digest': h_cmp}, pure={'isinstance'})


def _check(api):
    ns = api.normal_exits()
    api.oblige(api.entry, 'has-normal-exit', len(ns) >= 1)
    e = api.entry.env
    for k, o in enumerate(ns, 1):
        st, g = o.st, o.st.ghost
        need = ('cmp_result', 'cmp_args', 'computed', 'calc_args', 'the_copy', 'copy_of', 'updated_obj', 'updated_with',
                'truncated', 'truncate_of')
        if any(n not in g for n in need):
            api.oblige(st, 'exit#%d:binder-was-computed-and-compared' % k, False)
            continue
        ext = GETITEM(ATTR('extensions', to_val(e['client_hello'])), to_val(__import__('pyvc.values', fromlist=['VInt']).VInt(-1)))
        received = GETITEM(ATTR('binders', ext), to_val(e['position']))
        a = g['cmp_args']
        api.oblige(st, 'exit#%d:returns-only-if-the-full-digest-comparison-succeeded' % k, v_truthy(to_val(g['cmp_result'])))
        api.oblige(st, 'exit#%d:compared-the-computed-binder-with-the-received-binder-at-`position`' % k,
                   z3.Or(z3.And(to_val(a[0]) == to_val(g['computed']), to_val(a[1]) == received),
                         z3.And(to_val(a[1]) == to_val(g['computed']), to_val(a[0]) == received)))
        c = g['calc_args']
        api.oblige(st, 'exit#%d:binder-computed-with-the-given-hash-secret-and-externality-over-the-transcript-copy' % k,
                   z3.And(to_val(c[0]) == to_val(e['prf']), to_val(c[1]) == to_val(e['secret']),
                          to_val(c[2]) == to_val(g['the_copy']), to_val(c[3]) == to_val(e['external'])))
        api.oblige(st, 'exit#%d:the-copy-(not-the-live-transcript)-is-extended-by-the-truncated-ClientHello' % k,
                   z3.And(to_val(g['copy_of']) == to_val(e['handshake_hashes']),
                          to_val(g['updated_obj']) == to_val(g['the_copy']),
                          to_val(g['updated_with']) == to_val(g['truncated']),
                          to_val(g['truncate_of']) == to_val(e['client_hello'])))
    for o in api.raise_exits():
        api.oblige(o.st, 'failure-is-TLSIllegalParameterException', o.val.cls is TLSIllegalParameterException)


m2task('HandshakeHelpers.verify_binder/binding', ('C04', 'C05', 'C13'), HH + 'verify_binder', SPEC, check=_check,
       opts={'ground_feasible': True},
       doc='a PSK binder verifies only if the full digest comparison of the received binder at `position` with the binder '
           'computed (given secret, hash) over transcript-copy || truncated ClientHello succeeded; otherwise illegal_parameter')
REG.note('C04', 'not_built', 'ClientHello.psk_truncate cuts exactly the binders list (M1 over the Writer contracts); update_binders')
REG.xchecks.append({'prop': 'C04', 'module': 'specs.binders', 'name': 'psk_truncate', 'function': 'tlslite/messages.py:ClientHello.psk_truncate'})
