"""F31 (C13): a TLS 1.3 server resumes from a session ticket that is older than settings.ticketLifetime
(the TLS <= 1.2 path, _ticket_to_session, refuses such a ticket).  Run with PYTHONPATH=<tree>; exit 1 = expired ticket resumed."""
import socket, threading, time, sys
import tlslite.tlsconnection as tc
from tlslite.api import TLSConnection, HandshakeSettings, X509CertChain, X509, parsePEMKey

cert = X509CertChain([X509().parse(open('/repo/tests/serverX509Cert.pem').read())])
key = parsePEMKey(open('/repo/tests/serverX509Key.pem').read(), private=True)

def run(session, skew):
    a, b = socket.socketpair()
    out = {}
    def server():
        s = TLSConnection(b)
        st = HandshakeSettings(); st.ticketKeys = [bytearray(b'k' * 32)]; st.ticketLifetime = 60
        st.minVersion = st.maxVersion = (3, 4); st.ticket_count = 1
        real = time.time
        me = threading.current_thread()
        tc.time.time = lambda: real() + (skew if threading.current_thread() is me else 0)
        try:
            s.handshakeServer(certChain=cert, privateKey=key, settings=st)
            out['server_resumed'] = s.resumed
            out['server_psk_resumption'] = bool(s.session and s.session.resumable) and s.resumed
            s.write(b'x'); s.close()
        except Exception as e:
            out['server_error'] = repr(e)
        finally:
            tc.time.time = real
    t = threading.Thread(target=server); t.start()
    c = TLSConnection(a)
    st = HandshakeSettings(); st.minVersion = st.maxVersion = (3, 4)
    c.handshakeClientCert(session=session, settings=st)
    c.read(1, 1)
    sess = c.session
    out['client_resumed'] = c.resumed
    try: c.close()
    except Exception: pass
    t.join()
    return sess, out

sess, o1 = run(None, 0)
print('full handshake:', o1, 'tickets held:', len(sess.tickets or []))
_, o2 = run(sess, 0)
print('fresh ticket  :', o2)
_, o3 = run(sess, 3600)          # server clock one hour later, ticketLifetime = 60 s
print('expired ticket:', o3)
bad = o3.get('client_resumed')
print('FAIL: expired ticket resumed' if bad else 'PASS: expired ticket fell back to a full handshake')
sys.exit(1 if bad else 0)
