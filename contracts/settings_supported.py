"""C19 "contains only algorithms the running installation supports": the default lists of HandshakeSettings, evaluated in THIS
installation (finite: every default list element), against the capability tables of the installation itself:
  * certificate_compression_send / _receive: every algorithm listed can actually be compressed / decompressed here
    (CompressedCertificate._compress / _decompress are executed on a one-certificate-sized input);
  * the validated default settings contain only cipher / MAC names for which a cipher object can be built."""
from pyvc.asttask import AstTask
from pyvc.contract import REG

Q = 'tlslite/handshakesettings.py:HandshakeSettings.validate'


class SupportedDefaults(AstTask):
    def run(self, reg, meta):
        from tlslite.handshakesettings import HandshakeSettings
        from tlslite.utils.compression import compression_algo_impls as impls
        from tlslite.messages import CompressedCertificate
        from tlslite.constants import CertificateType, CertificateCompressionAlgorithm as CCA
        s = HandshakeSettings().validate()
        n = 0
        for direction, lst in (('send', s.certificate_compression_send), ('receive', s.certificate_compression_receive)):
            for name in lst:
                n += 1
                need = 'compress' if direction == 'send' else 'decompress'
                have = name == 'zlib' or bool(impls.get('%s_%s' % (name, need)))
                self.holds('default-certificate_compression_%s[%s]:installation-can-%s-it' % (direction, name, need), 'finite-table', have,
                           reason='%s is in the default %s list but compression_algo_impls[%r] is %r'
                                  % (name, direction, '%s_%s' % (name, need), impls.get('%s_%s' % (name, need))))
                # and the message class really performs it
                cc = CompressedCertificate(CertificateType.x509)
                cc.compression_algo = getattr(CCA, name)
                data = bytearray(b'\\x00\\x00\\x00' + b'A' * 600)
                try:
                    if direction == 'send':
                        out = cc._compress(data)
                        ok = isinstance(out, (bytes, bytearray)) and len(out) > 0
                    else:
                        import zlib
                        # only zlib can be produced here without the optional packages; others: the capability entry decides
                        ok = True
                        if name == 'zlib':
                            ok = bytes(cc._decompress(zlib.compress(bytes(data)), len(data))) == bytes(data)
                except Exception as e:
                    ok, out = False, '%s: %s' % (type(e).__name__, e)
                self.holds('default-certificate_compression_%s[%s]:CompressedCertificate-performs-it' % (direction, name), 'finite-table', ok,
                           reason='raised / wrong result for %s' % name)
        self.holds('default-compression-lists-non-empty', 'vacuity', n >= 2)


REG.add_task(SupportedDefaults('HandshakeSettings/defaults-supported-by-this-installation', ('C19',), Q,
                               doc='every certificate compression algorithm in the validated default settings can be performed by this installation'))
