"""C11 (RSA key transport gives no padding oracle) and the RSA part of C10
(PKCS#1 v1.5 / PSS signatures).  Contracts on tlslite/utils/rsakey.py and on
RSAKeyExchange.processClientKeyExchange.

Abstraction: the raw private-key operation is the uninterpreted function
RsaPriv(n, d, m) with 0 <= RsaPriv < n; hashes / HMAC are the uninterpreted
functions of pyvc/models_crypto.py; integers <-> bytes by B2I / I2B.
"""
import z3

import tlslite.keyexchange as KX
from tlslite.utils.python_rsakey import Python_RSAKey
from tlslite.errors import (MaskTooLongError, MessageTooLongError, EncodingError, InvalidSignature,
                            UnknownRSAType)

from pyvc.contract import contract, scenario, LoopSpec, REG, Contract
from pyvc.state import T
from pyvc import spec as S
from pyvc import smt
from pyvc import iters                      # noqa: F401  (iterator objects, symbolic comprehensions)
from pyvc import models_crypto as MC
from pyvc.smt import slen, sat, isb, Seq, I
from pyvc.values import VInt, VBool, VSeq, VNone, VStr, VTuple, VObj, VPy, Unsupported, truthy, _lift, fresh_name
from pyvc.executor import Outcome
from pyvc.values import VExc
import contracts.c12_cbc_check              # noqa: F401  (ct_* helper contracts)

RK = 'tlslite/utils/rsakey.py:RSAKey.'
PK = 'tlslite/utils/python_rsakey.py:Python_RSAKey.'

RsaPriv = S.uf('RsaPriv', [I, I, I], I)          # (n, d, m) -> m^d mod n as computed by the key object


def forall_pat(vs, body, pats):
    """ForAll with explicit triggers; falls back to z3's own trigger inference when a trigger term is not a
    legal pattern (e.g. it contains an if-then-else from slice-bound normalisation)"""
    try:
        return z3.ForAll(vs, body, patterns=pats)
    except z3.Z3Exception:
        return z3.ForAll(vs, body)


def lit(bs):
    """byte-string literal as a spec sequence"""
    return S.cat([VInt(b) for b in bs]) if bs else S.empty()


# ---------------------------------------------------------------------------
# key objects

def rsa_key(key_hash='none', key_type='rsa', private=True):
    f = {'n': T.int(), 'e': T.int(), 'd': T.int(), 'key_type': T.const(key_type)}
    if key_hash == 'none':
        f['_key_hash'] = T.none()
    elif key_hash == 'bytes':
        f['_key_hash'] = T.bytes()
    return T.obj(Python_RSAKey, **f)


def kN(ns):
    return ns.f(ns.self, 'n')


def kD(ns):
    return ns.f(ns.self, 'd')


def kK(ns):
    """k: length of the modulus in bytes"""
    return MC.numbytes(kN(ns))


# trusted: the raw private-key operation (CRT + blinding in Python_RSAKey) returns a residue
def _ext_raw_private(ex, args, kw, st, fr, node):
    self_, m = args[0], ex._as_int(args[1])
    n = ex.getattr_(self_, 'n', st, fr)[0].val
    d = ex.getattr_(self_, 'd', st, fr)[0].val
    r = RsaPriv(n.t, d.t, m.t)
    st.assume(z3.Implies(n.t > 0, z3.And(0 <= r, r < n.t)))
    return [Outcome('normal', st, VInt(r))]


REG.external[PK + '_rawPrivateKeyOp'] = _ext_raw_private
REG.no_inline.add(PK + '_rawPrivateKeyOp')


def priv_bytes(ns, msg):
    """spec: bytes returned by the raw private-key operation on the byte string msg"""
    return MC.i2b(VInt(RsaPriv(kN(ns).t, kD(ns).t, MC.b2i(msg).t)), kK(ns))


def pub_invalid(ns, c):
    """publicly invalid ciphertext / signature representative: wrong length or not below the modulus"""
    return S.Or(S.len_(c) != kK(ns), MC.b2i(c) >= kN(ns))


contract(RK + '_raw_private_key_op_bytes',
         params={'self': rsa_key(), 'message': T.bytes()},
         requires=lambda ns: kN(ns) > 0,
         result=T.bytes(),
         raises={ValueError: ('iff', lambda ns: pub_invalid(ns, ns.message))},
         ensures=lambda ns: S.And(ns.result == priv_bytes(ns.old, ns.message),
                                  S.len_(ns.result) == kK(ns.old), S.is_bytes(ns.result),
                                  (lambda m: S.And(m >= 0, m < kN(ns.old)))(
                                      VInt(RsaPriv(kN(ns.old).t, kD(ns.old).t, MC.b2i(ns.message).t)))),
         prop=('C11', 'C10'),
         doc='ValueError exactly for a wrong length or an integer >= n; otherwise the k-byte big-endian '
             'encoding of the raw private-key operation on int(message)')


# ---------------------------------------------------------------------------
# _dec_prf: the PRF of draft-irtf-cfrg-rsa-guidance (HMAC-SHA256 in counter mode)

DecPrf = S.uf('DecPrf', [Seq, Seq, I], Seq, seq_ext=[0, 1])


def _prf_block(key, label, bits, j):
    """z3: byte j of PRF(key, label, bits) = HMAC(key, I2OSP(j div 32, 2) || label || I2OSP(bits, 2))[j mod 32]"""
    inp = smt.s_concat(smt.s_concat(MC.I2B(j / 32, z3.IntVal(2)), label), MC.I2B(bits, z3.IntVal(2)))
    return sat(MC.HmacK(MC.alg_id('sha256'), key, inp), j % 32)


def _prf_axioms():
    key, label = z3.Consts('prf_k prf_l', Seq)
    bits, j = z3.Ints('prf_b prf_j')
    P = DecPrf(key, label, bits)
    return [z3.ForAll([key, label, bits], z3.Implies(bits >= 0, z3.And(slen(P) == bits / 8, isb(P))), patterns=[P]),
            z3.ForAll([key, label, bits, j], z3.Implies(z3.And(0 <= j, j < bits / 8),
                                                        sat(P, j) == _prf_block(key, label, bits, j)),
                      patterns=[sat(P, j)])]


smt.AXIOMS.extend(_prf_axioms())        # definitional (conservative): DecPrf is fixed byte by byte


def dec_prf(key, label, bits):
    return VSeq(DecPrf(key.t, label.t, _lift(bits).t), 'byte', 'bytearray')


def _inv_prf(ns):
    out, it = ns.out, ns.iterator
    k = z3.Int(fresh_name('k'))
    return S.And(it >= 0, S.len_(out) == 32 * it, S.is_bytes(out),
                 VBool(forall_pat([k], z3.Implies(z3.And(0 <= k, k < slen(out.t)),
                                                  sat(out.t, k) == _prf_block(ns.key.t, ns.label.t, ns.out_len.t, k)),
                                  [sat(out.t, k)])))


contract(RK + '_dec_prf',
         params={'self': rsa_key(), 'key': T.bytes(), 'label': T.bytes('bytes'), 'out_len': T.int()},
         requires=lambda ns: S.And(ns.out_len >= 0, ns.out_len < 65536 * 8),
         result=T.bytes(),
         raises={ValueError: ('iff', lambda ns: ns.out_len % 8 != 0)},
         ensures=lambda ns: S.And(ns.result == dec_prf(ns.key, ns.label, ns.out_len),
                                  S.len_(ns.result) == ns.out_len / 8, S.is_bytes(ns.result)),
         loops={1: LoopSpec(_inv_prf, variant=lambda ns: ns.out_len / 8 + 32 - S.len_(ns.out),
                            fingerprint='len(out) < out_len // 8')},
         prop='C11',
         doc='out_len/8 bytes; byte j is byte (j mod 32) of HMAC-SHA256(key, I2OSP(j div 32, 2) || label || I2OSP(out_len, 2))')


# ---------------------------------------------------------------------------
# RSAKey.decrypt: implicit rejection (draft-irtf-cfrg-rsa-guidance, "Implicit rejection" algorithm)

Cand = S.uf('Cand', [Seq, I, I], I)       # Cand(lengths, pw, j) = 16-bit big-endian candidate j, reduced mod pw


def _cand_axiom():
    lr = z3.Const('cd_l', Seq)
    pw, j = z3.Ints('cd_p cd_j')
    return [z3.ForAll([lr, pw, j], Cand(lr, pw, j) == (sat(lr, 2 * j) * 256 + sat(lr, 2 * j + 1)) % pw,
                      patterns=[Cand(lr, pw, j)])]


smt.AXIOMS.extend(_cand_axiom())          # definitional

K_MAX = 8191          # 65528-bit modulus: I2OSP(8k, 2) of the PRF needs 8k < 2^16


def pow2_of_bitlen(x):
    """2^bitlen(x): the smallest power of two above x  (pow2(c) = 2^c for the literal c <= 40)"""
    return VInt(smt.pow2(MC.BitLen(x.t)))


class DecSpec(object):
    """The quantities of the implicit-rejection algorithm as functions of (key, ciphertext) only --
    except EM, the decrypted block."""

    def __init__(self, ns, enc):
        self.k = kK(ns)
        self.EM = priv_bytes(ns, enc)
        self.key_hash = MC.hash_('sha256', MC.i2b(kD(ns), self.k))
        self.kdk = MC.hmac_('sha256', self.key_hash, enc)
        self.LR = dec_prf(self.kdk, lit(b'length'), 128 * 2 * 8)
        self.MR = dec_prf(self.kdk, lit(b'message'), self.k * 8)
        self.max_len = self.k - 10                      # a synthetic length must be < k - 10
        self.pw = pow2_of_bitlen(self.max_len)            # candidates are masked with 2^bitlen(k-10) - 1

    def cand(self, j):
        return VInt(Cand(self.LR.t, self.pw.t, _lift(j).t))

    def hit(self, j):
        return self.cand(j) < self.max_len

    def synth_is(self, upto, length):
        """`length` is the last candidate below k-10 among candidates 0..upto-1 (0 if there is none)"""
        j = z3.Int(fresh_name('j'))
        jj = z3.Int(fresh_name('jj'))
        none = z3.ForAll([j], z3.Implies(z3.And(0 <= j, j < upto.t), z3.Not(self.hit(VInt(j)).t)),
                         patterns=[Cand(self.LR.t, self.pw.t, j)])
        some = z3.Exists([j], z3.And(0 <= j, j < upto.t, self.hit(VInt(j)).t, length.t == self.cand(VInt(j)).t,
                                     z3.ForAll([jj], z3.Implies(z3.And(j < jj, jj < upto.t), z3.Not(self.hit(VInt(jj)).t)),
                                               patterns=[Cand(self.LR.t, self.pw.t, jj)])))
        return VBool(z3.Or(z3.And(none, length.t == 0), some))

    def valid(self):
        EM, k = self.EM, self.k
        return S.And(EM[0] == 0, EM[1] == 2, S.forall(lambda i: EM[i] != 0, 2, 10),
                     S.exists(lambda i: EM[i] == 0, 10, k))

    def result_valid(self, res):
        """res is what follows the first zero byte at an index >= 10"""
        EM, k = self.EM, self.k
        return S.exists(lambda z: S.And(EM[z] == 0, S.forall(lambda i: EM[i] != 0, 10, z),
                                        S.seq_eq(res, EM[z + 1:])), 10, k)

    def result_synthetic(self, res):
        """res is the tail of message_random whose length L is the last of the 128 candidates that is
        below k-10 (empty if there is none).  No mention of EM: the synthetic message does not depend
        on the decrypted block, hence not on the kind of padding defect."""
        j = z3.Int(fresh_name('j'))
        jj = z3.Int(fresh_name('jj'))
        n = z3.IntVal(128)
        pat = lambda v: [Cand(self.LR.t, self.pw.t, v)]
        none = z3.ForAll([j], z3.Implies(z3.And(0 <= j, j < n), z3.Not(self.hit(VInt(j)).t)), patterns=pat(j))
        some = z3.Exists([j], z3.And(0 <= j, j < n, self.hit(VInt(j)).t,
                                     z3.ForAll([jj], z3.Implies(z3.And(j < jj, jj < n), z3.Not(self.hit(VInt(jj)).t)),
                                               patterns=pat(jj)),
                                     S.seq_eq(res, self.MR[self.k - self.cand(VInt(j)):]).t),
                         patterns=pat(j))
        return VBool(z3.Or(z3.And(none, S.seq_eq(res, self.MR[self.k:]).t), some))


def dec_requires(ns):
    return S.And(kN(ns) > 0, kD(ns) > 0, kK(ns) >= 11, kK(ns) <= K_MAX)


def dec_requires_cached(ns):
    kh = ns.f(ns.self, '_key_hash')
    return S.And(dec_requires(ns), S.len_(kh) > 0,
                 kh == MC.hash_('sha256', MC.i2b(kD(ns), kK(ns))))


def no_rng(ns):
    return VBool(z3.BoolVal(not any(e[0] == 'rng' for e in ns.events)))


def dec_ensures(ns):
    sp = DecSpec(ns.old, ns.encBytes)
    bad = pub_invalid(ns.old, ns.encBytes)
    if isinstance(ns.result, VNone):
        return S.And(bad, no_rng(ns))
    res = ns.result
    return S.And(S.Not(bad), S.is_bytes(res),
                 S.implies(sp.valid(), sp.result_valid(res)),
                 S.implies(S.Not(sp.valid()), sp.result_synthetic(res)),
                 S.seq_eq(ns.f(ns.self, '_key_hash'), sp.key_hash),
                 no_rng(ns))


def _inv_len(ns):
    """loop 1: for high, low in zip(length_rand_iter, length_rand_iter)   (idx = candidate number)"""
    sp = DecSpec(ns.old, ns.encBytes)
    sl = ns.synth_length
    return S.And(sl >= 0, sl < 65536, sp.cand(ns.idx) >= 0,
                 ns.length_randoms == sp.LR, ns.length_mask + 1 == sp.pw, ns.max_sep_offset == sp.max_len,
                 sp.synth_is(ns.idx, sl))


def _inv_scan(ns):
    """loop 2: for pos, val in em_bytes   (idx = position in dec_bytes, starting at 2)"""
    EM = ns.dec_bytes
    ed, ms, i = ns.error_detected, ns.msg_start, ns.idx
    ed0 = ns.old.error_detected
    lim = S.min_(i, 10)
    return S.And(S.Or(ed == 0, ed == 1), ms >= 0, ms < 65536, i >= 2,
                 S.iff(ed == 1, S.Or(ed0 == 1, S.exists(lambda q: EM[q] == 0, 2, lim))),
                 S.iff(ms == 0, S.forall(lambda q: EM[q] != 0, 10, i)),
                 S.implies(ms != 0, S.And(ms - 1 >= 10, ms - 1 < i, EM[ms - 1] == 0,
                                          S.forall(lambda q: EM[q] != 0, 10, ms - 1))))


_DEC_LOOPS = {1: LoopSpec(_inv_len, fingerprint='zip(length_rand_iter, length_rand_iter)'),
              2: LoopSpec(_inv_scan, fingerprint='em_bytes')}


def _dec_apply(c, ex, args, kwargs, st, fr, node):
    """modular use of decrypt: None exactly for publicly invalid input, else a byte string per the spec"""
    from pyvc.contract import NS
    from pyvc import source
    fs = source.load(c.qual)
    env = ex.bind_params(fs, args, kwargs, st, fr)
    line = getattr(node, 'lineno', 0)
    cst = st.fork()
    cst.env = env
    ns_pre = NS(ex, cst, fr)
    ex.oblige(st, 'call:%s:requires@L%d' % (c.name, line), truthy(_lift(c.requires(ns_pre))),
              kind='call-requires', where=line)
    bad = truthy(pub_invalid(ns_pre, env['encBytes']))
    outs = []
    s_none = st.fork()
    s_none.assume(bad)
    if ex.feasible(s_none):
        s_none.events.append((c.qual, args, VNone()))
        outs.append(Outcome('normal', s_none, VNone()))
    s_ok = st.fork()
    s_ok.assume(z3.Not(bad))
    if ex.feasible(s_ok):
        res = T.bytes().make('ret_decrypt', s_ok, ex.bv)
        self_ = env['self']
        sp = DecSpec(ns_pre, env['encBytes'])
        if isinstance(self_, VObj):
            s_ok.heap[(self_.oid, '_key_hash')] = sp.key_hash
        s_ok.assume(truthy(S.And(S.implies(sp.valid(), sp.result_valid(res)),
                                 S.implies(S.Not(sp.valid()), sp.result_synthetic(res)))))
        s_ok.events.append((c.qual, args, res))
        outs.append(Outcome('normal', s_ok, res))
    return outs


DEC = contract(RK + 'decrypt',
               params={'self': rsa_key('none'), 'encBytes': T.bytes()},
               requires=dec_requires, raises={}, ensures=dec_ensures, loops=_DEC_LOOPS,
               apply_fn=_dec_apply, modifies=[('self', '_key_hash')], prop='C11',
               doc='implicit rejection: None exactly for a wrong length / integer >= n; otherwise the message after '
                   'the first zero at index >= 10 when 00 02 <8 non-zero> .. 00 .. , else message_random[k-L:] with '
                   'L the last masked candidate < k-10; no exception, no RNG (first use: key hash computed)')

_DEC_CACHED = Contract(RK + 'decrypt', params={'self': rsa_key('bytes'), 'encBytes': T.bytes()},
                       requires=dec_requires_cached, raises={}, ensures=dec_ensures, loops=_DEC_LOOPS,
                       prop='C11', name='RSAKey.decrypt[cached-key-hash]',
                       doc='same, with the key hash already cached (== SHA-256(I2OSP(d, k)))')
_DEC_CACHED.variant = 'cached'
REG.add(_DEC_CACHED)


# ---------------------------------------------------------------------------
# RSAKeyExchange.processClientKeyExchange (server side of RSA key transport)

from tlslite.messages import ClientHello, ServerHello, ClientKeyExchange

_VER = T.tuple(T.int(0, 255), T.int(0, 255))


def _kx_self():
    return T.obj(KX.RSAKeyExchange, privateKey=rsa_key('none'),
                 clientHello=T.obj(ClientHello, client_version=_VER),
                 serverHello=T.obj(ServerHello, server_version=_VER))


def _pcke_requires(ns):
    key = ns.f(ns.self, 'privateKey')
    sub = type('K', (), {})()
    return S.And(ns.f(key, 'n') > 0, ns.f(key, 'd') > 0, MC.numbytes(ns.f(key, 'n')) >= 11,
                 MC.numbytes(ns.f(key, 'n')) <= K_MAX)


def _pcke_ensures(ns):
    ev = ns.events
    dec = [e for e in ev if e[0] == RK + 'decrypt']
    rng = [e for e in ev if e[0] == 'rng']
    others = [e for e in ev if e[0] not in (RK + 'decrypt', 'rng')]
    # frame: exactly one decryption, exactly one 48-byte random, nothing else (no alert, no I/O)
    if len(dec) != 1 or len(rng) != 1 or others:
        return VBool(z3.BoolVal(False))
    D, R = dec[0][2], rng[0][2]
    res = ns.result
    cv = ns.old.f(ns.old.f(ns.self, 'clientHello'), 'client_version')
    sv = ns.old.f(ns.old.f(ns.self, 'serverHello'), 'server_version')
    base = S.And(S.len_(res) == 48, S.is_bytes(res), S.len_(R) == 48, rng[0][1][0] == 48)
    if isinstance(D, VNone):
        return S.And(base, S.seq_eq(res, R))
    ver = VTuple([D[0], D[1]])
    accepted = S.And(S.len_(D) == 48, S.Or(ver == cv, ver == sv))
    return S.And(base, S.implies(accepted, S.seq_eq(res, D)), S.implies(S.Not(accepted), S.seq_eq(res, R)))


contract('tlslite/keyexchange.py:RSAKeyExchange.processClientKeyExchange',
         params={'self': _kx_self(),
                 'clientKeyExchange': T.obj(ClientKeyExchange, encryptedPreMasterSecret=T.bytes())},
         requires=_pcke_requires, raises={}, result=T.bytes(), ensures=_pcke_ensures,
         prop='C11',
         doc='total: always 48 bytes; the decrypted value only if it is 48 bytes long and starts with the client-hello '
             'or the negotiated version, otherwise the fresh 48-byte random (drawn on every path); exactly one '
             'decryption and one RNG call, no other call, no exception')


# ===========================================================================
# C10 (RSA part): RSASSA-PKCS1-v1_5  (RFC 8017 sections 8.2, 9.2)

# DER DigestInfo prefixes, RFC 8017 section 9.2 Notes 1
DER = {
    'md5': bytes.fromhex('3020300c06082a864886f70d020505000410'),
    'sha1': bytes.fromhex('3021300906052b0e03021a05000414'),
    'sha224': bytes.fromhex('302d300d06096086480165030402040500041c'),
    'sha256': bytes.fromhex('3031300d060960864801650304020105000420'),
    'sha384': bytes.fromhex('3041300d060960864801650304020205000430'),
    'sha512': bytes.fromhex('3051300d060960864801650304020305000440'),
}
# SHA-1 AlgorithmIdentifier with the NULL parameter omitted (accepted on verification, see RFC 8017 A.2.4 / RFC 3279)
DER_SHA1_NO_NULL = bytes.fromhex('301f300706052b0e03021a0414')

RsaPub = z3.Function('modexp', I, I, I, I)      # pow(c, e, n) as modelled by pyvc.builtins_model.m_pow


def kE(ns):
    return ns.f(ns.self, 'e')


def pub_bytes(ns, sig):
    """spec: k-byte encoding of the raw public-key operation on the byte string sig"""
    return MC.i2b(VInt(RsaPub(MC.b2i(sig).t, kE(ns).t, kN(ns).t)), kK(ns))


def emsa_pkcs1(k, T_):
    """EMSA-PKCS1-v1_5 (RFC 8017 9.2 step 5): 00 01 FF^(k - 3 - |T|) 00 T"""
    return S.cat(lit(b'\x00\x01'), S.rep(255, k - 3 - S.len_(T_)), lit(b'\x00'), T_)


contract(RK + '_raw_public_key_op_bytes',
         params={'self': rsa_key(), 'ciphertext': T.bytes()},
         requires=lambda ns: kN(ns) > 0,
         result=T.bytes(),
         raises={ValueError: ('iff', lambda ns: pub_invalid(ns, ns.ciphertext))},
         ensures=lambda ns: S.And(ns.result == pub_bytes(ns.old, ns.ciphertext),
                                  S.len_(ns.result) == kK(ns.old), S.is_bytes(ns.result),
                                  (lambda m: S.And(m >= 0, m < kN(ns.old)))(
                                      VInt(RsaPub(MC.b2i(ns.ciphertext).t, kE(ns.old).t, kN(ns.old).t)))),
         prop='C10',
         doc='ValueError exactly for a wrong length or an integer >= n; otherwise I2OSP(int(c)^e mod n, k)')

contract(RK + '_addPKCS1Padding', name='RSAKey._addPKCS1Padding[signature]',
         params={'self': rsa_key(), 'bytes': T.bytes(), 'blockType': T.const(1)},
         requires=lambda ns: S.And(kN(ns) > 0, kK(ns) >= S.len_(ns.bytes) + 11),     # RFC 8017 9.2 step 3: emLen >= tLen + 11
         result=T.bytes(), raises={},
         ensures=lambda ns: S.And(S.seq_eq(ns.result, emsa_pkcs1(kK(ns.old), ns.bytes)),
                                  S.len_(ns.result) == kK(ns.old), S.is_bytes(ns.result)),
         prop='C10',
         doc='block type 1: 00 01 FF..FF 00 T filling exactly k bytes, at least 8 bytes of FF')


def _prefix_variants():
    v = {}
    for h in DER:
        v[h] = {'cls': T.const(VPy(Python_RSAKey)), 'data': T.bytes(), 'hashName': T.const(h)}
    v['SHA256-uppercase'] = {'cls': T.const(VPy(Python_RSAKey)), 'data': T.bytes(), 'hashName': T.const('SHA256')}
    return v


def _prefix_ensures(ns):
    h = ns.hashName.s.lower()
    return S.And(S.seq_eq(ns.result, S.cat(lit(DER[h]), ns.data)), S.is_bytes(ns.result))


contract(RK + 'addPKCS1Prefix', variants=_prefix_variants(), result=T.bytes(), raises={},
         ensures=_prefix_ensures, prop='C10',
         doc='DigestInfo prefix of RFC 8017 9.2 Notes 1 for the named hash, followed by the hash value')

contract(RK + 'addPKCS1Prefix', name='RSAKey.addPKCS1Prefix[unknown-hash]',
         params={'cls': T.const(VPy(Python_RSAKey)), 'data': T.bytes(), 'hashName': T.const('sha3_256')},
         raises={AssertionError: None}, ensures=lambda ns: VBool(z3.BoolVal(False)), cover=False, prop='C10',
         doc='an unknown hash name never yields an encoding (AssertionError)').variant = 'unknown'

contract(RK + 'addPKCS1SHA1Prefix',
         variants={'with-NULL': {'cls': T.const(VPy(Python_RSAKey)), 'hashBytes': T.bytes(), 'withNULL': T.const(True)},
                   'without-NULL': {'cls': T.const(VPy(Python_RSAKey)), 'hashBytes': T.bytes(), 'withNULL': T.const(False)}},
         result=T.bytes(), raises={},
         ensures=lambda ns: S.seq_eq(ns.result, S.cat(lit(DER['sha1'] if ns.withNULL.t is not None and z3.is_true(ns.withNULL.t)
                                                          else DER_SHA1_NO_NULL), ns.hashBytes)),
         prop='C10', doc='SHA-1 DigestInfo with / without the NULL parameter')


def pkcs1_ok(ns, sig, T_):
    """O-pkcs1-exact: sig is a k-byte string below n whose public-key image is exactly EMSA-PKCS1-v1_5(T)"""
    return S.And(S.Not(pub_invalid(ns, sig)), kK(ns) >= S.len_(T_) + 11,
                 pub_bytes(ns, sig) == emsa_pkcs1(kK(ns), T_))


contract(RK + '_raw_pkcs1_verify',
         params={'self': rsa_key(), 'sigBytes': T.bytes(), 'bytes': T.bytes()},
         requires=lambda ns: S.And(kN(ns) > 0, kK(ns) >= S.len_(ns.bytes) + 11),
         result=T.bool(), raises={},
         ensures=lambda ns: S.iff(ns.result, pkcs1_ok(ns.old, ns.sigBytes, ns.bytes)),
         prop='C10',
         doc='True exactly when len(sig) == k, int(sig) < n and sig^e mod n encodes to 00 01 FF..FF 00 T (whole block compared)')


def _verify_spec(ns, scheme_hash):
    sig, h = ns.sigBytes, ns.bytes
    if scheme_hash == 'sha1':
        return S.Or(pkcs1_ok(ns.old, sig, S.cat(lit(DER['sha1']), h)),
                    pkcs1_ok(ns.old, sig, S.cat(lit(DER_SHA1_NO_NULL), h)))
    if scheme_hash is None:
        return pkcs1_ok(ns.old, sig, h)
    return pkcs1_ok(ns.old, sig, S.cat(lit(DER[scheme_hash]), h))


def _verify_params(h, key_type='rsa'):
    return {'self': rsa_key(key_type=key_type), 'sigBytes': T.bytes(), 'bytes': T.bytes(),
            'padding': T.const('pkcs1'), 'hashAlg': T.const(h), 'saltLen': T.none()}


def _tlen(ns):
    h = ns.hashAlg.s if isinstance(ns.hashAlg, VStr) else None
    return S.len_(ns.bytes) + (len(DER[h]) if h else 0)


for _h in list(DER) + [None]:
    _c = contract(RK + 'verify', name='RSAKey.verify[pkcs1-%s]' % (_h or 'raw'), params=_verify_params(_h),
                  requires=lambda ns: S.And(kN(ns) > 0, kK(ns) >= _tlen(ns) + 11),
                  result=T.bool(), raises={},
                  ensures=(lambda hh: lambda ns: S.iff(ns.result, _verify_spec(ns, hh)))(_h),
                  prop='C10',
                  doc='O-pkcs1-exact for modulus length k >= |T| + 11: True iff len(sig)==k, int(sig)<n and '
                      'sig^e mod n == 00 01 FF^(k-3-|T|) 00 T, T = DigestInfo(%s) || hash' % (_h or 'none: raw T'))
    _c.variant = 'pkcs1-%s' % _h

_c = contract(RK + 'verify', name='RSAKey.verify[pkcs1-short-modulus]', params=_verify_params('sha512'),
              requires=lambda ns: S.And(kN(ns) > 0, kK(ns) >= 1, kK(ns) < _tlen(ns) + 11),
              result=T.bool(), raises={},
              ensures=lambda ns: S.Not(ns.result),
              opts={'rlimit_scale': 0.02},       # known finding F30: expected not to prove; give up after a small resource budget
              prop='C10',
              doc='RFC 8017 8.2.2 step 3 / 9.2 step 3: when k < |T| + 11 ("intended encoded message length too short") '
                  'no signature is valid')
_c.variant = 'pkcs1-short-modulus'

_c = contract(RK + 'verify', name='RSAKey.verify[pkcs1-with-pss-key]', params=_verify_params('sha256', key_type='rsa-pss'),
              requires=lambda ns: kN(ns) > 0, result=T.bool(), raises={},
              ensures=lambda ns: S.Not(ns.result), prop='C10',
              doc='an rsa-pss key never accepts a PKCS#1 v1.5 signature')
_c.variant = 'pkcs1-pss-key'


def _hav_ensures(h):
    def ens(ns):
        digest = MC.hash_(h, ns.bytes)
        sub = type('N', (), {})()
        sub.sigBytes, sub.bytes, sub.old = ns.sigBytes, digest, ns.old
        return S.iff(ns.result, _verify_spec(sub, h))
    return ens


for _h in DER:
    _c = contract(RK + 'hashAndVerify', name='RSAKey.hashAndVerify[PKCS1-%s]' % _h,
                  params={'self': rsa_key(), 'sigBytes': T.bytes(), 'bytes': T.bytes(),
                          'rsaScheme': T.const('PKCS1'), 'hAlg': T.const(_h), 'sLen': T.const(0)},
                  requires=(lambda hh: lambda ns: S.And(kN(ns) > 0, kK(ns) >= len(DER[hh]) + MC.HASH_SIZES[hh] + 11))(_h),
                  result=T.bool(), raises={}, ensures=_hav_ensures(_h), prop='C10',
                  doc='True iff sig^e mod n == 00 01 FF..FF 00 DigestInfo(%s) || %s(message), whole block, sig canonical' % (_h, _h))
    _c.variant = 'PKCS1-' + _h


# ===========================================================================
# C10 (RSA part): RSASSA-PSS  (RFC 8017 B.2.1, 9.1.1, 9.1.2, 8.1.1, 8.1.2)

Mgf1 = S.uf('Mgf1', [smt.Val, Seq, I], Seq, seq_ext=[1])       # MGF1 with the named hash: (hash, seed, maskLen)


def _mgf_byte(h, seed, j):
    """z3: byte j of MGF1_h(seed, .) = Hash(seed || I2OSP(j div hLen, 4))[j mod hLen]   (RFC 8017 B.2.1)"""
    hl = MC.HASH_SIZES[h]
    return sat(MC.Hash(MC.alg_id(h), smt.s_concat(seed, MC.I2B(j / hl, z3.IntVal(4)))), j % hl)


def _mgf_axioms():
    A = []
    seed = z3.Const('mg_s', Seq)
    n, j = z3.Ints('mg_n mg_j')
    for h in MC.HASH_SIZES:
        M = Mgf1(MC.alg_id(h), seed, n)
        A.append(z3.ForAll([seed, n], z3.Implies(n >= 0, z3.And(slen(M) == n, isb(M))), patterns=[M]))
        A.append(z3.ForAll([seed, n, j], z3.Implies(z3.And(0 <= j, j < n), sat(M, j) == _mgf_byte(h, seed, j)),
                           patterns=[sat(M, j)]))
    return A


smt.AXIOMS.extend(_mgf_axioms())         # definitional (conservative)


def mgf1(h, seed, n):
    return VSeq(Mgf1(MC.alg_id(h), seed.t, _lift(n).t), 'byte', 'bytearray')


def _hs(ns):
    """the hash named by the hAlg argument (contracts below are stated for whichever hash is passed)"""
    return ns.hAlg.s.lower()


def _inv_mgf(ns):
    h = _hs(ns)
    hl = MC.HASH_SIZES[h]
    Tq, x = ns.T, ns.idx
    k = z3.Int(fresh_name('k'))
    return S.And(x >= 0, S.len_(Tq) == hl * x, S.is_bytes(Tq),
                 VBool(forall_pat([k], z3.Implies(z3.And(0 <= k, k < slen(Tq.t)),
                                                  sat(Tq.t, k) == _mgf_byte(h, ns.mgfSeed.t, k)),
                                  [sat(Tq.t, k)])))


def per_hash(qual, name, params_for, hashes, primary='sha256', **kw):
    """One contract text, verified once per hash name.  The `primary` instance is registered first and
    without variant tag, so it is the one applied at call sites (its lambdas read the hash from the
    hAlg argument of the call); the others are verification-only variants."""
    out = []
    for h in [primary] + [x for x in hashes if x != primary]:
        c = contract(qual, name='%s[%s]' % (name, h), params=params_for(h), **kw)
        if h != primary:
            c.variant = h
        out.append(c)
    return out


per_hash(RK + 'MGF1', 'RSAKey.MGF1',
         lambda h: {'self': rsa_key(), 'mgfSeed': T.bytes(), 'maskLen': T.int(), 'hAlg': T.const(h)},
         list(MC.HASH_SIZES),
         requires=lambda ns: ns.maskLen >= 0,
         result=T.bytes(),
         raises={MaskTooLongError: ('iff', lambda ns: ns.maskLen > (1 << 32) * MC.HASH_SIZES[_hs(ns)])},
         ensures=lambda ns: S.And(ns.result == mgf1(_hs(ns), ns.mgfSeed, ns.maskLen),
                                  S.len_(ns.result) == ns.maskLen, S.is_bytes(ns.result)),
         loops={1: LoopSpec(_inv_mgf, fingerprint='range(0, end)')},
         prop='C10',
         doc='RFC 8017 B.2.1: byte j of the mask is byte (j mod hLen) of Hash(seed || I2OSP(j div hLen, 4)); '
             '"mask too long" exactly for maskLen > 2^32 hLen')


def ceil8(x):
    """ceil(x / 8) for x >= 0"""
    x = _lift(x)
    return VInt(x.t / 8 + z3.If(x.t % 8 != 0, 1, 0))


class PssSpec(object):
    """EMSA-PSS-VERIFY (RFC 8017 9.1.2) on an encoded message EM of emLen = ceil(emBits/8) octets."""

    def __init__(self, mHash, EM, emBits, h, sLen):
        self.h, self.hLen = h, MC.HASH_SIZES[h]
        hLen = self.hLen
        self.mHash, self.EM, self.emBits, self.sLen = mHash, EM, _lift(emBits), _lift(sLen)
        self.emLen = ceil8(self.emBits)
        emLen = self.emLen
        self.zbits = 8 * emLen - self.emBits                     # leftmost bits that must be zero
        self.top = VInt(smt.pow2((8 - self.zbits).t))             # 2^(8 - zbits): bound on the first octet
        self.dbLen = emLen - hLen - 1
        self.maskedDB = EM[0:self.dbLen]                          # step 5
        self.H = EM[self.dbLen:self.dbLen + hLen]
        self.dbMask = mgf1(h, self.H, self.dbLen)                 # step 7
        raw = VSeq(smt.s_xor(self.maskedDB.t, self.dbMask.t), 'byte', 'bytearray')      # step 8
        self.DB = VSeq(smt.s_upd(raw.t, z3.IntVal(0), (raw[0] % self.top).t), 'byte', 'bytearray')   # step 9
        self.psLen = emLen - hLen - self.sLen - 2
        self.salt = self.DB[self.dbLen - self.sLen:self.dbLen]    # step 11
        self.M2 = S.cat(S.rep(0, 8), mHash, self.salt)            # step 12
        self.H2 = MC.hash_(h, self.M2)                            # step 13

    def steps(self):
        DB = self.DB
        return [('3: emLen >= hLen + sLen + 2', self.emLen >= self.hLen + self.sLen + 2),
                ('4: rightmost octet is 0xbc', self.EM[self.emLen - 1] == 0xbc),
                ('6: leftmost 8emLen-emBits bits of maskedDB are zero', self.maskedDB[0] < self.top),
                ('10a: PS is zero', S.forall(lambda i: DB[i] == 0, 0, self.psLen)),
                ('10b: separator 0x01', DB[self.psLen] == 1),
                ('14: H == Hash(0^8 || mHash || salt)', self.H == self.H2)]

    def consistent(self):
        return S.And(*[c for (_, c) in self.steps()])


EMBITS_MAX = 1 << 24       # moduli up to 16M bits (MGF1 "mask too long" needs 2^32 hLen bytes: unreachable)


def _pss_verify_requires(ns):
    return S.And(ns.emBits >= 1, ns.emBits <= EMBITS_MAX, ns.sLen >= 0, S.len_(ns.EM) == ceil8(ns.emBits))


PSS_HASHES = ('sha256', 'sha384', 'sha512')      # the hashes TLS uses with RSA-PSS (sha1/sha224/md5: bounded run only)

def by_cases(qual, name, params_for, hashes, cases, case_requires, **kw):
    """Case analysis on the precondition.  The general contract (requires R) is registered for use at call
    sites only; it is justified by one verified task per case c (requires R and case_requires(c)), for every
    hash, plus the task `<name>[cases-exhaustive]` proving R ==> some case.  Keeps each task small (one
    constant shift amount per task instead of an eight-way path split)."""
    req = kw.pop('requires')
    general = Contract(qual, params=params_for(hashes[0]), name=name, requires=req, **kw)
    REG.contracts.setdefault(qual, []).insert(0, general)            # applied, not a task of its own
    for h in hashes:
        for cs in cases:
            c = Contract(qual, params=params_for(h), name='%s[%s,%s]' % (name, h, cs),
                         requires=(lambda cc: lambda ns: S.And(req(ns), case_requires(ns, cc)))(cs), **kw)
            c.variant = '%s,%s' % (h, cs)
            REG.add(c)

    def exhaustive(api):
        import tlslite.utils.rsakey  # noqa
        st = api.st
        ns = type('N', (), {})()
        for pn, pt in params_for(hashes[0]).items():
            setattr(ns, pn, api.make(pn, pt))
        st.assume(truthy(_lift(req(ns))))
        _reachable(st, 'precondition')
        api.oblige(st, 'some-case-applies', S.Or(*[case_requires(ns, cs) for cs in cases]))
    scenario('%s[cases-exhaustive]' % name, kw.get('prop'),
             doc='the verified cases of %s cover its whole precondition' % name)(exhaustive)
    return general


def _reachable(st, what):
    """vacuity guard for scenarios: the state in which a claim is made must be satisfiable"""
    from pyvc.contract import _check_sat
    if not _check_sat(st.pc):
        raise RuntimeError('vacuous scenario: state unreachable at ' + what)


by_cases(RK + 'EMSA_PSS_verify', 'RSAKey.EMSA_PSS_verify',
         lambda h: {'self': rsa_key(), 'mHash': T.bytes(), 'EM': T.bytes(), 'emBits': T.int(),
                    'hAlg': T.const(h), 'sLen': T.int()},
         PSS_HASHES, ['%d-spare-bits' % z for z in range(8)],
         lambda ns, cs: 8 * ceil8(ns.emBits) - ns.emBits == int(cs.split('-')[0]),
         requires=_pss_verify_requires,
         result=T.bool(),
         raises={InvalidSignature: ('iff', lambda ns: S.Not(PssSpec(ns.mHash, ns.EM, ns.emBits, _hs(ns), ns.sLen).consistent()))},
         ensures=lambda ns: S.And(ns.result, PssSpec(ns.mHash, ns.EM, ns.emBits, _hs(ns), ns.sLen).consistent()),
         prop='C10',
         doc='O-pss-steps: returns True exactly when every check of RFC 8017 9.1.2 (steps 3-14) holds for the emLen-octet EM, '
             'otherwise InvalidSignature')


def pss_encoding(mHash, emBits, h, salt):
    """EMSA-PSS-ENCODE (RFC 8017 9.1.1 steps 5-12) with the given salt, as a byte-string term"""
    hLen = MC.HASH_SIZES[h]
    emBits = _lift(emBits)
    emLen = ceil8(emBits)
    sLen = S.len_(salt)
    H = MC.hash_(h, S.cat(S.rep(0, 8), mHash, salt))                     # steps 5, 6
    DB = S.cat(S.rep(0, emLen - sLen - hLen - 2), lit(b'\x01'), salt)    # steps 7, 8
    dbMask = mgf1(h, H, emLen - hLen - 1)                                # step 9
    raw = VSeq(smt.s_xor(DB.t, dbMask.t), 'byte', 'bytearray')           # step 10
    top = VInt(smt.pow2((8 - (8 * emLen - emBits)).t))
    masked = VSeq(smt.s_upd(raw.t, z3.IntVal(0), (raw[0] % top).t), 'byte', 'bytearray')   # step 11
    return S.cat(masked, H, lit(b'\xbc'))                                # step 12


def _one_rng(ns, want_len):
    """the single RNG draw of the call: (VBool ok, bytes) -- ok is False when there is not exactly one draw"""
    rng = [e for e in ns.events if e[0] == 'rng']
    if len(rng) != 1:
        return VBool(z3.BoolVal(False)), None
    return S.And(rng[0][1][0] == want_len, S.len_(rng[0][2]) == want_len), rng[0][2]


def _enc_ensures(ns):
    ok, salt = _one_rng(ns, ns.sLen)
    if salt is None:
        return ok
    emLen = ceil8(ns.emBits)
    return S.And(ok, S.len_(ns.result) == emLen, S.is_bytes(ns.result),
                 ns.result == pss_encoding(ns.mHash, ns.emBits, _hs(ns), salt))


def _enc_apply(c, ex, args, kwargs, st, fr, node):
    """modular use of EMSA_PSS_encode: one RNG draw of sLen bytes (recorded as event), result = the RFC encoding"""
    from pyvc.contract import NS
    from pyvc import source
    fs = source.load(c.qual)
    env = ex.bind_params(fs, args, kwargs, st, fr)
    line = getattr(node, 'lineno', 0)
    cst = st.fork()
    cst.env = env
    ns = NS(ex, cst, fr)
    ex.oblige(st, 'call:%s:requires@L%d' % (c.name, line), truthy(_lift(c.requires(ns))), kind='call-requires', where=line)
    bad = truthy(_lift(c.raises[EncodingError][1](ns)))
    outs = []
    s_bad = st.fork()
    s_bad.assume(bad)
    if ex.feasible(s_bad):
        outs.append(Outcome('raise', s_bad, VExc(EncodingError, [], 'call %s line %d' % (c.name, line))))
    s_ok = st.fork()
    s_ok.assume(z3.Not(bad))
    if ex.feasible(s_ok):
        salt = T.bytes().make('salt', s_ok, ex.bv)
        s_ok.assume(slen(salt.t) == env['sLen'].t)
        s_ok.events.append(('rng', [env['sLen']], salt))
        res = T.bytes().make('ret_EMSA_PSS_encode', s_ok, ex.bv)
        s_ok.assume(truthy(S.And(res == pss_encoding(env['mHash'], env['emBits'], _hs(ns), salt),
                                 S.len_(res) == ceil8(env['emBits']))))
        outs.append(Outcome('normal', s_ok, res))
    return outs


per_hash(RK + 'EMSA_PSS_encode', 'RSAKey.EMSA_PSS_encode',
         lambda h: {'self': rsa_key(), 'mHash': T.bytes(), 'emBits': T.int(), 'hAlg': T.const(h), 'sLen': T.int()},
         PSS_HASHES,
         requires=lambda ns: S.And(ns.emBits >= 1, ns.emBits <= EMBITS_MAX, ns.sLen >= 0),
         result=T.bytes(),
         raises={EncodingError: ('iff', lambda ns: ceil8(ns.emBits) < MC.HASH_SIZES[_hs(ns)] + ns.sLen + 2)},
         ensures=_enc_ensures, apply_fn=_enc_apply,
         prop='C10',
         doc='RFC 8017 9.1.1: "encoding error" exactly when emLen < hLen + sLen + 2; otherwise maskedDB || H || bc for the '
             'one freshly drawn sLen-byte salt, leftmost 8emLen-emBits bits cleared, length emLen')


def _modbits(ns):
    return MC.bitlen(kN(ns))


def _pssv_spec(ns):
    """RFC 8017 8.1.2 on (n, e): length / range of S, m = S^e mod n, EM = I2OSP(m, emLen) with
    emLen = ceil((modBits-1)/8) ("integer too large" => invalid), EMSA-PSS-VERIFY(mHash, EM, modBits - 1)."""
    emBits = _modbits(ns) - 1
    emLen = ceil8(emBits)
    m = VInt(RsaPub(MC.b2i(ns.S).t, kE(ns).t, kN(ns).t))
    EM = MC.i2b(m, emLen)
    return S.And(S.Not(pub_invalid(ns, ns.S)), m < S.pow256(emLen),
                 PssSpec(ns.mHash, EM, emBits, _hs(ns), ns.sLen).consistent())


def _pss_key_req(ns):
    """any modulus of at least 2 bits; the last conjunct is an arithmetic consequence (emLen is k or k-1),
    stated to seed the solver's case split"""
    emLen, k = ceil8(_modbits(ns) - 1), kK(ns)
    return S.And(kN(ns) > 1, _modbits(ns) <= EMBITS_MAX, ns.sLen >= 0,
                 S.Or(S.And((_modbits(ns) - 1) % 8 != 0, emLen == k), S.And((_modbits(ns) - 1) % 8 == 0, emLen == k - 1)))


per_hash(RK + 'RSASSA_PSS_verify', 'RSAKey.RSASSA_PSS_verify',
         lambda h: {'self': rsa_key(), 'mHash': T.bytes(), 'S': T.bytes(), 'hAlg': T.const(h), 'sLen': T.int()},
         PSS_HASHES,
         requires=_pss_key_req,
         result=T.bool(),
         raises={InvalidSignature: lambda ns: S.Not(_pssv_spec(ns))},
         ensures=lambda ns: S.And(ns.result, _pssv_spec(ns.old)),
         prop='C10',
         doc='RFC 8017 8.1.2 for every modulus bit length: True exactly when len(S)==k, int(S)<n, m = S^e mod n fits in '
             'emLen = ceil((modBits-1)/8) octets and EM = I2OSP(m, emLen) passes EMSA-PSS-VERIFY with emBits = modBits-1; '
             'otherwise InvalidSignature')


def _pss_sign_ensures(ns):
    ok, salt = _one_rng(ns, ns.sLen)
    if salt is None:
        return ok
    EM = pss_encoding(ns.mHash, _modbits(ns.old) - 1, _hs(ns), salt)
    return S.And(ok, ns.result == priv_bytes(ns.old, EM), S.len_(ns.result) == kK(ns.old),
                 MC.b2i(EM) < kN(ns.old),          # OS2IP(EM) < n: the encoded message is a valid message representative
                 S.is_bytes(EM), S.len_(EM) == ceil8(_modbits(ns.old) - 1))


def _sign_apply(c, ex, args, kwargs, st, fr, node):
    """modular use of RSASSA_PSS_sign: one RNG draw of sLen bytes (recorded as event), result per RFC 8017 8.1.1"""
    from pyvc.contract import NS
    from pyvc import source
    fs = source.load(c.qual)
    env = ex.bind_params(fs, args, kwargs, st, fr)
    line = getattr(node, 'lineno', 0)
    cst = st.fork()
    cst.env = env
    ns = NS(ex, cst, fr)
    ex.oblige(st, 'call:%s:requires@L%d' % (c.name, line), truthy(_lift(c.requires(ns))), kind='call-requires', where=line)
    bad = truthy(_lift(c.raises[EncodingError][1](ns)))
    outs = []
    s_bad = st.fork()
    s_bad.assume(bad)
    if ex.feasible(s_bad):
        outs.append(Outcome('raise', s_bad, VExc(EncodingError, [], 'call %s line %d' % (c.name, line))))
    s_ok = st.fork()
    s_ok.assume(z3.Not(bad))
    if ex.feasible(s_ok):
        salt = T.bytes().make('salt', s_ok, ex.bv)
        s_ok.assume(slen(salt.t) == env['sLen'].t)
        s_ok.events.append(('rng', [env['sLen']], salt))
        res = T.bytes().make('ret_RSASSA_PSS_sign', s_ok, ex.bv)
        EM = pss_encoding(env['mHash'], _modbits(ns) - 1, _hs(ns), salt)
        sig_int = VInt(RsaPriv(kN(ns).t, kD(ns).t, MC.b2i(EM).t))
        s_ok.assume(truthy(S.And(res == priv_bytes(ns, EM), S.len_(res) == kK(ns), MC.b2i(EM) < kN(ns),
                                 S.is_bytes(EM), S.len_(EM) == ceil8(_modbits(ns) - 1),
                                 sig_int >= 0, sig_int < kN(ns))))     # residue range: trusted model of the raw operation
        outs.append(Outcome('normal', s_ok, res))
    return outs


per_hash(RK + 'RSASSA_PSS_sign', 'RSAKey.RSASSA_PSS_sign',
         lambda h: {'self': rsa_key(), 'mHash': T.bytes(), 'hAlg': T.const(h), 'sLen': T.int()},
         PSS_HASHES,
         requires=_pss_key_req,
         result=T.bytes(),
         raises={EncodingError: ('iff', lambda ns: ceil8(_modbits(ns) - 1) < MC.HASH_SIZES[_hs(ns)] + ns.sLen + 2),
                 MessageTooLongError: lambda ns: VBool(z3.BoolVal(False))},
         ensures=_pss_sign_ensures, apply_fn=_sign_apply, prop='C10',
         doc='RFC 8017 8.1.1 for every modulus bit length: the only failure is "encoding error" (emLen < hLen+sLen+2); '
             'otherwise S = I2OSP(RSASP1(OS2IP(EMSA-PSS-ENCODE(mHash, modBits-1))), k); MessageTooLongError never')


# --- verify(padding='pss') / sign() front ends -------------------------------------------------
def _verify_pss_params(h):
    return {'self': rsa_key(), 'sigBytes': T.bytes(), 'bytes': T.bytes(), 'padding': T.const('pss'),
            'hashAlg': T.const(h), 'saltLen': T.int()}


def _vp_spec(ns):
    sub = type('N', (), {})()
    sub.self, sub.f, sub.S, sub.mHash, sub.hAlg, sub.sLen = ns.self, ns.f, ns.sigBytes, ns.bytes, ns.hashAlg, ns.saltLen
    return _pssv_spec(sub)


for _h in PSS_HASHES:
    _c = contract(RK + 'verify', name='RSAKey.verify[pss-%s]' % _h, params=_verify_pss_params(_h),
                  requires=lambda ns: S.And(kN(ns) > 1, _modbits(ns) <= EMBITS_MAX, ns.saltLen >= 0),
                  result=T.bool(), raises={},
                  ensures=lambda ns: S.iff(ns.result, _vp_spec(ns.old)),
                  prop='C10',
                  doc='verify(pss) is True exactly when RFC 8017 8.1.2 accepts (every modulus bit length); never raises')
    _c.variant = 'pss-' + _h


contract(RK + '_raw_pkcs1_sign',
         params={'self': rsa_key(), 'bytes': T.bytes()},
         requires=lambda ns: S.And(kN(ns) > 1, kD(ns) != 0, kK(ns) >= S.len_(ns.bytes) + 11),
         result=T.bytes(), raises={},
         ensures=lambda ns: S.And(ns.result == priv_bytes(ns.old, emsa_pkcs1(kK(ns.old), ns.bytes)),
                                  S.len_(ns.result) == kK(ns.old)),
         prop='C10',
         doc='RFC 8017 8.2.1: S = I2OSP(RSASP1(OS2IP(00 01 FF..FF 00 T)), k); no error when k >= |T| + 11 '
             '(the encoded message is below the modulus)')

for _h in ('sha256', 'sha1', 'sha384', 'sha512'):
    _c = contract(RK + 'sign', name='RSAKey.sign[pkcs1-%s]' % _h,
                  params={'self': rsa_key(), 'bytes': T.bytes(), 'padding': T.const('pkcs1'), 'hashAlg': T.const(_h),
                          'saltLen': T.none()},
                  requires=(lambda hh: lambda ns: S.And(kN(ns) > 1, kD(ns) != 0,
                                                        kK(ns) >= S.len_(ns.bytes) + len(DER[hh]) + 11))(_h),
                  result=T.bytes(), raises={},
                  ensures=(lambda hh: lambda ns: S.And(
                      ns.result == priv_bytes(ns.old, emsa_pkcs1(kK(ns.old), S.cat(lit(DER[hh]), ns.bytes))),
                      S.len_(ns.result) == kK(ns.old)))(_h),
                  prop='C10', doc='sign(pkcs1, %s) = RSASP1 of EMSA-PKCS1-v1_5(DigestInfo(%s) || hash), k bytes' % (_h, _h))
    _c.variant = 'pkcs1-' + _h


# ===========================================================================
# differential runs and notes

KQ = 'tlslite/keyexchange.py:'
REG.xchecks.append({'prop': 'C11', 'module': 'specs.rsa', 'name': 'rsa_decrypt', 'function': RK + 'decrypt'})
REG.xchecks.append({'prop': 'C11', 'module': 'specs.rsa', 'name': 'rsa_kex_premaster',
                    'function': KQ + 'RSAKeyExchange.processClientKeyExchange'})
REG.xchecks.append({'prop': 'C10', 'module': 'specs.rsa', 'name': 'pkcs1_verify', 'function': RK + 'verify'})
REG.xchecks.append({'prop': 'C10', 'module': 'specs.rsa', 'name': 'rsa_pss', 'function': RK + 'RSASSA_PSS_sign'})
REG.xchecks.append({'prop': 'C10', 'module': 'specs.rsa', 'name': 'rsa_pss', 'function': RK + 'RSASSA_PSS_verify'})
REG.xchecks.append({'prop': 'C10', 'module': 'specs.rsa', 'name': 'emsa_pss', 'function': RK + 'EMSA_PSS_verify'})

for _p in ('C11', 'C10'):
    REG.note(_p, 'trusted', 'raw RSA private operation (Python_RSAKey._rawPrivateKeyOp: CRT + blinding) is the uninterpreted '
                            'RsaPriv(n, d, m) with 0 <= result < n; pow(c, e, n) is the uninterpreted modexp with 0 <= result < n')
    REG.note(_p, 'trusted', 'pyvc/models_crypto.py: secureHash/secureHMAC are uninterpreted Hash(alg, data) / Hmac(HmacKey(alg, key), data) '
                            'with the standard output lengths; getRandomBytes(n) returns n fresh bytes (recorded as an event); '
                            'numBits = BitLen with 2^(c-1) <= x <=> BitLen(x) >= c (c <= 40), monotone, 256^(k-1) <= x < 256^k for '
                            'k = numBytes(x); numberToByteArray(x, k) = s_be(x, k) (low-order k bytes), int.from_bytes = s_val; '
                            'a byte string whose first octet is < 2^t has a value of at most 8(len-1)+t bits')
    REG.note(_p, 'trusted', 'pyvc/iters.py: iterator objects (iter/enumerate/next/zip(it, it)) as heap objects with a position; '
                            'comprehensions over symbolic-length sequences as element-wise defined fresh sequences; '
                            'a symbolic shift amount is case-split over 0..64')
REG.note('C11', 'trusted', 'DecPrf / Cand / pow2 / Mgf1 are definitional extensions (each fixed by its defining axiom); ct_* helpers by their '
                           'bit-vector-proved contracts (contracts/c12_cbc_check.py)')
REG.note('C11', 'assumptions', 'key: n > 0, d > 0 (private key present), key_type "rsa", 11 <= k <= 8191 bytes (the PRF encodes 8k in two '
                               'octets; PKCS#1 v1.5 needs k >= 11); _key_hash is unset/None or equals SHA-256(I2OSP(d, k)) (established by '
                               'decrypt itself, never written elsewhere)')
REG.note('C11', 'assumptions', 'O-defect-independent is structural: the synthetic branch of the specification (DecSpec.result_synthetic) does '
                               'not mention the decrypted block EM, only (key hash, ciphertext, k)')
REG.note('C11', 'not_built', 'ClientKeyExchange.parse (RSA branch) framing-only rejections; wire uniformity of _serverCertKeyExchange between '
                             'processClientKeyExchange and _getFinished (syntactic data-flow obligation); constant-time behaviour is not claimed')
REG.note('C10', 'assumptions', 'PKCS#1 v1.5 exactness is proved for k >= |T| + 11 (RFC 8017 9.2 step 3); the complementary case is the separate '
                               'obligation verify[pkcs1-short-modulus] (known finding F30, class pkcs1-short-ps-accepted; verified with a small '
                               'resource budget, opts rlimit_scale, because it is expected not to prove)')
REG.note('C10', 'assumptions', 'PSS: emBits <= 2^24 (MGF1 "mask too long" unreachable), sLen >= 0; RSASSA-PSS contracts hold for every '
                               'modulus bit length (F6, modBits = 1 mod 8, fixed in /repo e55c238)')
REG.note('C10', 'trusted', 'xor lemmas (x^y)^y == x and ((x^y) mod 2^t ^ y) mod 2^t == x mod 2^t on [0, 2^32): each proved in 34-bit '
                           'bit-vector arithmetic when contracts.rsa is imported')
REG.note('C10', 'assumptions', 'EMSA_PSS_verify is verified by case analysis on 8emLen-emBits (8 tasks per hash + the task '
                               'EMSA_PSS_verify[cases-exhaustive]); its general contract is applied at call sites on that basis. '
                               'pss-sign-then-verify[sha256] uses the conclusion of the lemma tasks pss-encode-then-verify[sha256,*]')
REG.note('C10', 'not_built', 'PSS round-trip lemmas are instantiated for SHA-256 only (the contract texts are hash-generic; other hashes are '
                             'covered by the bounded differential run rsa_pss)')
REG.note('C10', 'not_built', '_addPKCS1Padding block type 2 (encryption padding, random non-zero filter loop); hashAndSign; rsa-pss key refusing '
                             'pkcs1 in sign(); Python_RSAKey._rawPrivateKeyOp CRT/blinding algebra (Lean lemmas of DESIGN.md)')


# ===========================================================================
# O-pss-roundtrip (specification level): every EMSA-PSS encoding passes EMSA-PSS verification.
# Together with EMSA_PSS_encode (== pss_encoding), EMSA_PSS_verify (<=> PssSpec.consistent) and the raw
# operations this gives verify(sign(m)) for modBits != 1 mod 8, assuming RsaPub(RsaPriv(m)) == m.

def _xor_lemmas():
    """(x ^ y) ^ y == x, also under a low-bit mask; each instance is first proved in bit-vector arithmetic"""
    x, y = z3.Ints('xl_x xl_y')
    bx = smt.bxor
    W = 34
    xb, yb = z3.BitVecs('xl_xb xl_yb', W)
    rng = z3.And(z3.ULT(xb, z3.BitVecVal(1 << 32, W)), z3.ULT(yb, z3.BitVecVal(1 << 32, W)))

    def bv_valid(f):
        s = z3.Solver()
        s.set('timeout', 20000)
        s.add(rng, z3.Not(f))
        if s.check() != z3.unsat:
            raise RuntimeError('xor lemma not proved in BV')
    A = []
    bv_valid(((xb ^ yb) ^ yb) == xb)
    inr = z3.And(0 <= x, x < (1 << 32), 0 <= y, y < (1 << 32))
    A.append(z3.ForAll([x, y], z3.Implies(inr, bx(bx(x, y), y) == x), patterns=[bx(bx(x, y), y)]))
    for t in range(1, 9):
        m = (1 << t) - 1
        bv_valid(((((xb ^ yb) & m) ^ yb) & m) == (xb & m))
        A.append(z3.ForAll([x, y], z3.Implies(inr, bx(bx(x, y) % (1 << t), y) % (1 << t) == x % (1 << t)),
                           patterns=[bx(bx(x, y) % (1 << t), y)]))
    return A


smt.AXIOMS.extend(_xor_lemmas())


def _pss_rt(h, zbits):
    def body(api):
        st = api.st
        mHash = api.make('mHash', T.bytes())
        salt = api.make('salt', T.bytes())
        emBits = api.make('emBits', T.int(1, EMBITS_MAX))
        hLen = MC.HASH_SIZES[h]
        emLen = ceil8(emBits)
        sLen = S.len_(salt)
        st.assume(truthy(S.And(emLen >= hLen + sLen + 2, 8 * emLen - emBits == zbits)))
        EM = pss_encoding(mHash, emBits, h, salt)
        sp = PssSpec(mHash, EM, emBits, h, sLen)
        _reachable(st, 'hypotheses')
        api.oblige(st, 'encoding-length', S.len_(EM) == emLen)
        for name, cond in sp.steps():
            api.oblige(st, 'step ' + name, cond)
    return body


for _z in range(8):
    scenario('pss-encode-then-verify[sha256,%d-spare-bits]' % _z, ('C10',),
             doc='RFC 8017: EMSA-PSS-VERIFY accepts every output of EMSA-PSS-ENCODE (emLen >= hLen+sLen+2, 8emLen-emBits = %d)' % _z
             )(_pss_rt('sha256', _z))


ValidKey = S.uf('RsaValidKey', [I, I, I], smt.B)      # (n, e, d) form a working RSA key pair


def _valid_key_axiom():
    n, e, d, m = z3.Ints('vk_n vk_e vk_d vk_m')
    return [z3.ForAll([n, e, d, m], z3.Implies(z3.And(ValidKey(n, e, d), 0 <= m, m < n),
                                               RsaPub(RsaPriv(n, d, m), e, n) == m),
                      patterns=[RsaPub(RsaPriv(n, d, m), e, n)])]


smt.AXIOMS.extend(_valid_key_axiom())     # definition of the assumption "valid key": public op inverts private op


@scenario('pss-sign-then-verify[sha256]', ('C10',),
          doc='O-pss-roundtrip: RSASSA_PSS_verify(RSASSA_PSS_sign(mHash)) is True for every modulus bit length (including 1 mod 8) '
              'and every salt length with emLen >= hLen+sLen+2; assumes RsaPub(RsaPriv(m)) == m; uses the conclusion of the '
              'lemma tasks pss-encode-then-verify[sha256,0..7-spare-bits] (every encoding is consistent)')
def _pss_sign_verify(api):
    st = api.st
    key = api.make('key', rsa_key())
    mHash = api.make('mHash', T.bytes())
    sLen = api.make('sLen', T.int(0, None))
    h = VStr('sha256')
    ns0 = api.ns(st)
    n, e, d = ns0.f(key, 'n'), ns0.f(key, 'e'), ns0.f(key, 'd')
    modBits = MC.bitlen(n)
    emBits = modBits - 1
    emLen = ceil8(emBits)
    st.assume(truthy(S.And(n > 1, modBits <= EMBITS_MAX, VBool(ValidKey(n.t, e.t, d.t)))))
    _reachable(st, 'hypotheses')

    def cut(s, name, f):
        """prove f in state s, then use it (cut rule)"""
        api.oblige(s, name, f)
        s.assume(truthy(_lift(f)))
    for o in api.call(RK + 'RSASSA_PSS_sign', [key, mHash, h, sLen], st, inline=False):
        if o.kind != 'normal':
            if o.val.cls is EncodingError:
                continue                      # emLen < hLen + sLen + 2: nothing to verify
            api.unreachable(o.st, 'sign-raises-only-encoding-error(%s)' % o.val.cls.__name__)
            continue
        s1, sig = o.st, o.val
        salt = [ev for ev in s1.events if ev[0] == 'rng'][-1][2]
        EM = pss_encoding(mHash, emBits, 'sha256', salt)
        m = MC.b2i(EM)
        sig_int = VInt(RsaPriv(n.t, d.t, m.t))
        _reachable(s1, 'sign returns')
        cut(s1, 'rt1: len(EM) == emLen', S.len_(EM) == emLen)
        cut(s1, 'rt2: OS2IP(S) is the signature representative', MC.b2i(sig) == sig_int)
        cut(s1, 'rt3: RSAVP1(RSASP1(m)) == m', VInt(RsaPub(MC.b2i(sig).t, e.t, n.t)) == m)
        cut(s1, 'rt4: m < 256^emLen', m < S.pow256(emLen))
        cut(s1, 'rt5: I2OSP(m, emLen) == EM', MC.i2b(m, emLen) == EM)
        # lemma pss-encode-then-verify[sha256, 0..7 spare bits] (proved as separate tasks for all eight values
        # of 8emLen - emBits): every EMSA-PSS encoding with emLen >= hLen + sLen + 2 is consistent
        s1.assume(truthy(PssSpec(mHash, EM, emBits, 'sha256', sLen).consistent()))
        _reachable(s1, 'lemma applied')
        for o2 in api.call(RK + 'RSASSA_PSS_verify', [key, mHash, sig, h, sLen], s1, inline=False):
            if o2.kind != 'normal':
                api.unreachable(o2.st, 'own-signature-verifies(%s)' % o2.val.cls.__name__)
            else:
                _reachable(o2.st, 'verify returns')
                api.oblige(o2.st, 'verify-returns-True', o2.val)


REG.note('C10', 'assumptions', 'round-trip lemmas assume a valid key pair: RsaPub(RsaPriv(n, d, m), e, n) == m for 0 <= m < n')


@scenario('pkcs1-sign-then-verify', ('C10',),
          doc='_raw_pkcs1_verify(_raw_pkcs1_sign(T), T) is True for every T with k >= |T| + 11 and every valid key '
              '(assumes RsaPub(RsaPriv(m)) == m)')
def _pkcs1_roundtrip(api):
    st = api.st
    key = api.make('key', rsa_key())
    Tb = api.make('T', T.bytes())
    ns0 = api.ns(st)
    n, e, d = ns0.f(key, 'n'), ns0.f(key, 'e'), ns0.f(key, 'd')
    st.assume(truthy(S.And(n > 1, d != 0, MC.numbytes(n) >= S.len_(Tb) + 11, VBool(ValidKey(n.t, e.t, d.t)))))
    _reachable(st, 'hypotheses')
    for o in api.call(RK + '_raw_pkcs1_sign', [key, Tb], st, inline=False):
        if o.kind != 'normal':
            api.unreachable(o.st, 'sign-does-not-raise(%s)' % o.val.cls.__name__)
            continue
        _reachable(o.st, 'sign returns')
        EM = emsa_pkcs1(MC.numbytes(n), Tb)
        sig_int = VInt(RsaPriv(n.t, d.t, MC.b2i(EM).t))
        api.oblige(o.st, 'rt1: OS2IP(EM) < n', MC.b2i(EM) < n)
        o.st.assume(truthy(S.And(MC.b2i(EM) < n, sig_int >= 0, sig_int < n)))      # residue range: trusted model of the raw operation
        for o2 in api.call(RK + '_raw_pkcs1_verify', [key, o.val, Tb], o.st, inline=False):
            if o2.kind != 'normal':
                api.unreachable(o2.st, 'verify-does-not-raise')
                continue
            _reachable(o2.st, 'verify returns')
            api.oblige(o2.st, 'verify-returns-True', o2.val)
