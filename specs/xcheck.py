"""Concrete differential harness (runs under /venv/bin/python, the interpreter of
the test-suite):  xcheck.py <spec-module> <check-name> <seed> <n>

Executes the real /repo function against the executable specification on
generated inputs.  Output: one JSON line
  {"evaluations": N, "distinct_nontrivial": M, "bound": "...", "failures": [...]}
This is the *bounded* stand-in and the counterexample replayer; it is never
counted as a discharged obligation.
"""
import importlib
import json
import random
import sys
import traceback


def main():
    modname, name, seed, n = sys.argv[1], sys.argv[2], int(sys.argv[3]), int(sys.argv[4])
    mod = importlib.import_module(modname)
    fn = mod.XCHECKS[name]
    rng = random.Random(seed)
    try:
        out = fn(rng, n)
    except Exception:
        out = {'error': traceback.format_exc()[-3000:]}
    print(json.dumps(out, default=repr))


if __name__ == '__main__':
    main()
