"""Locating the *real* source of functions under contract.

Functions are found by qualified name through the live module imported from
/repo's working tree (PYTHONPATH=/repo), then their AST is re-read from the
file on disk with `ast` -- so the verified text is the text that runs.  What
extraction drops: docstrings, comments and decorators listed in
DROPPED_DECORATORS (renaming shims).  Class-body `if sys.version_info ...`
alternatives are resolved by the running interpreter (the function object's
first line number selects the definition in force).
"""
import ast
import hashlib
import importlib
import inspect
import os
import sys

REPO = os.environ.get('VERIF_REPO', '/repo')
DROPPED_DECORATORS = ('deprecated_params', 'deprecated_attrs', 'deprecated_class_name',
                      'deprecated_method', 'deprecated_instance_attrs', 'staticmethod', 'classmethod',
                      'property')

_AST_CACHE = {}
_SRC_CACHE = {}


def module_ast(path):
    if path not in _AST_CACHE:
        with open(path) as f:
            src = f.read()
        _SRC_CACHE[path] = src
        _AST_CACHE[path] = ast.parse(src, filename=path)
    return _AST_CACHE[path]


class FuncSource(object):
    def __init__(self, qual, node, module, path, cls, src_segment):
        self.qual = qual            # 'tlslite/utils/codec.py:Writer.add'
        self.node = node            # ast.FunctionDef
        self.module = module        # live module object
        self.path = path
        self.cls = cls              # live class or None
        self.src = src_segment
        self.sha256 = hashlib.sha256(src_segment.encode()).hexdigest()
        self.is_generator = any(isinstance(n, (ast.Yield, ast.YieldFrom)) for n in _walk_own(node))

    def __repr__(self):
        return 'FuncSource(%s)' % self.qual


def _walk_own(fn):
    """Walk a function body without descending into nested defs/lambdas/classes."""
    stack = list(fn.body)
    while stack:
        n = stack.pop()
        yield n
        for c in ast.iter_child_nodes(n):
            if isinstance(c, (ast.FunctionDef, ast.AsyncFunctionDef, ast.Lambda, ast.ClassDef)):
                continue
            stack.append(c)


def _unwrap(obj):
    """Peel decorators that functools.wraps the real function."""
    seen = 0
    while hasattr(obj, '__wrapped__') and seen < 10:
        obj = obj.__wrapped__
        seen += 1
    return obj


def qual_of(fn_obj, owner=None):
    """Qualified name used as contract key for a live function object."""
    fn_obj = _unwrap(getattr(fn_obj, '__func__', fn_obj))
    code = getattr(fn_obj, '__code__', None)
    if code is None:
        return None
    path = code.co_filename
    if not path.startswith(REPO + '/'):
        return None
    rel = path[len(REPO) + 1:]
    return '%s:%s' % (rel, fn_obj.__qualname__)


_FS_CACHE = {}


def load(qual, fn_obj=None):
    """qual: 'tlslite/utils/constanttime.py:ct_lt_u32' or '...:Class.method'.
    fn_obj: the live function when the name alone is ambiguous (a property's setter
    shares its qualified name with the getter): its code object selects the definition."""
    if fn_obj is not None and getattr(_unwrap(fn_obj), '__code__', None) is not None:
        _code = _unwrap(fn_obj).__code__
        _first = _FS_CACHE.get(qual)
        if _first is None:
            _first = load(qual)
        if _first.node.lineno <= _code.co_firstlineno + len(_first.node.decorator_list) + 1 and \
                min([_first.node.lineno] + [d.lineno for d in _first.node.decorator_list]) <= _code.co_firstlineno \
                <= _first.node.lineno:
            return _first
        key = (qual, _code.co_firstlineno)
        if key in _FS_CACHE:
            return _FS_CACHE[key]
        tree = module_ast(_code.co_filename)
        for n in ast.walk(tree):
            if isinstance(n, ast.FunctionDef) and n.name == _code.co_name:
                first = min([n.lineno] + [d.lineno for d in n.decorator_list])
                if first <= _code.co_firstlineno <= n.lineno:
                    seg = ast.get_source_segment(_SRC_CACHE[_code.co_filename], n) or ''
                    fs = FuncSource(qual, n, _first.module, _code.co_filename, _first.cls, seg)
                    _FS_CACHE[key] = fs
                    return fs
        raise KeyError('no AST for %s (line %d)' % (qual, _code.co_firstlineno))
    if qual in _FS_CACHE:
        return _FS_CACHE[qual]
    rel, name = qual.split(':')
    modname = rel[:-3].replace('/', '.')
    if REPO not in sys.path:
        sys.path.insert(0, REPO)
    mod = importlib.import_module(modname)
    obj = mod
    cls = None
    parts = name.split('.')
    for i, p in enumerate(parts):
        if inspect.isclass(obj):
            cls = obj
            raw = None
            for k in obj.__mro__:
                if p in k.__dict__:
                    raw = k.__dict__[p]
                    break
            if raw is None:
                raise KeyError(qual)
            if isinstance(raw, (staticmethod, classmethod)):
                raw = raw.__func__
            if isinstance(raw, property):
                raw = raw.fget
            obj = raw
        else:
            obj = getattr(obj, p)
    fn = _unwrap(obj)
    code = fn.__code__
    path = code.co_filename
    tree = module_ast(path)
    target = None
    for n in ast.walk(tree):
        if isinstance(n, ast.FunctionDef) and n.name == parts[-1]:
            first = min([n.lineno] + [d.lineno for d in n.decorator_list])
            if first <= code.co_firstlineno <= n.lineno:
                target = n
                break
    if target is None:
        raise KeyError('no AST for %s (line %d)' % (qual, code.co_firstlineno))
    seg = ast.get_source_segment(_SRC_CACHE[path], target) or ''
    for d in target.decorator_list:
        dn = d.func if isinstance(d, ast.Call) else d
        dn = dn.attr if isinstance(dn, ast.Attribute) else getattr(dn, 'id', None)
        if dn not in DROPPED_DECORATORS:
            raise KeyError('%s: decorator %s not in the dropped list' % (qual, dn))
    fs = FuncSource(qual, target, mod, path, cls, seg)
    _FS_CACHE[qual] = fs
    return fs


def strip_docstring(body):
    if body and isinstance(body[0], ast.Expr) and isinstance(body[0].value, ast.Constant) \
            and isinstance(body[0].value.value, str):
        return body[1:]
    return body
