"""Contracts on tlslite/recordlayer.py (C01, C02, C12 caller side)."""
import z3

import tlslite.recordlayer as RL
from tlslite.errors import TLSBadRecordMAC, TLSDecryptionFailed

from pyvc.contract import contract, scenario, LoopSpec, REG
from pyvc.state import T
from pyvc import spec as S
from pyvc.values import VInt, VBool, VSeq, VNone, to_val
S.to_val = to_val
from pyvc.values import VStr as _VStr
S.VStr = _VStr
from pyvc.spec import OpenOk as _OpenOk, Open as _Open
S.OpenOk, S.Open = _OpenOk, _Open
from contracts.c12_cbc_check import spec_ok_vals

R = 'tlslite/recordlayer.py:'

VERSION = T.tuple(T.int(0, 255), T.int(0, 255))


def conn_state(mac=True, cipher='block', block_size=None):
    f = {'seqnum': T.int(0, (1 << 64) - 2), 'encryptThenMAC': T.bool(), 'fixedNonce': T.bytes()}
    f['macContext'] = T.mac() if mac else T.none()
    f['encContext'] = T.cipher(cipher, block_size=block_size) if cipher else T.none()
    return T.obj(RL.ConnectionState, **f)


def record_layer(read=None, write=None):
    f = {'_version': VERSION, '_tls13record': T.bool(), 'fixedIVBlock': T.bytes(),
         'send_record_limit': T.int(), 'client': T.bool()}
    if read is not None:
        f['_readState'] = read
    if write is not None:
        f['_writeState'] = write
    return T.obj(RL.RecordLayer, **f)


def tls10_12(v):
    return S.Or(v == (3, 0), v == (3, 1), v == (3, 2), v == (3, 3))


# --- ConnectionState.getSeqNumBytes -----------------------------------------
contract(R + 'ConnectionState.getSeqNumBytes',
         params={'self': T.obj(RL.ConnectionState, seqnum=T.int())},
         requires=lambda ns: (ns.f(ns.self, 'seqnum') >= 0) & (ns.f(ns.self, 'seqnum') < (1 << 64)),
         result=T.bytes(), modifies=[('self', 'seqnum')],
         ensures=lambda ns: S.And(ns.result == S.be(ns.old.f(ns.self, 'seqnum'), 8),
                                  ns.f(ns.self, 'seqnum') == ns.old.f(ns.self, 'seqnum') + 1,
                                  S.len_(ns.result) == 8, S.is_bytes(ns.result)),
         prop=('C01', 'C02'),
         doc='returns the 8-byte big-endian encoding of the old sequence number and increments it by exactly one')


# --- RecordLayer.addPadding -------------------------------------------------
def _bs(ns):
    return ns.f(ns.f(ns.f(ns.self, '_writeState'), 'encContext'), 'block_size')


contract(R + 'RecordLayer.addPadding',
         params={'self': record_layer(write=conn_state()), 'data': T.bytes()},
         requires=lambda ns: (_bs(ns) >= 1) & (_bs(ns) <= 256),
         result=T.bytes(),
         ensures=lambda ns: (lambda d, r, bs, L: (lambda p: S.And(
             r == S.cat(d, S.rep(p, p + 1)),          # data || (p+1) bytes of value p
             p >= 0, p < bs, (L + p + 1) % bs == 0))(bs - 1 - (L % bs)))(
                 ns.data, ns.result, _bs(ns.old), S.len_(ns.data)),
         prop=('C01', 'C12'),
         doc='pads to a multiple of the block size with p+1 bytes of value p, 0 <= p < block size; stripping p+1 bytes gives the input back')


# --- RecordLayer.calculateMAC -----------------------------------------------
def mac_input_tls(seq, ctype, version, data):
    """MAC input of RFC 5246 6.2.3.1"""
    n = S.len_(data)
    return S.cat(seq, S.byte(ctype), S.byte(version[0]), S.byte(version[1]), S.byte(n / 256), S.byte(n % 256), data)


def mac_input_ssl(seq, ctype, data):
    """MAC input of RFC 6101 5.2.3.1 (no version)"""
    n = S.len_(data)
    return S.cat(seq, S.byte(ctype), S.byte(n / 256), S.byte(n % 256), data)


contract(R + 'RecordLayer.calculateMAC',
         params={'self': record_layer(), 'mac': T.mac(), 'seqnumBytes': T.bytes(), 'contentType': T.int(),
                 'data': T.bytes()},
         requires=lambda ns: S.And(tls10_12(ns.f(ns.self, '_version')), ns.contentType >= 0, ns.contentType < 256,
                                   S.len_(ns.data) < 65536),
         result=T.bytes(), modifies=[('mac', 'fed')],
         ensures=lambda ns: S.And(
             S.ite(ns.f(ns.self, '_version') == (3, 0),
                   ns.result == S.mac_digest(ns.f(ns.mac, 'key'),
                                             S.cat(ns.old.f(ns.mac, 'fed'), mac_input_ssl(ns.seqnumBytes, ns.contentType, ns.data))),
                   ns.result == S.mac_digest(ns.f(ns.mac, 'key'),
                                             S.cat(ns.old.f(ns.mac, 'fed'), mac_input_tls(ns.seqnumBytes, ns.contentType,
                                                                                          ns.f(ns.self, '_version'), ns.data)))),
             S.len_(ns.result) == ns.f(ns.mac, 'digest_size')),
         prop=('C01', 'C02', 'C09'),
         doc='MAC over seq || type || [version] || u16(len) || data with the given keyed object')


# --- RecordLayer._decryptThenMAC (MAC-then-encrypt receive path, block ciphers)
def _rs(ns):
    return ns.f(ns.self, '_readState')


def _dtm_dec(ns):
    rs = _rs(ns)
    enc = ns.f(rs, 'encContext')
    return VSeq(S.Dec(S.to_val(ns.f(enc, 'key')), ns.f(enc, 'state').t, ns.data.t), 'byte')


def _dtm_cases(ns, fn):
    """fn(plain body) for the body after removal of the explicit IV (TLS >= 1.1)"""
    bs = ns.f(ns.f(_rs(ns), 'encContext'), 'block_size')
    d = _dtm_dec(ns)
    v = ns.f(ns.self, '_version')
    return S.ite(v >= (3, 2), fn(d[bs:]), fn(d))


def _dtm_ok(ns):
    rs = _rs(ns)
    mac = ns.f(rs, 'macContext')
    bs = ns.f(ns.f(rs, 'encContext'), 'block_size')
    return _dtm_cases(ns, lambda body: spec_ok_vals(body, ns.f(mac, 'key'), ns.f(mac, 'digest_size'),
                                                    S.be(ns.f(rs, 'seqnum'), 8), ns.recordType,
                                                    ns.f(ns.self, '_version'), bs))


def _dtm_requires(ns):
    rs = _rs(ns)
    mac = ns.f(rs, 'macContext')
    enc = ns.f(rs, 'encContext')
    return S.And(tls10_12(ns.f(ns.self, '_version')), ns.recordType >= 0, ns.recordType < 256,
                 S.len_(ns.data) < 65536,
                 ns.f(mac, 'digest_size') >= 1, ns.f(mac, 'digest_size') <= 64,
                 ns.f(mac, 'block_size') >= 1, ns.f(mac, 'block_size') <= 256,
                 ns.f(enc, 'block_size') >= 1, ns.f(enc, 'block_size') <= 256,
                 S.len_(ns.f(mac, 'fed')) == 0)


contract(R + 'RecordLayer._decryptThenMAC',
         params={'self': record_layer(read=conn_state(mac=True, cipher='block')), 'recordType': T.int(),
                 'data': T.bytes()},
         requires=_dtm_requires,
         result=T.bytes(),
         raises={TLSDecryptionFailed: ('iff', lambda ns: S.len_(ns.data) % ns.f(ns.f(_rs(ns), 'encContext'), 'block_size') != 0),
                 TLSBadRecordMAC: lambda ns: S.Not(_dtm_ok(ns))},
         ensures=lambda ns: (lambda ds: S.And(
             _dtm_ok(ns.old),
             _dtm_cases(ns.old, lambda d: S.seq_eq(ns.result, d[0:S.len_(d) - 1 - d[S.len_(d) - 1] - ds])),
             ns.f(_rs(ns), 'seqnum') == ns.old.f(_rs(ns.old), 'seqnum') + 1))(
                 ns.old.f(ns.old.f(_rs(ns.old), 'macContext'), 'digest_size')),
         prop=('C12', 'C02', 'C01'),
         doc='returns only bodies that satisfy the C12 specification under the receiver\'s own sequence number, key and '
             'cipher block size, stripped of exactly MAC+padding; otherwise TLSBadRecordMAC / TLSDecryptionFailed')


# ---------------------------------------------------------------------------
# round-trip lemmas: receiver.unprotect(sender.protect(type, data)) == data when both
# states hold the same keys, chaining state and sequence number (C01, O-rt-<path>)

def _pair(api, cipher_kind, mac=True):
    """sender S (write state) and receiver Rv (read state) with equal keys / state / seqnum / version"""
    st = api.st
    S_ = api.make('S', record_layer(write=conn_state(mac=mac, cipher=cipher_kind)))
    Rv = api.make('R', record_layer(read=conn_state(mac=mac, cipher=cipher_kind)))
    ns = api.ns(st)
    ws = ns.f(S_, '_writeState')
    rs = ns.f(Rv, '_readState')
    h = st.heap
    for f in ('seqnum', 'encryptThenMAC', 'fixedNonce'):
        h[(rs.oid, f)] = h[(ws.oid, f)]
    for ctx, fields in (('macContext', ('key', 'fed', 'digest_size', 'block_size')),
                        ('encContext', ('key', 'state', 'block_size', 'tagLength', 'nonceLength', 'isBlockCipher',
                                        'isAEAD', 'name'))):
        a, b = h.get((ws.oid, ctx)), h.get((rs.oid, ctx))
        if a is None or isinstance(a, VNone):
            continue
        for f in fields:
            h[(b.oid, f)] = h[(a.oid, f)]
    h[(Rv.oid, '_version')] = h[(S_.oid, '_version')]
    h[(Rv.oid, '_tls13record')] = h[(S_.oid, '_tls13record')]
    return S_, Rv, ws, rs


def _common_requires(api, S_, ws, data, ctype, need_iv=True):
    st = api.st
    ns = api.ns(st)
    mac = ns.f(ws, 'macContext')
    enc = ns.f(ws, 'encContext')
    st.assume(S.And(tls10_12(ns.f(S_, '_version')), ctype >= 0, ctype < 256, S.len_(data) < 16384 + 2048,
                    ns.f(mac, 'digest_size') >= 1, ns.f(mac, 'digest_size') <= 64,
                    ns.f(mac, 'block_size') >= 1, ns.f(mac, 'block_size') <= 256,
                    ns.f(enc, 'block_size') >= 1, ns.f(enc, 'block_size') <= 256,
                    S.len_(ns.f(mac, 'fed')) == 0,
                    S.len_(ns.f(S_, 'fixedIVBlock')) == ns.f(enc, 'block_size')))


@scenario('roundtrip-MtE-block', ('C01', 'C12'),
          doc='_decryptThenMAC(_macThenEncrypt(data)) == data for every version SSLv3..TLS1.2, block and digest size, '
              'payload length; both sequence numbers advance by one; cipher: Dec(k,s,Enc(k,s,x)) == x assumed')
def rt_mte_block(api):
    S_, Rv, ws, rs = _pair(api, 'block')
    data = api.make('data', T.bytes())
    ctype = api.make('ctype', T.int())
    _common_requires(api, S_, ws, data, ctype)
    st0 = api.st.fork()
    seq0 = api.ns(st0).f(ws, 'seqnum')
    for o in api.call(R + 'RecordLayer._macThenEncrypt', [S_, data, ctype], api.st):
        if o.kind != 'normal':
            api.unreachable(o.st, 'sender-does-not-raise(%s)' % getattr(o.val, 'origin', o.kind))
            continue
        wire = o.val
        for o2 in api.call(R + 'RecordLayer._decryptThenMAC', [Rv, ctype, wire], o.st):
            if o2.kind != 'normal':
                api.unreachable(o2.st, 'receiver-accepts(%s %s)' % (getattr(o2.val.cls, '__name__', '?'), o2.val.origin))
                continue
            ns = api.ns(o2.st)
            api.oblige(o2.st, 'plaintext-equal', S.seq_eq(o2.val, data))
            api.oblige(o2.st, 'seqnums-in-step', S.And(ns.f(ws, 'seqnum') == seq0 + 1, ns.f(rs, 'seqnum') == seq0 + 1))
            api.oblige(o2.st, 'chaining-state-in-step',
                       S.seq_eq(ns.f(ns.f(ws, 'encContext'), 'state'), ns.f(ns.f(rs, 'encContext'), 'state')))


# --- RecordLayer._tls13_de_pad (TLS 1.3 inner plaintext: content || type || zeros) ----------
from tlslite.errors import TLSUnexpectedMessage

contract(R + 'RecordLayer._tls13_de_pad',
         params={'data': T.bytes()},
         result=T.tuple(T.bytes(), T.int()),
         raises={TLSUnexpectedMessage: ('iff', lambda ns: S.forall(lambda k: ns.data[k] == 0, 0, S.len_(ns.data)))},
         ensures=lambda ns: (lambda d, body, t, n: S.And(
             t != 0, S.len_(body) < n, d[S.len_(body)] == t,                 # the last non-zero byte is the type
             S.forall(lambda k: d[k] == 0, S.len_(body) + 1, n),             # everything after it is zero padding
             body == d[0:S.len_(body)]))(ns.data, ns.result[0], ns.result[1], S.len_(ns.data)),
         loops={1: LoopSpec(lambda ns: S.forall(lambda k: ns.data[k] == 0, S.len_(ns.data) - ns.idx, S.len_(ns.data)),
                            fingerprint='reversed')},
         prop=('C01', 'C02'),
         doc='splits TLSInnerPlaintext into (content, type): type is the last non-zero byte; all-zero input is rejected')


# --- RecordLayer._macThenDecrypt (encrypt-then-MAC receive path, RFC 7366) ----------------
def _etm_parts(ns):
    rs = _rs(ns)
    mac = ns.f(rs, 'macContext')
    enc = ns.f(rs, 'encContext')
    ds = ns.f(mac, 'digest_size')
    n = S.len_(ns.buf)
    return rs, mac, enc, ds, n


def _etm_tag_ok(ns):
    """the last ds bytes are the MAC over seq||type||version||len||ciphertext under the receiver's key and counter"""
    rs, mac, enc, ds, n = _etm_parts(ns)
    ct = ns.buf[0:n - ds]
    v = ns.f(ns.self, '_version')
    seq = S.be(ns.f(rs, 'seqnum'), 8)
    want_tls = S.mac_digest(ns.f(mac, 'key'), S.cat(ns.f(mac, 'fed'), mac_input_tls(seq, ns.recordType, v, ct)))
    want_ssl = S.mac_digest(ns.f(mac, 'key'), S.cat(ns.f(mac, 'fed'), mac_input_ssl(seq, ns.recordType, ct)))
    return S.And(n >= ds, S.ite(v == (3, 0), ns.buf[n - ds:n] == want_ssl, ns.buf[n - ds:n] == want_tls))


def _etm_plain_cases(ns, fn):
    rs, mac, enc, ds, n = _etm_parts(ns)
    bs = ns.f(enc, 'block_size')
    d = VSeq(S.Dec(S.to_val(ns.f(enc, 'key')), ns.f(enc, 'state').t, ns.buf[0:n - ds].t), 'byte')
    v = ns.f(ns.self, '_version')
    return S.ite(v >= (3, 2), fn(d[bs:]), fn(d))


def _etm_pad_ok(ns):
    v = ns.f(ns.self, '_version')

    def ok(p):
        L = S.len_(p)
        pl = p[L - 1]
        return S.And(L >= 1, pl + 1 <= L,
                     S.Or(v == (3, 0), S.forall(lambda k: p[k] == pl, L - 1 - pl, L - 1)))
    return _etm_plain_cases(ns, ok)


contract(R + 'RecordLayer._macThenDecrypt',
         params={'self': record_layer(read=conn_state(mac=True, cipher='block')), 'recordType': T.int(),
                 'buf': T.bytes()},
         requires=lambda ns: (lambda rs, mac, enc, ds, n: S.And(
             tls10_12(ns.f(ns.self, '_version')), ns.recordType >= 0, ns.recordType < 256, n < 65536,
             ds >= 1, ds <= 64, ns.f(enc, 'block_size') >= 1, ns.f(enc, 'block_size') <= 256))(*_etm_parts(ns)),
         result=T.bytes(),
         raises={TLSBadRecordMAC: lambda ns: S.Or(S.Not(_etm_tag_ok(ns)), S.Not(_etm_pad_ok(ns))),
                 TLSDecryptionFailed: lambda ns: S.And(_etm_tag_ok(ns),
                                                       (S.len_(ns.buf) - _etm_parts(ns)[3]) % ns.f(_etm_parts(ns)[2], 'block_size') != 0)},
         ensures=lambda ns: S.And(
             _etm_tag_ok(ns.old), _etm_pad_ok(ns.old),
             _etm_plain_cases(ns.old, lambda p: ns.result == p[0:S.len_(p) - 1 - p[S.len_(p) - 1]]),
             ns.f(_rs(ns), 'seqnum') == ns.old.f(_rs(ns.old), 'seqnum') + 1),
         loops={1: LoopSpec(lambda ns: (lambda lo: S.iff(
             ns.paddingGood,      # stated over absolute positions of `buf` so that the quantifier triggers match the spec
             S.forall(lambda j: ns.buf[j] == ns.paddingLength, lo, lo + ns.idx)))(
                 S.len_(ns.buf) - ns.totalPaddingLength), fingerprint='paddingBytes')},
         prop=('C02', 'C01'),
         doc='EtM: accepted only if the trailing MAC over the ciphertext (receiver counter/key) matches in full and the '
             'padding is well formed; returns exactly the plaintext without padding')


@scenario('roundtrip-EtM-block', ('C01',),
          doc='_macThenDecrypt(_encryptThenMAC(data)) == data, all versions / sizes; sequence numbers and chaining state in step')
def rt_etm_block(api):
    S_, Rv, ws, rs = _pair(api, 'block')
    data = api.make('data', T.bytes())
    ctype = api.make('ctype', T.int())
    _common_requires(api, S_, ws, data, ctype)
    seq0 = api.ns(api.st).f(ws, 'seqnum')
    for o in api.call(R + 'RecordLayer._encryptThenMAC', [S_, data, ctype], api.st):
        if o.kind != 'normal':
            api.unreachable(o.st, 'sender-does-not-raise(%s)' % getattr(o.val, 'origin', o.kind))
            continue
        for o2 in api.call(R + 'RecordLayer._macThenDecrypt', [Rv, ctype, o.val], o.st, inline=False):
            if o2.kind != 'normal':
                api.unreachable(o2.st, 'receiver-accepts(%s %s)' % (getattr(o2.val.cls, '__name__', '?'), o2.val.origin))
                continue
            ns = api.ns(o2.st)
            api.oblige(o2.st, 'plaintext-equal', S.seq_eq(o2.val, data))
            api.oblige(o2.st, 'seqnums-in-step', S.And(ns.f(ws, 'seqnum') == seq0 + 1, ns.f(rs, 'seqnum') == seq0 + 1))
            api.oblige(o2.st, 'chaining-state-in-step',
                       S.seq_eq(ns.f(ns.f(ws, 'encContext'), 'state'), ns.f(ns.f(rs, 'encContext'), 'state')))


# --- stream / null cipher path ------------------------------------------------------------
@scenario('roundtrip-MtE-stream', ('C01', 'C02'),
          doc='_decryptStreamThenMAC(_macThenEncrypt(data)) == data for stream ciphers (RC4) with MAC')
def rt_stream(api):
    S_, Rv, ws, rs = _pair(api, 'stream')
    data = api.make('data', T.bytes())
    ctype = api.make('ctype', T.int())
    _common_requires(api, S_, ws, data, ctype)
    seq0 = api.ns(api.st).f(ws, 'seqnum')
    for o in api.call(R + 'RecordLayer._macThenEncrypt', [S_, data, ctype], api.st):
        if o.kind != 'normal':
            api.unreachable(o.st, 'sender-does-not-raise(%s)' % getattr(o.val, 'origin', o.kind))
            continue
        for o2 in api.call(R + 'RecordLayer._decryptStreamThenMAC', [Rv, ctype, o.val], o.st):
            if o2.kind != 'normal':
                api.unreachable(o2.st, 'receiver-accepts(%s %s)' % (getattr(o2.val.cls, '__name__', '?'), o2.val.origin))
                continue
            ns = api.ns(o2.st)
            api.oblige(o2.st, 'plaintext-equal', S.seq_eq(o2.val, data))
            api.oblige(o2.st, 'seqnums-in-step', S.And(ns.f(ws, 'seqnum') == seq0 + 1, ns.f(rs, 'seqnum') == seq0 + 1))


def _stream_tag_ok(ns, have_enc):
    rs = _rs(ns)
    mac = ns.f(rs, 'macContext')
    ds = ns.f(mac, 'digest_size')
    if have_enc:
        enc = ns.f(rs, 'encContext')
        d = VSeq(S.Dec(S.to_val(ns.f(enc, 'key')), ns.f(enc, 'state').t, ns.data.t), 'byte')
    else:
        d = ns.data
    n = S.len_(d)
    v = ns.f(ns.self, '_version')
    seq = S.be(ns.f(rs, 'seqnum'), 8)
    body = d[0:n - ds]
    want_tls = S.mac_digest(ns.f(mac, 'key'), S.cat(ns.f(mac, 'fed'), mac_input_tls(seq, ns.recordType, v, body)))
    want_ssl = S.mac_digest(ns.f(mac, 'key'), S.cat(ns.f(mac, 'fed'), mac_input_ssl(seq, ns.recordType, body)))
    return S.And(n >= ds, S.ite(v == (3, 0), d[n - ds:n] == want_ssl, d[n - ds:n] == want_tls)), body


for _vn, _have_enc in (('stream', True), ('null-cipher', False)):
    contract(R + 'RecordLayer._decryptStreamThenMAC', name='RecordLayer._decryptStreamThenMAC[%s]' % _vn,
             params={'self': record_layer(read=conn_state(mac=True, cipher='stream' if _have_enc else None)),
                     'recordType': T.int(), 'data': T.bytes()},
             requires=lambda ns: S.And(tls10_12(ns.f(ns.self, '_version')), ns.recordType >= 0, ns.recordType < 256,
                                       S.len_(ns.data) < 65536,
                                       ns.f(ns.f(_rs(ns), 'macContext'), 'digest_size') >= 1,
                                       ns.f(ns.f(_rs(ns), 'macContext'), 'digest_size') <= 64),
             result=T.bytes(),
             raises={TLSBadRecordMAC: (lambda he: lambda ns: S.Not(_stream_tag_ok(ns, he)[0]))(_have_enc)},
             ensures=(lambda he: lambda ns: S.And(_stream_tag_ok(ns.old, he)[0],
                                                  ns.result == _stream_tag_ok(ns.old, he)[1]))(_have_enc),
             prop=('C02', 'C01'),
             doc='stream/null cipher: accepted only if the trailing MAC over seq||type||version||len||data matches in full')


# --- AEAD path ------------------------------------------------------------------------------
import tlslite.messages as MSG


def _aead_pair(api, cname, nonce_len, tls13):
    S_, Rv, ws, rs = _pair(api, 'aead', mac=False)
    st = api.st
    ns = api.ns(st)
    for o in (ns.f(ws, 'encContext'), ns.f(rs, 'encContext')):
        st.heap[(o.oid, 'name')] = S.VStr(cname)
    enc = ns.f(ws, 'encContext')
    st.assume(S.And(S.len_(ns.f(ws, 'fixedNonce')) == nonce_len,
                    ns.f(enc, 'tagLength') >= 1, ns.f(enc, 'tagLength') <= 16,
                    ns.f(enc, 'nonceLength') == 12))
    if tls13:
        st.assume(S.And(ns.f(S_, '_version') == (3, 4), ns.f(S_, '_tls13record')))
    else:
        st.assume(ns.f(S_, '_version') == (3, 3))
    return S_, Rv, ws, rs


def _mk_aead_rt(name, cname, nonce_len, tls13):
    @scenario(name, ('C01', 'C02'),
              doc='_decryptAndUnseal(_encryptThenSeal(data)) == data: sender and receiver build the same nonce and '
                  'additional data from their own counters; AEAD: Open(k,n,Seal(k,n,p,a),a) == p assumed')
    def rt(api):
        S_, Rv, ws, rs = _aead_pair(api, cname, nonce_len, tls13)
        st = api.st
        data = api.make('data', T.bytes())
        # in TLS 1.3 sendRecord always passes application_data as the outer type
        ctype = VInt(23) if tls13 else api.make('ctype', T.int(0, 255))
        st.assume(S.len_(data) < 16384 + 256)
        # the record socket of the sender carries the wire version (3,3) in TLS 1.3 (set by _handle_tls13_record)
        rsock = api.make('rsock', T.obj(RL.RecordSocket, version=T.tuple(T.int(), T.int())))
        st.heap[(S_.oid, '_recordSocket')] = rsock
        st.assume(api.ns(st).f(rsock, 'version') == (3, 3))
        seq0 = api.ns(st).f(ws, 'seqnum')
        for o in api.call(R + 'RecordLayer._encryptThenSeal', [S_, data, ctype], st):
            if o.kind != 'normal':
                api.unreachable(o.st, 'sender-does-not-raise(%s)' % getattr(o.val, 'origin', o.kind))
                continue
            wire = o.val
            hdr = api.make('hdr', T.obj(MSG.RecordHeader3, type=T.int(), version=T.tuple(T.int(), T.int()),
                                        length=T.int()), o.st)
            nh = api.ns(o.st)
            # the header the receiver sees is the one the sender's record socket wrote
            o.st.assume(S.And(nh.f(hdr, 'type') == (23 if tls13 else ctype), nh.f(hdr, 'version') == (3, 3),
                              nh.f(hdr, 'length') == S.len_(wire)))
            for o2 in api.call(R + 'RecordLayer._decryptAndUnseal', [Rv, hdr, wire], o.st):
                if o2.kind != 'normal':
                    api.unreachable(o2.st, 'receiver-accepts(%s %s)' % (getattr(o2.val.cls, '__name__', '?'), o2.val.origin))
                    continue
                ns2 = api.ns(o2.st)
                api.oblige(o2.st, 'plaintext-equal', S.seq_eq(o2.val, data))
                api.oblige(o2.st, 'seqnums-in-step',
                           S.And(ns2.f(ws, 'seqnum') == seq0 + 1, ns2.f(rs, 'seqnum') == seq0 + 1))
    return rt


_mk_aead_rt('roundtrip-AEAD-aesgcm-tls12', 'aes128gcm', 4, False)
_mk_aead_rt('roundtrip-AEAD-chacha-tls12', 'chacha20-poly1305', 12, False)
_mk_aead_rt('roundtrip-AEAD-tls13', 'aes128gcm', 12, True)


for _p in ('C01', 'C02'):
    REG.note(_p, 'trusted', 'bulk cipher objects by assumed interface contract (pyvc/spec.py CipherModel): length-preserving, '
                            'Dec(k,s,Enc(k,s,p)) == p with chaining state in step; AEAD Open(k,n,Seal(k,n,p,a),a) == p, '
                            'open() returns None exactly when OpenOk is false (justified per implementation under C09)')
    REG.note(_p, 'trusted', 'HMAC / SSLv3-MAC objects: digest() = uninterpreted Hmac(key, bytes fed), length digest_size')
    REG.note(_p, 'trusted', 'pyvc engine encoding of Python semantics (ints as mathematical integers, bytearray as axiomatised '
                            'integer sequences, no aliasing between distinct bytearray values)')
    REG.note(_p, 'assumptions', 'sequence numbers < 2^64-1 (tlslite-ng has no rekey-on-wrap: caller obligation)')
    REG.note(_p, 'assumptions', 'fixedIVBlock has cipher block length (set by calcPendingStates)')
REG.note('C01', 'not_built', 'sendRecord TLS1.3 inner-plaintext framing and padding callback; the composition lemma over a whole connection '
                             '(two live endpoints); (_sendMsg fragmentation, readAsync buffer, calcPendingStates mirror, RecordSocket round trip '
                             'and the size caps are under contract in contracts/sendmsg.py, m2_posthandshake.py, transport.py, m2_server.py)')
REG.note('C01', 'assumptions', 'that a completed handshake leaves both ends with equal keys and sequence number 0 is C03/C04, not shown here')
REG.note('C02', 'not_built', 'TLS1.3 outer header exceptions in recvRecord; the byte budget of the early-data window (that it is closed after the first '
                             'delivered record is an obligation of recvRecord/delivery); epoch separation frame scan; (AEAD open() tag comparison: contracts/ciphers.py, partly thorough tier; '
                             '_getNextRecordFromSocket error->alert mapping: m2_getmsg.py)')
REG.note('C02', 'assumptions', 'step from "tag equals MAC/AEAD tag over (receiver counter, type, version, length, body) under the read key" to '
                               '"the peer sent exactly this record next" is MAC/AEAD unforgeability: assumed, not proved')


# --- RecordLayer._decryptAndUnseal: what an accepted AEAD record is bound to (C02) ------------
from tlslite.errors import TLSIllegalParameterException
from pyvc import smt as _smt


def _xor_seq(a, b):
    return VSeq(_smt.s_xor(a.t, b.t), 'byte')


def _aead_spec(ns, variant):
    """(nonce, aad, ciphertext) the RFCs prescribe for the receiver's NEXT record:
    both derived from the receiver's own sequence number."""
    rs = _rs(ns)
    seq = S.be(ns.f(rs, 'seqnum'), 8)
    fixed = ns.f(rs, 'fixedNonce')
    tl = ns.f(ns.f(rs, 'encContext'), 'tagLength')
    buf = ns.buf
    n = S.len_(buf)
    v = ns.f(ns.self, '_version')
    if variant == 'aesgcm12':          # RFC 5288: nonce = salt || explicit part carried in the record
        ct = buf[8:n]
        plen = n - 8 - tl
        nonce = S.cat(fixed, buf[0:8])
        aad = S.cat(seq, S.byte(ns.f(ns.header, 'type')), S.byte(v[0]), S.byte(v[1]), S.byte(plen / 256), S.byte(plen % 256))
    elif variant == 'chacha12':        # RFC 7905: nonce = (0^4 || seq) xor iv
        ct = buf
        plen = n - tl
        nonce = _xor_seq(S.cat(S.rep(0, 4), seq), fixed)
        aad = S.cat(seq, S.byte(ns.f(ns.header, 'type')), S.byte(v[0]), S.byte(v[1]), S.byte(plen / 256), S.byte(plen % 256))
    else:                              # RFC 8446 5.2/5.3: nonce = (0^4 || seq) xor iv, aad = record header
        ct = buf
        nonce = _xor_seq(S.cat(S.rep(0, 4), seq), fixed)
        aad = S.cat(S.byte(23), S.byte(3), S.byte(3), S.byte(n / 256), S.byte(n % 256))
    return nonce, aad, ct


def _aead_contract(variant, cname, nonce_len, tls13):
    def requires(ns):
        rs = _rs(ns)
        enc = ns.f(rs, 'encContext')
        base = [S.len_(ns.f(rs, 'fixedNonce')) == nonce_len, ns.f(enc, 'tagLength') >= 1, ns.f(enc, 'tagLength') <= 16,
                S.len_(ns.buf) < 65536, ns.f(ns.header, 'type') >= 0, ns.f(ns.header, 'type') < 256,
                ns.f(ns.header, 'length') >= 0, ns.f(ns.header, 'length') < 65536,
                ns.f(ns.header, 'version')[0] >= 0, ns.f(ns.header, 'version')[0] < 256,
                ns.f(ns.header, 'version')[1] >= 0, ns.f(ns.header, 'version')[1] < 256]
        if tls13:
            base += [ns.f(ns.self, '_version') == (3, 4), ns.f(ns.self, '_tls13record')]
        else:
            base += [ns.f(ns.self, '_version') == (3, 3)]
        return S.And(*base)

    def accepted(ns):
        rs = _rs(ns)
        enc = ns.f(rs, 'encContext')
        nonce, aad, ct = _aead_spec(ns, variant)
        k = S.to_val(ns.f(enc, 'key'))
        ok = VBool(S.OpenOk(k, nonce.t, ct.t, aad.t))
        pt = VSeq(S.Open(k, nonce.t, ct.t, aad.t), 'byte')
        extra = []
        if tls13:
            extra = [ns.f(ns.header, 'type') == 23, ns.f(ns.header, 'version') == (3, 3),
                     ns.f(ns.header, 'length') == S.len_(ns.buf)]
        if variant == 'aesgcm12':
            extra.append(S.len_(ns.buf) >= 8)
        extra.append(S.len_(ct) >= ns.f(enc, 'tagLength'))       # a ciphertext shorter than the tag is publicly invalid
        return S.And(ok, *extra), pt

    def params():
        rd = conn_state(mac=False, cipher='aead')
        rd.kw['fields']['encContext'] = T.cipher('aead', cname=cname)
        return {'self': record_layer(read=rd),
                'header': T.obj(MSG.RecordHeader3, type=T.int(), version=T.tuple(T.int(), T.int()), length=T.int()),
                'buf': T.bytes()}
    raises = {TLSBadRecordMAC: lambda ns: S.Not(accepted(ns)[0])}
    if tls13:
        raises[TLSUnexpectedMessage] = ('iff', lambda ns: ns.f(ns.header, 'type') != 23)
        raises[TLSIllegalParameterException] = lambda ns: ns.f(ns.header, 'version') != (3, 3)
    contract(R + 'RecordLayer._decryptAndUnseal', name='RecordLayer._decryptAndUnseal[%s]' % variant,
             params=params(), requires=requires, result=T.bytes(), raises=raises,
             ensures=lambda ns: S.And(accepted(ns.old)[0], ns.result == accepted(ns.old)[1],
                                      ns.f(_rs(ns), 'seqnum') == ns.old.f(_rs(ns.old), 'seqnum') + 1),
             prop=('C02',),
             doc='an AEAD record is returned only if open() succeeded under the nonce and additional data derived from the '
                 'RECEIVER\'s own sequence number (and, in TLS 1.3, the outer header is application_data/(3,3)/exact length)')


_aead_contract('aesgcm12', 'aes128gcm', 4, False)
_aead_contract('chacha12', 'chacha20-poly1305', 12, False)
_aead_contract('tls13', 'aes256gcm', 12, True)


# --- RecordLayer.calcPendingStates: key block slicing per role (C01 O-keys-mirror, C09) ------------------
from pyvc.executor import SpecFn, Outcome as _Outcome
from pyvc.values import VTuple, VPy, VOpaque, fresh_name
from pyvc.state import State as _State

MacKeyOf = S.uf('MacKeyOf', [_smt.Seq], _smt.Val)
CipherKeyOf = S.uf('CipherKeyOf', [_smt.Seq], _smt.Val)
KeyBlock = S.uf('KeyBlock', [_smt.Val, _smt.Val, _smt.I], _smt.Seq)


def _mk_create_mac(ex, args, kw, st, fr, node):
    o = S.make_mac('pendingMac', st)
    st.fresh_objs.add(o.oid)
    st.heap[(o.oid, 'key')] = VOpaque(MacKeyOf(args[0].t))
    return [_Outcome('normal', st, o)]


def _mk_create_cipher(kind):
    def f(ex, args, kw, st, fr, node):
        o = S.make_cipher('pendingCipher', st, kind)
        st.fresh_objs.add(o.oid)
        st.heap[(o.oid, 'key')] = VOpaque(CipherKeyOf(args[0].t))
        if kind != 'aead':
            st.heap[(o.oid, 'state')] = args[1]          # the IV is the initial chaining state
        return [_Outcome('normal', st, o)]
    return f


def _cps_setup(kind):
    """symbolic results of the parameter-table helpers (their tables are proved under C20): lengths are
    arbitrary non-negative ints, the factories build objects keyed by exactly the bytes they are given"""
    def setup(ex, st, ns):
        kl, il, ml = [VInt(z3.Int(fresh_name(n))) for n in ('keyLength', 'ivLength', 'macLength')]
        st.assume(S.And(kl >= 0, kl <= 64, il >= 0, il <= 64, ml >= 0, ml <= 64))
        st.ghost['kl'], st.ghost['il'], st.ghost['ml'] = kl, il, ml
        if kind == 'aead':
            st.assume(ml == 0)
        digestmod = VNone() if kind == 'aead' else VPy(object())
        cf = VNone() if kind == 'null' else VPy(SpecFn(_mk_create_cipher('aead' if kind == 'aead' else 'block'), 'createCipher'))
        ex.reg.external[R + 'RecordLayer._getCipherSettings'] = lambda ex, a, k, s, fr, n: [_Outcome('normal', s, VTuple([kl, il, cf]))]
        ex.reg.external[R + 'RecordLayer._getMacSettings'] = lambda ex, a, k, s, fr, n: [_Outcome('normal', s, VTuple([ml, digestmod]))]
        ex.reg.external[R + 'RecordLayer._getHMACMethod'] = lambda ex, a, k, s, fr, n: [_Outcome('normal', s, VPy(SpecFn(_mk_create_mac, 'createMAC')))]

        def calc_key(ex, a, k, s, fr, n):
            olen = k['output_length']
            kb = VSeq(KeyBlock(S.to_val(a[1]), S.to_val(k['client_random']), olen.t), 'byte')
            s.assume(z3.And(_smt.slen(kb.t) == olen.t, _smt.isb(kb.t)))
            s.ghost['keyBlock'] = kb
            return [_Outcome('normal', s, kb)]
        ex.reg.external['tlslite/mathtls.py:calc_key'] = calc_key
    return setup


def _cps_ensures(kind):
    def ens(ns):
        kb = ns.ghost('keyBlock')
        kl, il, ml = ns.ghost('kl'), ns.ghost('il'), ns.ghost('ml')
        w = ns.f(ns.self, '_pendingWriteState')
        r = ns.f(ns.self, '_pendingReadState')
        client = ns.old.f(ns.self, 'client')
        # RFC 5246 6.3: client_write_MAC_key, server_write_MAC_key, client_write_key, server_write_key, client_write_IV, server_write_IV
        cm, sm = kb[0:ml], kb[ml:2 * ml]
        ck, sk = kb[2 * ml:2 * ml + kl], kb[2 * ml + kl:2 * ml + 2 * kl]
        ci, si = kb[2 * ml + 2 * kl:2 * ml + 2 * kl + il], kb[2 * ml + 2 * kl + il:2 * ml + 2 * kl + 2 * il]

        def state_is(s, mk, k, iv):
            facts = []
            if kind != 'aead':
                facts.append(S.to_val(ns.f(ns.f(s, 'macContext'), 'key')) == MacKeyOf(mk.t))
            if kind != 'null':
                facts.append(S.to_val(ns.f(ns.f(s, 'encContext'), 'key')) == CipherKeyOf(k.t))
                if kind == 'aead':
                    facts.append(ns.f(s, 'fixedNonce') == iv)
                else:
                    facts.append(ns.f(ns.f(s, 'encContext'), 'state') == iv)
            facts.append(ns.f(s, 'seqnum') == 0)
            return S.And(*[VBool(f) if not hasattr(f, 't') else f for f in facts])
        return S.ite(client,
                     S.And(state_is(w, cm, ck, ci), state_is(r, sm, sk, si),
                           ns.f(w, 'encryptThenMAC') == ns.old.f(ns.old.f(ns.self, '_pendingWriteState'), 'encryptThenMAC')),
                     S.And(state_is(w, sm, sk, si), state_is(r, cm, ck, ci),
                           ns.f(r, 'encryptThenMAC') == ns.old.f(ns.old.f(ns.self, '_pendingReadState'), 'encryptThenMAC')))
    return ens


for _kind in ('block', 'null', 'aead'):
    contract(R + 'RecordLayer.calcPendingStates', name='RecordLayer.calcPendingStates[%s]' % _kind,
             params={'self': T.obj(RL.RecordLayer, _version=VERSION, client=T.bool(), _tls13record=T.bool(),
                                   _pendingWriteState=T.obj(RL.ConnectionState, encryptThenMAC=T.bool()),
                                   _pendingReadState=T.obj(RL.ConnectionState, encryptThenMAC=T.bool())),
                     'cipherSuite': T.int(), 'masterSecret': T.bytes(), 'clientRandom': T.bytes(),
                     'serverRandom': T.bytes(), 'implementations': T.opaque()},
             requires=lambda ns: tls10_12(ns.f(ns.self, '_version')),
             setup=_cps_setup(_kind), ensures=_cps_ensures(_kind), raises={},
             prop=('C01', 'C09'),
             doc='the key block is sliced in RFC 5246 6.3 order; the client writes with the client keys and reads with the '
                 'server keys, the server the other way round (so client-write == server-read and vice versa); sequence numbers start at 0')
