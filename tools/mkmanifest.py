#!/usr/bin/env python3
"""Regenerates MANIFEST.json from the table below (keeps it valid and in step with contracts/PROPS)."""
import json, os, sys
HERE = os.path.dirname(os.path.dirname(os.path.abspath(__file__)))
props = [json.loads(l) for l in open(os.path.join(HERE, 'properties.jsonl'))]
sys.path.insert(0, HERE)
from claims import CLAIMS, NOT_APPLICABLE
checks = []
for p in props:
    pid = p['id']
    if pid in CLAIMS:
        c = CLAIMS[pid]
        checks.append({
            'property_id': pid,
            'quick_cmd': './check %s --tier quick' % pid,
            'thorough_cmd': './check %s --tier thorough' % pid,
            'evidence_file': 'evidence/%s.json' % pid,
            'replay_cmd_template': './check %s --replay {path}' % pid,
            'engine': 'pyvc',
            'level_claimed': {'category': 'proof', 'text': c['text'], 'design_ref': c['design_ref']},
            'level_note': c['note'],
            'technique': c['technique'],
        })
na = []
for p in props:
    if p['id'] not in CLAIMS:
        na.append({'property_id': p['id'], 'reason': NOT_APPLICABLE.get(p['id'], 'contracts not written yet (build in progress)')})
m = {
    'version': 1,
    'setup_cmd': './setup.sh',
    'hooks': {'guard': 'TLSLITE_NG_VERIF',
              'enable': 'no hooks: all contracts are sidecar under /verif; /repo sources are re-read with ast on every run',
              'baseline_off_cmd': 'cd /repo && /venv/bin/python -m pytest -ra -q -p no:cacheprovider --timeout=900 --continue-on-collection-errors',
              'source_commits': [], 'add_only': True},
    'engines': [{'name': 'pyvc', 'path': 'pyvc/', 'serves_properties': sorted(CLAIMS),
                 'kind_free_text': 'AST->SMT verification-condition generator (symbolic executor with sidecar contracts, loop invariants, modular calls) over the real /repo sources; z3 5.1 first, cvc5 for z3 unknowns; concrete differential replay under /venv/bin/python'}],
    'checks': checks,
    'not_applicable': na,
    'notes': 'see DESIGN.md; known_findings.json lists fixed/known defects; baseline_obligations.json lists the obligations discharged on the pinned tree',
}
json.dump(m, open(os.path.join(HERE, 'MANIFEST.json'), 'w'), indent=1)
print('MANIFEST: %d checks, %d not applicable' % (len(checks), len(na)))
