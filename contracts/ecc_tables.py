"""C10/C19: the finite tables of tlslite/utils/ecc.py, decided by evaluating the REAL functions on their complete (finite) domain
against facts taken from the curve parameters themselves (python-ecdsa) and from RFC 8446 4.2.3 / RFC 8734:
  getPointByteSize(curve)        == ceil(bitlength(field prime) / 8)          (encoding length of a coordinate, SEC 1 2.3.5)
  curve_name_to_hash_name(name)  == the hash of the TLS 1.3 SignatureScheme bound to that curve
A wrong row makes the two ends of an ECDH exchange derive secrets of different length (C10) or makes compatible settings
fail to connect / sign with the wrong scheme (C19)."""
import ecdsa

from pyvc.asttask import AstTask
from pyvc.contract import REG
from tlslite.utils import ecc
from tlslite.errors import TLSIllegalParameterException

Q = 'tlslite/utils/ecc.py:'


class EccTables(AstTask):
    def run(self, reg, meta):
        curves = [ecdsa.NIST192p, ecdsa.NIST224p, ecdsa.NIST256p, ecdsa.NIST384p, ecdsa.NIST521p, ecdsa.SECP256k1,
                  ecdsa.BRAINPOOLP256r1, ecdsa.BRAINPOOLP384r1, ecdsa.BRAINPOOLP512r1]
        n = 0
        for c in curves:
            try:
                got = ecc.getPointByteSize(c)
            except KeyError:
                continue                         # a curve this installation's table does not list
            n += 1
            want = (c.curve.p().bit_length() + 7) // 8
            self.holds('getPointByteSize[%s]==ceil(field-bits/8)' % c.name, 'finite-table', got == want,
                       reason='table says %d, the field prime of %s has %d bits -> %d bytes' % (got, c.name, c.curve.p().bit_length(), want))
            self.holds('getPointByteSize[%s]==python-ecdsa-baselen' % c.name, 'finite-table', got == c.baselen,
                       reason='table says %d, python-ecdsa encodes coordinates of %s in %d bytes' % (got, c.name, c.baselen))
        self.holds('curves-covered', 'vacuity', n >= 7, reason='%d curves' % n)
        rfc = {'NIST256p': 'sha256', 'NIST384p': 'sha384', 'NIST521p': 'sha512',                      # RFC 8446 4.2.3
               'BRAINPOOLP256r1': 'sha256', 'BRAINPOOLP384r1': 'sha384', 'BRAINPOOLP512r1': 'sha512'}  # RFC 8734 3
        for name, h in sorted(rfc.items()):
            try:
                got = ecc.curve_name_to_hash_name(name)
            except Exception as e:
                got = 'raises %s' % type(e).__name__
            self.holds('curve_name_to_hash_name[%s]==%s' % (name, h), 'finite-table', got == h, reason='returns %r' % (got,))
        for name in ('NIST192p', 'NIST224p', 'SECP256k1', 'Ed25519', ''):
            try:
                got = ecc.curve_name_to_hash_name(name)
                ok = False
            except TLSIllegalParameterException:
                got, ok = 'TLSIllegalParameterException', True
            except Exception as e:
                got, ok = type(e).__name__, False
            self.holds('curve_name_to_hash_name[%r]-refused' % name, 'finite-table', ok, reason='gives %r' % (got,))


REG.add_task(EccTables('ecc-tables', ('C10', 'C19'), Q + 'getPointByteSize',
                       doc='finite tables of utils/ecc.py evaluated on their whole domain against the curve parameters and the RFC scheme table'))
REG.note('C10', 'trusted', 'ecc_tables: python-ecdsa curve parameters (field prime, baselen) are the oracle for coordinate lengths')
