import sys; sys.path.insert(0,'/repo')
from tlslite.constants import CipherSuite as C
from tlslite.recordlayer import RecordLayer
import re
def parse(name):
    d={}
    if name.startswith('SSL_CK') or 'SCSV' in name: return None
    if '_WITH_' in name:
        kxa,rest=name[4:].split('_WITH_')
    else:
        kxa='TLS13'; rest=name[4:]
    d['kxa']=kxa
    draft=rest.endswith('_draft_00')
    if draft: rest=rest[:-9]
    m=re.match(r'(.*?)_(MD5|SHA|SHA256|SHA384)$',rest)
    if m: ciph,h=m.group(1),m.group(2)
    else: ciph,h=rest,None   # CCM suites w/o hash, chacha draft
    d['cipher']=ciph; d['hash']=h; d['draft']=draft
    return d
lists={k:v for k,v in vars(C).items() if isinstance(v,list) and k.endswith('Suites')}
bad=[]
for cs,name in sorted(C.ietfNames.items()):
    d=parse(name)
    if d is None: continue
    inl={k for k,v in lists.items() if cs in v}
    ciph=d['cipher']
    exp_c={'AES_128_CBC':'aes128Suites','AES_256_CBC':'aes256Suites','3DES_EDE_CBC':'tripleDESSuites','RC4_128':'rc4Suites','NULL':'nullSuites',
           'AES_128_GCM':'aes128GcmSuites','AES_256_GCM':'aes256GcmSuites','AES_128_CCM':'aes128CcmSuites','AES_256_CCM':'aes256CcmSuites',
           'AES_128_CCM_8':'aes128Ccm_8Suites','AES_256_CCM_8':'aes256Ccm_8Suites','CHACHA20_POLY1305':'chacha20draft00Suites' if d['draft'] else 'chacha20Suites'}[ciph]
    cipher_lists={'aes128Suites','aes256Suites','tripleDESSuites','rc4Suites','nullSuites','aes128GcmSuites','aes256GcmSuites','aes128CcmSuites','aes256CcmSuites','aes128Ccm_8Suites','aes256Ccm_8Suites','chacha20Suites','chacha20draft00Suites'}
    got_c=inl & cipher_lists
    negotiable = bool(inl & {'tls12Suites','tls13Suites','ssl3Suites'})
    if got_c!={exp_c} and (negotiable or got_c): bad.append((hex(cs),name,'cipher',got_c,exp_c))
    aead = 'GCM' in ciph or 'CCM' in ciph or 'CHACHA' in ciph
    exp_m='aeadSuites' if aead else {'MD5':'md5Suites','SHA':'shaSuites','SHA256':'sha256Suites','SHA384':'sha384Suites'}[d['hash']]
    got_m=inl & {'aeadSuites','md5Suites','shaSuites','sha256Suites','sha384Suites'}
    if got_m!={exp_m} and (negotiable or got_m): bad.append((hex(cs),name,'mac',got_m,exp_m))
    exp_prf='sha384PrfSuites' if d['hash']=='SHA384' else 'sha256PrfSuites'
    got_p=inl & {'sha384PrfSuites','sha256PrfSuites'}
    if negotiable and got_p!={exp_prf}: bad.append((hex(cs),name,'prf',got_p,exp_prf))
    kx={'RSA':'certSuites','DHE_RSA':'dheCertSuites','ECDHE_RSA':'ecdheCertSuites','ECDHE_ECDSA':'ecdheEcdsaSuites','DHE_DSS':'dheDsaSuites','SRP_SHA':'srpSuites','SRP_SHA_RSA':'srpCertSuites','DH_ANON':'anonSuites','ECDH_ANON':'ecdhAnonSuites','TLS13':'tls13Suites'}.get(d['kxa'])
    kxl={'certSuites','dheCertSuites','ecdheCertSuites','ecdheEcdsaSuites','dheDsaSuites','srpSuites','srpCertSuites','anonSuites','ecdhAnonSuites','tls13Suites'}
    got_k=inl & kxl
    if (kx and got_k!={kx}) or (not kx and got_k): bad.append((hex(cs),name,'kx',got_k,kx))
    # version
    minv12 = aead or d['hash'] in ('SHA256','SHA384')
    got_v=inl & {'ssl3Suites','tls12Suites','tls13Suites'}
    exp_v={'tls13Suites'} if d['kxa']=='TLS13' else ({'tls12Suites'} if minv12 else {'ssl3Suites'})
    if negotiable and got_v!=exp_v: bad.append((hex(cs),name,'ver',got_v,exp_v))
    if negotiable:
        try:
            kl,il,f=RecordLayer._getCipherSettings(cs); ml,dm=RecordLayer._getMacSettings(cs)
            ekl={'AES_128':16,'AES_256':32,'3DES_EDE':24,'RC4_128':16,'NULL':0,'CHACHA20':32}[re.match(r'(AES_\d+|3DES_EDE|RC4_128|NULL|CHACHA20)',ciph).group(1)]
            if kl!=ekl: bad.append((hex(cs),name,'keylen',kl,ekl))
            eml=0 if aead else {'MD5':16,'SHA':20,'SHA256':32,'SHA384':48}[d['hash']]
            if ml!=eml: bad.append((hex(cs),name,'maclen',ml,eml))
        except AssertionError: bad.append((hex(cs),name,'settings AssertionError'))
print(len(bad))
for b in bad: print(b)
print(sorted(lists))
