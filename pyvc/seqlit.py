"""Comparison of a sequence with a *literal* sequence (a term built from s_empty / s_single(<int literal>) /
s_concat only, e.g. a bytes constant of the source).

In the intended model (finite integer sequences) equality with a literal is decided by the length and the
elements.  `literal_eq_fact(x, lit)` is that (sound) fact
        (x == lit)  <=>  slen(x) == n  and  x[0] == c0 and ... and x[n-1] == c(n-1)
which lets the solver tell different literals apart without instantiating the concat axioms on its own.
"""
import z3

from . import smt

MAX_LIT = 64


def literal_items(t, limit=MAX_LIT):
    """list of python ints if t is a literal sequence term (at most `limit` elements), else None"""
    out = []

    def rec(e):
        if len(out) > limit:
            return False
        if e.eq(smt.s_empty):
            return True
        if not z3.is_app(e):
            return False
        nm = e.decl().name()
        if nm == 's_single':
            v = z3.simplify(e.arg(0))
            if z3.is_int_value(v):
                out.append(v.as_long())
                return True
            return False
        if nm == 's_concat':
            return rec(e.arg(0)) and rec(e.arg(1))
        return False
    if rec(t) and len(out) <= limit:
        return out
    return None


def literal_eq_fact(x, y):
    """fact for x == y when exactly one side is a literal; None otherwise"""
    ly, lx = literal_items(y), literal_items(x)
    if ly is None and lx is None:
        return None
    if ly is not None and lx is not None:
        return (x == y) == z3.BoolVal(lx == ly)
    if ly is None:
        x, y, ly = y, x, lx
    ext = z3.And([smt.slen(x) == len(ly)] + [smt.sat(x, i) == c for i, c in enumerate(ly)])
    return (x == y) == ext
