"""Executable specification of the cipher-suite tables and filters (C20, C03)
on top of the IANA-name reading in specs/iana.py, and the concrete exhaustive
comparison with the real tlslite functions (bounded stand-in and
counterexample reporter; runs under /venv/bin/python, no z3).

The predicate tables below (LISTS, WRAPPERS, cert_allows, ...) are the single
source for both this concrete comparison and the symbolic contracts in
contracts/suites.py.
"""
import hashlib
import hmac as _hmac
import itertools

from specs import iana

SSL3, TLS10, TLS11, TLS12, TLS13 = iana.ALL_VERSIONS
VERSIONS = list(iana.ALL_VERSIONS)


def is_suite(x):
    return x.kind in ('tls', 'tls13')


def _c(cipher, bits=None, mode=None):
    return lambda x: is_suite(x) and x.cipher == cipher and (bits is None or x.key_bits == bits) and \
        (mode is None or x.mode == mode)


def _kx(*names):
    return lambda x: iana.kx_name(x) in names


# name -> (predicate on the parsed IANA name, scope, meaning).  The predicate of a list is fixed
# by how /repo uses the list, its truth by the IANA name.
#   scope 'neg': iff on the negotiable suites; on every other id membership implies the predicate
#                (a listed suite is never mis-classified; SCSVs / SSLv2 codes are in no list)
#   scope 'all': iff on every id of ietfNames (key-exchange dispatch lists: a suite whose key
#                exchange the library does not implement must not be dispatched at all)
LISTS = {
    # bulk cipher: _getCipherSettings (key/IV length, factory), canonicalCipherName, _filterSuites(cipherNames)
    'aes128Suites': (_c('AES', 128, 'CBC'), 'neg', 'AES-128-CBC', 'cipher'),
    'aes256Suites': (_c('AES', 256, 'CBC'), 'neg', 'AES-256-CBC', 'cipher'),
    'tripleDESSuites': (_c('3DES'), 'neg', '3DES-EDE-CBC', 'cipher'),
    'rc4Suites': (_c('RC4'), 'neg', 'RC4-128', 'cipher'),
    'nullSuites': (_c('NULL'), 'neg', 'no encryption', 'cipher'),
    'aes128GcmSuites': (_c('AES', 128, 'GCM'), 'neg', 'AES-128-GCM', 'cipher'),
    'aes256GcmSuites': (_c('AES', 256, 'GCM'), 'neg', 'AES-256-GCM', 'cipher'),
    'aes128CcmSuites': (_c('AES', 128, 'CCM'), 'neg', 'AES-128-CCM, 16-byte tag', 'cipher'),
    'aes128Ccm_8Suites': (_c('AES', 128, 'CCM_8'), 'neg', 'AES-128-CCM, 8-byte tag', 'cipher'),
    'aes256CcmSuites': (_c('AES', 256, 'CCM'), 'neg', 'AES-256-CCM, 16-byte tag', 'cipher'),
    'aes256Ccm_8Suites': (_c('AES', 256, 'CCM_8'), 'neg', 'AES-256-CCM, 8-byte tag', 'cipher'),
    'chacha20Suites': (lambda x: _c('CHACHA20')(x) and x.registered, 'neg',
                       'ChaCha20-Poly1305 (RFC 7905 / 8446 nonce)', 'cipher'),
    'chacha20draft00Suites': (lambda x: _c('CHACHA20')(x) and not x.registered, 'neg',
                              'ChaCha20-Poly1305, draft-00 code points', 'cipher'),
    # record protection construction: EtM negotiation (tlsconnection: not for stream / AEAD), _getMacSettings
    'streamSuites': (lambda x: is_suite(x) and x.ctype == 'stream', 'neg', 'stream construction (RC4, NULL)', 'cipher'),
    'aeadSuites': (lambda x: is_suite(x) and x.ctype == 'aead', 'neg', 'AEAD: no HMAC, macLength 0', 'mac'),
    # MAC: _getMacSettings (MAC key length, digest), canonicalMacName, _filterSuites(macNames)
    'shaSuites': (lambda x: is_suite(x) and x.mac == 'SHA', 'neg', 'HMAC-SHA1', 'mac'),
    'sha256Suites': (lambda x: is_suite(x) and x.mac == 'SHA256', 'neg', 'HMAC-SHA256', 'mac'),
    'sha384Suites': (lambda x: is_suite(x) and x.mac == 'SHA384', 'neg', 'HMAC-SHA384', 'mac'),
    'md5Suites': (lambda x: is_suite(x) and x.mac == 'MD5', 'neg', 'HMAC-MD5', 'mac'),
    # PRF / HKDF hash: calc_key, _getPRFParams, calcTLS1_3PendingState, filter_for_prfs
    'sha384PrfSuites': (lambda x: is_suite(x) and x.prf == 'SHA384', 'neg', 'P_SHA384 / HKDF-SHA384', 'prf'),
    'sha256PrfSuites': (lambda x: is_suite(x) and x.prf == 'SHA256' and iana.min_version(x) >= TLS12, 'neg',
                        'P_SHA256 / HKDF-SHA256, among the suites that exist only in TLS 1.2+ (used for PSK hash '
                        'compatibility in filter_for_prfs)', 'prf'),
    # versions: filterForVersion
    'ssl3Suites': (lambda x: is_suite(x) and SSL3 in x.versions, 'neg', 'defined from SSL 3.0 on (up to TLS 1.2)', 'version'),
    'tls12Suites': (lambda x: is_suite(x) and x.versions == (TLS12,), 'neg', 'defined in TLS 1.2 only', 'version'),
    'tls13Suites': (lambda x: x.kind == 'tls13', 'neg', 'defined in TLS 1.3 only', 'version'),
    # key exchange / authentication dispatch (tlsconnection, messages, keyexchange)
    'certSuites': (_kx('rsa'), 'all', 'RSA key transport', 'kx'),
    'dheCertSuites': (_kx('dhe_rsa'), 'all', 'DHE signed with RSA', 'kx'),
    'ecdheCertSuites': (_kx('ecdhe_rsa'), 'all', 'ECDHE signed with RSA', 'kx'),
    'ecdheEcdsaSuites': (_kx('ecdhe_ecdsa'), 'all', 'ECDHE signed with ECDSA', 'kx'),
    'dheDsaSuites': (_kx('dhe_dsa'), 'all', 'DHE signed with DSA', 'kx'),
    'srpSuites': (_kx('srp_sha'), 'all', 'SRP without certificate', 'kx'),
    'srpCertSuites': (_kx('srp_sha_rsa'), 'all', 'SRP signed with RSA', 'kx'),
    'srpDsaSuites': (lambda x: x.kx == 'SRP' and x.auth == 'DSS', 'all', 'SRP signed with DSS (not implemented)', 'kx'),
    'srpAllSuites': (lambda x: x.kx == 'SRP' and iana.negotiable(x), 'all', 'SRP key exchange (implemented ones)', 'kx'),
    'anonSuites': (_kx('dh_anon'), 'all', 'anonymous DHE', 'kx'),
    'ecdhAnonSuites': (_kx('ecdh_anon'), 'all', 'anonymous ECDHE', 'kx'),
    'certAllSuites': (lambda x: x.kind == 'tls' and x.auth == 'RSA' and iana.negotiable(x), 'all',
                      'server authenticates with an RSA certificate', 'kx'),
    'dhAllSuites': (lambda x: x.kind == 'tls' and x.kx == 'DHE' and iana.negotiable(x), 'all',
                    'ephemeral finite-field DH key exchange', 'kx'),
    'ecdhAllSuites': (lambda x: x.kind == 'tls' and x.kx == 'ECDHE' and iana.negotiable(x), 'all',
                      'ephemeral ECDH key exchange', 'kx'),
}
# SSLv2 code points are not IANA TLS suites and are never negotiated by the TLS handshake code
SSL2_LISTS = ('ssl2rc4', 'ssl2rc2', 'ssl2idea', 'ssl2des', 'ssl2_3des', 'ssl2export', 'ssl2_128Key', 'ssl2_64Key',
              'ssl2_192Key')
# the lists whose union is everything a get*Suites wrapper can return
OFFERED_BASES = ('srpSuites', 'srpCertSuites', 'tls13Suites', 'ecdheEcdsaSuites', 'ecdheCertSuites', 'dheCertSuites',
                 'certSuites', 'dheDsaSuites', 'ecdhAnonSuites', 'anonSuites')

# wrapper -> (what its name promises about the key exchange, the class list it must filter)
WRAPPERS = {
    'getTLS13Suites': (lambda x: x.kind == 'tls13', 'tls13Suites'),
    'getSrpSuites': (_kx('srp_sha'), 'srpSuites'),
    'getSrpCertSuites': (_kx('srp_sha_rsa'), 'srpCertSuites'),
    'getSrpDsaSuites': (lambda x: x.kx == 'SRP' and x.auth == 'DSS', 'srpDsaSuites'),
    'getSrpAllSuites': (lambda x: x.kx == 'SRP' and iana.negotiable(x), 'srpAllSuites'),
    'getCertSuites': (_kx('rsa'), 'certSuites'),
    'getDheCertSuites': (_kx('dhe_rsa'), 'dheCertSuites'),
    'getEcdheCertSuites': (_kx('ecdhe_rsa'), 'ecdheCertSuites'),
    'getEcdsaSuites': (_kx('ecdhe_ecdsa'), 'ecdheEcdsaSuites'),
    'getDheDsaSuites': (_kx('dhe_dsa'), 'dheDsaSuites'),
    'getAnonSuites': (_kx('dh_anon'), 'anonSuites'),
    'getEcdhAnonSuites': (_kx('ecdh_anon'), 'ecdhAnonSuites'),
}
CERT_ALGS = (None, 'rsa', 'rsa-pss', 'ecdsa', 'Ed25519', 'Ed448', 'dsa', 'mldsa44')


def cert_allows(alg, x):
    """may suite x be used by a server whose only credential is a certificate with a key of type alg?"""
    if x.kind == 'tls13':
        return True                       # the certificate type is negotiated separately in TLS 1.3
    if not iana.negotiable(x):
        return False
    if alg is None:
        return x.auth in ('anon', 'SRP')  # nothing to authenticate with
    if alg == 'rsa':
        return x.auth == 'RSA'
    if alg == 'rsa-pss':
        return x.auth == 'RSA' and x.kx != 'RSA'     # an RSA-PSS key signs but cannot decrypt (RFC 8446 4.2.3, RFC 4055)
    if alg in ('ecdsa', 'Ed25519', 'Ed448'):
        return x.auth == 'ECDSA'          # RFC 8422 5.10: EdDSA certificates with the ECDHE_ECDSA suites
    if alg == 'dsa':
        return x.auth == 'DSS'
    return False


def settings_allow(x, mac_names, cipher_names, kx_names, version):
    """within the policy: MAC, cipher and key exchange (by IANA name) enabled and some
    version <= `version` defines the suite"""
    if not is_suite(x):
        return False
    return iana.mac_name(x) in mac_names and iana.cipher_name(x) in cipher_names and \
        (x.kind == 'tls13' or iana.kx_name(x) in kx_names) and iana.min_version(x) <= tuple(version)


def versions_allow(x, lo, hi):
    return is_suite(x) and any(tuple(lo) <= v <= tuple(hi) for v in x.versions)


def prfs_allow(x, prfs):
    want = set('sha256' if p is None else p for p in prfs)      # RFC 8446 4.2.11: a PSK without a hash uses SHA-256
    return is_suite(x) and iana.prf_name(x) in want


# ---------------------------------------------------------------------------
# failure classes (ids that known_findings.json can name)

def failure_class(check, sid, aspect):
    if sid in (0x00a3, 0x00a5) and aspect == 'mac':
        return 'sha384suites-contains-aead-%02x' % sid
    if sid in (0x0040, 0x006a) and aspect in ('mac', 'version', 'prf'):
        return 'sha256suites-misses-dhe-dss-%02x' % sid
    return 'suite-table-mismatch:%s:%s:0x%04x' % (check, aspect, sid)


def _fail(check, sid, aspect, what, **inp):
    from tlslite.constants import CipherSuite as CS
    d = {'class': failure_class(check, sid, aspect), 'what': what,
         'input': dict(inp, suite='0x%04x' % sid, name=CS.ietfNames.get(sid))}
    return d


def _result(evals, distinct, bound, failures, rule):
    return {'evaluations': evals, 'distinct_nontrivial': distinct, 'bound': bound, 'rule': rule,
            'failures': failures[:40], 'failures_total': len(failures)}


def _table():
    from tlslite.constants import CipherSuite as CS
    return CS, iana.table(CS.ietfNames)


# ---------------------------------------------------------------------------

def x_lists(rng, n, only=None):
    CS, info = _table()
    fails, evals = [], 0
    for name in sorted(LISTS):
        if only and name not in only:
            continue
        pred, scope, meaning, aspect = LISTS[name]
        live = getattr(CS, name)
        for e in live:
            if e not in info:
                fails.append(_fail('lists', e, aspect, '%s contains an id without a name' % name, list=name))
        for sid, x in sorted(info.items()):
            evals += 1
            m, p = sid in live, bool(pred(x))
            exact = scope == 'all' or iana.negotiable(x)
            if (exact and m != p) or (not exact and m and not p):
                fails.append(_fail('lists', sid, aspect,
                                   '0x%04x %s is %sin CipherSuite.%s but its IANA name %s "%s"'
                                   % (sid, x.name, '' if m else 'not ', name, 'does not mean' if m else 'means', meaning),
                                   list=name, member=m, predicate=p))
    live_lists = sorted(k for k, v in vars(CS).items() if isinstance(v, list))
    for k in live_lists:
        if k not in LISTS and k not in SSL2_LISTS and not only:
            fails.append({'class': 'suite-list-without-predicate:' + k, 'what': 'no predicate for CipherSuite.' + k,
                          'input': {'list': k}})
    return _result(evals, evals, 'exhaustive: every id of ietfNames x every classification list', fails,
                   's in list <=> predicate(iana(s)) (negotiable ids; elsewhere membership => predicate)')


def _x_one_list(name):
    return lambda rng, n: x_lists(rng, n, only=(name,))


def x_canonicalMacName(rng, n):
    CS, info = _table()
    fails = []
    for sid, x in sorted(info.items()):
        got, exp = CS.canonicalMacName(sid), iana.hmac_name(x)
        if got != exp and (iana.negotiable(x) or got is not None):
            fails.append(_fail('canonicalMacName', sid, 'mac', 'canonicalMacName(0x%04x)=%r, IANA name %s says %r'
                               % (sid, got, x.name, exp), got=got, expected=exp))
    return _result(len(info), len(info), 'exhaustive: every id of ietfNames', fails, 'canonicalMacName == HMAC hash of the name')


def x_canonicalCipherName(rng, n):
    CS, info = _table()
    fails = []
    for sid, x in sorted(info.items()):
        got, exp = CS.canonicalCipherName(sid), iana.cipher_name(x)
        if got != exp:
            fails.append(_fail('canonicalCipherName', sid, 'cipher', 'canonicalCipherName(0x%04x)=%r, IANA name %s says %r'
                               % (sid, got, x.name, exp), got=got, expected=exp))
    return _result(len(info), len(info), 'exhaustive: every id of ietfNames', fails, 'canonicalCipherName == cipher of the name')


def x_getCipherSettings(rng, n):
    from tlslite.recordlayer import RecordLayer
    CS, info = _table()
    fails, evals = [], 0
    for sid, x in sorted(info.items()):
        if not is_suite(x):
            continue
        evals += 1
        try:
            kl, il, f = RecordLayer._getCipherSettings(sid)
        except AssertionError:
            fails.append(_fail('_getCipherSettings', sid, 'cipher', '_getCipherSettings(0x%04x %s) raises AssertionError' % (sid, x.name)))
            continue
        exp = (x.key_len, x.iv_len if x.kind == 'tls' else il, iana.factory_name(x))
        got = (kl, il, getattr(f, '__name__', None))
        if got != exp:
            fails.append(_fail('_getCipherSettings', sid, 'cipher', '_getCipherSettings(0x%04x %s)=%r, name says %r'
                               % (sid, x.name, got, exp), got=got, expected=exp))
    return _result(evals, evals, 'exhaustive: every TLS suite id', fails, '(key length, key-block IV length, factory) == table')


def x_getMacSettings(rng, n):
    from tlslite.recordlayer import RecordLayer
    CS, info = _table()
    fails, evals = [], 0
    names = {'openssl_sha1': 'SHA', 'openssl_sha256': 'SHA256', 'openssl_sha384': 'SHA384', 'openssl_md5': 'MD5', 'md5': 'MD5'}
    for sid, x in sorted(info.items()):
        if not iana.negotiable(x):
            continue
        evals += 1
        try:
            ml, dm = RecordLayer._getMacSettings(sid)
        except AssertionError:
            fails.append(_fail('_getMacSettings', sid, 'mac', '_getMacSettings(0x%04x %s) raises AssertionError' % (sid, x.name)))
            continue
        dig = None if dm is None else {16: 'MD5', 20: 'SHA', 32: 'SHA256', 48: 'SHA384'}.get(dm(b'').digest_size)
        if (ml, dig) != (x.mac_len, x.mac):
            fails.append(_fail('_getMacSettings', sid, 'mac', '_getMacSettings(0x%04x %s)=(%r, %r), name says (%r, %r)'
                               % (sid, x.name, ml, dig, x.mac_len, x.mac)))
    return _result(evals, evals, 'exhaustive: every negotiable suite id', fails, '(MAC length, digest) == table')


# --- independent PRFs (RFC 5246 5, RFC 2246 5, RFC 6101 6.1 / 6.2.2)
def _p_hash(h, secret, seed, n):
    out, a = b'', seed
    while len(out) < n:
        a = _hmac.new(secret, a, h).digest()
        out += _hmac.new(secret, a + seed, h).digest()
    return out[:n]


def _prf10(secret, label, seed, n):
    half = (len(secret) + 1) // 2
    a = _p_hash(hashlib.md5, secret[:half], label + seed, n)
    b = _p_hash(hashlib.sha1, secret[len(secret) - half:], label + seed, n)
    return bytes(x ^ y for x, y in zip(a, b))


def _prf_ssl3(secret, seed, n):
    out, i = b'', 0
    while len(out) < n:
        i += 1
        salt = bytes([ord('A') + i - 1]) * i
        out += hashlib.md5(secret + hashlib.sha1(salt + secret + seed).digest()).digest()
    return out[:n]


def ref_calc_key(version, secret, x, label, cr, sr, n):
    seed = sr + cr if label == b'key expansion' else cr + sr
    if version == SSL3:
        return _prf_ssl3(secret, seed, n)
    if version in (TLS10, TLS11):
        return _prf10(secret, label, seed, n)
    h = hashlib.sha384 if x.prf == 'SHA384' else hashlib.sha256
    return _p_hash(h, secret, label + seed, n)


def x_prf(rng, n):
    from tlslite.tlsconnection import TLSConnection
    CS, info = _table()
    fails, evals = [], 0
    for sid, x in sorted(info.items()):
        if not is_suite(x):
            continue
        evals += 1
        got, exp = TLSConnection._getPRFParams(sid), (iana.prf_name(x), x.prf_len)
        if tuple(got) != exp:
            fails.append(_fail('_getPRFParams', sid, 'prf', '_getPRFParams(0x%04x %s)=%r, name says %r' % (sid, x.name, got, exp)))
    return _result(evals, evals, 'exhaustive: every TLS suite id', fails, '(hash, size) == PRF/HKDF hash of the name')


def x_calc_key(rng, n):
    from tlslite.mathtls import calc_key
    CS, info = _table()
    fails, evals = [], 0
    secret = bytes(rng.randrange(256) for _ in range(48))
    cr = bytes(rng.randrange(256) for _ in range(32))
    sr = bytes(rng.randrange(256) for _ in range(32))
    for sid, x in sorted(info.items()):
        if not iana.negotiable(x) or x.kind != 'tls':
            continue
        for v in x.versions:
            for label, ln in ((b'master secret', 48), (b'key expansion', 2 * (x.mac_len + x.key_len + x.iv_len))):
                evals += 1
                got = bytes(calc_key(v, bytearray(secret), sid, label, client_random=bytearray(cr),
                                     server_random=bytearray(sr), output_length=ln))
                exp = ref_calc_key(v, secret, x, label, cr, sr, ln)
                if got != exp:
                    fails.append(_fail('calc_key', sid, 'prf', 'calc_key(%r, 0x%04x %s, %r) differs from the PRF the name '
                                       'prescribes (%s)' % (v, sid, x.name, label, x.prf), version=list(v), label=label.decode()))
    return _result(evals, evals, 'exhaustive: every negotiable <=1.2 suite x every version defining it x {master secret, key expansion}; one random secret', fails,
                   'calc_key == independently implemented SSLv3 KDF / TLS 1.0 PRF / P_SHA256 / P_SHA384')


# --- filters
def _settings(mac, ciph, kx, maxv=TLS13):
    from tlslite.handshakesettings import HandshakeSettings
    s = HandshakeSettings()
    s.macNames, s.cipherNames, s.keyExchangeNames, s.maxVersion = list(mac), list(ciph), list(kx), maxv
    return s


def _name_configs(rng, n):
    from tlslite import handshakesettings as HS
    M, C, K = HS.ALL_MAC_NAMES, HS.ALL_CIPHER_NAMES, HS.KEY_EXCHANGE_NAMES
    for m, c, k in itertools.product(M, C, K):
        yield [m], [c], [k]
    yield list(M), list(C), list(K)
    yield [], list(C), list(K)
    for _ in range(n):
        yield ([w for w in M if rng.random() < 0.5], [w for w in C if rng.random() < 0.5],
               [w for w in K if rng.random() < 0.5])


def _aspect_of(sid):
    return 'mac' if sid in (0xa3, 0xa5, 0x40, 0x6a) else 'filter'


def _compare_filter(check, fails, got, expected_ids, candidates, info, ctx):
    gs = set(got)
    for sid in candidates:
        a, b = sid in gs, sid in expected_ids
        if a != b:
            fails.append(_fail(check, sid, _aspect_of(sid),
                               '%s %s 0x%04x %s although the settings %s it' % (check, 'returns' if a else 'drops', sid,
                                                                              info[sid].name, 'exclude' if a else 'allow'), **ctx))
    pos = [candidates.index(x) for x in got if x in candidates]
    if pos != sorted(pos) or len(set(got)) != len(got) and len(set(candidates)) == len(candidates):
        fails.append({'class': 'filter-order:' + check, 'what': '%s does not preserve the input order' % check, 'input': ctx})
    for x in got:
        if x not in candidates:
            fails.append({'class': 'filter-invents:' + check, 'what': '%s returns 0x%04x which is not in its input' % (check, x),
                          'input': ctx})


def x_filterSuites(rng, n):
    CS, info = _table()
    ids = sorted(info)
    rng.shuffle(ids)
    fails, evals, distinct = [], 0, set()
    for mac, ciph, kx in _name_configs(rng, n):
        for v in VERSIONS:
            evals += 1
            got = CS._filterSuites(ids, _settings(mac, ciph, kx), v)
            distinct.add(tuple(got))
            exp = set(s for s in ids if settings_allow(info[s], mac, ciph, kx, v))
            _compare_filter('_filterSuites', fails, got, exp, ids, info,
                            {'macNames': mac, 'cipherNames': ciph, 'keyExchangeNames': kx, 'version': list(v)})
    return _result(evals, len(distinct), 'exhaustive: every (mac word, cipher word, kx word) singleton x 5 versions x all ids, '
                   'plus the full and an empty configuration and n random subsets', fails,
                   's in result <=> s in input and MAC/cipher/kx of the IANA name enabled and min version <= version; input order kept')


def _x_wrapper(w):
    def run(rng, n):
        CS, info = _table()
        pred, listname = WRAPPERS[w]
        ids = sorted(info)
        fails, evals, distinct = [], 0, set()
        for mac, ciph, kx in _name_configs(rng, max(10, n // 10)):
            for v in VERSIONS + [None]:
                evals += 1
                st = _settings(mac, ciph, kx, maxv=TLS12 if v is None else TLS13)
                got = getattr(CS, w)(st, v)
                distinct.add(tuple(got))
                vv = st.maxVersion if v is None else v
                exp = set(s for s in ids if pred(info[s]) and settings_allow(info[s], mac, ciph, kx, vv))
                ctx = {'macNames': mac, 'cipherNames': ciph, 'keyExchangeNames': kx, 'version': None if v is None else list(v)}
                gs = set(got)
                for sid in ids:
                    a, b = sid in gs, sid in exp
                    if a != b:
                        if w == 'getSrpDsaSuites':
                            cls = 'getsrpdsasuites-filters-srpcertsuites'
                            fails.append({'class': cls, 'what': 'getSrpDsaSuites returns 0x%04x %s (SRP with RSA authentication), '
                                          'it filters srpCertSuites instead of srpDsaSuites' % (sid, info[sid].name),
                                          'input': dict(ctx, suite='0x%04x' % sid)})
                        else:
                            fails.append(_fail(w, sid, _aspect_of(sid), '%s %s 0x%04x %s although the settings %s it'
                                               % (w, 'returns' if a else 'drops', sid, info[sid].name,
                                                  'exclude' if a else 'allow'), **ctx))
                live = list(getattr(CS, listname))
                pos = [live.index(x) for x in got if x in live]
                if pos != sorted(pos) and w != 'getSrpDsaSuites':
                    fails.append({'class': 'filter-order:' + w, 'what': 'order of CipherSuite.%s not kept' % listname, 'input': ctx})
        return _result(evals, len(distinct), 'exhaustive: every word singleton x (5 versions + default) x all ids, plus random subsets',
                       fails, 's in result <=> key exchange of the name is the wrapper\'s and the settings allow s')
    return run


def x_filterForVersion(rng, n):
    CS, info = _table()
    ids = sorted(info) + [0x0a0a, 0xffff]
    rng.shuffle(ids)
    fails, evals, distinct = [], 0, set()
    for lo in VERSIONS:
        for hi in VERSIONS:
            if lo > hi:
                continue
            evals += 1
            got = CS.filterForVersion(ids, lo, hi)
            distinct.add(tuple(got))
            exp = set(s for s in ids if s in info and versions_allow(info[s], lo, hi) and iana.negotiable(info[s]))
            may = set(s for s in ids if s in info and versions_allow(info[s], lo, hi))
            gs = set(got)
            for sid in ids:
                if (sid in exp and sid not in gs) or (sid in gs and sid not in may):
                    nm = info[sid].name if sid in info else '?'
                    fails.append(_fail('filterForVersion', sid, 'version' if sid in (0x40, 0x6a) else 'filter',
                                       'filterForVersion(%r..%r) %s 0x%04x %s' % (lo, hi, 'keeps' if sid in gs else 'drops', sid, nm),
                                       minVersion=list(lo), maxVersion=list(hi)))
            pos = [ids.index(x) for x in got]
            if pos != sorted(pos):
                fails.append({'class': 'filter-order:filterForVersion', 'what': 'input order not kept', 'input': {}})
    return _result(evals, len(distinct), 'exhaustive: all 15 (min <= max) version pairs x all ids (+2 unknown ids)', fails,
                   's in result <=> s in input and some version in [min, max] defines s; input order kept')


class _Cert(object):
    def __init__(self, alg):
        self.certAlg = alg


class _Chain(object):
    def __init__(self, alg):
        self.x509List = [_Cert(alg)]


def x_filter_for_certificate(rng, n):
    CS, info = _table()
    ids = sorted(info)
    rng.shuffle(ids)
    fails, evals, distinct = [], 0, set()
    for alg in CERT_ALGS:
        evals += 1
        got = CS.filter_for_certificate(ids, None if alg is None else _Chain(alg))
        distinct.add(tuple(got))
        exp = set(s for s in ids if cert_allows(alg, info[s]))
        _compare_filter('filter_for_certificate', fails, got, exp, ids, info, {'certAlg': alg})
    return _result(evals, len(distinct), 'exhaustive: 8 certificate key types (incl. none) x all ids', fails,
                   's in result <=> the authentication of the IANA name can be provided by that key type (TLS 1.3 suites always)')


def x_filter_for_prfs(rng, n):
    CS, info = _table()
    ids = sorted(info)
    rng.shuffle(ids)
    fails, evals, distinct = [], 0, set()
    for k in range(4):
        for prfs in itertools.combinations([None, 'sha256', 'sha384'], k):
            evals += 1
            got = CS.filter_for_prfs(ids, list(prfs))
            distinct.add(tuple(got))
            gs = set(got)
            for sid in ids:
                x = info[sid]
                ok = prfs_allow(x, prfs)
                must = ok and iana.negotiable(x) and iana.min_version(x) >= TLS12
                if (sid in gs and not ok) or (must and sid not in gs):
                    fails.append(_fail('filter_for_prfs', sid, 'prf', 'filter_for_prfs(%r) %s 0x%04x %s' %
                                       (list(prfs), 'keeps' if sid in gs else 'drops', sid, x.name), prfs=list(prfs)))
            pos = [ids.index(x) for x in got]
            if pos != sorted(pos):
                fails.append({'class': 'filter-order:filter_for_prfs', 'what': 'input order not kept', 'input': {}})
    return _result(evals, len(distinct), 'exhaustive: 8 subsets of {None, sha256, sha384} x all ids', fails,
                   's in result => PRF hash of the name in prfs; converse on the TLS 1.2-only and TLS 1.3 suites')


def x_factories(rng, n):
    """the constructor chosen for a suite builds the cipher the name says (python implementations)"""
    from tlslite import recordlayer as RL
    CS, info = _table()
    fails, evals, seen = [], 0, set()
    for sid, x in sorted(info.items()):
        if not iana.negotiable(x):
            continue
        fname = iana.factory_name(x)
        if fname is None:
            continue
        key = bytearray(rng.randrange(256) for _ in range(x.key_len))
        f = getattr(RL, fname)
        sig = (fname, x.key_len)
        if sig in seen:
            continue
        seen.add(sig)
        evals += 1
        try:
            if x.ctype == 'aead':
                c = f(key, ['python'])
                pt = bytearray(b'0123456789abcdefXYZ')
                ct = c.seal(bytearray(12), pt, bytearray(b'aad'))
                facts = {'isAEAD': c.isAEAD, 'tagLength': c.tagLength, 'overhead': len(ct) - len(pt), 'nonceLength': c.nonceLength,
                         'name': c.name, 'roundtrip': c.open(bytearray(12), ct, bytearray(b'aad')) == pt}
                exp = {'isAEAD': True, 'tagLength': x.tag_len, 'overhead': x.tag_len, 'nonceLength': 12,
                       'name': iana.cipher_name(x).replace('_draft00', ''), 'roundtrip': True}
            else:
                c = f(key, bytearray(x.iv_len), ['python'])
                pt = bytearray(48)
                ct = c.encrypt(pt)
                facts = {'isAEAD': c.isAEAD, 'isBlockCipher': c.isBlockCipher, 'len': len(ct), 'name': c.name,
                         'block_size': getattr(c, 'block_size', 0) if c.isBlockCipher else 0}
                exp = {'isAEAD': False, 'isBlockCipher': x.ctype == 'block', 'len': 48, 'name': iana.cipher_name(x),
                       'block_size': x.block_size}
        except Exception as e:          # noqa
            fails.append(_fail('factories', sid, 'cipher', '%s(key of %d bytes) raised %r' % (fname, x.key_len, e)))
            continue
        if facts != exp:
            fails.append(_fail('factories', sid, 'cipher', '%s(key of %d bytes) builds %r, the name %s needs %r'
                               % (fname, x.key_len, facts, x.name, exp)))
    return _result(evals, evals, 'every (factory, key length) pair reachable from a negotiable suite, python implementation', fails,
                   'factory(key) has the construction, tag length, block size and canonical name of the IANA cipher')


XCHECKS = {
    'lists': x_lists,
    'canonicalMacName': x_canonicalMacName,
    'canonicalCipherName': x_canonicalCipherName,
    '_getCipherSettings': x_getCipherSettings,
    '_getMacSettings': x_getMacSettings,
    'prf': x_prf,
    'calc_key': x_calc_key,
    'filterForVersion': x_filterForVersion,
    '_filterSuites': x_filterSuites,
    'filter_for_certificate': x_filter_for_certificate,
    'filter_for_prfs': x_filter_for_prfs,
    'factories': x_factories,
}
for _w in WRAPPERS:
    XCHECKS[_w] = _x_wrapper(_w)
for _l in LISTS:
    XCHECKS['list:' + _l] = _x_one_list(_l)
