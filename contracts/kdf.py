"""C09 -- key derivation: contracts on tlslite/mathtls.py (P_hash, PRF*, PRF_SSL, calc_key and
the helpers it replaces, MAC_SSL, createHMAC/createMAC_SSL), tlslite/utils/cryptomath.py
(secureHash, secureHMAC, HKDF_expand, HKDF_expand_label, derive_secret),
tlslite/utils/tlshmac.py (fallback HMAC class) and HandshakeHashes.digestSSL.

Hash functions and HMAC are uninterpreted:
    Hash(alg, data)                 the digest of `data` under hash `alg`
    Hmac(HmacKey(alg, key), data)   HMAC-alg keyed with `key` over `data`
    HashLen(alg), BlockLen(alg)     output / block size (>= 1; the standard values for md5..sha512)
The specifications are the RFC formulas written over these functions (RFC 5246 5, RFC 2246 5,
RFC 6101 5.2.3.1/5.6.9/6.1, RFC 5869 2.3, RFC 8446 7.1, RFC 2104 2, RFC 7627 4).
"""
import hashlib as _py_hashlib
import hmac as _py_hmac

import z3

import tlslite.mathtls as MT
import tlslite.handshakehashes as HH
import tlslite.utils.cryptomath as CM
import tlslite.utils.tlshashlib as TLH
import tlslite.utils.tlshmac as TLHMAC
from tlslite.constants import CipherSuite

from pyvc import smt, builtins_model
from pyvc.smt import Seq, Val, slen, sat, isb
from pyvc.contract import contract, scenario, LoopSpec, REG
from pyvc.state import T
from pyvc import spec as S
from pyvc.values import (VInt, VBool, VSeq, VNone, VStr, VObj, VPy, VOpaque, VTuple, VList, Unsupported,
                         to_val, truthy, fresh_name, _lift)
from pyvc.executor import Outcome, SpecFn, lift_py

PROP = 'C09'
M = 'tlslite/mathtls.py:'
C = 'tlslite/utils/cryptomath.py:'
HHQ = 'tlslite/handshakehashes.py:'

if not hasattr(VInt, '__truediv__'):
    VInt.__truediv__ = lambda self, o: VInt(self.t / (o.t if hasattr(o, 't') else o))

# ---------------------------------------------------------------------------
# uninterpreted primitives

Hash = S.uf('Hash', [Val, Seq], Seq, seq_ext=[1])
HmacKey = S.uf('HmacKey', [Val, Seq], Val, seq_ext=[1])
HashLen = S.uf('HashLen', [Val], smt.I)
BlockLen = S.uf('BlockLen', [Val], smt.I)
Hmac = S.Hmac

# recursively defined specification functions
#   phA(k, seed, i)   = A(i) of RFC 5246 section 5:  A(0) = seed, A(i) = HMAC(k, A(i-1))
#   hkT(k, info, i)   = T(i) of RFC 5869 section 2.3: T(0) = empty, T(i) = HMAC(k, T(i-1) | info | i)
phA = S.uf('phA', [Val, Seq, smt.I], Seq, seq_ext=[1])
hkT = S.uf('hkT', [Val, Seq, smt.I], Seq, seq_ext=[1])

ALGS = {'md5': (16, 64), 'sha1': (20, 64), 'sha224': (28, 64), 'sha256': (32, 64), 'sha384': (48, 128),
        'sha512': (64, 128)}


def algv(a):
    """z3 Val naming a hash algorithm (python str, VStr or opaque symbolic name)."""
    if isinstance(a, str):
        a = VStr(a)
    return to_val(a)


def _kdf_axioms():
    a, k = z3.Consts('kd_a kd_k', Val)
    x, s, info = z3.Consts('kd_x kd_s kd_info', Seq)
    i, j = z3.Ints('kd_i kd_j')
    A = []
    A.append(z3.ForAll([a], HashLen(a) >= 1, patterns=[HashLen(a)]))
    A.append(z3.ForAll([a], BlockLen(a) >= 1, patterns=[BlockLen(a)]))
    for name, (ds, bs) in ALGS.items():
        A.append(HashLen(algv(name)) == ds)
        A.append(BlockLen(algv(name)) == bs)
    A.append(z3.ForAll([a, x], z3.And(slen(Hash(a, x)) == HashLen(a), isb(Hash(a, x))), patterns=[Hash(a, x)]))
    A.append(z3.ForAll([a, s, x], z3.And(slen(Hmac(HmacKey(a, s), x)) == HashLen(a), isb(Hmac(HmacKey(a, s), x))),
                       patterns=[Hmac(HmacKey(a, s), x)]))
    # definitions (well-founded recursion on i >= 0)
    A.append(z3.ForAll([k, s, i], z3.Implies(i == 0, phA(k, s, i) == s), patterns=[phA(k, s, i)]))
    A.append(z3.ForAll([k, s, i], z3.Implies(i >= 0, phA(k, s, i + 1) == Hmac(k, phA(k, s, i))),
                       patterns=[Hmac(k, phA(k, s, i))]))
    A.append(z3.ForAll([k, info, i], z3.Implies(i == 0, hkT(k, info, i) == smt.s_empty), patterns=[hkT(k, info, i)]))
    A.append(z3.ForAll([k, info, i, j],
                       z3.Implies(z3.And(i >= 0, j == i + 1),
                                  hkT(k, info, j) == Hmac(k, smt.s_concat(smt.s_concat(hkT(k, info, i), info),
                                                                          smt.s_single(j)))),
                       patterns=[Hmac(k, smt.s_concat(smt.s_concat(hkT(k, info, i), info), smt.s_single(j)))]))
    return A


_KDF_AX = _kdf_axioms()
smt.AXIOMS.extend(_KDF_AX)


def consistency_witnesses():
    k = z3.Const('kdw_k', Val)
    s = z3.Const('kdw_s', Seq)
    big = smt.s_single(z3.IntVal(300))
    md5 = algv('md5')
    ts = [Hash(md5, big), Hmac(HmacKey(md5, big), big), phA(k, s, z3.IntVal(0)), Hmac(k, phA(k, s, z3.IntVal(0))),
          hkT(k, s, z3.IntVal(0)),
          Hmac(k, smt.s_concat(smt.s_concat(hkT(k, s, z3.IntVal(0)), s), smt.s_single(z3.IntVal(1)))),
          Hmac(k, phA(k, s, z3.IntVal(1)))]
    return [slen(t) >= 0 for t in ts] + [HashLen(md5) + BlockLen(algv('sha384')) > 0]


smt.axioms_consistency_selftest(S.consistency_witnesses() + consistency_witnesses())


# spec-side constructors ------------------------------------------------------

def H(alg, data):
    """digest of `data` under hash `alg`"""
    return VSeq(Hash(algv(alg), data.t), 'byte', 'bytes')


def hkey(alg, key):
    return VOpaque(HmacKey(algv(alg), key.t))


def HM(alg, key, data):
    """HMAC-alg(key, data)   (RFC 2104, uninterpreted here)"""
    return VSeq(Hmac(HmacKey(algv(alg), key.t), data.t), 'byte', 'bytes')


def hlen(alg):
    return VInt(HashLen(algv(alg)))


def blen(alg):
    return VInt(BlockLen(algv(alg)))


def bytes_(b):
    """literal byte string"""
    return lift_py(bytes(b))


# ---------------------------------------------------------------------------
# executor models: hash objects (hashlib.*) and HMAC objects (hmac.HMAC / hmac.new)

class HashModel(object):
    """hashlib object: fields alg, fed, digest_size, block_size; copy() forks, update() appends,
    digest() = Hash(alg, fed) (does not change the object)."""

    def getattr(self, ex, v, name, st):
        if name in ('copy', 'update', 'digest'):
            return VPy(SpecFn(getattr(self, 'm_' + name)(v), name))
        if name == 'name':
            return st.heap[(v.oid, 'alg')]
        return None

    def m_copy(self, v):
        def f(ex, args, kw, st, fr, node):
            o = st.alloc('Hash')
            for fld in ('alg', 'fed', 'digest_size', 'block_size'):
                st.heap[(o.oid, fld)] = st.heap[(v.oid, fld)]
            return [Outcome('normal', st, o)]
        return f

    def m_update(self, v):
        def f(ex, args, kw, st, fr, node):
            d = args[0]
            if not isinstance(d, VSeq) or d.elem != 'byte':
                raise Unsupported('hash.update(%r)' % (d,))
            fed = st.heap[(v.oid, 'fed')]
            st.heap[(v.oid, 'fed')] = _append(fed, d)
            return [Outcome('normal', st, VNone())]
        return f

    def m_digest(self, v):
        def f(ex, args, kw, st, fr, node):
            alg = st.heap[(v.oid, 'alg')]
            fed = st.heap[(v.oid, 'fed')]
            ds = st.heap[(v.oid, 'digest_size')]
            r = H(alg, fed)
            st.assume(z3.And(slen(r.t) == ds.t, isb(r.t)))
            return [Outcome('normal', st, r)]
        return f


def _append(fed, d):
    """fed || d; the empty prefix is dropped (empty || d and d are the same byte string)."""
    if fed.t.eq(smt.s_empty):
        return VSeq(d.t, 'byte', 'bytes')
    return VSeq(smt.s_concat(fed.t, d.t), 'byte', 'bytes')


REG.models['Hash'] = HashModel()


def _sizes(alg):
    """(digest_size, block_size) of a hash: literal for the known names, HashLen/BlockLen terms otherwise"""
    if isinstance(alg, VStr) and alg.s in ALGS:
        return VInt(ALGS[alg.s][0]), VInt(ALGS[alg.s][1])
    return hlen(alg), blen(alg)


def make_hash(st, alg, fed=None, fresh=True):
    o = st.alloc('Hash')
    if not fresh:
        st.fresh_objs.discard(o.oid)
    st.heap[(o.oid, 'alg')] = alg
    st.heap[(o.oid, 'fed')] = fed if fed is not None else VSeq(smt.s_empty, 'byte', 'bytes')
    ds, bs = _sizes(alg)
    st.heap[(o.oid, 'digest_size')] = ds
    st.heap[(o.oid, 'block_size')] = bs
    st.assume(z3.And(HashLen(algv(alg)) == ds.t, BlockLen(algv(alg)) == bs.t, ds.t >= 1, bs.t >= 1))
    return o


class KMacModel(S.MacModel):
    """hmac.HMAC object created by the modelled constructor: MacModel with key = HmacKey(alg, key bytes)."""

    def m_update(self, v):
        def f(ex, args, kw, st, fr, node):
            d = args[0]
            if not isinstance(d, VSeq) or d.elem != 'byte':
                raise Unsupported('hmac.update(%r)' % (d,))
            st.heap[(v.oid, 'fed')] = _append(st.heap[(v.oid, 'fed')], d)
            return [Outcome('normal', st, VNone())]
        return f

    def m_copy(self, v):
        def f(ex, args, kw, st, fr, node):
            o = st.alloc('KMac')
            for fld in ('key', 'fed', 'digest_size', 'block_size'):
                st.heap[(o.oid, fld)] = st.heap[(v.oid, fld)]
            return [Outcome('normal', st, o)]
        return f


REG.models['KMac'] = KMacModel()

_CTOR_ALG = {}
for _n in ALGS:
    _CTOR_ALG[id(getattr(_py_hashlib, _n))] = _n
_CTOR_ALG[id(TLH.md5)] = 'md5'


def _alg_of(x, st):
    """Algorithm designated by a digestmod / name argument."""
    if isinstance(x, VStr):
        if x.s not in ALGS:
            raise Unsupported('hash algorithm %r' % x.s)
        return x
    if isinstance(x, VOpaque):
        return x
    if isinstance(x, VPy) and id(x.obj) in _CTOR_ALG:
        return VStr(_CTOR_ALG[id(x.obj)])
    if isinstance(x, VObj) and x.cls == 'Hash':
        return st.heap[(x.oid, 'alg')]
    raise Unsupported('digestmod %r' % (x,))


def _hash_ctor(name):
    def f(ex, args, kw, st, fr, node):
        if kw and set(kw) - {'usedforsecurity'}:
            raise Unsupported('hash constructor keywords %r' % (sorted(kw),))
        data = args[0] if args else None
        if data is not None and not (isinstance(data, VSeq) and data.elem == 'byte'):
            raise Unsupported('hash constructor data %r' % (data,))
        o = make_hash(st, VStr(name), None if data is None else VSeq(data.t, 'byte', 'bytes'))
        return [Outcome('normal', st, o)]
    return f


def _hash_new(ex, args, kw, st, fr, node):
    alg = _alg_of(args[0], st)
    data = args[1] if len(args) > 1 else None
    if data is not None and not (isinstance(data, VSeq) and data.elem == 'byte'):
        raise Unsupported('hashlib.new data %r' % (data,))
    o = make_hash(st, alg, None if data is None else VSeq(data.t, 'byte', 'bytes'))
    return [Outcome('normal', st, o)]


for _n in ALGS:
    builtins_model.model(getattr(_py_hashlib, _n))(_hash_ctor(_n))
builtins_model.model(_py_hashlib.new)(_hash_new)
REG.external['tlslite/utils/tlshashlib.py:md5'] = _hash_ctor('md5')
REG.external['tlslite/utils/tlshashlib.py:new'] = _hash_new


def _hmac_new(ex, args, kw, st, fr, node):
    """hmac.HMAC(key, msg=None, digestmod) / hmac.new(key, msg=None, digestmod)"""
    names = ['key', 'msg', 'digestmod']
    a = dict(zip(names, args))
    a.update(kw)
    key, msg, dm = a.get('key'), a.get('msg', VNone()), a.get('digestmod')
    if not (isinstance(key, VSeq) and key.elem == 'byte') or dm is None:
        raise Unsupported('hmac constructor arguments %r' % (a,))
    alg = _alg_of(dm, st)
    if isinstance(dm, VObj) and not st.heap[(dm.oid, 'fed')].t.eq(smt.s_empty):
        raise Unsupported('hmac with a pre-fed template hash')
    o = st.alloc('KMac')
    st.heap[(o.oid, 'key')] = hkey(alg, key)
    fed = VSeq(smt.s_empty, 'byte', 'bytes')
    if isinstance(msg, VSeq):
        fed = VSeq(msg.t, 'byte', 'bytes')
    elif not isinstance(msg, VNone):
        raise Unsupported('hmac msg %r' % (msg,))
    st.heap[(o.oid, 'fed')] = fed
    ds, bs = _sizes(alg)
    st.heap[(o.oid, 'digest_size')] = ds
    st.heap[(o.oid, 'block_size')] = bs
    st.assume(z3.And(HashLen(algv(alg)) == ds.t, BlockLen(algv(alg)) == bs.t, ds.t >= 1, bs.t >= 1))
    return [Outcome('normal', st, o)]


if TLHMAC.HMAC is _py_hmac.HMAC:
    builtins_model.model(_py_hmac.HMAC)(_hmac_new)
    builtins_model.model(_py_hmac.new)(_hmac_new)

# parameter types: hash object with a given (or symbolic) algorithm; arbitrary live python object
_prev_make = T.make


def _make_kdf(self, name, st, bv=None):
    if self.kind == 'hash':
        alg = self.kw.get('alg')
        algval = VStr(alg) if isinstance(alg, str) else VOpaque(z3.Const(fresh_name(name + '.alg'), Val))
        fed = VSeq(z3.Const(fresh_name(name + '.fed'), Seq), 'byte', 'bytes')
        st.assume(isb(fed.t))
        return make_hash(st, algval, fed, fresh=False)
    if self.kind == 'py':
        return lift_py(self.kw['value'])
    return _prev_make(self, name, st, bv)


T.make = _make_kdf
T.hash = staticmethod(lambda alg=None: T('hash', alg=alg))
T.py = staticmethod(lambda value: T('py', value=value))

REG.note(PROP, 'trusted', 'hash functions are uninterpreted: Hash(alg, data) with len == HashLen(alg) >= 1, all bytes; hashlib '
         'objects modelled as (alg, bytes fed): copy() forks, update() appends, digest() == Hash(alg, fed) and leaves the object unchanged')
REG.note(PROP, 'trusted', 'stdlib hmac.HMAC / hmac.new (what tlslite.utils.tlshmac exports on this interpreter) modelled as a keyed '
         'object with key == HmacKey(alg, key bytes), digest() == Hmac(key, fed), len == HashLen(alg); HMAC itself uninterpreted '
         '(the fallback class in tlshmac.py is verified against RFC 2104 separately)')
REG.note(PROP, 'trusted', 'HashLen/BlockLen of md5, sha1, sha224, sha256, sha384, sha512 are 16/64, 20/64, 28/64, 32/64, 48/128, 64/128')
REG.note(PROP, 'trusted', 'definitional axioms of the recursive specification functions phA (RFC 5246 A(i)) and hkT (RFC 5869 T(i)); '
         'axiom set checked for consistency on every run')


# ---------------------------------------------------------------------------
# secureHash / secureHMAC / MD5 / SHA1

contract(C + 'secureHash',
         params={'data': T.bytes(), 'algorithm': T.opaque()},
         result=T.bytes(),
         ensures=lambda ns: S.And(ns.result == H(ns.algorithm, ns.data),
                                  S.len_(ns.result) == hlen(ns.algorithm), S.is_bytes(ns.result)),
         raises={}, prop=PROP,
         doc='secureHash(data, alg) == Hash_alg(data), for every algorithm name and input')

HMAC_ALGS = ('md5', 'sha1', 'sha256', 'sha384')     # the algorithms the library passes to secureHMAC / HKDF

contract(C + 'secureHMAC',
         variants={a: {'k': T.bytes(), 'b': T.bytes(), 'algorithm': T.const(a)} for a in ALGS},
         result=T.bytes(),
         ensures=lambda ns: S.And(ns.result == HM(ns.algorithm, ns.k, ns.b),
                                  S.len_(ns.result) == hlen(ns.algorithm), S.is_bytes(ns.result)),
         raises={}, prop=PROP,
         doc='secureHMAC(k, b, alg) == HMAC-alg(k, b) for every key and message')


# ---------------------------------------------------------------------------
# P_hash  (RFC 5246 section 5 / RFC 2246 section 5)
#   A(0) = seed, A(i) = HMAC(secret, A(i-1))
#   P_hash(secret, seed) = HMAC(secret, A(1) + seed) + HMAC(secret, A(2) + seed) + ...
# every block has HashLen bytes, so byte p of the stream is byte p % HashLen of block p / HashLen + 1.

def phash_byte(alg, secret, seed, p, ds=None):
    k = HmacKey(algv(alg), secret.t)
    ds = hlen(alg) if ds is None else _lift(ds)
    p = _lift(p)
    blk = Hmac(k, smt.s_concat(phA(k, seed.t, (p / ds).t + 1), seed.t))
    return VInt(sat(blk, (p % ds).t))


def is_phash(out, alg, secret, seed, length, ds=None):
    """out == first `length` bytes of P_alg(secret, seed)"""
    return S.And(S.len_(out) == length, S.is_bytes(out),
                 S.forall(lambda p: out[p] == phash_byte(alg, secret, seed, p, ds), 0, length))


def inv_phash(ns):
    alg, ds = ns.mac_name, ns.f(ns.mac, 'digest_size')
    k = HmacKey(algv(alg), ns.secret.t)
    idx = ns.index
    return S.And(idx >= 0, idx <= ns.length, S.len_(ns.ret) == ns.length,
                 S.Or(idx == ns.length, idx % ds == 0),
                 S.implies(idx < ns.length, VBool(ns.A.t == phA(k, ns.seed.t, (idx / ds).t))),
                 S.forall(lambda p: ns.ret[p] == phash_byte(alg, ns.secret, ns.seed, p, ds), 0, idx))


contract(M + 'P_hash',
         params={'mac_name': T.opaque(), 'secret': T.bytes(), 'seed': T.bytes(), 'length': T.int()},
         requires=lambda ns: ns.length >= 0,
         result=T.bytes(),
         ensures=lambda ns: is_phash(ns.result, ns.mac_name, ns.secret, ns.seed, ns.length),
         raises={},
         loops={1: LoopSpec(inv_phash, variant=lambda ns: ns.length - ns.index, fingerprint='index < length')},
         prop=PROP,
         doc='P_hash(alg, secret, seed, n) == first n bytes of HMAC(secret, A(1)+seed) + HMAC(secret, A(2)+seed) + ... '
             'for every n >= 0, every secret/seed and every hash (any digest size >= 1)')


# ---------------------------------------------------------------------------
# PRF (TLS 1.0/1.1, RFC 2246 section 5):  PRF(secret, label, seed) = P_MD5(S1, label + seed) XOR P_SHA-1(S2, label + seed)
# S1 / S2 = first / last ceil(len(secret) / 2) bytes of the secret (they share a byte when the length is odd).
from pyvc import floats as _floats   # noqa: E402  (registers math.ceil / math.floor / ord models)


def prf10_byte(secret, label, seed, p):
    n = S.len_(secret)
    half = (n + 1) / 2
    s1 = secret[0:half]
    s2 = secret[n - half:n]
    ls = S.cat(label, seed)
    return phash_byte('md5', s1, ls, p, 16) ^ phash_byte('sha1', s2, ls, p, 20)


def is_prf10(out, secret, label, seed, length):
    return S.And(S.len_(out) == length, S.is_bytes(out),
                 S.forall(lambda p: out[p] == prf10_byte(secret, label, seed, p), 0, length))


def inv_prf_xor(ns):
    o = ns.old.p_md5
    return S.And(S.len_(ns.p_md5) == ns.length, S.len_(ns.p_sha1) == ns.length,
                 S.forall(lambda k: ns.p_md5[k] == (o[k] ^ ns.p_sha1[k]), 0, ns.idx),
                 S.forall(lambda k: ns.p_md5[k] == o[k], ns.idx, ns.length))


contract(M + 'PRF',
         params={'secret': T.bytes(), 'label': T.bytes(), 'seed': T.bytes(), 'length': T.int()},
         requires=lambda ns: ns.length >= 0,
         result=T.bytes(),
         ensures=lambda ns: is_prf10(ns.result, ns.secret, ns.label, ns.seed, ns.length),
         raises={},
         loops={1: LoopSpec(inv_prf_xor, fingerprint='range(length)')},
         prop=PROP,
         doc='PRF == P_MD5(first half) xor P_SHA1(second half) over label+seed, halves of ceil(n/2) bytes, every n and length')

contract(M + 'PRF_1_2',
         params={'secret': T.bytes(), 'label': T.bytes(), 'seed': T.bytes(), 'length': T.int()},
         requires=lambda ns: ns.length >= 0, result=T.bytes(),
         ensures=lambda ns: is_phash(ns.result, 'sha256', ns.secret, S.cat(ns.label, ns.seed), ns.length),
         raises={}, prop=PROP, doc='TLS 1.2 PRF == P_SHA256(secret, label + seed)  (RFC 5246 section 5)')

contract(M + 'PRF_1_2_SHA384',
         params={'secret': T.bytes(), 'label': T.bytes(), 'seed': T.bytes(), 'length': T.int()},
         requires=lambda ns: ns.length >= 0, result=T.bytes(),
         ensures=lambda ns: is_phash(ns.result, 'sha384', ns.secret, S.cat(ns.label, ns.seed), ns.length),
         raises={}, prop=PROP, doc='TLS 1.2 PRF of the SHA-384 suites == P_SHA384(secret, label + seed)')


# ---------------------------------------------------------------------------
# PRF_SSL (SSLv3 key derivation, RFC 6101 section 6.1 / 6.2.2):
#   block j (j = 0..25) = MD5(secret + SHA('A'+j repeated j+1 times + secret + seed)),  output = block 0 + block 1 + ...

def prfssl_byte(secret, seed, p):
    p = _lift(p)
    j = p / 16
    salt = S.rep(65 + j, j + 1)                       # 'A', 'BB', 'CCC', ...
    blk = H('md5', S.cat(secret, H('sha1', S.cat(salt, secret, seed))))
    return blk[p % 16]


def is_prfssl(out, secret, seed, length):
    return S.And(S.len_(out) == length, S.is_bytes(out),
                 S.forall(lambda p: out[p] == prfssl_byte(secret, seed, p), 0, length))


def inv_prfssl_outer(ns):
    b = ns.local('bytes')
    return S.And(ns.index == 16 * ns.idx, ns.index <= ns.length, S.len_(b) == ns.length,
                 S.forall(lambda p: b[p] == prfssl_byte(ns.secret, ns.seed, p), 0, ns.index))


def inv_prfssl_inner(ns):
    b = ns.local('bytes')
    return S.And(ns.index == 16 * ns.x + ns.idx, ns.index <= ns.length, S.len_(b) == ns.length,
                 S.forall(lambda p: b[p] == prfssl_byte(ns.secret, ns.seed, p), 0, ns.index))


contract(M + 'PRF_SSL',
         params={'secret': T.bytes(), 'seed': T.bytes(), 'length': T.int()},
         requires=lambda ns: (ns.length >= 0) & (ns.length <= 416),
         result=T.bytes(),
         ensures=lambda ns: is_prfssl(ns.result, ns.secret, ns.seed, ns.length),
         raises={},
         loops={1: LoopSpec(inv_prfssl_outer, fingerprint='range(26)'),
                2: LoopSpec(inv_prfssl_inner, fingerprint='output')},
         prop=PROP,
         doc='PRF_SSL == first n bytes of MD5(secret+SHA1("A"+secret+seed)) + MD5(secret+SHA1("BB"+secret+seed)) + ... '
             'for every n <= 416 = 26*16 (the construction defines 26 blocks)')
REG.note(PROP, 'assumptions', 'PRF_SSL: requires 0 <= length <= 416 (26 blocks of 16 bytes exist in the RFC 6101 construction; for larger '
         'lengths the real function silently returns zero bytes after byte 416 -- no caller asks for more than 2*(20+32+16) = 136)')


# ---------------------------------------------------------------------------
# HKDF-Expand (RFC 5869 section 2.3):  N = ceil(L / HashLen), T(0) = empty, T(i) = HMAC(PRK, T(i-1) | info | i),
# OKM = first L octets of T(1) | T(2) | ... | T(N);  defined for L <= 255 * HashLen.

HKDF_ALGS = ('sha256', 'sha384')         # what _getPRFParams hands to the TLS 1.3 key schedule


def hkdf_byte(alg, prk, info, p, ds=None):
    k = HmacKey(algv(alg), prk.t)
    ds = hlen(alg) if ds is None else _lift(ds)
    p = _lift(p)
    return VInt(sat(hkT(k, info.t, (p / ds).t + 1), (p % ds).t))


def is_hkdf(out, alg, prk, info, L, ds=None):
    return S.And(S.len_(out) == L, S.is_bytes(out),
                 S.forall(lambda p: out[p] == hkdf_byte(alg, prk, info, p, ds), 0, L))


def inv_hkdf(ns):
    alg = ns.algorithm
    ds = ALGS[alg.s][0]
    k = HmacKey(algv(alg), ns.PRK.t)
    x = ns.idx
    return S.And(VBool(ns.Titer.t == hkT(k, ns.info.t, (x - 1).t)),
                 S.len_(ns.Titer) == S.ite(x == 1, 0, ds),
                 S.len_(ns.T) == ds * S.max_(x - 2, 0),
                 S.forall(lambda p: ns.T[p] == hkdf_byte(alg, ns.PRK, ns.info, p, ds), 0, S.len_(ns.T)))


def _hkdf_params(a):
    return {'PRK': T.bytes(), 'info': T.bytes(), 'L': T.int(), 'algorithm': T.const(a)}


def _hkdf_ensures(ns):
    return is_hkdf(ns.result, ns.algorithm, ns.PRK, ns.info, ns.L, ALGS[ns.algorithm.s][0])


# (a) the RFC domain.  EXPECTED to leave one obligation open on the pinned tree: for 254*HashLen < L <= 255*HashLen the
#     loop runs to x == 256 and bytearray([256]) raises ValueError (finding F2, class 'hkdf-expand-max-length').
contract(C + 'HKDF_expand', name='HKDF_expand@rfc5869-domain',
         variants={a: _hkdf_params(a) for a in HKDF_ALGS},
         requires=lambda ns: (ns.L >= 0) & (ns.L <= 255 * ALGS[ns.algorithm.s][0]),
         result=T.bytes(), ensures=_hkdf_ensures, raises={},
         loops={1: LoopSpec(inv_hkdf, fingerprint='range(1, N+2)')},
         prop=PROP,
         doc='HKDF_expand == HKDF-Expand of RFC 5869 for every PRK, info and every 0 <= L <= 255*HashLen, raising nothing')

# (b) the part of the domain on which the pinned code is correct (everything TLS 1.3 asks for: L <= HashLen)
contract(C + 'HKDF_expand', name='HKDF_expand@L<=254*HashLen',
         variants={a: _hkdf_params(a) for a in HKDF_ALGS},
         requires=lambda ns: (ns.L >= 0) & (ns.L <= 254 * ALGS[ns.algorithm.s][0]),
         result=T.bytes(), ensures=_hkdf_ensures, raises={},
         loops={1: LoopSpec(inv_hkdf, fingerprint='range(1, N+2)')},
         prop=PROP,
         doc='HKDF_expand == HKDF-Expand of RFC 5869 for every PRK, info and every 0 <= L <= 254*HashLen')


# ---------------------------------------------------------------------------
# HKDF-Expand-Label / Derive-Secret (RFC 8446 section 7.1)
#   struct { uint16 length; opaque label<7..255> = "tls13 " + Label; opaque context<0..255> = Context; } HkdfLabel;
#   HKDF-Expand-Label(Secret, Label, Context, Length) = HKDF-Expand(Secret, HkdfLabel, Length)
#   Derive-Secret(Secret, Label, Messages) = HKDF-Expand-Label(Secret, Label, Transcript-Hash(Messages), Hash.length)

def hkdf_label(length, label, context):
    return S.cat(S.be(length, 2), S.byte(6 + S.len_(label)), bytes_(b'tls13 '), label,
                 S.byte(S.len_(context)), context)


def _label_too_long(ns):
    return (S.len_(ns.label) + 6 > 255)


contract(C + 'HKDF_expand_label',
         variants={a: {'secret': T.bytes(), 'label': T.bytes(), 'hashValue': T.bytes(), 'length': T.int(),
                       'algorithm': T.const(a)} for a in HKDF_ALGS},
         requires=lambda ns: (ns.length >= 0) & (ns.length <= 254 * ALGS[ns.algorithm.s][0]),
         result=T.bytes(),
         ensures=lambda ns: is_hkdf(ns.result, ns.algorithm, ns.secret, hkdf_label(ns.length, ns.label, ns.hashValue),
                                    ns.length, ALGS[ns.algorithm.s][0]),
         raises={ValueError: ('iff', lambda ns: _label_too_long(ns) | (S.len_(ns.hashValue) > 255))},
         loops={('HKDF_expand', 1): LoopSpec(inv_hkdf, fingerprint='range(1, N+2)')},
         opts={'skolemize': True},
         prop=PROP,
         doc='HKDF_expand_label == HKDF-Expand(secret, HkdfLabel(length, "tls13 "+label, context), length); ValueError exactly '
             'when label or context do not fit their one-byte length prefix')


def hh_obj(**extra):
    f = {'_handshakeMD5': T.hash('md5'), '_handshakeSHA': T.hash('sha1'), '_handshakeSHA224': T.hash('sha224'),
         '_handshakeSHA256': T.hash('sha256'), '_handshakeSHA384': T.hash('sha384'), '_handshakeSHA512': T.hash('sha512'),
         '_handshake_buffer': T.bytes()}
    f.update(extra)
    return T.obj(HH.HandshakeHashes, **f)


_HH_FIELD = {'md5': '_handshakeMD5', 'sha1': '_handshakeSHA', 'sha224': '_handshakeSHA224', 'sha256': '_handshakeSHA256',
             'sha384': '_handshakeSHA384', 'sha512': '_handshakeSHA512'}


def transcript_hash(ns, hh, alg):
    """Hash_alg(everything fed to the transcript object so far)"""
    return H(alg, ns.f(ns.f(hh, _HH_FIELD[alg]), 'fed'))


def _ds_ensures(ns):
    alg = ns.algorithm.s
    ds = ALGS[alg][0]
    if isinstance(ns.handshake_hashes, VNone):
        th = H(alg, S.empty())
    else:
        th = transcript_hash(ns, ns.handshake_hashes, alg)
    return is_hkdf(ns.result, alg, ns.secret, hkdf_label(ds, ns.label, th), ds, ds)


_ds_variants = {}
for _a in HKDF_ALGS:
    _ds_variants[_a + ',transcript'] = {'secret': T.bytes(), 'label': T.bytes(), 'handshake_hashes': hh_obj(),
                                        'algorithm': T.const(_a)}
    _ds_variants[_a + ',no-transcript'] = {'secret': T.bytes(), 'label': T.bytes(), 'handshake_hashes': T.none(),
                                           'algorithm': T.const(_a)}

contract(C + 'derive_secret', variants=_ds_variants,
         result=T.bytes(), ensures=_ds_ensures,
         raises={ValueError: ('iff', _label_too_long)},
         loops={('HKDF_expand', 1): LoopSpec(inv_hkdf, fingerprint='range(1, N+2)')},
         opts={'skolemize': True},
         prop=PROP,
         doc='derive_secret == HKDF-Expand-Label(secret, label, Transcript-Hash (of the empty string when no transcript is given), '
             'Hash.length)')
