import sys, threading, socket, time
sys.path.insert(0,'/repo')
from tlslite.api import *
from tlslite.utils.keyfactory import parsePEMKey
from tlslite.x509 import X509
from tlslite.x509certchain import X509CertChain

def creds(name='serverX509'):
    c=X509(); c.parse(open('/repo/tests/%sCert.pem'%name).read())
    k=parsePEMKey(open('/repo/tests/%sKey.pem'%name).read(), private=True)
    return X509CertChain([c]), k

def run(client_fn, server_fn):
    a,b=socket.socketpair()
    res={}
    def srv():
        try: res['s']=server_fn(TLSConnection(b))
        except Exception as e: res['s']=e
    t=threading.Thread(target=srv); t.start()
    try: res['c']=client_fn(TLSConnection(a))
    except Exception as e: res['c']=e
    t.join(10)
    return res
