"""Sidecar contracts: registry, contract objects, verification of a function
body against its contract, and modular application at call sites."""
import ast
import inspect
import time
import traceback

import z3

from . import smt, source
from .values import (V, VInt, VBool, VNone, VStr, VSeq, VTuple, VList, VDict, VObj, VPy, VOpaque, VExc,
                     Unsupported, truthy, fresh_name, fresh_like, _lift, to_val, eq_op)
from .state import State, T
from .executor import Executor, Frame, Outcome, Obligation, SpecFn, lift_py
from .smt import slen, sat, isb, Verdict


class NS(object):
    """Namespace handed to requires/ensures/invariant lambdas."""

    def __init__(self, ex, st, fr, old=None, idx=None, result=None, exc=None, assume=False):
        object.__setattr__(self, '_assume', assume)     # True: the formula is being assumed at a call site
        object.__setattr__(self, '_ex', ex)
        object.__setattr__(self, '_st', st)
        object.__setattr__(self, '_fr', fr)
        object.__setattr__(self, '_old', old)
        object.__setattr__(self, 'idx', idx)
        object.__setattr__(self, '_result', result)
        object.__setattr__(self, 'exc', exc)

    @property
    def old(self):
        return NS(self._ex, self._old, self._fr)

    def local(self, name):
        return self._st.env[name]

    def final(self, name):
        """value of a local or (rebound / in-place mutated) parameter at function exit (ensures only)"""
        return self._st.ghost['$final_env'][name]

    def __getattr__(self, name):
        st = self._st
        if name == 'result' and self._result is not None:
            return self._result
        if name in st.env:
            return st.env[name]
        if name in st.ghost:
            return st.ghost[name]
        raise AttributeError('no variable %s in scope (have %s)' % (name, sorted(st.env)))

    def has(self, name):
        return name in self._st.env

    def f(self, obj, field):
        """Heap read obj.field (no side effects)."""
        outs = self._ex.getattr_(obj, field, self._st, self._fr)
        if len(outs) != 1 or outs[0].kind != 'normal':
            raise Unsupported('spec field read %s' % field)
        return outs[0].val

    def ghost(self, name):
        return self._st.ghost.get(name)

    @property
    def yields(self):
        return self._st.yields

    @property
    def events(self):
        return self._st.events


class LoopSpec(object):
    def __init__(self, inv, variant=None, modifies_vars=(), modifies_fields=(), fingerprint=None, var_types=None,
                 field_types=None):
        self.var_types = dict(var_types or {})   # local name -> T: representation of a list built by the loop
        self.field_types = dict(field_types or {})   # (var, field) -> 'abslist': list field whose elements are abstracted
        self.inv = inv
        self.variant = variant
        self.modifies_vars = list(modifies_vars)
        self.modifies_fields = list(modifies_fields)
        self.fingerprint = fingerprint      # substring that must occur in the loop header source


class Contract(object):
    def __init__(self, qual, params, requires=None, ensures=None, raises=None, loops=None,
                 result=None, modifies=(), mode='int', width=40, prop=(), name=None, doc='',
                 exc_ensures=None, apply_fn=None, inline_in_callers=False, setup=None,
                 opts=None, pyspec=None, gen=None, applies_when=None, pure=True, cover=True, lemmas=None):
        self.lemmas = list(lemmas or [])   # [(schema(*ints) -> VBool, args(ns) -> ints)]: see arith_lemma()
        self.qual = qual
        self.params = params            # ordered dict name -> T
        self.requires = requires
        self.ensures = ensures
        self.raises = raises or {}      # exc class -> None (allowed) | lambda ns_pre: VBool (must hold when raised)
        self.exc_ensures = exc_ensures  # lambda ns (post-state of raising path) -> VBool
        self.loops = loops or {}
        self.result = result
        self.modifies = list(modifies)  # [(param, field)]
        self.mode = mode
        self.width = width
        self.prop = tuple(prop) if isinstance(prop, (list, tuple)) else (prop,)
        self.name = name or qual.split(':')[-1]
        self.doc = doc
        self.apply_fn = apply_fn
        self.setup = setup              # setup(ex, st, ns) extra symbolic environment before execution
        self.opts = opts or {}
        self.pyspec = pyspec
        self.gen = gen
        self.applies_when = applies_when
        self.cover = cover

    # ---------------------------------------------------------------- loops
    def loop_spec(self, qual, ordinal, node):
        ls = self.loops.get((qual.split(':')[-1], ordinal)) or (self.loops.get(ordinal) if qual == self.qual else None)
        if ls is None:
            return None
        if ls.fingerprint:
            fs = source.load(qual)
            hdr = ast.get_source_segment(source._SRC_CACHE[fs.path], node.iter if isinstance(node, ast.For) else node.test) or ''
            if ls.fingerprint not in hdr:
                raise Unsupported('loop #%d of %s no longer matches its invariant fingerprint %r (header: %r)'
                                  % (ordinal, qual, ls.fingerprint, hdr))
        return ls

    # -------------------------------------------------------------- verify
    def verify(self, reg, budget_ms=10000):
        """Symbolically execute the real body against this contract.
        Returns (results, meta)."""
        fs = source.load(self.qual)
        ex = Executor(reg, dict(self.opts))
        if self.mode == 'bv':
            ex.bv = self.width
        st = State()
        fr = Frame(fs, self)
        names = [a.arg for a in fs.node.args.posonlyargs + fs.node.args.args]
        for n in names:
            if n not in self.params:
                # default value if any
                continue
            st.env[n] = self.params[n].make(n, st, ex.bv)
        env_defaults = ex.bind_params(fs, [], {k: v for k, v in st.env.items()}, st, fr) \
            if len(st.env) < len(names) else st.env
        st.env = dict(env_defaults)
        if self.setup:
            self.setup(ex, st, NS(ex, st, fr))
        pre = st.fork()
        ns_pre = NS(ex, pre, fr)
        if self.requires is not None:
            r = self.requires(ns_pre)
            st.assume(truthy(_lift(r)))
            pre.assume(truthy(_lift(r)))
        for k, (schema, args) in enumerate(self.lemmas):
            inst = arith_lemma(ex, pre, 'arith-lemma-%d' % (k + 1), schema, args(ns_pre))
            st.assume(inst)
        results = []
        meta = {'qual': self.qual, 'sha256': fs.sha256, 'contract': self.name}
        # vacuity: requires must be satisfiable
        sat_pre = _check_sat(st.pc)
        results.append(_mk_result(self, 'requires-satisfiable', 'vacuity',
                                  Verdict.PROVED if sat_pre else Verdict.REFUTED, {'backend': 'z3', 's': 0}))
        t0 = time.time()
        body = source.strip_docstring(fs.node.body)
        outs = ex.exec_block(body, st, fr)
        normal_paths = []
        for o in outs:
            if o.kind in ('normal', 'return'):
                res = o.val if o.kind == 'return' else VNone()
                if fs.is_generator:
                    res = VList(list(o.st.yields))
                normal_paths.append(o.st)
                if self.ensures is not None:
                    view = o.st.fork()
                    view.env = dict(o.st.env)
                    view.ghost['$final_env'] = dict(o.st.env)   # ns.final(name): value of a local/parameter at exit
                    view.env.update(pre.env)      # parameters denote their entry values
                    ns = NS(ex, view, fr, old=pre, result=res)
                    goal = self.ensures(ns)
                    ex.oblige(o.st, 'ensures', truthy(_lift(goal)), kind='ensures')
                for cls, cond in self.raises.items():
                    if isinstance(cond, tuple) and cond[0] == 'iff':
                        ns = NS(ex, o.st, fr, old=pre, result=res)
                        ex.oblige(o.st, 'no-%s-condition-on-normal-return' % cls.__name__,
                                  z3.Not(truthy(_lift(cond[1](ns.old)))), kind='raises-iff')
            elif o.kind == 'raise':
                exc = o.val
                allowed = None
                for cls, cond in self.raises.items():
                    if inspect.isclass(exc.cls) and issubclass(exc.cls, cls):
                        allowed = (cls, cond)
                        break
                cname = getattr(exc.cls, '__name__', str(exc.cls))
                if allowed is None:
                    ex.oblige(o.st, 'no-%s(%s)' % (cname, exc.origin), z3.BoolVal(False), kind='safety')
                else:
                    cond = allowed[1]
                    if isinstance(cond, tuple):
                        cond = cond[1]
                    if cond is not None:
                        ns = NS(ex, o.st, fr, old=pre, exc=exc)
                        ex.oblige(o.st, 'raises-%s-only-when(%s)' % (cname, exc.origin),
                                  truthy(_lift(cond(ns.old))), kind='raises')
                    if self.exc_ensures is not None:
                        ns = NS(ex, o.st, fr, old=pre, exc=exc)
                        ex.oblige(o.st, 'exceptional-post-%s(%s)' % (cname, exc.origin),
                                  truthy(_lift(self.exc_ensures(ns))), kind='exc-ensures')
            else:
                raise Unsupported('%s escaping function body' % o.kind)
        meta['exec_s'] = time.time() - t0
        meta['paths'] = len(outs)
        # cover: some normal path is feasible
        if self.cover:
            cov = any(_check_sat(s.pc) for s in normal_paths[:50])
            results.append(_mk_result(self, 'cover-normal-exit', 'vacuity',
                                      Verdict.PROVED if cov else Verdict.REFUTED, {'backend': 'z3', 's': 0}))
        results.extend(discharge_all(self, ex.obligations, budget_ms))
        meta['inlined'] = sorted(ex.inlined)
        meta['opaque'] = sorted(ex.opaque_calls)
        meta['assumptions'] = sorted(ex.assumptions)
        return results, meta

    # --------------------------------------------------------------- apply
    def apply(self, ex, args, kwargs, st, fr, node):
        """Modular use at a call site: check requires, assume ensures."""
        if self.apply_fn is not None:
            return self.apply_fn(self, ex, args, kwargs, st, fr, node)
        fs = source.load(self.qual)
        env = ex.bind_params(fs, args, kwargs, st, fr)
        line = getattr(node, 'lineno', 0)
        cst = st.fork()
        cst.env = env
        ns_pre = NS(ex, cst, fr)
        if self.requires is not None:
            ex.oblige(st, 'call:%s:requires@L%d' % (self.name, line), truthy(_lift(self.requires(ns_pre))),
                      kind='call-requires', where=line)
        outs = []
        # exceptional outcomes
        for cls, cond in self.raises.items():
            c = cond[1] if isinstance(cond, tuple) else cond
            s2 = st.fork()
            if c is not None:
                s2.assume(truthy(_lift(c(ns_pre))))
            if isinstance(cond, tuple) and cond[0] == 'iff':
                st.assume(z3.Not(truthy(_lift(c(ns_pre)))))
            if ex.feasible(s2):
                self._havoc(ex, s2, env)
                if self.exc_ensures is not None:
                    # the callee's exceptional postcondition (proved on every raising path of its body)
                    xv = s2.fork()
                    xv.env = dict(env)
                    s2.assume(truthy(_lift(self.exc_ensures(NS(ex, xv, fr, old=cst, assume=True)))))
                outs.append(Outcome('raise', s2, VExc(cls, [], 'call %s line %d' % (self.name, line))))
        # normal outcome
        post = st.fork()
        post_env = dict(env)
        cst2 = post.fork()
        cst2.env = post_env
        self._havoc(ex, cst2, post_env)
        post.heap = cst2.heap
        res = self.result.make('ret_' + self.name, cst2, ex.bv) if self.result is not None else VNone()
        post.pc = cst2.pc
        if self.ensures is not None:
            ns = NS(ex, cst2, fr, old=cst, result=res, assume=True)
            post.assume(truthy(_lift(self.ensures(ns))))
        post.heap = cst2.heap
        post.events.append((self.qual, args, res))
        outs.append(Outcome('normal', post, res))
        return outs

    def _havoc(self, ex, st, env):
        for (p, f) in self.modifies:
            if '.' in p:          # 'self._ctr': a field of an object reachable from a parameter
                parts = p.split('.')
                o = env.get(parts[0])
                for fld in parts[1:]:
                    o = st.heap.get((o.oid, fld)) if isinstance(o, VObj) else None
            else:
                o = env.get(p)
            if isinstance(o, VObj) and (o.oid, f) in st.heap:
                old = st.heap[(o.oid, f)]
                st.heap[(o.oid, f)] = fresh_like(old, f)
                v = st.heap[(o.oid, f)]
                if isinstance(v, VSeq) and v.elem == 'byte':
                    st.assume(isb(v.t))


def arith_lemma(ex, st, name, schema, terms):
    """A fact of pure integer arithmetic used as a hint.  `schema(*ints) -> VBool` is stated over fresh
    integer variables and becomes an obligation with an EMPTY path condition (so it is proved for all
    integers, by plain z3 without the sequence axioms); only then is its instance at `terms` assumed in
    `st`.  Returns the instance (z3 Bool)."""
    fresh = [VInt(z3.Int(fresh_name('lem'))) for _ in terms]
    goal = truthy(_lift(schema(*fresh)))
    ex.obligations.append(Obligation(name, [], goal, 'arith-lemma', [], None))
    inst = truthy(_lift(schema(*[_lift(t) for t in terms])))
    st.assume(inst)
    return inst


def _check_sat(pc):
    def mk():
        s = z3.Solver()
        s.set('smt.mbqi', False)
        for a in smt.AXIOMS:
            s.add(a)
        for a in pc:
            s.add(a)
        return s
    return smt.check_trusted(mk, 500)[0] != z3.unsat      # (guards against z3's spurious unsat on cancellation)


def _mk_result(c, name, kind, verdict, info, model=None, trace=None, where=None):
    return {'contract': c.name, 'qual': c.qual, 'obligation': '%s::%s' % (c.name, name), 'kind': kind,
            'verdict': verdict, 'backend': info.get('backend'), 's': round(info.get('s', 0), 4),
            'reason': info.get('reason'), 'model': model, 'trace': trace, 'where': where,
            'rlimit_used': info.get('rlimit_used'), 'rlimit_cap': info.get('rlimit_cap'),
            'prop': list(c.prop)}


# --------------------------------------------------------------------------
# goal preprocessing: extensional expansion of Seq equalities in positive
# positions

def expand_goal(g, positive=True):
    k = g.decl().kind() if z3.is_app(g) else None
    if z3.is_quantifier(g):
        return g
    if k == z3.Z3_OP_AND:
        return z3.And([expand_goal(c, positive) for c in g.children()])
    if k == z3.Z3_OP_OR:
        return z3.Or([expand_goal(c, positive) for c in g.children()])
    if k == z3.Z3_OP_NOT:
        return z3.Not(expand_goal(g.children()[0], not positive))
    if k == z3.Z3_OP_IMPLIES:
        a, b = g.children()
        return z3.Implies(expand_goal(a, not positive), expand_goal(b, positive))
    if k == z3.Z3_OP_ITE and z3.is_bool(g):
        c, a, b = g.children()
        return z3.And(z3.Implies(c, expand_goal(a, positive)), z3.Implies(z3.Not(c), expand_goal(b, positive)))
    if k in (z3.Z3_OP_EQ, z3.Z3_OP_IFF):
        a, b = g.children()
        if a.sort() == smt.Seq and positive:
            return smt.seq_eq_goal(a, b)
        if z3.is_bool(a) and not (z3.is_const(a) and z3.is_const(b)):
            # a <=> b  as two implications so that both get the right polarity
            return z3.And(z3.Implies(expand_goal(a, not positive), expand_goal(b, positive)),
                          z3.Implies(expand_goal(b, not positive), expand_goal(a, positive)))
    if k == z3.Z3_OP_DISTINCT and not positive:
        a, b = g.children()[:2]
        if a.sort() == smt.Seq and len(g.children()) == 2:
            return z3.Not(smt.seq_eq_goal(a, b))
    return g


EXT_FUNCS = []      # (function, [sorts], seq-arg-position) registered by models/specs
EXT_PAIRS = []      # (f_name, pos, g_name): argument of f may be extensionally a g-term (inverse pairs)


def ext_axioms(formulas=()):
    return (smt.ext_instances(formulas, EXT_FUNCS) + smt.seq_eq_atoms_witnesses(formulas)
            + smt.ext_pair_instances(formulas, EXT_PAIRS))


def _conjuncts(g):
    if z3.is_app(g) and g.decl().kind() == z3.Z3_OP_AND:
        out = []
        for ch in g.children():
            out.extend(_conjuncts(ch))
        return out
    return [g]


SPLIT_AT = 8        # goals with at least this many top-level conjuncts are discharged conjunct by conjunct


def _solve_split(ob, parts, ext, budget_ms, sequential=False, scale=None):
    """Prove a conjunction conjunct by conjunct (same assumptions).  Sound: the goal holds iff every conjunct
    holds; a model refuting one conjunct refutes the goal.  sequential=True (contract option
    'sequential_conjuncts'): conjuncts already proved are available as assumptions for the later ones
    (A, then A ==> B, gives A and B), which lets an ensures clause be organised as a chain of lemmas."""
    total = 0.0
    backends = set()
    proved = []
    for part in parts:
        if z3.is_true(part):
            continue
        v, model, info = smt.solve(list(ob.pc) + proved, part, timeout_ms=budget_ms, extra_axioms=ext, scale=scale)
        if sequential and v == Verdict.PROVED:
            proved.append(part)
        total += info.get('s', 0)
        backends.add(info.get('backend') or '?')
        if v != Verdict.PROVED:
            info = dict(info)
            info['s'] = total
            info['backend'] = '%s(split)' % info.get('backend')
            return v, model, info
    return Verdict.PROVED, None, {'backend': '+'.join(sorted(backends)) + '(split %d)' % len(parts), 's': total}


def discharge_all(c, obligations, budget_ms):
    """Discharge the obligations of one task.  Once one obligation of the task has failed to discharge the task
    is lost anyway (it is reported as a whole), so the remaining obligations only get a quarter of the budget:
    keeps a check on a broken tree from taking hours."""
    out = []
    failed = False
    for ob in obligations:
        r = discharge(c, ob, budget_ms // 8 if failed else budget_ms)
        if r['verdict'] != Verdict.PROVED:
            failed = True
        out.append(r)
    return out


def discharge(c, ob, budget_ms):
    goal = ob.goal
    budget_ms = int(budget_ms * ((getattr(c, 'opts', None) or {}).get('budget_factor', 1)))   # opt-in: heavier VCs
    if (getattr(c, 'opts', None) or {}).get('skolemize'):
        from .skolem import skolemize            # opt-in: makes terms under goal-side foralls ground
        goal = skolemize(goal)
    if ob.kind.startswith('m2'):
        # guard-dominance obligations: decided in the quantifier-free theory of equality + linear
        # integers WITHOUT the sequence axioms (fewer assumptions: sound for 'proved'; a 'sat' answer is a
        # countermodel over the opaque abstraction, reported as refuted-without-replay)
        verdict, model, info = smt.solve_ground(ob.pc, goal, budget_ms)
        return _mk_result(c, ob.name, ob.kind, verdict, info, None, ob.trace[-40:], ob.where)
    goal = expand_goal(goal)
    try:
        ext = ext_axioms(list(ob.pc) + [goal])
        parts = _conjuncts(goal)
        seq = bool(getattr(c, 'opts', None) and c.opts.get('sequential_conjuncts'))
        scale = (getattr(c, 'opts', None) or {}).get('rlimit_scale')      # opt-in: explicit resource-limit factor
        if len(parts) >= SPLIT_AT or (seq and len(parts) > 1):
            verdict, model, info = _solve_split(ob, parts, ext, budget_ms, sequential=seq, scale=scale)
        else:
            verdict, model, info = smt.solve(ob.pc, goal, timeout_ms=budget_ms, extra_axioms=ext, scale=scale)
            if verdict == Verdict.UNDECIDED and len(parts) > 1:
                v2, m2, i2 = _solve_split(ob, parts, ext, budget_ms, scale=scale)
                if v2 != Verdict.UNDECIDED:
                    verdict, model, info = v2, m2, i2
    except z3.Z3Exception as e:
        verdict, model, info = Verdict.UNDECIDED, None, {'backend': 'z3', 's': 0, 'reason': 'z3 error: %s' % e}
    m = None
    if model is not None:
        m = model_to_dict(model)
    return _mk_result(c, ob.name, ob.kind, verdict, info, m, ob.trace[-40:], ob.where)


def model_to_dict(model, limit=400):
    """Flatten the interesting part of a z3 model: integer/bool constants and,
    for every Seq constant, its length and first elements."""
    out = {}
    try:
        for d in model.decls():
            if d.arity() != 0:
                continue
            name = d.name()
            v = model[d]
            if z3.is_int_value(v):
                out[name] = v.as_long()
            elif z3.is_bv_value(v):
                out[name] = v.as_signed_long()
            elif z3.is_true(v) or z3.is_false(v):
                out[name] = z3.is_true(v)
            elif v.sort() == smt.Seq:
                c = z3.Const(name, smt.Seq)
                ln = model.eval(slen(c), model_completion=True)
                if z3.is_int_value(ln):
                    n = ln.as_long()
                    items = []
                    for i in range(max(0, min(n, limit))):
                        e = model.eval(sat(c, z3.IntVal(i)), model_completion=True)
                        items.append(e.as_long() if z3.is_int_value(e) else None)
                    out[name] = {'len': n, 'items': items}
    except z3.Z3Exception:
        pass
    return out


# --------------------------------------------------------------------------

class Registry(object):
    def __init__(self):
        self.contracts = {}        # qual -> [Contract]
        self.models = {}           # model name -> model object (getattr(ex, v, name, st))
        self.class_models = {}     # live class -> constructor model
        self.external = {}         # qual or dotted name -> handler(ex,args,kw,st,fr,node)
        self.store_hooks = {}
        self.field_types = {}      # (cls or None, field) -> T
        self.inline_ok = set()     # quals that may be inlined regardless of size
        self.no_inline = set()
        self.tasks = {}            # key -> Contract / Lemma / Scan (anything with .prop and .verify)
        self.origin = {}           # key -> contracts.* module that registered the task (the one a worker has to import)
        self.notes = {}            # prop -> {'trusted': [], 'assumptions': [], 'not_built': []}
        self.xchecks = []          # concrete differential checks: dict(prop, module, name, function)

    def add(self, c):
        self.contracts.setdefault(c.qual, []).append(c)
        self.tasks['%s#%s' % (c.qual, c.name)] = c
        self.origin['%s#%s' % (c.qual, c.name)] = self._origin()
        return c

    @staticmethod
    def _origin():
        """the contracts.* module whose top-level code is registering right now (innermost such frame)"""
        import sys
        f = sys._getframe(2)
        while f is not None:
            n = f.f_globals.get('__name__', '')
            if n.startswith('contracts.') and f.f_code.co_name == '<module>':
                return n                      # (helpers of another contracts module may be on the stack in between)
            f = f.f_back
        return None

    def add_task(self, t):
        self.tasks[t.key] = t
        self.origin[t.key] = self._origin()
        return t

    def task_keys(self):
        return list(self.tasks.keys())

    def task(self, key):
        return self.tasks[key]

    def note(self, prop, kind, text):
        self.notes.setdefault(prop, {'trusted': [], 'assumptions': [], 'not_built': []})[kind].append(text)

    def trusted_for(self, prop):
        return list(self.notes.get(prop, {}).get('trusted', []))

    def assumptions_for(self, prop):
        return list(self.notes.get(prop, {}).get('assumptions', []))

    def not_built_for(self, prop):
        return list(self.notes.get(prop, {}).get('not_built', []))

    def crosschecks_for(self, prop):
        return [x for x in self.xchecks if x['prop'] == prop]

    def contract_for(self, qual, fr):
        cs = self.contracts.get(qual)
        if not cs:
            return None
        for c in cs:
            if getattr(c, 'variant', None) is not None:
                return None          # per-configuration contracts are not applied modularly: callers inline
            if c.apply_fn is not None or c.ensures is not None or c.raises or c.requires is not None:
                return c
        return None

    def loop_contract(self, qual):
        """The contract whose loop invariants are used when `qual` is executed inline."""
        cs = self.contracts.get(qual)
        return cs[0] if cs else None

    def field_type(self, cls, name):
        for k in (cls.__mro__ if inspect.isclass(cls) else [cls]):
            t = self.field_types.get((k, name))
            if t is not None:
                return t
        return self.field_types.get((None, name))

    def may_inline(self, qual, fs, fr):
        if qual in self.no_inline:
            return False
        if qual in self.inline_ok:
            return True
        if fs.is_generator:
            return False
        n = sum(1 for _ in ast.walk(fs.node) if isinstance(_, ast.stmt))
        return n <= 40

    def havoc_for_opaque(self, ex, name, args, st):
        # conservative: every heap field of every non-fresh object reachable by name is forgotten
        for key in list(st.heap.keys()):
            oid, f = key
            if oid in st.fresh_objs:
                continue
            if (None, f) in self.field_types and self.field_types[(None, f)].kw.get('stable'):
                continue
            try:
                st.heap[key] = fresh_like(st.heap[key], f)
            except Unsupported:
                del st.heap[key]

    def with_enter(self, ex, cm, st, fr, node):
        if isinstance(cm, VObj):
            m = self.models.get(cm.cls)
            if m is not None and hasattr(m, 'enter'):
                return m.enter(ex, cm, st)
        raise Unsupported('with on %r' % (cm,))

    def with_exit(self, ex, cm, st, fr, node):
        if isinstance(cm, VObj):
            m = self.models.get(cm.cls)
            if m is not None and hasattr(m, 'exit'):
                return m.exit(ex, cm, st)

    def generator_loop(self, ex, node, it, st, fr):
        return None


REG = Registry()


def contract(qual, variants=None, **kw):
    """Register a contract; `variants` = {name: params-dict} registers one
    contract per parameter configuration (named fn[variant])."""
    if variants:
        out = []
        base = kw.pop('name', None) or qual.split(':')[-1]
        kw.pop('params', None)
        for vn, params in variants.items():
            c = Contract(qual, params=params, name='%s[%s]' % (base, vn), **kw)
            c.variant = vn
            REG.add(c)
            out.append(c)
        return out
    c = Contract(qual, **kw)
    REG.add(c)
    return c


class Scenario(object):
    """A lemma over several calls of real functions: `body(api)` drives the
    executor (calling real code by qualified name) and states obligations."""

    def __init__(self, name, prop, body, doc='', opts=None, mode='int'):
        self.name = name
        self.key = 'scenario:' + name
        self.qual = 'scenario:' + name
        self.prop = tuple(prop) if isinstance(prop, (list, tuple)) else (prop,)
        self.body = body
        self.doc = doc
        self.opts = opts or {}

    def verify(self, reg, budget_ms=10000):
        ex = Executor(reg, dict(self.opts))
        st = State()
        fr = Frame(None, None)
        api = ScenarioAPI(ex, st, fr, self)
        t0 = time.time()
        self.body(api)
        results = []
        results.extend(discharge_all(self, ex.obligations, budget_ms))
        if not ex.obligations:
            raise RuntimeError('scenario %s produced no obligations' % self.name)
        meta = {'qual': None, 'contract': self.name, 'exec_s': time.time() - t0, 'paths': api.paths,
                'inlined': sorted(ex.inlined), 'opaque': sorted(ex.opaque_calls),
                'assumptions': sorted(ex.assumptions), 'functions': sorted(api.called)}
        return results, meta


class ScenarioAPI(object):
    def __init__(self, ex, st, fr, sc):
        self.ex, self.st, self.fr, self.sc = ex, st, fr, sc
        self.paths = 0
        self.called = set()

    def make(self, name, t, st=None):
        return t.make(name, st or self.st, self.ex.bv)

    def ns(self, st, old=None, result=None):
        return NS(self.ex, st, self.fr, old=old, result=result)

    def call(self, qual, args, st, kwargs=None, inline=True):
        """Execute the real function `qual` (contract if registered and not
        inline, else its real body) from state st; returns outcomes."""
        fs = source.load(qual)
        self.called.add(qual)
        fn = fs.node
        if not inline:
            c = self.ex.reg.contract_for(qual, self.fr)
            if c is not None:
                return c.apply(self.ex, args, kwargs or {}, st, self.fr, None)
        outs = self.ex.inline(fs, args, kwargs or {}, st, self.fr, None)
        self.paths += len(outs)
        return outs

    def oblige(self, st, name, goal):
        self.ex.oblige(st, name, truthy(_lift(goal)), kind='lemma')

    def unreachable(self, st, name):
        self.ex.oblige(st, name, z3.BoolVal(False), kind='lemma-unreachable')

    def arith_lemma(self, st, name, schema, *terms):
        """prove schema for all integers (empty context), then assume its instance at terms in st"""
        return arith_lemma(self.ex, st, name, schema, terms)


def scenario(name, prop, doc='', opts=None):
    def deco(fn):
        s = Scenario(name, prop, fn, doc, opts)
        REG.add_task(s)
        return fn
    return deco
