"""Finite-domain reasoning support (used by the cipher-suite tables, C20/C03).

Everything here is additive and only active for values of the two new classes
or when a contract opts in (`opts={'merge_if': True, 'guarded_comp': True}`):

* `VSymSet`   a set / list over a statically known universe of concrete Python
              keys (ints, strings, None, tuples) whose *membership* is symbolic
              (one z3 Bool per key).  Models `set()` objects built from live
              tables under symbolic conditions (`includeSuites.update(...)`)
              and "symbolic subset" parameters (`settings.macNames`:
              `T.subset([...])`).  Exact for: `in`, truthiness, `len` (sets; for
              list-typed parameters under the assumption of no duplicates),
              add/update/discard/remove/symmetric_difference_update/
              difference_update/intersection_update/clear, iteration when the
              membership is concrete.
* `VGList`    a Python list whose elements are known but whose *presence* is
              guarded: `[(g0, v0), (g1, v1), ...]` denotes the list of those
              v_i with g_i true, in that order.  Produced by merging
              `if c: xs += live_list` and by filter comprehensions over a
              statically known list with a symbolic condition.
* if-merging  `if c: A else: B` where both arms are straight-line, raise
              nothing, emit no obligations and leave the heap alone is
              executed once: variables become ite / guarded values instead of
              forking the path (2^28 paths in `_filterSuites` otherwise).
* filter comprehension over a sequence of symbolic length
              `[x for x in xs if c(x)]`: fresh result r with the defining
              property of filtering (an order-preserving injection g of the
              result positions into the source positions that hits exactly the
              positions whose element satisfies c).  This is the semantics of
              the language construct, stated as axioms over fresh symbols.
* `TableTask` a verification task that poses ground z3 queries directly
              (one per stated fact, all counterexamples enumerated).
"""
import builtins
import time

import z3

from . import smt
from .smt import slen, sat, Verdict
from .values import (V, VInt, VBool, VNone, VStr, VSeq, VTuple, VList, VPy, Unsupported, truthy, eq_op,
                     fresh_name, same_value, ite as v_ite, _lift)
from .state import T
from .builtins_model import model, _out, MUTATORS


# ---------------------------------------------------------------------------
# keys

class _NoKey(object):
    pass


NOKEY = _NoKey()


def key_of(v):
    """Concrete hashable Python key denoted by value v, or NOKEY."""
    if isinstance(v, VBool):
        s = z3.simplify(v.t)
        if z3.is_true(s):
            return True
        if z3.is_false(s):
            return False
        return NOKEY
    if isinstance(v, VInt):
        c = v.concrete()
        return NOKEY if c is None else c
    if isinstance(v, VStr):
        return v.s
    if isinstance(v, VNone):
        return None
    if isinstance(v, VTuple):
        ks = [key_of(x) for x in v.items]
        return NOKEY if any(k is NOKEY for k in ks) else tuple(ks)
    return NOKEY


def _lift_key(k):
    from .executor import lift_py
    return lift_py(k)


def _b(x):
    return x if isinstance(x, z3.BoolRef) else z3.BoolVal(bool(x))


class VSymSet(V):
    def __init__(self, m=None, pytype='set'):
        self.m = dict((k, _b(b)) for k, b in (m or {}).items())     # key -> z3 Bool, insertion ordered
        self.pytype = pytype

    def has(self, key):
        return self.m.get(key, z3.BoolVal(False))

    # -- generic hooks used by executor / builtins / values
    def truthy_(self):
        return z3.Or(list(self.m.values()) + [z3.BoolVal(False)])

    def len_(self):
        if not self.m:
            return VInt(0)
        return VInt(z3.Sum([z3.If(b, 1, 0) for b in self.m.values()]) if len(self.m) > 1
                    else z3.If(list(self.m.values())[0], 1, 0))

    def fresh_like_(self, base):
        return VSymSet(dict((k, z3.Bool(fresh_name('%s[%r]' % (base, k)))) for k in self.m), self.pytype)

    def static_items_(self):
        out = []
        for k, b in self.m.items():
            s = z3.simplify(b)
            if z3.is_true(s):
                out.append(_lift_key(k))
            elif not z3.is_false(s):
                return None
        return out

    def contains_(self, x):
        k = key_of(x)
        if k is not NOKEY:
            for kk, b in self.m.items():
                if type(kk) is type(k) and kk == k:
                    return VBool(b)
            return VBool(z3.BoolVal(False))
        if isinstance(x, VInt):
            return VBool(z3.Or([z3.And(b, x.t == kk) for kk, b in self.m.items()
                                if isinstance(kk, int) and not isinstance(kk, bool)] + [z3.BoolVal(False)]))
        if isinstance(x, VTuple):
            return VBool(z3.Or([z3.And(b, eq_op(x, _lift_key(kk)).t) for kk, b in self.m.items()
                                if isinstance(kk, tuple)] + [z3.BoolVal(False)]))
        raise Unsupported('in VSymSet for %r' % (x,))

    def same_(self, o):
        return isinstance(o, VSymSet) and list(self.m.keys()) == list(o.m.keys()) and \
            all(a.eq(b) for a, b in zip(self.m.values(), o.m.values()))

    def _other(self, ex, arg, st):
        """iterable argument of a set method as {key: Bool}"""
        if isinstance(arg, VSymSet):
            return dict(arg.m)
        if isinstance(arg, VGList):
            out = {}
            for g, v in arg.items:
                k = key_of(v)
                if k is NOKEY:
                    raise Unsupported('set operation with symbolic element %r' % (v,))
                out[k] = z3.Or(out[k], g) if k in out else g
            return out
        items = ex.iter_items(arg, st)
        if items is None:
            raise Unsupported('set operation with %r' % (arg,))
        out = {}
        for v in items:
            k = key_of(v)
            if k is NOKEY:
                raise Unsupported('set operation with symbolic element %r' % (v,))
            out[k] = z3.BoolVal(True)
        return out

    def mutate_(self, ex, name, args, st, line):
        m = dict(self.m)
        if name == 'add' and len(args) == 1:
            k = key_of(args[0])
            if k is NOKEY:
                raise Unsupported('set.add of symbolic value')
            m[k] = z3.BoolVal(True)
        elif name == 'update':
            for a in args:
                for k, b in self._other(ex, a, st).items():
                    m[k] = z3.simplify(z3.Or(m[k], b)) if k in m else b
        elif name == 'discard' and len(args) == 1:
            k = key_of(args[0])
            if k is NOKEY:
                raise Unsupported('set.discard of symbolic value')
            if k in m:
                m[k] = z3.BoolVal(False)
        elif name == 'remove' and len(args) == 1:
            k = key_of(args[0])
            if k is NOKEY:
                raise Unsupported('set.remove of symbolic value')
            ok, bad = ex.split(st, self.has(k))
            excs = []
            if bad is not None:
                excs.append(ex.raise_(bad, KeyError if self.pytype != 'list' else ValueError, 'remove line %d' % line))
            if ok is None:
                return excs, None
            m[k] = z3.BoolVal(False)
            return excs, (ok, VSymSet(m, self.pytype), VNone())
        elif name == 'symmetric_difference_update' and len(args) == 1:
            for k, b in self._other(ex, args[0], st).items():
                m[k] = z3.simplify(z3.Xor(m.get(k, z3.BoolVal(False)), b))
        elif name == 'difference_update':
            for a in args:
                for k, b in self._other(ex, a, st).items():
                    if k in m:
                        m[k] = z3.simplify(z3.And(m[k], z3.Not(b)))
        elif name == 'intersection_update':
            for a in args:
                o = self._other(ex, a, st)
                for k in list(m):
                    m[k] = z3.simplify(z3.And(m[k], o.get(k, z3.BoolVal(False))))
        elif name == 'clear' and not args:
            m = {}
        else:
            return None, None
        return [], (st, VSymSet(m, self.pytype), VNone())

    def __repr__(self):
        return 'VSymSet(%d keys)' % len(self.m)


class VGList(V):
    """Guarded list: the v_i with g_i true, in order."""

    def __init__(self, items):
        self.items = [(_b(g), v) for g, v in items]

    @staticmethod
    def of(v):
        if isinstance(v, VGList):
            return v
        if isinstance(v, (VList, VTuple)):
            return VGList([(z3.BoolVal(True), x) for x in v.items])
        raise Unsupported('guarded list from %r' % (v,))

    def truthy_(self):
        return z3.Or([g for g, _ in self.items] + [z3.BoolVal(False)])

    def len_(self):
        if not self.items:
            return VInt(0)
        ts = [z3.If(g, 1, 0) for g, _ in self.items]
        return VInt(z3.Sum(ts) if len(ts) > 1 else ts[0])

    def contains_(self, x):
        return VBool(z3.Or([z3.And(g, eq_op(x, v).t) for g, v in self.items] + [z3.BoolVal(False)]))

    def static_items_(self):
        out = []
        for g, v in self.items:
            s = z3.simplify(g)
            if z3.is_true(s):
                out.append(v)
            elif not z3.is_false(s):
                return None
        return out

    def concat_(self, ex, other, st, left=True):
        o = VGList.of(other) if isinstance(other, (VGList, VList)) else None
        if o is None:
            items = ex.iter_items(other, st)
            if items is None:
                raise Unsupported('guarded list + %r' % (other,))
            o = VGList([(z3.BoolVal(True), x) for x in items])
        return VGList(self.items + o.items if left else o.items + self.items)

    def mutate_(self, ex, name, args, st, line):
        if name == 'append' and len(args) == 1:
            return [], (st, VGList(self.items + [(z3.BoolVal(True), args[0])]), VNone())
        if name == 'extend' and len(args) == 1:
            return [], (st, self.concat_(ex, args[0], st), VNone())
        return None, None

    def same_(self, o):
        return isinstance(o, VGList) and len(o.items) == len(self.items) and \
            all(a[0].eq(b[0]) and same_value(a[1], b[1]) for a, b in zip(self.items, o.items))

    def fresh_like_(self, base):
        raise Unsupported('havoc of a guarded list')

    def __repr__(self):
        return 'VGList(%d items)' % len(self.items)


# ---------------------------------------------------------------------------
# builtins

@model(builtins.set, builtins.frozenset)
def m_set(ex, args, kw, st, fr, node):
    if not args:
        return _out(st, VSymSet({}, 'set'))
    a = args[0]
    return _out(st, VSymSet(VSymSet({}, 'set')._other(ex, a, st), 'set'))


MUTATORS.update({'add', 'update', 'discard', 'symmetric_difference_update', 'difference_update',
                 'intersection_update'})


# ---------------------------------------------------------------------------
# type descriptor: symbolic subset of a known universe

_prev_make = T.make


def _make(self, name, st, bv=None):
    if self.kind == 'subset':
        return VSymSet(dict((k, z3.Bool(fresh_name('%s[%r]' % (name, k)))) for k in self.kw['universe']),
                       self.kw.get('pytype', 'list'))
    if self.kind == 'symlist':
        return VList([VInt(z3.Int(fresh_name('%s[%d]' % (name, i)))) for i in range(self.kw['n'])])
    return _prev_make(self, name, st, bv)


T.make = _make
T.symlist = staticmethod(lambda n: T('symlist', n=n))      # Python list of n unconstrained ints
T.subset = staticmethod(lambda universe, pytype='list': T('subset', universe=list(universe), pytype=pytype))


# ---------------------------------------------------------------------------
# if-merging

def _same(a, b):
    if hasattr(a, 'same_'):
        return a.same_(b)
    if hasattr(b, 'same_'):
        return b.same_(a)
    return same_value(a, b)


def _merge_val(c, a, b):
    """value that equals a when c holds and b otherwise; None if not expressible"""
    if _same(a, b):
        return a
    if isinstance(a, (VInt, VBool)) and isinstance(b, (VInt, VBool)) and type(a) is type(b):
        return v_ite(VBool(c), a, b)
    if isinstance(a, VTuple) and isinstance(b, VTuple) and len(a.items) == len(b.items):
        items = [_merge_val(c, x, y) for x, y in zip(a.items, b.items)]
        return None if any(i is None for i in items) else VTuple(items)
    if isinstance(a, VSymSet) and isinstance(b, VSymSet):
        keys = list(a.m.keys()) + [k for k in b.m if k not in a.m]
        return VSymSet(dict((k, z3.simplify(z3.If(c, a.has(k), b.has(k)))) for k in keys), a.pytype)
    if isinstance(a, (VList, VGList)) and isinstance(b, (VList, VGList)):
        A, B = VGList.of(a).items, VGList.of(b).items
        n = min(len(A), len(B))
        for i in range(n):
            if not (A[i][0].eq(B[i][0]) and _same(A[i][1], B[i][1])):
                return None
        ext = [(z3.simplify(z3.And(c, g)), v) for g, v in A[n:]] + \
              [(z3.simplify(z3.And(z3.Not(c), g)), v) for g, v in B[n:]]
        return VGList(A[:n] + ext)
    return None


def _heap_same(h1, h0):
    if h1.keys() != h0.keys():
        return False
    for k, v in h1.items():
        if v is not h0[k] and not _same(v, h0[k]):
            return False
    return True


def try_merge_if(ex, node, st, fr):
    """Execute `if` without forking when both arms are pure straight-line code.
    Returns a list with one normal Outcome, or None (caller forks as usual)."""
    from .executor import Outcome
    n_ob = len(ex.obligations)

    def give_up():
        del ex.obligations[n_ob:]
        return None
    probe = st.fork()
    try:
        outs = ex.eval(node.test, probe, fr)
    except Unsupported:
        return give_up()
    if len(outs) != 1 or outs[0].kind != 'normal' or len(ex.obligations) != n_ob:
        return give_up()
    base = outs[0].st
    c = z3.simplify(truthy(outs[0].val))
    if z3.is_true(c) or z3.is_false(c):
        return give_up()
    if not _heap_same(base.heap, st.heap) or len(base.events) != len(st.events) or len(base.yields) != len(st.yields):
        return give_up()
    arms = []
    for cond, body in ((c, node.body), (z3.Not(c), node.orelse)):
        s = base.fork()
        npc = len(s.pc)
        s.pc.append(cond)
        try:
            o = ex.exec_block(body, s, fr) if body else [Outcome('normal', s)]
        except Unsupported:
            return give_up()
        if len(o) != 1 or o[0].kind != 'normal' or len(ex.obligations) != n_ob:
            return give_up()
        s2 = o[0].st
        if not _heap_same(s2.heap, base.heap) or len(s2.events) != len(base.events) or \
                len(s2.yields) != len(base.yields) or s2.fresh_objs != base.fresh_objs:
            return give_up()
        arms.append((s2, list(s2.pc[npc + 1:])))
    (st_t, extra_t), (st_f, extra_f) = arms
    env = {}
    for name in list(st_t.env.keys()) + [k for k in st_f.env if k not in st_t.env]:
        if name not in st_t.env or name not in st_f.env:
            return give_up()                       # variable bound in one arm only
        v = _merge_val(c, st_t.env[name], st_f.env[name])
        if v is None:
            return give_up()
        env[name] = v
    m = base.fork()
    m.env = env
    if extra_t:
        m.pc.append(z3.Implies(c, z3.And(extra_t)))
    if extra_f:
        m.pc.append(z3.Implies(z3.Not(c), z3.And(extra_f)))
    m.trace.append('L%d:merged' % node.lineno)
    return [Outcome('normal', m)]


# ---------------------------------------------------------------------------
# comprehensions

def _pure_eval(ex, expr, s, fr, n_ob):
    try:
        outs = ex.eval(expr, s, fr)
    except Unsupported:
        del ex.obligations[n_ob:]
        return None
    if len(outs) != 1 or outs[0].kind != 'normal' or len(ex.obligations) != n_ob or outs[0].st is not s:
        del ex.obligations[n_ob:]
        return None
    return outs[0].val


def comp_static(ex, node, g, items, st, fr):
    """[elt for target in items if conds] over statically known items without
    forking: VList when every condition is decided, else VGList.  None when
    some condition / element is not a pure expression."""
    n_ob = len(ex.obligations)
    out = []
    for it in items:
        s = st.fork()
        npc = len(s.pc)
        ao = ex.assign(g.target, it, s, fr)
        if len(ao) != 1 or ao[0].kind != 'normal':
            return None
        guard = []
        for cnd in g.ifs:
            v = _pure_eval(ex, cnd, s, fr, n_ob)
            if v is None or len(s.pc) != npc:
                return None
            guard.append(truthy(v))
            s.pc.append(truthy(v))          # later conditions / the element see the earlier ones
            npc = len(s.pc)
        v = _pure_eval(ex, node.elt, s, fr, n_ob)
        if v is None or len(s.pc) != npc:
            return None
        out.append((z3.simplify(z3.And(guard + [z3.BoolVal(True)])), v))
    gl = VGList(out)
    st_items = gl.static_items_()
    return VList(st_items) if st_items is not None else gl


class FilterWitness(object):
    """What the filter-comprehension rule introduces for `res = [x for x in src if c(x)]`:
    g maps result positions to source positions (order preserving), h maps the source
    positions whose element satisfies c back to result positions.  The three schemas are
    assumed (quantified, with triggers) on the path; `elem/mono/hit` give single instances so
    that a specification can be proved from explicitly chosen instances (quantifier-free)."""

    def __init__(self, src, res, g, h, cond, line):
        self.src, self.res, self.g, self.h, self.cond, self.line = src, res, g, h, cond, line

    def elem(self, j):
        src, r, g = self.src.t, self.res.t, self.g
        return z3.Implies(z3.And(0 <= j, j < slen(r)),
                          z3.And(0 <= g(j), g(j) < slen(src), sat(r, j) == sat(src, g(j)), self.cond(sat(src, g(j)))))

    def mono(self, j, k):
        return z3.Implies(z3.And(0 <= j, j < k, k < slen(self.res.t)), self.g(j) < self.g(k))

    def hit(self, i):
        src, r, g, h = self.src.t, self.res.t, self.g, self.h
        return z3.Implies(z3.And(0 <= i, i < slen(src), self.cond(sat(src, i))),
                          z3.And(0 <= h(i), h(i) < slen(r), g(h(i)) == i))


def comp_filter(ex, node, g, itv, st, fr):
    """[x for x in xs if c(x)] with xs a sequence of symbolic length."""
    import ast
    if not isinstance(itv, VSeq) or not g.ifs:
        return None
    if not (isinstance(node.elt, ast.Name) and isinstance(g.target, ast.Name) and node.elt.id == g.target.id):
        return None
    n_ob = len(ex.obligations)
    e = z3.Int(fresh_name('flt_e'))
    s = st.fork()
    npc = len(s.pc)
    s.env[g.target.id] = VInt(e)
    conds = []
    for cnd in g.ifs:
        v = _pure_eval(ex, cnd, s, fr, n_ob)
        if v is None or len(s.pc) != npc:
            return None
        conds.append(truthy(v))
        s.pc.append(truthy(v))
        npc = len(s.pc)
    c_e = z3.And(conds) if len(conds) > 1 else conds[0]

    def c(t):
        return z3.substitute(c_e, (e, t))
    r = VSeq(z3.Const(fresh_name('flt'), smt.Seq), 'int', 'list')
    w = FilterWitness(itv, r, z3.Function(fresh_name('flt_g'), smt.I, smt.I),
                      z3.Function(fresh_name('flt_h'), smt.I, smt.I), c, node.lineno)
    if not ex.opts.get('filter_witness_only'):
        # (with the option the contract works from the witness alone and the path stays quantifier-free)
        j, k, i = z3.Int(fresh_name('fj')), z3.Int(fresh_name('fk')), z3.Int(fresh_name('fi'))
        st.assume(slen(r.t) <= slen(itv.t))
        st.assume(z3.ForAll([j], w.elem(j), patterns=[sat(r.t, j), w.g(j)]))
        st.assume(z3.ForAll([j, k], w.mono(j, k), patterns=[z3.MultiPattern(w.g(j), w.g(k))]))
        st.assume(z3.ForAll([i], w.hit(i), patterns=[sat(itv.t, i)]))
    st.ghost['filter@%d' % node.lineno] = VPy(w)
    st.ghost['filter'] = st.ghost['filter@%d' % node.lineno]
    return r


# ---------------------------------------------------------------------------
# ground z3 tasks

class TableTask(object):
    """Facts over a finite domain posed directly to z3 (no executor).

    `facts(task)` yields tuples (name, assumptions, goal, free_vars) with z3
    terms; each is an obligation: valid <=> proved.  For a refuted fact every
    counterexample over `free_vars` is enumerated (up to 64) and reported in
    the model as 'counterexamples'."""
    backend = 'z3'

    def __init__(self, name, prop, qual, facts, doc='', describe=None):
        self.name = name
        self.key = 'table:' + name
        self.qual = qual
        self.prop = tuple(prop) if isinstance(prop, (list, tuple)) else (prop,)
        self.facts = facts
        self.doc = doc
        self.describe = describe        # value -> text for counterexamples

    def verify(self, reg, budget_ms=10000):
        t0 = time.time()
        results = []
        for (name, assumptions, goal, free) in self.facts(self):
            results.append(self._solve(name, assumptions, goal, free, budget_ms))
        if not results:
            raise RuntimeError('table task %s produced no obligations' % self.name)
        meta = {'qual': self.qual, 'contract': self.name, 'paths': 0, 'inlined': [], 'opaque': [],
                'assumptions': [], 'exec_s': time.time() - t0}
        return results, meta

    def _solve(self, name, assumptions, goal, free, budget_ms):
        def mk():
            sv = z3.Solver()
            for a in assumptions:
                sv.add(a)
            sv.add(z3.Not(goal))
            return sv
        t0 = time.time()
        r, s, _ = smt.check_trusted(mk, budget_ms)
        model = None
        if r == z3.unsat:
            verdict = Verdict.PROVED
        elif r == z3.sat:
            verdict = Verdict.REFUTED
            cex = []
            while r == z3.sat and len(cex) < 64:
                m = s.model()
                vals = [m.eval(v, model_completion=True) for v in free]
                row = {}
                for v, x in zip(free, vals):
                    row[str(v)] = x.as_long() if z3.is_int_value(x) else (z3.is_true(x) if z3.is_bool(x) else str(x))
                if self.describe is not None:
                    row['means'] = self.describe(row)
                cex.append(row)
                if not free:
                    break
                s.add(z3.Or([v != x for v, x in zip(free, vals)]))
                smt.beat(60.0)
                r = s.check()
                smt.beat(0)
            model = dict(cex[0])
            model['counterexamples'] = cex
        else:
            verdict = Verdict.UNDECIDED
        dt = time.time() - t0
        smt.STATS['z3_queries'] += 1
        smt.STATS['z3_s'] += dt
        return {'contract': self.name, 'qual': self.qual, 'obligation': '%s::%s' % (self.name, name), 'kind': 'table',
                'verdict': verdict, 'backend': 'z3', 's': round(dt, 4),
                'reason': None if verdict != Verdict.UNDECIDED else s.reason_unknown(),
                'model': model, 'trace': None, 'where': None, 'prop': list(self.prop)}
