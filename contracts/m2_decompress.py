"""C08 (bounded memory): CompressedCertificate._decompress (tlslite/messages.py).
Every call that inflates peer-supplied bytes is one whose output size is bounded by the length the message itself
declares (expected_length, a 3-byte field): on every path, each producer call is either
  * <decompressobj>.decompress(data, max_length) with 0 < max_length <= expected_length + 1
    (zlib contract: at most max_length bytes are returned when max_length > 0), or
  * an optional third-party binding called with (data, expected_length) on the branch where the installation check
    found that it accepts an output limit.
zlib.decompress(data, wbits, bufsize) is NOT bounded (bufsize is an initial buffer size): F13.
The branches taken when a brotli/zstd binding has no limit parameter are environment assumptions, reported as such."""
import z3

from pyvc.m2 import M2Spec, m2task, fresh_opaque
from pyvc.executor import Outcome
from pyvc.values import VOpaque, VInt, to_val
from pyvc import smt
from pyvc.contract import REG

Q = 'tlslite/messages.py:CompressedCertificate._decompress'
TOINT = z3.Function('v_int_of', smt.Val, z3.IntSort())


def _as_int(v):
    """integer meaning of an M2 value (python int constant, or an integer term)"""
    if isinstance(v, VInt):
        return v.t if hasattr(v, 't') else z3.IntVal(int(v.v))
    t = to_val(v)
    return TOINT(t)


ADD = z3.Function('v_binop_Add', smt.Val, smt.Val, smt.Val)
COUNT = {'sites': 0, 'env': 0}


def h_decompressobj(ex, recv, args, kwargs, st, fr, node):
    r = fresh_opaque('decompressobj')
    st.ghost['decompressor'] = r
    return [Outcome('normal', st, r)]


def h_decompress(ex, recv, args, kwargs, st, fr, node):
    """any call named decompress: zlib.decompress (unbounded) or <decompressobj>.decompress(data, max_length)"""
    COUNT['sites'] += 1
    if recv is st.ghost.get('decompressor') and len(args) >= 2:
        b = to_val(args[1])
        e = to_val(st.env['expected_length'])
        ex.oblige(st, 'L%d:decompressobj-limit-is-expected_length(+1)' % node.lineno,
                  z3.Or(b == e, b == ADD(e, to_val(VInt(1)))), kind='m2')
    else:
        ex.oblige(st, 'L%d:inflating-call-has-an-output-limit' % node.lineno, z3.BoolVal(False), kind='m2')
    return [Outcome('normal', st, fresh_opaque('inflated'))]


def h_binding(ex, f, args, kwargs, st, fr, node):
    """compression_algo_impls["..."](data[, limit]): optional third-party binding"""
    COUNT['sites'] += 1
    if len(args) >= 2:
        ex.oblige(st, 'L%d:limit-passed-to-the-binding-is-expected_length' % node.lineno,
                  to_val(args[1]) == to_val(st.env['expected_length']), kind='m2')
    else:
        COUNT['env'] += 1
    return [Outcome('normal', st, fresh_opaque('inflated'))]


SPEC = M2Spec(hooks={'decompressobj': h_decompressobj, 'decompress': h_decompress, '<computed-callee>': h_binding},
              pure={'isinstance', 'bytes', 'len', 'getattr', 'format'})


def _check(api):
    api.oblige(api.entry, 'has-normal-exit', len(api.normal_exits()) >= 1)
    api.oblige(api.entry, 'at-least-one-inflating-call-site-inspected', COUNT['sites'] >= 1)
    if COUNT['env']:
        REG.note('C08', 'trusted', 'CompressedCertificate._decompress: %d call site(s) use a brotli/zstd binding that has no '
                                   'output-limit parameter (compression_algo_impls[*_accepts_limit] false); such '
                                   'installations are outside the bounded-memory claim' % COUNT['env'])


m2task('CompressedCertificate._decompress/output-bounded', ('C08',), Q, SPEC, check=_check,
       opts={'ground_feasible': True},
       doc='every call inflating peer bytes is bounded by the declared uncompressed length (+1 so that an overlong '
           'stream is detected by the length comparison); zlib.decompress(data, wbits, bufsize) is not such a call')
REG.note('C08', 'trusted', 'CompressedCertificate._decompress: the brotli/zstd branches are executed against this installation\'s '
                           'compression_algo_impls table (here: bundled brotli decoder that accepts an output limit, no zstd => that branch '
                           'is infeasible); that a binding honours the limit it is given is its contract (C08 agent observation: the bundled '
                           'brotli decoder checks the limit per metablock); zlib.decompressobj().decompress(data, max_length) returns at most '
                           'max_length bytes (zlib documentation)')
REG.xchecks.append({'prop': 'C08', 'module': 'specs.decompress', 'name': 'compressed_certificate_zlib_output_bounded', 'function': Q})
