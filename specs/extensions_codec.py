"""Executable references (written from RFC 8446 4.2 / RFC 5246 7.4.4 / RFC 8446 4.3.2 / RFC 5077 3.3, with struct)
and differential runs for the parametric extension families of tlslite/extensions.py, the generic TLSExtension
header / dispatch, CertificateRequest (three framings), NewSessionTicket(1_0) and SessionTicketPayload (C15, C08).

An extension value is None (absent: empty extension_data) or a present value; a present EMPTY list / string is the
length-prefixed empty vector and must come back as an empty list / string, not as None.
"""
import struct


class RefDecodeError(Exception):
    pass


def u(n, x):
    if not 0 <= x < 256 ** n:
        raise ValueError('%d does not fit %d bytes' % (x, n))
    return x.to_bytes(n, 'big')


# ---------------------------------------------------------------------------------------------- extension payloads
def enc_value(kind, v, n, ll):
    """kind: bytes | ints | pairs | int;  n element width;  ll length-field width"""
    if v is None:
        return b''
    if kind == 'int':
        return u(n, v)
    if kind == 'bytes':
        return u(ll, len(v)) + bytes(v)
    if kind == 'ints':
        return u(ll, len(v) * n) + b''.join(u(n, e) for e in v)
    return u(ll, len(v) * 2 * n) + b''.join(u(n, a) + u(n, b) for a, b in v)


def dec_value(kind, buf, n, ll, mandatory=False):
    """whole payload -> value; RefDecodeError on any framing problem"""
    if len(buf) == 0:
        if mandatory:
            raise RefDecodeError('empty payload')
        return None
    if kind == 'int':
        if len(buf) != n:
            raise RefDecodeError('size')
        return int.from_bytes(buf, 'big')
    if len(buf) < ll:
        raise RefDecodeError('length field truncated')
    total = int.from_bytes(buf[:ll], 'big')
    if len(buf) != ll + total:
        raise RefDecodeError('length field %d, payload %d' % (total, len(buf) - ll))
    body = buf[ll:]
    if kind == 'bytes':
        return bytes(body)
    g = n if kind == 'ints' else 2 * n
    if total % g:
        raise RefDecodeError('not a multiple')
    vals = [int.from_bytes(body[i:i + n], 'big') for i in range(0, total, n)]
    if kind == 'ints':
        return vals
    return [(vals[i], vals[i + 1]) for i in range(0, len(vals), 2)]


def _families():
    """(class, kind, n, ll, mandatory) for every concrete subclass of the four families, parameters read from a
    live instance"""
    import inspect
    import tlslite.extensions as E
    fams = [(E.VarBytesExtension, 'bytes'), (E.VarSeqListExtension, 'pairs'), (E.VarListExtension, 'ints'), (E.IntExtension, 'int')]
    out = []
    for name, cls in sorted(vars(E).items()):
        if not inspect.isclass(cls) or cls.__module__ != E.__name__ or name.startswith('_'):
            continue
        for fam, kind in fams:
            if issubclass(cls, fam) and cls is not fam:
                try:
                    o = cls()
                except TypeError:
                    break
                n = getattr(o, '_elemLength', None) or getattr(o, '_elem_length', None) or 1
                ll = getattr(o, '_lengthLength', None) or getattr(o, '_length_length', None) or 0
                out.append((cls, kind, n, ll, 'parse' in vars(cls)))
                break
    return out


def _fail(fails, cls, what, **inp):
    if len(fails) < 8:
        fails.append({'class': cls, 'what': what, 'input': inp})


def _norm(kind, v):
    if v is None:
        return None
    if kind == 'bytes':
        return bytes(v)
    if kind == 'ints':
        return [int(x) for x in v]
    if kind == 'pairs':
        return [tuple(int(y) for y in x) for x in v]
    return int(v)


def _real_parse(cls, payload):
    from tlslite.utils.codec import Parser
    p = Parser(bytearray(payload))
    try:
        o = cls().parse(p)
    except Exception as e:      # noqa
        return ('exc', type(e).__name__, isinstance(e, SyntaxError)), None, p
    return ('ok', None, True), o, p


def _values(rng, kind, n):
    mx = 256 ** n
    r = lambda: rng.choice([0, 1, mx - 1, rng.randrange(mx)])
    if kind == 'int':
        return [0, 1, mx - 1, rng.randrange(mx)]
    if kind == 'bytes':
        return [b'', b'\x00', bytes(rng.randrange(256) for _ in range(2)), bytes(rng.randrange(256) for _ in range(rng.choice([17, 200])))]
    if kind == 'ints':
        return [[], [r()], [r(), r()], [r() for _ in range(rng.choice([3, 9, 40]))]]
    return [[], [(r(), r())], [(r(), r()), (r(), r())], [(r(), r()) for _ in range(rng.choice([3, 9, 40]))]]


def xcheck_families(rng, n_iter):
    from tlslite.utils.codec import Parser
    from tlslite.extensions import TLSExtension
    fails, seen, evals = [], set(), 0
    for _ in range(max(1, n_iter // 10)):
        for (cls, kind, n, ll, mandatory) in _families():
            name = cls.__name__
            for v in [None] + _values(rng, kind, n):
                evals += 1
                tag = 'absent' if v is None else ('empty' if v in ([], b'') else 'present')
                seen.add((name, tag))
                try:
                    want = enc_value(kind, v, n, ll)
                except ValueError:
                    continue                     # value too long for this length field: not well-formed
                got = bytes(cls().create(v).extData)
                if got != want:
                    _fail(fails, 'extension-layout-differs', '%s.extData(%r) = %s, RFC %s' % (name, v, got.hex()[:80], want.hex()[:80]), ext=name)
                    continue
                end, o, p = _real_parse(cls, got)
                if v is None and mandatory:
                    if end[0] != 'exc' or end[1] != 'DecodeError':
                        _fail(fails, 'mandatory-extension-accepts-empty', '%s: empty payload gave %r' % (name, end), ext=name)
                    continue
                if end[0] != 'ok':
                    _fail(fails, 'extension-roundtrip-rejected', '%s: parse(extData(%r)) raised %s' % (name, v, end[1]), ext=name, payload_hex=got.hex()[:120])
                    continue
                back = _norm(kind, o._internal_value)
                if back != _norm(kind, v):
                    cls_ = 'empty-list-becomes-absent' if (v in ([], b'') and back is None) else 'extension-roundtrip-mismatch'
                    _fail(fails, cls_, '%s: wrote %r, read %r' % (name, v, back), ext=name, payload_hex=got.hex()[:120])
                if p.index != len(got):
                    _fail(fails, 'extension-not-consumed', '%s: consumed %d of %d' % (name, p.index, len(got)), ext=name)
                if bytes(o.extData) != got:
                    _fail(fails, 'extension-rewrite-differs', '%s: extData(parse(b)) != b' % name, ext=name, payload_hex=got.hex()[:120])
                # generic header + dispatch (client-side context)
                if v is not None and TLSExtension._universalExtensions.get(cls().extType) is cls:
                    w = bytes(cls().create(v).write())
                    if w != struct.pack('>HH', cls().extType, len(got)) + got:
                        _fail(fails, 'extension-header-differs', '%s.write header' % name, ext=name, wire_hex=w.hex()[:80])
                    try:
                        r = TLSExtension().parse(Parser(bytearray(w)))
                        if type(r) is not cls or _norm(kind, r._internal_value) != _norm(kind, v):
                            _fail(fails, 'extension-dispatch-mismatch', '%s re-parsed as %s %r' % (name, type(r).__name__, getattr(r, '_internal_value', None)), ext=name)
                    except Exception as e:      # noqa
                        _fail(fails, 'extension-dispatch-rejected', '%s: generic parse raised %s' % (name, type(e).__name__), ext=name, wire_hex=w.hex()[:80])
                # trailing data, truncations, every other value of the length field: real vs reference decoder
                variants = [('trailing', got + b'\x00')]
                variants += [('trunc%d' % c, got[:c]) for c in range(len(got)) if len(got) <= 48 or c < 6 or c > len(got) - 4]
                if kind != 'int' and v is not None and ll:
                    true_len = int.from_bytes(got[:ll], 'big')
                    for cand in set(list(range(0, min(true_len + 4, 40))) + [true_len - 1, true_len + 1, true_len + n, max(0, true_len - n), 255, 256 ** ll - 1]):
                        if 0 <= cand < 256 ** ll and cand != true_len:
                            variants.append(('len=%d' % cand, cand.to_bytes(ll, 'big') + got[ll:]))
                for (vt, buf) in variants:
                    evals += 1
                    try:
                        ref = ('ok', _norm(kind, dec_value(kind, buf, n, ll, mandatory)))
                    except RefDecodeError:
                        ref = ('exc', None)
                    end, o, p = _real_parse(cls, buf)
                    seen.add((name, vt.split('=')[0].rstrip('0123456789'), ref[0]))
                    if end[0] == 'exc' and end[1] != 'DecodeError':
                        _fail(fails, 'extension-undocumented-exception', '%s %s: raised %s' % (name, vt, end[1]), ext=name, payload_hex=buf.hex()[:120])
                    elif end[0] != ref[0]:
                        c_ = 'extension-accepts-bad-framing' if end[0] == 'ok' else 'extension-rejects-good-framing'
                        _fail(fails, c_, '%s %s: real %s, reference %s' % (name, vt, end[0], ref[0]), ext=name, payload_hex=buf.hex()[:120])
                    elif end[0] == 'ok' and _norm(kind, o._internal_value) != ref[1]:
                        _fail(fails, 'extension-wrong-value', '%s %s: real %r, reference %r' % (name, vt, _norm(kind, o._internal_value), ref[1]), ext=name,
                              payload_hex=buf.hex()[:120])
    return {'evaluations': evals, 'distinct_nontrivial': len(seen),
            'bound': 'every concrete subclass of the 4 families; None / empty / 1 / 2 / up to 40 elements; trailing byte, truncations, '
                     'every length-field value 0..len+3 and boundary values; seed-dependent element values',
            'rule': 'distinct (extension class, variant class, expected outcome)', 'failures': fails}


# ---------------------------------------------------------------------------------------------- CertificateRequest
def hs(t, body):
    return bytes([t]) + u(3, len(body)) + bytes(body)


def ref_certreq_12(version, types, sigalgs, cas):
    b = u(1, len(types)) + bytes(types)
    if version >= (3, 3):
        b += u(2, 2 * len(sigalgs)) + b''.join(bytes(p) for p in sigalgs)
    inner = b''.join(u(2, len(c)) + bytes(c) for c in cas)
    return hs(13, b + u(2, len(inner)) + inner)


def ref_certreq_13(context, ext_blobs):
    ex = b''.join(ext_blobs)
    return hs(13, u(1, len(context)) + bytes(context) + u(2, len(ex)) + ex)


def ref_parse_certreq_12(version, wire):
    """-> (types, sigalgs or None, cas); RefDecodeError on any framing problem (lengths must add up exactly)"""
    def need(i, n):
        if i + n > len(wire):
            raise RefDecodeError('truncated')
    i = 1
    need(i, 3)
    total = int.from_bytes(wire[i:i + 3], 'big')
    i += 3
    end = i + total
    need(i, 1)
    nt = wire[i]
    i += 1
    need(i, nt)
    types = list(wire[i:i + nt])
    i += nt
    sig = None
    if version == (3, 3):
        need(i, 2)
        ns = int.from_bytes(wire[i:i + 2], 'big')
        i += 2
        if ns % 2:
            raise RefDecodeError('odd')
        need(i, ns)
        sig = [(wire[i + k], wire[i + k + 1]) for k in range(0, ns, 2)]
        i += ns
    need(i, 2)
    cal = int.from_bytes(wire[i:i + 2], 'big')
    i += 2
    stop = i + cal
    cas = []
    while i != stop:
        if i > stop:
            raise RefDecodeError('entry crosses the declared end of the list')
        need(i, 2)
        n = int.from_bytes(wire[i:i + 2], 'big')
        i += 2
        need(i, n)
        if i + n > stop:
            raise RefDecodeError('entry crosses the declared end of the list')
        cas.append(bytes(wire[i:i + n]))
        i += n
    if i != end:
        raise RefDecodeError('outer length mismatch')
    return types, sig, cas


def _parse_cr(version, wire):
    from tlslite.messages import CertificateRequest
    from tlslite.utils.codec import Parser
    p = Parser(bytearray(wire))
    p.index = 1
    try:
        m = CertificateRequest(version).parse(p)
    except Exception as e:      # noqa
        return ('exc', type(e).__name__, isinstance(e, SyntaxError)), None, p
    return ('ok', None, True), m, p


def xcheck_certreq(rng, n_iter):
    from tlslite.messages import CertificateRequest
    from tlslite.extensions import SignatureAlgorithmsExtension, TLSExtension
    fails, seen, evals = [], set(), 0
    rb = lambda k: bytes(rng.randrange(256) for _ in range(k))
    for _ in range(n_iter):
        version = rng.choice([(3, 1), (3, 2), (3, 3), (3, 3), (3, 4)])
        if version <= (3, 3):
            types = [rng.randrange(256) for _ in range(rng.choice([0, 1, 3]))]
            sig = [(rng.randrange(256), rng.randrange(256)) for _ in range(rng.choice([0, 1, 2, 7]))]
            cas = [rb(rng.choice([0, 1, 5, 40])) for _ in range(rng.choice([0, 1, 2, 5]))]
            m = CertificateRequest(version).create(list(types), [bytearray(c) for c in cas], list(sig) if version == (3, 3) else None)
            wire = bytes(m.write())
            ref = ref_certreq_12(version, types, sig, cas)
            evals += 1
            seen.add((version, len(cas), 'write'))
            if wire != ref:
                _fail(fails, 'certreq-layout-differs', 'write %s, RFC %s' % (wire.hex()[:100], ref.hex()[:100]), version=list(version))
                continue
            variants = [('wellformed', wire)]
            # certificate_authorities length: every smaller / larger value
            off = 4 + 1 + len(types) + ((2 + 2 * len(sig)) if version == (3, 3) else 0)
            cal = int.from_bytes(wire[off:off + 2], 'big')
            for cand in sorted(set(list(range(0, min(cal + 6, 64))) + [cal - 1, cal + 1, cal + 2, 65535])):
                if 0 <= cand < 65536 and cand != cal:
                    variants.append(('ca_len=%d' % cand, wire[:off] + u(2, cand) + wire[off + 2:]))
                    # ... also with the outer length adjusted so that only the inner structure disagrees
                    delta = cand - cal
                    tot = int.from_bytes(wire[1:4], 'big') + delta
                    if 0 <= tot < 1 << 24:
                        variants.append(('ca_len=%d,outer-adjusted' % cand, wire[:1] + u(3, tot) + wire[4:off] + u(2, cand) + wire[off + 2:]))
            # inner DistinguishedName lengths
            q = off + 2
            for c in cas:
                for d in (-1, 1, 3):
                    nl = len(c) + d
                    if 0 <= nl < 65536:
                        variants.append(('dn_len%+d' % d, wire[:q] + u(2, nl) + wire[q + 2:]))
                q += 2 + len(c)
            tot = int.from_bytes(wire[1:4], 'big')
            for d in (-1, 1, 2):
                if 0 <= tot + d:
                    variants.append(('outer%+d' % d, wire[:1] + u(3, tot + d) + wire[4:] + bytes(max(0, d))))
            variants += [('trunc', wire[:c]) for c in sorted(set([1, 2, 4, 5, off, off + 1, off + 2, len(wire) - 1] + [rng.randrange(1, len(wire)) for _ in range(4)])) if c < len(wire)]
            for (vt, buf) in variants:
                evals += 1
                try:
                    want = ('ok', ref_parse_certreq_12(version, buf))
                except RefDecodeError:
                    want = ('exc', None)
                end, got, p = _parse_cr(version, buf)
                seen.add((version <= (3, 2), vt.split('=')[0].split('+')[0].split('-')[0], want[0]))
                if end[0] == 'exc' and not end[2]:
                    _fail(fails, 'certreq-undocumented-exception', '%s: raised %s' % (vt, end[1]), version=list(version), wire_hex=buf.hex()[:200])
                elif end[0] != want[0]:
                    c_ = 'certreq-accepts-bad-framing' if end[0] == 'ok' else 'certreq-rejects-good-framing'
                    _fail(fails, c_, '%s: real %s, reference %s' % (vt, end[0], want[0]), version=list(version), wire_hex=buf.hex()[:200])
                elif end[0] == 'ok':
                    gt = (list(got.certificate_types), ([tuple(x) for x in got.supported_signature_algs] if version == (3, 3) else None),
                          [bytes(c) for c in got.certificate_authorities])
                    if gt != (want[1][0], want[1][1], want[1][2]) or p.index != 4 + int.from_bytes(buf[1:4], 'big'):
                        _fail(fails, 'certreq-wrong-value', '%s: real %r, reference %r, consumed %d/%d' % (vt, gt, want[1], p.index, len(buf)),
                              version=list(version), wire_hex=buf.hex()[:200])
        else:
            ctx = rb(rng.choice([0, 1, 32]))
            exts = []
            if rng.random() < 0.8:
                exts.append(SignatureAlgorithmsExtension().create([(rng.randrange(256), rng.randrange(256)) for _ in range(rng.choice([0, 1, 4]))]))
            if rng.random() < 0.5:
                exts.append(TLSExtension(extType=rng.choice([0xff01 + 7, 65000, 21])).create(bytearray(rb(rng.choice([0, 3])))))
            m = CertificateRequest(version).create(context=bytearray(ctx), extensions=exts)
            wire = bytes(m.write())
            ref = ref_certreq_13(ctx, [bytes(e.write()) for e in exts])
            evals += 1
            seen.add((version, len(exts), 'write'))
            if wire != ref:
                _fail(fails, 'certreq-layout-differs', 'write %s, RFC %s' % (wire.hex()[:100], ref.hex()[:100]), version=list(version))
                continue
            end, got, p = _parse_cr(version, wire)
            if end[0] != 'ok' or bytes(got.certificate_request_context) != ctx or [bytes(e.write()) for e in got.extensions] != [bytes(e.write()) for e in exts] \
                    or p.index != len(wire):
                _fail(fails, 'certreq-roundtrip-mismatch', 'TLS 1.3: %r' % (end,), wire_hex=wire.hex()[:200])
            eo = 4 + 1 + len(ctx)
            el = int.from_bytes(wire[eo:eo + 2], 'big')
            variants = [('ext_len%+d' % d, wire[:eo] + u(2, el + d) + wire[eo + 2:]) for d in (-1, 1, 4) if 0 <= el + d < 65536]
            variants += [('trunc', wire[:c]) for c in range(1, len(wire)) if c < 8 or c > len(wire) - 3]
            variants += [('outer+1', wire[:1] + u(3, len(wire) - 4 + 1) + wire[4:] + b'\x00')]
            for (vt, buf) in variants:
                evals += 1
                end, got, p = _parse_cr(version, buf)
                seen.add(('tls13', vt.split('+')[0].split('-')[0], end[0]))
                if end[0] == 'ok':
                    _fail(fails, 'certreq-accepts-bad-framing', 'TLS 1.3 %s accepted' % vt, wire_hex=buf.hex()[:200])
                elif not end[2]:
                    _fail(fails, 'certreq-undocumented-exception', 'TLS 1.3 %s: raised %s' % (vt, end[1]), wire_hex=buf.hex()[:200])
    return {'evaluations': evals, 'distinct_nontrivial': len(seen),
            'bound': 'versions TLS1.0..1.3; 0/1/2/5 DistinguishedNames of 0..40 bytes; 0..7 signature algorithms; every ca-list length 0..len+5 '
                     '(with and without adjusted outer length), DN lengths -1/+1/+3, outer -1/+1/+2, truncations; seed-dependent contents',
            'rule': 'distinct (framing, variant class, expected outcome)', 'failures': fails}


# ---------------------------------------------------------------------------------------------- tickets
def ref_nst13(lifetime, age_add, nonce, ticket, ext_blobs=()):
    ex = b''.join(ext_blobs)
    return hs(4, struct.pack('>II', lifetime, age_add) + u(1, len(nonce)) + bytes(nonce) + u(2, len(ticket)) + bytes(ticket) + u(2, len(ex)) + ex)


def ref_nst10(lifetime, ticket):
    return hs(4, struct.pack('>I', lifetime) + u(2, len(ticket)) + bytes(ticket))


def ref_ticket_payload(version, ms, pv, cs, nonce, ctime, etm=False, ems=False, sni=b''):
    b = u(2, version) + u(2, len(ms)) + bytes(ms) + bytes(pv) + u(2, cs) + u(1, len(nonce)) + bytes(nonce) + u(8, ctime)
    if version >= 1:
        b += u(3, 0)                       # empty certificate chain
    if version >= 2:
        b += bytes([int(etm), int(ems)]) + u(2, len(sni)) + bytes(sni)
    return b


def xcheck_tickets(rng, n_iter):
    from tlslite.messages import NewSessionTicket, NewSessionTicket1_0, SessionTicketPayload
    from tlslite.utils.codec import Parser
    fails, seen, evals = [], set(), 0
    rb = lambda k: bytearray(rng.randrange(256) for _ in range(k))

    def parse(mk, wire, off):
        p = Parser(bytearray(wire))
        p.index = off
        try:
            return ('ok', None, True), mk().parse(p), p
        except Exception as e:      # noqa
            return ('exc', type(e).__name__, isinstance(e, (SyntaxError, ValueError))), None, p
    for _ in range(n_iter):
        lt, aa = rng.randrange(1 << 32), rng.randrange(1 << 32)
        nonce, ticket = rb(rng.choice([0, 1, 8, 255])), rb(rng.choice([0, 1, 32, 300]))
        cases = [('NewSessionTicket', NewSessionTicket, lambda o: o.create(lt, aa, nonce, ticket, []), ref_nst13(lt, aa, nonce, ticket), 1,
                  lambda o: (o.ticket_lifetime, o.ticket_age_add, bytes(o.ticket_nonce), bytes(o.ticket), len(o.extensions))),
                 ('NewSessionTicket1_0', NewSessionTicket1_0, lambda o: o.create(lt, ticket), ref_nst10(lt, ticket), 1,
                  lambda o: (o.ticket_lifetime, bytes(o.ticket)))]
        ver = rng.choice([0, 2])
        ms, pv, cs, ct = rb(rng.choice([0, 48])), (3, rng.randrange(5)), rng.randrange(65536), rng.randrange(1 << 40)
        etm, ems, sni = (rng.random() < 0.5, True, bytes(rb(rng.choice([0, 11])))) if ver == 2 else (False, False, b'')

        def mk_payload(o):
            o.create(ms, pv, cs, ct, nonce, None, etm, ems, bytearray(sni))
            return o
        cases.append(('SessionTicketPayload-v%d' % ver, SessionTicketPayload, mk_payload,
                      ref_ticket_payload(ver, ms, pv, cs, nonce, ct, etm, ems, sni), 0,
                      lambda o: (o.version, bytes(o.master_secret), tuple(o.protocol_version), o.cipher_suite, bytes(o.nonce), o.creation_time,
                                 bool(o.encrypt_then_mac), bool(o.extended_master_secret), bytes(o.server_name))))
        for (name, mk, fill, ref, off, fields) in cases:
            evals += 1
            x = fill(mk())
            wire = bytes(x.write())
            seen.add((name, 'write'))
            if wire != ref:
                _fail(fails, 'ticket-layout-differs', '%s.write %s, reference %s' % (name, wire.hex()[:100], ref.hex()[:100]), message=name)
                continue
            end, y, p = parse(mk, wire, off)
            if end[0] != 'ok' or fields(y) != fields(x) or p.index != len(wire) or bytes(y.write()) != wire:
                _fail(fails, 'ticket-roundtrip-mismatch', '%s: %r' % (name, end), message=name, wire_hex=wire.hex()[:200])
            for c in sorted(set(list(range(off, min(len(wire), off + 12))) + [len(wire) - 1, len(wire) - 2])):
                if off <= c < len(wire):
                    evals += 1
                    end, y, p = parse(mk, wire[:c], off)
                    seen.add((name, 'trunc', end[1]))
                    if end[0] == 'ok':
                        _fail(fails, 'truncated-ticket-accepted', '%s: %d of %d bytes accepted' % (name, c, len(wire)), message=name, wire_hex=wire[:c].hex()[:200])
                    elif not end[2]:
                        _fail(fails, 'ticket-undocumented-exception', '%s: raised %s' % (name, end[1]), message=name, wire_hex=wire[:c].hex()[:200])
            evals += 1
            end, y, p = parse(mk, wire + b'\x00' if off == 0 else wire[:1] + u(3, len(wire) - 4 + 1) + wire[4:] + b'\x00', off)
            seen.add((name, 'trailing', end[0]))
            if end[0] == 'ok':
                _fail(fails, 'ticket-trailing-bytes-accepted', '%s accepted a trailing byte' % name, message=name)
            elif not end[2]:
                _fail(fails, 'ticket-undocumented-exception', '%s trailing: raised %s' % (name, end[1]), message=name)
    return {'evaluations': evals, 'distinct_nontrivial': len(seen),
            'bound': 'NewSessionTicket (no extensions), NewSessionTicket1_0, SessionTicketPayload v0 / v2 without client certificates; '
                     'truncations of the first 12 and last 2 bytes, one trailing byte; seed-dependent contents',
            'rule': 'distinct (message, check class, outcome)', 'failures': fails}


XCHECKS = {'extension_families': xcheck_families, 'certificate_request': xcheck_certreq, 'tickets': xcheck_tickets}
