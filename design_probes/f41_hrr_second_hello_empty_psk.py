"""F41 (C08): second ClientHello after HelloRetryRequest with an empty-bodied pre_shared_key extension (EXT=41): the
replacement extension was never validated -> TypeError in _serverTLS13Handshake (psks.identities is None).
Run: EXT=41 PYTHONPATH=<tree>:/verif python f41_hrr_second_hello_empty_psk.py"""
import sys, os
sys.path.insert(0,'/verif')
from specs.empty_ext import *
from specs.empty_ext import _relay
EXT=int(os.environ.get('EXT','41'))
cert = X509CertChain([X509().parse(open(os.path.join(ROOT, 'tests', 'serverX509Cert.pem')).read())])
key = parsePEMKey(open(os.path.join(ROOT, 'tests', 'serverX509Key.pem')).read(), private=True)
a, b = socket.socketpair(); c, d = socket.socketpair()
for s in (a,b,c,d): s.settimeout(3)
n={'ch':0}
res={}
def alter(rt, body):
    if rt==22 and body and body[0]==1:
        n['ch']+=1
        if n['ch']==2:
            ch=ClientHello().parse(Parser(body[1:]))
            for i,e in enumerate(ch.extensions):
                if e.extType==EXT:
                    ch.extensions[i]=TLSExtension(extType=EXT).create(EXT, bytearray(0)); res['altered']=True
            return ch.write()
    return body
def server():
    s=TLSConnection(d); hs=HandshakeSettings(); hs.pskConfigs=[(b'id', bytearray(b's'*32))]
    try:
        s.handshakeServer(certChain=cert, privateKey=key, settings=hs); res['r']='completed'
    except (TLSError, BaseTLSException, socket.error) as e: res['r']='documented: %r'%(e,)
    except Exception as e:
        import traceback; tb=traceback.extract_tb(e.__traceback__)[-1]
        res['r']='UNDOCUMENTED %s: %s (%s:%d)'%(type(e).__name__, e, os.path.basename(tb.filename), tb.lineno)
ts=[threading.Thread(target=server), threading.Thread(target=_relay,args=(c,b,lambda rt,bd:bd)), threading.Thread(target=_relay,args=(b,c,alter))]
for t in ts: t.start()
cl=TLSConnection(a); st=HandshakeSettings(); st.keyShares=[]; st.pskConfigs=[(b'id', bytearray(b's'*32))]
try: cl.handshakeClientCert(settings=st); res['c']='completed'
except Exception as e: res['c']=repr(e)[:80]
for s in (a,b,c,d):
    try: s.close()
    except Exception: pass
for t in ts: t.join(5)
print(EXT, res)
