"""Sidecar contracts, one module per area.  PROPS maps a property id to the
contract modules that must be loaded to decide it."""
PROPS = {
    'C12': ['contracts.c12_cbc_check', 'contracts.recordlayer', 'contracts.links'],
    'C01': ['contracts.c12_cbc_check', 'contracts.recordlayer', 'contracts.sendmsg', 'contracts.m2_posthandshake', 'contracts.m2_recordio', 'contracts.transport', 'contracts.small_extras', 'contracts.m2_tls13_states'],
    'C02': ['contracts.c12_cbc_check', 'contracts.recordlayer', 'contracts.m2_recordlayer', 'contracts.m2_recordio', 'contracts.m2_getmsg', 'contracts.defragmenter', 'contracts.ciphers', 'contracts.links', 'contracts.m2_sslv2_record'],
    'C18': ['contracts.sessioncache'],
    'C19': ['contracts.settings', 'contracts.m2_server', 'contracts.m2_client', 'contracts.settings_copy', 'contracts.ecc_tables', 'contracts.links', 'contracts.settings_supported'],
    'C20': ['contracts.suites', 'contracts.m2_client', 'contracts.m2_server', 'contracts.m2_factory', 'contracts.links'],
    'C03': ['contracts.suites', 'contracts.m2_client', 'contracts.m2_server', 'contracts.m2_keyschedule', 'contracts.m2_tls13_states', 'contracts.m2_exporter', 'contracts.m2_factory', 'contracts.settings_copy'],
    'C05': ['contracts.m2_client13', 'contracts.m2_client', 'contracts.m2_posthandshake', 'contracts.m2_server', 'contracts.m2_signverify', 'contracts.m2_binders', 'contracts.m2_server13', 'contracts.settings_copy'],
    'C04': ['contracts.m2_client', 'contracts.m2_getmsg', 'contracts.m2_server', 'contracts.m2_keyschedule', 'contracts.m2_binders', 'contracts.m2_client13_order', 'contracts.settings_copy'],
    'C06': ['contracts.m2_client', 'contracts.m2_getmsg', 'contracts.defragmenter', 'contracts.m2_server13', 'contracts.m2_server', 'contracts.m2_client13_order', 'contracts.links'],
    'C13': ['contracts.m2_client', 'contracts.m2_posthandshake', 'contracts.m2_server', 'contracts.small_extras', 'contracts.m2_binders', 'contracts.m2_server13', 'contracts.m2_factory'],
    'C09': ['contracts.kdf', 'contracts.ciphers', 'contracts.m2_tls13_states', 'contracts.m2_exporter', 'contracts.links'],
    'C15': ['contracts.codec', 'contracts.messages_simple', 'contracts.extensions_codec', 'contracts.x509_dc', 'contracts.ske_write'],
    'C08': ['contracts.codec', 'contracts.messages_simple', 'contracts.m2_recordlayer', 'contracts.m2_getmsg', 'contracts.m2_posthandshake', 'contracts.m2_recordio', 'contracts.m2_server', 'contracts.transport', 'contracts.m2_parse_safety', 'contracts.m2_decompress', 'contracts.m2_ext_none', 'contracts.extensions_codec', 'contracts.links', 'contracts.m2_sslv2_record'],
    'C14': ['contracts.m2_recordlayer', 'contracts.m2_getmsg', 'contracts.defragmenter', 'contracts.transport', 'contracts.m2_asyncsm', 'contracts.links'],
    'C16': ['contracts.m2_recordlayer', 'contracts.m2_getmsg', 'contracts.m2_posthandshake', 'contracts.sendmsg', 'contracts.m2_tls13_states', 'contracts.m2_server13'],
    'C17': ['contracts.m2_recordlayer', 'contracts.m2_getmsg', 'contracts.m2_posthandshake', 'contracts.transport', 'contracts.links', 'contracts.m2_server', 'contracts.m2_parse_safety'],
    'C11': ['contracts.c12_cbc_check', 'contracts.rsa', 'contracts.m2_server', 'contracts.small_extras'],
    'C10': ['contracts.c12_cbc_check', 'contracts.rsa', 'contracts.kex', 'contracts.m2_signverify', 'contracts.small_extras', 'contracts.ecc_tables', 'contracts.links'],
}

#: tasks that take minutes on their own (measured): run in the thorough tier only.  Their functions stay covered in
#: the quick tier by the differential runs (specs/ciphers.py) and by the cheaper contracts of the same module.
QUICK_SKIP = {
    'CHACHA20_POLY1305.seal', 'ccm_8-open-seal', 'chacha20poly1305-open-seal', 'AESCCM._cbcmac_calc', 'CHACHA20_POLY1305.open',
    # open(seal(x)) == x for CCM: 8 s in most runs, but z3 was seen not to return from one check() at all (3 of 3 attempts in
    # one run); the AESCCM.seal / AESCCM.open contracts it composes stay in the quick tier
    'ccm-open-seal',
    # 25 s to 350 s from run to run
    'AESCCM.open',
    # CertificateRequest with three DistinguishedNames: solver time varies between 15 s and several minutes from run to run
    # (the 0-2 CA scenarios and the any-number-of-CAs _parse_tls12 contract stay in the quick tier)
    'layout-CertificateRequest-tls12-3CA', 'parse-CertificateRequest-tls12-3CA', 'ca-length-mismatch-CertificateRequest-tls12-3CA',
    'layout-CertificateRequest-tls10-11-3CA', 'parse-CertificateRequest-tls10-11-3CA', 'ca-length-mismatch-CertificateRequest-tls10-11-3CA',
}
