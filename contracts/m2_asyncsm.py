"""C14: AsyncStateMachine event dispatch -- whichever operation is active is the one resumed by a readiness event of
either kind (a read may be suspended waiting for WRITABILITY, e.g. while answering close_notify or KeyUpdate, and a
write waiting for readability), otherwise results depend on which event type the loop happens to deliver."""
import z3

from pyvc.m2 import M2Spec, m2task, fresh_opaque
from pyvc.executor import Outcome
from pyvc.values import VBool, truthy, to_val
from pyvc.contract import REG

ASM = 'tlslite/integration/asyncstatemachine.py:AsyncStateMachine.'
OPS = (('handshaker', '_doHandshakeOp'), ('closer', '_doCloseOp'), ('reader', '_doReadOp'), ('writer', '_doWriteOp'))


def _mk_hook(name):
    def h(ex, recv, args, kwargs, st, fr, node):
        st.ghost['ran:' + name] = VBool(z3.BoolVal(True))
        st.events.append((name, args, None))
        return [Outcome('normal', st, fresh_opaque(name))]
    return h


def _setup(ex, st, fr):
    self_ = st.env['self']
    for f, _ in OPS:
        st.heap[(self_.oid, f)] = fresh_opaque('self_' + f)


def _check(event):
    def check(api):
        ns = api.normal_exits()
        api.oblige(api.entry, 'has-normal-exit', len(ns) >= 1)
        e = api.entry
        self_ = e.env['self']
        act = dict((f, truthy(e.heap[(self_.oid, f)])) for f, _ in OPS)
        for o in ns:
            g = o.st.ghost
            F = VBool(z3.BoolVal(False))
            # priority order of the class: handshake, close, read, write -- exactly one of them is resumed
            prior = z3.BoolVal(False)
            for f, op in OPS:
                api.oblige(o.st, '%s:active-%s-is-resumed(unless-a-higher-priority-operation-is-active)' % (event, f),
                           z3.Implies(z3.And(act[f], z3.Not(prior)), truthy(g.get('ran:' + op, F))))
                prior = z3.Or(prior, act[f])
    return check


def h_readAsync(ex, recv, args, kwargs, st, fr, node):
    # the implicit reader started on a read event with no pending operation must ask for a whole maximum record
    # (2^14 bytes): what it leaves in the connection's internal buffer was already taken off the socket, so no further
    # readiness event would ever deliver it; the SEND-side recordSize has nothing to do with it
    from pyvc.values import VInt
    a = args[0] if args else kwargs.get('max')
    ex.oblige(st, 'inReadEvent:implicit-reader-asks-for-at-least-a-full-record(2^14-bytes)',
              (a.t >= 16384) if isinstance(a, VInt) else z3.BoolVal(False), kind='m2')
    return [Outcome('normal', st, fresh_opaque('reader'))]


SPEC = M2Spec(hooks=dict((op, _mk_hook(op)) for _, op in OPS) | {'_checkAssert': _mk_hook('_checkAssert'),
                                                                 'readAsync': h_readAsync})
for _ev in ('inReadEvent', 'inWriteEvent'):
    m2task('AsyncStateMachine.%s/dispatch' % _ev, ('C14',), ASM + _ev, SPEC, check=_check(_ev), setup=_setup,
           opts={'ground_feasible': True},
           doc='a readiness event of either kind resumes the active operation (handshake, close, read or write)')
