"""F38 (C08): after a HelloRetryRequest, a second ClientHello whose key_share extension has an EMPTY BODY made
handshakeServer raise TypeError (len(None)).  Run with PYTHONPATH=<tree>:/verif; exit 1 = undocumented exception."""
import socket, threading, sys, os
sys.path.insert(0, '/verif')
from specs.empty_ext import client_hello_bytes, ROOT
from tlslite.api import TLSConnection, HandshakeSettings, X509CertChain, X509, parsePEMKey
from tlslite.messages import ClientHello
from tlslite.extensions import TLSExtension
from tlslite.utils.codec import Parser
from tlslite.errors import TLSError, BaseTLSException

st = HandshakeSettings(); st.keyShares = []
body = client_hello_bytes(st)
ch = ClientHello().parse(Parser(body[1:]))
first = ch.write()
for i, e in enumerate(ch.extensions):
    if e.extType == 51:
        ch.extensions[i] = TLSExtension(extType=51).create(51, bytearray(0))
second = ch.write()
cert = X509CertChain([X509().parse(open(os.path.join(ROOT, 'tests', 'serverX509Cert.pem')).read())])
key = parsePEMKey(open(os.path.join(ROOT, 'tests', 'serverX509Key.pem')).read(), private=True)
a, b = socket.socketpair(); a.settimeout(3); b.settimeout(3)
res = {}
def server():
    s = TLSConnection(b)
    try:
        s.handshakeServer(certChain=cert, privateKey=key)
        res['r'] = 'completed'
    except (TLSError, BaseTLSException, socket.error) as e:
        res['r'] = 'documented: %r' % (e,)
    except Exception as e:
        res['r'] = 'UNDOCUMENTED %s: %s' % (type(e).__name__, e)
t = threading.Thread(target=server); t.start()
rec = lambda m: bytes([22, 3, 1, len(m) >> 8, len(m) & 255]) + bytes(m)
a.sendall(rec(first))
hrr = a.recv(4096)
print('server answered with', len(hrr), 'bytes (HelloRetryRequest expected), handshake type', hrr[5] if len(hrr) > 5 else None)
a.sendall(rec(second))
t.join()
print(res['r'])
sys.exit(1 if res['r'].startswith('UNDOC') else 0)
