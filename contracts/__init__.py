"""Sidecar contracts, one module per area.  PROPS maps a property id to the
contract modules that must be loaded to decide it."""
PROPS = {
    'C12': ['contracts.c12_cbc_check', 'contracts.recordlayer'],
    'C01': ['contracts.c12_cbc_check', 'contracts.recordlayer'],
    'C02': ['contracts.c12_cbc_check', 'contracts.recordlayer', 'contracts.m2_recordlayer'],
    'C18': ['contracts.sessioncache'],
    'C19': ['contracts.settings'],
    'C20': ['contracts.suites'],
    'C03': ['contracts.suites'],
    'C05': ['contracts.m2_client13'],
}
