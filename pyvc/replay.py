"""./check <PROP> --replay <replay.json>: re-decide the obligation named in a replay file on the current tree.

A replay file (written by the driver for every VIOLATION) names the failed obligation, carries the solver's
verdict/reason/model and, when the executable specification found one, the concrete failing input.  Replaying
re-runs (a) the task the obligation belongs to and (b) the differential run of the function, and reports
whether the violation is still there: exit 1 (still violated), exit 0 (holds now)."""
import importlib
import json
import os
import sys

HERE = os.path.dirname(os.path.dirname(os.path.abspath(__file__)))


def run(prop, path):
    from contracts import PROPS
    with open(path if os.path.isabs(path) else os.path.join(HERE, path)) as f:
        rp = json.load(f)
    ob = rp['obligation']
    task_name = ob.split('::')[0]
    print('replaying %s (property %s): %s' % (ob, rp.get('property'), rp.get('why')))
    if rp.get('failing_input'):
        fi = rp['failing_input']
        fi = fi[0] if isinstance(fi, list) else fi
        print('recorded failing input: %s' % json.dumps(fi.get('input'), default=str)[:1500])
        print('recorded behaviour    : %s' % fi.get('what'))
    from pyvc.contract import REG
    from pyvc import smt, spec
    still = False
    if ob.endswith('::crosscheck'):
        from pyvc.driver import run_crosschecks
        for m in PROPS.get(prop, []):
            importlib.import_module(m)
        for x in run_crosschecks(prop, 'quick', int(os.environ.get('VERIF_SEED', '0'))):
            if x['name'] == task_name:
                fails = x.get('failures', [])
                print('differential run %s: %d evaluations, %d failures' % (x['name'], x.get('evaluations', 0), len(fails)))
                for f in fails[:3]:
                    print('  FAIL [%s] %s' % (f.get('class'), f.get('what')))
                still = bool(fails) or bool(x.get('error'))
    else:
        owner = None
        for m in PROPS.get(prop, []):
            before = set(REG.task_keys())
            importlib.import_module(m)
            for k in set(REG.task_keys()) - before:
                if REG.task(k).name == task_name:
                    owner = k
        if owner is None:
            print('task %s not found among the contracts of %s' % (task_name, prop))
            return 3
        smt.prove_bit_lemmas()
        smt.axioms_consistency_selftest(spec.consistency_witnesses())
        results, meta = REG.task(owner).verify(REG, 120000)
        bad = [r for r in results if r['verdict'] != 'proved']
        for r in bad[:10]:
            print('  %s %s (%s)' % (r['verdict'], r['obligation'], r.get('reason')))
        still = bool(bad)
        print('task %s: %d obligations, %d not discharged' % (task_name, len(results), len(bad)))
    if still:
        print('VIOLATION property=%s replay=%s (reproduced)' % (prop, path))
        return 1
    print('not reproduced: the obligation holds on the current tree')
    return 0
