"""Trusted models of the hash / HMAC / RNG / integer<->bytes helpers of
tlslite.utils.cryptomath and tlslite.utils.compat (imported for side effects).

  secureHash(data, alg)        -> Hash(alg, data)                  uninterpreted, length = digest size of alg
  secureHMAC(key, data, alg)   -> Hmac(HmacKey(alg, key), data)    uninterpreted, length = digest size of alg
                                  (same function symbols as contracts/kdf.py, so both vocabularies coincide)
  getRandomBytes(n)            -> fresh byte string of length n; the call is recorded as event 'rng'
  bit_length(x) / numBits      -> BitLen(x)   (x >= 0): BitLen(x) >= c <=> x >= 2^(c-1) for c = 1..40, monotone,
                                  x < 256^numBytes(x), x >= 256^(numBytes(x)-1) for x > 0
  byte_length / numBytes       -> inlined from the real source: (BitLen(x) + 7) // 8
  int.from_bytes(b, 'big')     -> smt.s_val(b)   (pyvc/builtins_model.py)
  numberToByteArray(x, k)      -> smt.s_be(x, k): k bytes (the low-order k bytes of x);  k omitted: max(1, numBytes(x)) bytes
  hashlib.<alg>()              -> object with .digest_size

No other property of the hash functions is assumed.  All axioms below are true
of the real functions (they are definitional for big-endian encodings)."""
import hashlib

import z3

from . import smt
from . import spec as S
from .smt import slen, sat, isb, Seq, I
from .smt import Val
from .values import (VInt, VBool, VNone, VStr, VSeq, VTuple, VObj, VPy, Unsupported, fresh_name, str_id, to_val)
from .contract import REG
from .builtins_model import model, _out, _raise
from .executor import Outcome

HASH_SIZES = {'md5': 16, 'sha1': 20, 'sha224': 28, 'sha256': 32, 'sha384': 48, 'sha512': 64}

Hash = S.uf('Hash', [Val, Seq], Seq, seq_ext=[1])
HmacKey = S.uf('HmacKey', [Val, Seq], Val, seq_ext=[1])
Hmac = S.Hmac
BitLen = S.uf('BitLen', [I], I)
B2I = smt.s_val
I2B = smt.s_be
from .contract import EXT_FUNCS
if not any(f.name() == 's_val' for (f, _, _) in EXT_FUNCS):
    EXT_FUNCS.append((smt.s_val, [Seq], 0))


def alg_id(name):
    return to_val(VStr(name))


def HmacK(a, key, data):
    return Hmac(HmacKey(a, key), data)


def _axioms():
    A = []
    d, k_, b = z3.Consts('mc_d mc_k mc_b', Seq)
    x, y, n, m = z3.Ints('mc_x mc_y mc_n mc_m')
    for name, size in HASH_SIZES.items():
        a = alg_id(name)
        A.append(z3.ForAll([d], z3.And(slen(Hash(a, d)) == size, isb(Hash(a, d))), patterns=[Hash(a, d)]))
        A.append(z3.ForAll([k_, d], z3.And(slen(HmacK(a, k_, d)) == size, isb(HmacK(a, k_, d))),
                           patterns=[HmacK(a, k_, d)]))
    # bit length of non-negative integers
    A.append(z3.ForAll([x], z3.Implies(x >= 0, z3.And(BitLen(x) >= 0, (BitLen(x) == 0) == (x == 0))), patterns=[BitLen(x)]))
    for c in range(1, 41):
        A.append(z3.ForAll([x], z3.Implies(x >= 0, (BitLen(x) >= c) == (x >= (1 << (c - 1)))), patterns=[BitLen(x)]))
    A.append(z3.ForAll([x, y], z3.Implies(z3.And(0 <= x, x <= y), BitLen(x) <= BitLen(y)),
                       patterns=[z3.MultiPattern(BitLen(x), BitLen(y))]))
    # byte length: 256^(k-1) <= x < 256^k for k = numBytes(x), x > 0
    nb = (BitLen(x) + 7) / 8
    A.append(z3.ForAll([x], z3.Implies(x >= 0, x < smt.pow256(nb)), patterns=[BitLen(x)]))
    A.append(z3.ForAll([x], z3.Implies(x > 0, x >= smt.pow256(nb - 1)), patterns=[BitLen(x)]))
    A.append(z3.ForAll([n, m], z3.Implies(z3.And(0 <= n, n <= m), smt.pow256(n) <= smt.pow256(m)),
                       patterns=[z3.MultiPattern(smt.pow256(n), smt.pow256(m))]))
    for c in range(0, 41):
        A.append(smt.pow2(z3.IntVal(c)) == z3.IntVal(1 << c))        # pow2(c) = 2^c (ground instances only)
    # a byte string whose first octet is below 2^t encodes an integer of at most 8(len-1)+t bits
    for t in range(0, 9):
        A.append(z3.ForAll([b], z3.Implies(z3.And(isb(b), slen(b) >= 1, smt.sat(b, 0) < (1 << t)),
                                           BitLen(smt.s_val(b)) <= 8 * (slen(b) - 1) + t),
                           patterns=[smt.s_val(b)]))
    # big-endian encodings of different lengths (all true of floor/mod encodings, for every x >= 0):
    #   leading zero octets do not change the value
    A.append(z3.ForAll([n, b], z3.Implies(n >= 0, smt.s_val(smt.s_concat(smt.s_rep(z3.IntVal(0), n), b)) == smt.s_val(b)),
                       patterns=[smt.s_val(smt.s_concat(smt.s_rep(z3.IntVal(0), n), b))]))
    #   the last n2 octets of the n-octet encoding are the n2-octet encoding
    lo, hi = z3.Ints('mc_lo mc_hi')
    A.append(z3.ForAll([x, n, m, lo, hi],
                       z3.Implies(z3.And(x >= 0, 0 <= m, m <= n, lo == n - m, hi == n),
                                  smt.s_slice(smt.s_be(x, n), lo, hi) == smt.s_be(x, m)),
                       patterns=[z3.MultiPattern(smt.s_slice(smt.s_be(x, n), lo, hi), smt.s_be(x, m))]))
    #   the first octet of an n-octet encoding is zero exactly when the value fits in n-1 octets
    A.append(z3.ForAll([x, n], z3.Implies(z3.And(n >= 1, 0 <= x, x < smt.pow256(n)),
                                          (smt.sat(smt.s_be(x, n), 0) == 0) == (x < smt.pow256(n - 1))),
                       patterns=[smt.sat(smt.s_be(x, n), 0)]))
    return A


smt.AXIOMS.extend(_axioms())


def hash_(name, data):
    """spec side: Hash_name(data)"""
    return VSeq(Hash(alg_id(name), data.t), 'byte', 'bytearray')


def hmac_(name, key, data):
    return VSeq(HmacK(alg_id(name), key.t, data.t), 'byte', 'bytearray')


def b2i(b):
    return VInt(B2I(b.t))


def i2b(x, k):
    from .values import _lift
    return VSeq(I2B(_lift(x).t, _lift(k).t), 'byte', 'bytearray')


def bitlen(x):
    from .values import _lift
    return VInt(BitLen(_lift(x).t))


def numbytes(x):
    from .values import _lift
    return VInt((BitLen(_lift(x).t) + 7) / 8)


def _alg(v):
    if not isinstance(v, VStr) or v.s not in HASH_SIZES:
        raise Unsupported('hash algorithm %r' % (v,))
    return v.s


def _bytes_arg(v, what):
    if not isinstance(v, VSeq) or v.elem != 'byte':
        raise Unsupported('%s of %r' % (what, v))
    return v


def ext_secureHash(ex, args, kw, st, fr, node):
    data = _bytes_arg(args[0] if args else kw['data'], 'secureHash')
    alg = _alg(args[1] if len(args) > 1 else kw['algorithm'])
    return _out(st, hash_(alg, data))


def ext_secureHMAC(ex, args, kw, st, fr, node):
    key = _bytes_arg(args[0], 'secureHMAC key')
    data = _bytes_arg(args[1], 'secureHMAC data')
    alg = _alg(args[2])
    return _out(st, hmac_(alg, key, data))


def ext_getRandomBytes(ex, args, kw, st, fr, node):
    n = ex._as_int(args[0])
    res = []
    ok, bad = ex.split(st, n.t >= 0)
    if bad is not None:
        res += _raise(ex, bad, ValueError, 'os.urandom(negative) line %d' % getattr(node, 'lineno', 0))
    if ok is not None:
        r = VSeq(z3.Const(fresh_name('rnd'), Seq), 'byte', 'bytearray')
        ok.assume(z3.And(slen(r.t) == n.t, isb(r.t)))
        ok.events.append(('rng', [n], r))
        res += _out(ok, r)
    return res


def ext_bit_length(ex, args, kw, st, fr, node):
    x = ex._as_int(args[0])
    res = []
    ok, bad = ex.split(st, x.t >= 0)
    if bad is not None:
        raise Unsupported('bit_length of a possibly negative integer (line %d)' % getattr(node, 'lineno', 0))
    return _out(ok, VInt(BitLen(x.t)))


def ext_numberToByteArray(ex, args, kw, st, fr, node):
    x = ex._as_int(args[0] if args else kw['n'])
    k = args[1] if len(args) > 1 else kw.get('howManyBytes', VNone())
    endian = args[2] if len(args) > 2 else kw.get('endian', VStr('big'))
    if not (isinstance(endian, VStr) and endian.s == 'big'):
        raise Unsupported('numberToByteArray little endian')
    line = getattr(node, 'lineno', 0)
    res = []
    ok, bad = ex.split(st, x.t >= 0)
    if bad is not None:
        res += _raise(ex, bad, OverflowError, 'numberToByteArray of negative number line %d' % line)
    if ok is None:
        return res
    if isinstance(k, VNone):
        nb = (BitLen(x.t) + 7) / 8
        kk = z3.If(nb < 1, 1, nb)
        return res + _out(ok, VSeq(I2B(x.t, kk), 'byte', 'bytearray'))
    k = ex._as_int(k)
    ok2, bad2 = ex.split(ok, k.t >= 0)
    if bad2 is not None:
        res += _raise(ex, bad2, ValueError, 'numberToByteArray negative length line %d' % line)
    if ok2 is not None:
        res += _out(ok2, VSeq(I2B(x.t, k.t), 'byte', 'bytearray'))
    return res


REG.external['tlslite/utils/cryptomath.py:secureHash'] = ext_secureHash
REG.external['tlslite/utils/cryptomath.py:secureHMAC'] = ext_secureHMAC
REG.external['tlslite/utils/cryptomath.py:getRandomBytes'] = ext_getRandomBytes
REG.external['tlslite/utils/cryptomath.py:numberToByteArray'] = ext_numberToByteArray
REG.external['tlslite/utils/compat.py:bit_length'] = ext_bit_length
for _q in ('secureHash', 'secureHMAC', 'getRandomBytes', 'numberToByteArray'):
    REG.no_inline.add('tlslite/utils/cryptomath.py:' + _q)
REG.no_inline.add('tlslite/utils/compat.py:bit_length')


# hashlib constructors: only .digest_size is modelled
class HashObjModel(object):
    def getattr(self, ex, v, name, st):
        return None


REG.models['HashObj'] = HashObjModel()


def _hash_ctor(name):
    def f(ex, args, kw, st, fr, node):
        if args or kw:
            raise Unsupported('hashlib.%s with arguments' % name)
        o = st.alloc('HashObj')
        st.heap[(o.oid, 'digest_size')] = VInt(HASH_SIZES[name])
        st.heap[(o.oid, 'name')] = VStr(name)
        return _out(st, o)
    return f


for _n in HASH_SIZES:
    model(getattr(hashlib, _n))(_hash_ctor(_n))
REG.external['tlslite/utils/tlshashlib.py:md5'] = _hash_ctor('md5')
REG.no_inline.add('tlslite/utils/tlshashlib.py:md5')


def consistency_witnesses():
    b = z3.Const('mcw_b', Seq)
    x = z3.Int('mcw_x')
    ts = [Hash(alg_id('sha256'), b), HmacK(alg_id('sha1'), b, b), I2B(B2I(b), slen(b)), I2B(x, z3.IntVal(3))]
    return [slen(t) >= 0 for t in ts] + [isb(b), slen(b) == 4, x == 70000, BitLen(x) >= 0, B2I(I2B(x, z3.IntVal(3))) >= 0,
                                         BitLen(z3.IntVal(255)) == 8, BitLen(z3.IntVal(256)) == 9,
                                         BitLen(z3.Int('mcw_y')) >= 0, z3.Int('mcw_y') > 5]
