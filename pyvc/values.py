"""Symbolic values of the pyvc executor and the operations on them.

Every Python value the executor manipulates is one of the V* classes below.
Integers are mathematical integers (exact for Python's unbounded ints) or, in
BV mode, signed bit-vectors with no-overflow side obligations.  Sequences of
ints (bytes, bytearray, list of int) are terms of the axiomatised sort `Seq`.
"""
import z3

from . import smt
from .smt import Seq, Val, slen, sat, isb


class Unsupported(Exception):
    """A construct outside the supported subset: the enclosing obligation is
    reported `undecided` (never proved, never refuted)."""


class V(object):
    pass


def _lift(x):
    if isinstance(x, V):
        return x
    if isinstance(x, bool):
        return VBool(z3.BoolVal(x))
    if isinstance(x, int):
        return VInt(z3.IntVal(x))
    if x is None:
        return VNone()
    if isinstance(x, str):
        return VStr(x)
    if isinstance(x, tuple):
        return VTuple([_lift(e) for e in x])
    if isinstance(x, z3.BoolRef):
        return VBool(x)
    if isinstance(x, z3.ArithRef) or isinstance(x, z3.BitVecRef):
        return VInt(x)
    raise Unsupported('cannot lift %r' % (x,))


class VBool(V):
    def __init__(self, t):
        self.t = t

    def __and__(self, o):
        return VBool(z3.And(self.t, truthy(_lift(o))))
    __rand__ = __and__

    def __or__(self, o):
        return VBool(z3.Or(self.t, truthy(_lift(o))))
    __ror__ = __or__

    def __invert__(self):
        return VBool(z3.Not(self.t))

    def __eq__(self, o):
        return VBool(self.t == truthy(_lift(o)))

    def __ne__(self, o):
        return VBool(self.t != truthy(_lift(o)))

    def implies(self, o):
        return VBool(z3.Implies(self.t, truthy(_lift(o))))

    def iff(self, o):
        return VBool(self.t == truthy(_lift(o)))

    __hash__ = None

    def __bool__(self):
        s = z3.simplify(self.t)
        if z3.is_true(s):
            return True
        if z3.is_false(s):
            return False
        raise Unsupported('symbolic VBool used as Python bool (use & | ~ in specs): %s' % s)

    def __repr__(self):
        return 'VBool(%s)' % self.t


class VInt(V):
    def __init__(self, t):
        if isinstance(t, int):
            t = z3.IntVal(t)
        self.t = t

    def is_bv(self):
        return isinstance(self.t, z3.BitVecRef)

    def concrete(self):
        s = z3.simplify(self.t)
        if z3.is_int_value(s) or z3.is_bv_value(s):
            return s.as_signed_long() if z3.is_bv_value(s) else s.as_long()
        return None

    # arithmetic (spec-side: total, no safety exits)
    def __add__(self, o): return int_binop('+', self, _lift(o))
    def __radd__(self, o): return int_binop('+', _lift(o), self)
    def __sub__(self, o): return int_binop('-', self, _lift(o))
    def __rsub__(self, o): return int_binop('-', _lift(o), self)
    def __mul__(self, o): return int_binop('*', self, _lift(o))
    def __rmul__(self, o): return int_binop('*', _lift(o), self)
    def __floordiv__(self, o): return int_binop('//', self, _lift(o))
    def __rfloordiv__(self, o): return int_binop('//', _lift(o), self)
    def __mod__(self, o): return int_binop('%', self, _lift(o))
    def __rmod__(self, o): return int_binop('%', _lift(o), self)
    def __and__(self, o): return int_binop('&', self, _lift(o))
    def __rand__(self, o): return int_binop('&', _lift(o), self)
    def __or__(self, o): return int_binop('|', self, _lift(o))
    def __ror__(self, o): return int_binop('|', _lift(o), self)
    def __xor__(self, o): return int_binop('^', self, _lift(o))
    def __rxor__(self, o): return int_binop('^', _lift(o), self)
    def __lshift__(self, o): return int_binop('<<', self, _lift(o))
    def __rshift__(self, o): return int_binop('>>', self, _lift(o))
    def __neg__(self): return VInt(-self.t)
    def __lt__(self, o): return cmp_op('<', self, _lift(o))
    def __le__(self, o): return cmp_op('<=', self, _lift(o))
    def __gt__(self, o): return cmp_op('>', self, _lift(o))
    def __ge__(self, o): return cmp_op('>=', self, _lift(o))
    def __eq__(self, o): return cmp_op('==', self, _lift(o))
    def __ne__(self, o): return cmp_op('!=', self, _lift(o))
    __hash__ = None

    def __repr__(self):
        return 'VInt(%s)' % self.t


class VNone(V):
    def __eq__(self, o):
        return VBool(z3.BoolVal(isinstance(_lift(o), VNone)))

    def __ne__(self, o):
        return VBool(z3.BoolVal(not isinstance(_lift(o), VNone)))
    __hash__ = None

    def __repr__(self):
        return 'VNone'


class VStr(V):
    def __init__(self, s):
        self.s = s

    def __eq__(self, o):
        o = _lift(o)
        return VBool(z3.BoolVal(isinstance(o, VStr) and o.s == self.s))

    def __ne__(self, o):
        o = _lift(o)
        return VBool(z3.BoolVal(not (isinstance(o, VStr) and o.s == self.s)))
    __hash__ = None

    def __repr__(self):
        return 'VStr(%r)' % self.s


class VSeq(V):
    """Sequence of ints.  elem: 'byte' (bytes/bytearray: elements 0..255,
    isb holds) or 'int' (list of ints)."""

    def __init__(self, t, elem='byte', pytype='bytearray'):
        self.t = t
        self.elem = elem
        self.pytype = pytype

    def __len__(self):
        raise Unsupported('use S.len(x) in specs')

    def len(self):
        return VInt(slen(self.t))

    def __getitem__(self, k):
        if isinstance(k, slice):
            if k.step is not None:
                raise Unsupported('slice step')
            lo, hi = norm_slice(self, None if k.start is None else _lift(k.start),
                                None if k.stop is None else _lift(k.stop))
            return VSeq(smt.s_slice(self.t, lo, hi), self.elem, self.pytype)
        k = _lift(k)
        idx = z3.If(k.t < 0, k.t + slen(self.t), k.t)
        return VInt(sat(self.t, idx))

    def __add__(self, o):
        o = _lift(o)
        return seq_concat(self, o)

    def __eq__(self, o):
        o = _lift(o)
        if not isinstance(o, VSeq):
            return VBool(z3.BoolVal(False))
        return VBool(self.t == o.t)

    def __ne__(self, o):
        return ~(self == o)
    __hash__ = None

    def __repr__(self):
        return 'VSeq(%s)' % self.t


class VTuple(V):
    def __init__(self, items):
        self.items = list(items)

    def __getitem__(self, k):
        if isinstance(k, int):
            return self.items[k]
        k = _lift(k)
        c = k.concrete()
        if c is None:
            raise Unsupported('symbolic tuple index')
        return self.items[c]

    def __eq__(self, o): return cmp_op('==', self, _lift(o))
    def __ne__(self, o): return cmp_op('!=', self, _lift(o))
    def __lt__(self, o): return cmp_op('<', self, _lift(o))
    def __le__(self, o): return cmp_op('<=', self, _lift(o))
    def __gt__(self, o): return cmp_op('>', self, _lift(o))
    def __ge__(self, o): return cmp_op('>=', self, _lift(o))
    __hash__ = None

    def __repr__(self):
        return 'VTuple(%r)' % (self.items,)


class VList(V):
    """Python list of statically known length (elements symbolic)."""

    def __init__(self, items):
        self.items = list(items)

    def __repr__(self):
        return 'VList(%r)' % (self.items,)


class VDict(V):
    def __init__(self, d):
        self.d = d


class VStar(V):
    """`*seq` argument whose length is symbolic; understood only by models that say so (struct.pack)"""

    def __init__(self, v):
        self.v = v


class VStrRep(V):
    """the string  prefix + unit * count  with a symbolic count (struct format strings)"""

    def __init__(self, prefix, unit, count):
        self.prefix, self.unit, self.count = prefix, unit, count


class VAbsList(V):
    """A Python list whose elements are abstracted away: only the number of elements is tracked (a z3 Int).
    Used for lists of objects / byte strings that a cut loop grows (LoopSpec.field_types / var_types = 'abslist');
    reading an element is Unsupported."""

    def __init__(self, n):
        self.n = n

    def len(self):
        return VInt(self.n)

    def mutate_(self, ex, name, args, st, line):
        if name == 'append' and len(args) == 1:
            return [], (st, VAbsList(self.n + 1), VNone())
        raise Unsupported('%s on an abstracted list (line %d)' % (name, line))

    __hash__ = None

    def __repr__(self):
        return 'VAbsList(%s)' % self.n


class VTupSeq(V):
    """Python list (symbolic length) of equal-arity tuples of ints, e.g. [(hash, sig), ...]:
    one Seq column per tuple position; all columns have the same length (assumed where a fresh
    one is created, kept by every operation).  arity >= 1 is a Python int."""

    def __init__(self, cols, pytype='list'):
        self.cols = list(cols)
        self.arity = len(self.cols)
        self.pytype = pytype
        if self.arity < 1:
            raise Unsupported('tuple list of arity 0')

    @staticmethod
    def from_items(items, arity):
        cols = [smt.s_empty] * arity
        for it in items:
            if not isinstance(it, (VTuple, VList)) or len(it.items) != arity or \
                    not all(isinstance(x, VInt) for x in it.items):
                raise Unsupported('tuple list element %r (arity %d expected)' % (it, arity))
            cols = [smt.s_concat(c, smt.s_single(x.t)) for c, x in zip(cols, it.items)]
        return VTupSeq(cols)

    def len(self):
        return VInt(slen(self.cols[0]))

    def same_len(self):
        return z3.And([slen(c) == slen(self.cols[0]) for c in self.cols[1:]] + [z3.BoolVal(True)])

    def __getitem__(self, k):
        k = _lift(k)
        idx = z3.If(k.t < 0, k.t + slen(self.cols[0]), k.t)
        return VTuple([VInt(sat(c, idx)) for c in self.cols])

    def appended(self, tup):
        return VTupSeq([smt.s_concat(c, smt.s_single(x.t)) for c, x in zip(self.cols, tup.items)], self.pytype)

    def mutate_(self, ex, name, args, st, line):
        """in-place list methods (protocol of builtins_model.mutating_method)"""
        if name == 'append' and len(args) == 1 and isinstance(args[0], (VTuple, VList)) \
                and len(args[0].items) == self.arity and all(isinstance(x, VInt) for x in args[0].items):
            return [], (st, self.appended(args[0]), VNone())
        raise Unsupported('%s on a tuple list with %r (line %d)' % (name, args, line))

    __hash__ = None

    def __repr__(self):
        return 'VTupSeq(%s)' % (self.cols,)


class VObj(V):
    """Heap object with executor-level identity `oid`.  `cls` is a live Python
    class, the name of an external model, or None."""

    def __init__(self, oid, cls=None):
        self.oid = oid
        self.cls = cls

    def __eq__(self, o):
        o = _lift(o)
        return VBool(z3.BoolVal(isinstance(o, VObj) and o.oid == self.oid))

    def __ne__(self, o):
        return ~(self == o)
    __hash__ = None

    def __repr__(self):
        return 'VObj(#%s:%s)' % (self.oid, getattr(self.cls, '__name__', self.cls))


class VPy(V):
    """A concrete live Python object (module, class, function, table)."""

    def __init__(self, obj):
        self.obj = obj

    def __repr__(self):
        return 'VPy(%r)' % (self.obj,)


class VOpaque(V):
    """Unknown Python value: a term of the uninterpreted sort Val."""

    def __init__(self, t):
        self.t = t

    def __eq__(self, o):
        o = _lift(o)
        return VBool(self.t == to_val(o))

    def __ne__(self, o):
        return ~(self == o)
    __hash__ = None

    def __repr__(self):
        return 'VOpaque(%s)' % self.t


class VExc(V):
    def __init__(self, cls, args=(), origin=''):
        self.cls = cls
        self.args = list(args)
        self.origin = origin

    def __repr__(self):
        return 'VExc(%s @%s)' % (getattr(self.cls, '__name__', self.cls), self.origin)


# --- embedding into Val (M2) -------------------------------------------------
v_int = z3.Function('v_int', smt.I, Val)
v_bool = z3.Function('v_bool', smt.B, Val)
v_none = z3.Const('v_none', Val)
v_seq = z3.Function('v_seq', Seq, Val)
v_str = z3.Function('v_str', smt.I, Val)
v_obj = z3.Function('v_obj', smt.I, Val)
v_tup2 = z3.Function('v_tup2', Val, Val, Val)
v_truthy = z3.Function('v_truthy', Val, smt.B)
val_int = z3.Function('val_int', Val, smt.I)
_STR_IDS = {}
v_kind = z3.Function('v_kind', Val, smt.I)     # 0 none, 1 bool, 2 int, 3 seq, 4 str, 5 obj, 6 tuple, other: unknown


def val_axioms(formulas=()):
    """Ground instances (one per embedding term occurring in `formulas`) of the facts
    about the embedding of concrete Python values into the opaque sort: None is
    falsy and differs from every bool/int/bytes/str/object/tuple, embeddings are
    injective, truthiness of bools / ints / objects / tuples."""
    A = [v_kind(v_none) == 0, z3.Not(v_truthy(v_none))]
    seen = set()

    def walk(e):
        k = e.get_id()
        if k in seen:
            return
        seen.add(k)
        if z3.is_quantifier(e):
            return
        if z3.is_app(e):
            nm = e.decl().name()
            if nm == 'v_bool':
                A.append(z3.And(v_kind(e) == 1, v_truthy(e) == e.arg(0)))
            elif nm == 'v_int':
                A.append(z3.And(v_kind(e) == 2, val_int(e) == e.arg(0), v_truthy(e) == (e.arg(0) != 0)))
            elif nm == 'v_seq':
                A.append(z3.And(v_kind(e) == 3, v_truthy(e) == (slen(e.arg(0)) > 0)))
            elif nm == 'v_str':
                A.append(z3.And(v_kind(e) == 4, val_int(e) == e.arg(0)))
            elif nm == 'v_obj':
                A.append(z3.And(v_kind(e) == 5, val_int(e) == e.arg(0), v_truthy(e)))
            elif nm == 'v_tup2':
                A.append(z3.And(v_kind(e) == 6, v_truthy(e)))
            for c in e.children():
                walk(c)
    for f in formulas:
        walk(f)
    return A


def str_id(s):
    return _STR_IDS.setdefault(s, len(_STR_IDS) + 1)


def to_val(v):
    if isinstance(v, VOpaque):
        return v.t
    if isinstance(v, VInt):
        return v_int(v.t)
    if isinstance(v, VBool):
        return v_bool(v.t)
    if isinstance(v, VNone):
        return v_none
    if isinstance(v, VSeq):
        return v_seq(v.t)
    if isinstance(v, VStr):
        return v_str(z3.IntVal(str_id(v.s)))
    if isinstance(v, VObj):
        return v_obj(z3.IntVal(v.oid))
    if isinstance(v, VTuple) and len(v.items) == 2:
        return v_tup2(to_val(v.items[0]), to_val(v.items[1]))
    if isinstance(v, VPy):
        return v_str(z3.IntVal(str_id('py:%r' % (v.obj,))))
    raise Unsupported('to_val %r' % (v,))


# --- helpers -----------------------------------------------------------------

def truthy(v):
    """z3 Bool for Python truthiness of v."""
    if isinstance(v, VBool):
        return v.t
    if hasattr(v, 'truthy_'):          # finite-domain values (pyvc/finite.py)
        return v.truthy_()
    if isinstance(v, VInt):
        if v.is_bv():
            return v.t != z3.BitVecVal(0, v.t.size())
        return v.t != 0
    if isinstance(v, VNone):
        return z3.BoolVal(False)
    if isinstance(v, VSeq):
        return slen(v.t) > 0
    if isinstance(v, (VTuple, VList)):
        return z3.BoolVal(len(v.items) > 0)
    if isinstance(v, VTupSeq):
        return slen(v.cols[0]) > 0
    if isinstance(v, VAbsList):
        return v.n > 0
    if isinstance(v, VStr):
        return z3.BoolVal(len(v.s) > 0)
    if isinstance(v, VDict):
        return z3.BoolVal(len(v.d) > 0)
    if isinstance(v, VObj):
        return z3.BoolVal(True)      # assumption: model objects define no __bool__/__len__
    if isinstance(v, VPy):
        return z3.BoolVal(bool(v.obj))
    if isinstance(v, VOpaque):
        return v_truthy(v.t)
    raise Unsupported('truthiness of %r' % (v,))


def _coerce_bv(a, b):
    """If either operand is a bit-vector make both bit-vectors of that width."""
    ta, tb = a.t, b.t
    if isinstance(ta, z3.BitVecRef) and not isinstance(tb, z3.BitVecRef):
        c = z3.simplify(tb)
        if not z3.is_int_value(c):
            raise Unsupported('mixing BV and symbolic Int')
        tb = z3.BitVecVal(c.as_long(), ta.size())
    elif isinstance(tb, z3.BitVecRef) and not isinstance(ta, z3.BitVecRef):
        c = z3.simplify(ta)
        if not z3.is_int_value(c):
            raise Unsupported('mixing BV and symbolic Int')
        ta = z3.BitVecVal(c.as_long(), tb.size())
    return ta, tb


# side facts (lemma instances, overflow obligations) produced by operations are
# pushed to the innermost collector
_COLLECT = []


class collect(object):
    def __init__(self):
        self.facts = []       # sound lemma instances to add to the path condition
        self.oblig = []       # (label, formula) that must hold (BV no-overflow)

    def __enter__(self):
        _COLLECT.append(self)
        return self

    def __exit__(self, *a):
        _COLLECT.pop()


def _fact(f):
    if _COLLECT:
        _COLLECT[-1].facts.append(f)


def _oblig(label, f):
    if _COLLECT:
        _COLLECT[-1].oblig.append((label, f))


def _is_pow2_minus1(n):
    return n >= 0 and (n & (n + 1)) == 0


def int_binop(op, a, b):
    if isinstance(a, VBool):
        a = VInt(z3.If(a.t, 1, 0))
    if isinstance(b, VBool):
        b = VInt(z3.If(b.t, 1, 0))
    if not (isinstance(a, VInt) and isinstance(b, VInt)):
        raise Unsupported('int op %s on %r, %r' % (op, a, b))
    if a.is_bv() or b.is_bv():
        return _bv_binop(op, a, b)
    x, y = a.t, b.t
    cy = b.concrete()
    cx = a.concrete()
    if op == '+':
        return VInt(x + y)
    if op == '-':
        return VInt(x - y)
    if op == '*':
        return VInt(x * y)
    if op == '//':
        if cy is not None and cy > 0:
            return VInt(x / y)
        q = z3.If(y > 0, x / y, (-x) / (-y))
        # nonlinear hint (valid for floor division by a positive divisor)
        _fact(z3.Implies(y > 0, z3.And((x / y) * y <= x, x < (x / y) * y + y,
                                       z3.Implies(x >= 0, x / y >= 0))))
        return VInt(q)
    if op == '%':
        if cy is not None and cy > 0:
            return VInt(x % y)
        q = z3.If(y > 0, x / y, (-x) / (-y))
        _fact(z3.Implies(y > 0, z3.And(0 <= x % y, x % y < y, x == (x / y) * y + x % y)))
        # linear instances (circular buffers: (i + 1) % n): valid for every y > 0
        _fact(z3.Implies(z3.And(0 <= x, x < y), x % y == x))
        _fact(z3.Implies(z3.And(y > 0, y <= x, x < 2 * y), x % y == x - y))
        return VInt(z3.If(y > 0, x % y, x - y * q))
    if op == '<<':
        if cy is None:
            raise Unsupported('symbolic shift amount')
        return VInt(x * (1 << cy))
    if op == '>>':
        if cy is None:
            raise Unsupported('symbolic shift amount')
        return VInt(x / (1 << cy))
    if op == '&':
        if cx is not None and cy is not None:
            return VInt(z3.IntVal(cx & cy))
        if cy is not None and _is_pow2_minus1(cy):
            return VInt(x % (cy + 1))
        if cx is not None and _is_pow2_minus1(cx):
            return VInt(y % (cx + 1))
        # constant mask with one contiguous run of ones (bits t .. a-1):  v & c == v mod 2^a - v mod 2^t  (all ints v)
        for (c_, v_) in ((cy, x), (cx, y)):
            if c_ is not None and c_ > 0:
                t_ = (c_ & -c_).bit_length() - 1
                if _is_pow2_minus1(c_ >> t_):
                    a_ = c_.bit_length()
                    return VInt(v_ % (1 << a_) - v_ % (1 << t_))
        for l in smt.bit_lemma_instances('and', x, y):
            _fact(l)
        return VInt(smt.band(x, y))
    if op == '|':
        if cx is not None and cy is not None:
            return VInt(z3.IntVal(cx | cy))
        if cx == 0:
            return b
        if cy == 0:
            return a
        for l in smt.bit_lemma_instances('or', x, y):
            _fact(l)
        # (t << k) | q == (t << k) + q  for t >= 0, 0 <= q < 2^k  (disjoint bit ranges; `t << k` is built as t * 2^k
        # above).  Proved in BV for k = 1..16 by pyvc/gen1.py:prove_shift_or_lemma.
        for (p_, q_) in ((x, y), (y, x)):
            if z3.is_app(p_) and p_.decl().kind() == z3.Z3_OP_MUL and p_.num_args() == 2:
                for (t_, c_) in ((p_.arg(0), p_.arg(1)), (p_.arg(1), p_.arg(0))):
                    if z3.is_int_value(c_) and 2 <= c_.as_long() <= 65536 and _is_pow2_minus1(c_.as_long() - 1):
                        _fact(z3.Implies(z3.And(t_ >= 0, 0 <= q_, q_ < c_.as_long()), smt.bor(x, y) == p_ + q_))
        # same with a literal on one side: c | q == c + q for 0 <= q < (lowest set bit of c), c = t * 2^k
        for (c_, q_) in ((cx, y), (cy, x)):
            if c_ is not None and 0 < c_ < (1 << 30):
                low_ = c_ & -c_
                if 2 <= low_ <= 65536:
                    _fact(z3.Implies(z3.And(0 <= q_, q_ < low_), smt.bor(x, y) == c_ + q_))
        return VInt(smt.bor(x, y))
    if op == '^':
        if cx is not None and cy is not None:
            return VInt(z3.IntVal(cx ^ cy))
        if cx == 0:
            return b
        if cy == 0:
            return a
        for l in smt.bit_lemma_instances('xor', x, y):
            _fact(l)
        return VInt(smt.bxor(x, y))
    if op == '**':
        if cy is None or cy < 0:
            raise Unsupported('symbolic exponent')
        r = z3.IntVal(1)
        for _ in range(cy):
            r = r * x
        return VInt(r)
    raise Unsupported('int op ' + op)


def _bv_binop(op, a, b):
    x, y = _coerce_bv(a, b)
    if op == '+':
        _oblig('bv-add-no-overflow', z3.And(z3.BVAddNoOverflow(x, y, True), z3.BVAddNoUnderflow(x, y)))
        return VInt(x + y)
    if op == '-':
        _oblig('bv-sub-no-overflow', z3.And(z3.BVSubNoOverflow(x, y), z3.BVSubNoUnderflow(x, y, True)))
        return VInt(x - y)
    if op == '*':
        _oblig('bv-mul-no-overflow', z3.And(z3.BVMulNoOverflow(x, y, True), z3.BVMulNoUnderflow(x, y)))
        return VInt(x * y)
    if op == '&':
        return VInt(x & y)
    if op == '|':
        return VInt(x | y)
    if op == '^':
        return VInt(x ^ y)
    if op == '<<':
        w = x.size()
        # the shifted value must be representable: shifting back gives x, amount < w
        _oblig('bv-shl-no-overflow', z3.And(z3.ULT(y, z3.BitVecVal(w, w)), ((x << y) >> y) == x))
        return VInt(x << y)
    if op == '>>':
        w = x.size()
        _oblig('bv-shr-amount', z3.ULT(y, z3.BitVecVal(w, w)))
        return VInt(x >> y)          # arithmetic shift == Python's floor shift
    if op in ('//', '%'):
        # floor division / modulo by a positive constant of a non-negative value == unsigned division
        cy = z3.simplify(y)
        if z3.is_bv_value(cy) and cy.as_signed_long() > 0:
            _oblig('bv-div-nonneg-dividend', x >= 0)
            return VInt(z3.UDiv(x, y) if op == '//' else z3.URem(x, y))
    raise Unsupported('bv op ' + op)


def cmp_op(op, a, b):
    if isinstance(a, VBool) and isinstance(b, (VBool,)):
        if op == '==':
            return VBool(a.t == b.t)
        if op == '!=':
            return VBool(a.t != b.t)
    if isinstance(a, VBool):
        a = VInt(z3.If(a.t, 1, 0))
    if isinstance(b, VBool):
        b = VInt(z3.If(b.t, 1, 0))
    if isinstance(a, VInt) and isinstance(b, VInt):
        x, y = _coerce_bv(a, b) if (a.is_bv() or b.is_bv()) else (a.t, b.t)
        return VBool({'<': x < y, '<=': x <= y, '>': x > y, '>=': x >= y,
                      '==': x == y, '!=': x != y}[op])
    if isinstance(a, (VTuple, VList)) and isinstance(b, (VTuple, VList)):
        return _lex(op, a.items, b.items)
    if op in ('==', '!='):
        r = eq_op(a, b)
        return r if op == '==' else VBool(z3.Not(r.t))
    if isinstance(a, VOpaque) or isinstance(b, VOpaque):
        f = z3.Function('v_cmp_' + {'<': 'lt', '<=': 'le', '>': 'gt', '>=': 'ge'}[op], Val, Val, smt.B)
        return VBool(f(to_val(a), to_val(b)))
    raise Unsupported('compare %s on %r, %r' % (op, a, b))


def _lex(op, xs, ys):
    if op == '==':
        if len(xs) != len(ys):
            return VBool(z3.BoolVal(False))
        return VBool(z3.And([eq_op(x, y).t for x, y in zip(xs, ys)] + [z3.BoolVal(True)]))
    if op == '!=':
        return VBool(z3.Not(_lex('==', xs, ys).t))
    # lexicographic order
    strict = op in ('<', '>')
    less = op in ('<', '<=')

    def rec(i):
        if i >= len(xs) or i >= len(ys):
            lx, ly = len(xs), len(ys)
            if lx == ly:
                return z3.BoolVal(not strict)
            return z3.BoolVal((lx < ly) if less else (lx > ly))
        x, y = xs[i], ys[i]
        lt = cmp_op('<' if less else '>', x, y).t
        eq = eq_op(x, y).t
        return z3.Or(lt, z3.And(eq, rec(i + 1)))
    return VBool(rec(0))


def eq_op(a, b):
    """Python == as VBool."""
    if isinstance(a, VBool) and isinstance(b, VBool):
        return VBool(a.t == b.t)
    if isinstance(a, VBool):
        a = VInt(z3.If(a.t, 1, 0))
    if isinstance(b, VBool):
        b = VInt(z3.If(b.t, 1, 0))
    if isinstance(a, VInt) and isinstance(b, VInt):
        x, y = _coerce_bv(a, b) if (a.is_bv() or b.is_bv()) else (a.t, b.t)
        return VBool(x == y)
    if isinstance(a, VNone) or isinstance(b, VNone):
        if isinstance(a, VOpaque) or isinstance(b, VOpaque):
            return VBool(to_val(a) == to_val(b))
        return VBool(z3.BoolVal(isinstance(a, VNone) and isinstance(b, VNone)))
    if isinstance(a, VSeq) and isinstance(b, VSeq):
        return VBool(a.t == b.t)
    if isinstance(a, VSeq) and isinstance(b, (VList, VTuple)):
        a, b = b, a
    if isinstance(a, (VList, VTuple)) and isinstance(b, VSeq):
        if isinstance(a, VTuple):
            return VBool(z3.BoolVal(False))     # tuple never equals bytearray/list
        cs = [slen(b.t) == len(a.items)]
        for i, it in enumerate(a.items):
            if not isinstance(it, VInt):
                return VBool(z3.BoolVal(False))
            cs.append(sat(b.t, i) == it.t)
        return VBool(z3.And(cs))
    if isinstance(a, (VTuple, VList)) and isinstance(b, (VTuple, VList)):
        if type(a) is not type(b):
            return VBool(z3.BoolVal(False))
        return _lex('==', a.items, b.items)
    if isinstance(a, VStr) and isinstance(b, VStr):
        return VBool(z3.BoolVal(a.s == b.s))
    if isinstance(a, VObj) and isinstance(b, VObj):
        return VBool(z3.BoolVal(a.oid == b.oid))   # identity equality (no __eq__ modelled)
    if isinstance(a, VPy) and isinstance(b, VPy):
        return VBool(z3.BoolVal(a.obj == b.obj))
    if isinstance(a, VOpaque) or isinstance(b, VOpaque):
        return VBool(to_val(a) == to_val(b))
    # values of different concrete kinds are unequal
    return VBool(z3.BoolVal(False))


def norm_slice(s, lo, hi):
    """Python slice clamping -> normalised z3 Int terms 0 <= lo <= hi <= len."""
    n = slen(s.t)

    def clamp(v, default):
        if v is None or isinstance(v, VNone):
            return default
        t = v.t
        t = z3.If(t < 0, t + n, t)
        return z3.If(t < 0, 0, z3.If(t > n, n, t))
    l = clamp(lo, z3.IntVal(0))
    h = clamp(hi, n)
    h = z3.If(h < l, l, h)
    return z3.simplify(l), z3.simplify(h)


def seq_concat(a, b):
    if not (isinstance(a, VSeq) and isinstance(b, VSeq)):
        raise Unsupported('concat of %r and %r' % (a, b))
    return VSeq(smt.s_concat(a.t, b.t), 'byte' if a.elem == b.elem == 'byte' else 'int', a.pytype)


def seq_from_items(items, elem='byte', pytype='bytearray'):
    """Sequence built from a statically known list of VInt."""
    t = None
    for it in items:
        if not isinstance(it, VInt):
            raise Unsupported('sequence element %r' % (it,))
        one = smt.s_single(it.t)
        t = one if t is None else smt.s_concat(t, one)
    if t is None:
        t = smt.s_empty
    return VSeq(t, elem, pytype)


_FRESH = [0]


def fresh_name(base):
    _FRESH[0] += 1
    return '%s!%d' % (base, _FRESH[0])


def fresh_like(v, base):
    """A fresh unconstrained value of the same kind as v."""
    if hasattr(v, 'fresh_like_'):      # finite-domain values (pyvc/finite.py)
        return v.fresh_like_(base)
    if isinstance(v, VInt):
        if v.is_bv():
            return VInt(z3.BitVec(fresh_name(base), v.t.size()))
        return VInt(z3.Int(fresh_name(base)))
    if isinstance(v, VBool):
        return VBool(z3.Bool(fresh_name(base)))
    if isinstance(v, VSeq):
        return VSeq(z3.Const(fresh_name(base), Seq), v.elem, v.pytype)
    if isinstance(v, VOpaque):
        return VOpaque(z3.Const(fresh_name(base), Val))
    if isinstance(v, VTuple):
        return VTuple([fresh_like(x, base) for x in v.items])
    if isinstance(v, VAbsList):
        return VAbsList(z3.Int(fresh_name(base + '.n')))        # the creator assumes n >= 0
    if isinstance(v, VTupSeq):
        # NOTE: the creator must assume .same_len() for the fresh value
        return VTupSeq([z3.Const(fresh_name('%s.%d' % (base, i)), Seq) for i in range(v.arity)], v.pytype)
    if isinstance(v, (VNone, VStr, VPy)):
        return VOpaque(z3.Const(fresh_name(base), Val))
    raise Unsupported('havoc of %r' % (v,))


def ite(c, a, b):
    """Value-level if-then-else for values of the same kind."""
    a, b = _lift(a), _lift(b)
    ct = truthy(_lift(c))
    if isinstance(a, VInt) and isinstance(b, VInt):
        x, y = _coerce_bv(a, b) if (a.is_bv() or b.is_bv()) else (a.t, b.t)
        return VInt(z3.If(ct, x, y))
    if isinstance(a, VBool) and isinstance(b, VBool):
        return VBool(z3.If(ct, a.t, b.t))
    if isinstance(a, VSeq) and isinstance(b, VSeq):
        return VSeq(z3.If(ct, a.t, b.t), a.elem if a.elem == b.elem else 'int', a.pytype)
    if isinstance(a, VTuple) and isinstance(b, VTuple) and len(a.items) == len(b.items):
        return VTuple([ite(c, x, y) for x, y in zip(a.items, b.items)])
    if isinstance(a, VNone) and isinstance(b, VNone):
        return a
    if isinstance(a, VObj) and isinstance(b, VObj) and a.oid == b.oid:
        return a
    if isinstance(a, VStr) and isinstance(b, VStr) and a.s == b.s:
        return a
    if isinstance(a, VPy) and isinstance(b, VPy) and a.obj is b.obj:
        return a
    try:
        return VOpaque(z3.If(ct, to_val(a), to_val(b)))
    except Unsupported:
        raise Unsupported('ite of %r and %r' % (a, b))


def same_value(a, b):
    """Syntactic identity of two values (used to skip merging)."""
    if type(a) is not type(b):
        return False
    if isinstance(a, (VInt, VBool, VSeq, VOpaque)):
        return a.t.eq(b.t)
    if isinstance(a, VNone):
        return True
    if isinstance(a, VStr):
        return a.s == b.s
    if isinstance(a, VObj):
        return a.oid == b.oid
    if isinstance(a, VPy):
        return a.obj is b.obj
    if isinstance(a, (VTuple, VList)):
        return len(a.items) == len(b.items) and all(same_value(x, y) for x, y in zip(a.items, b.items))
    if isinstance(a, VDict):
        return a.d is b.d
    if isinstance(a, VTupSeq):
        return a.arity == b.arity and all(x.eq(y) for x, y in zip(a.cols, b.cols))
    if isinstance(a, VAbsList):
        return a.n.eq(b.n)
    return a is b
