"""F32 (C08): ClientHello with an EMPTY supported_versions extension -> handshakeServer raises TypeError
('NoneType' object is not iterable) instead of a TLS alert.  Run with PYTHONPATH=<tree>; exit 1 = undocumented exception."""
import socket, threading, sys
from tlslite.api import TLSConnection, HandshakeSettings, X509CertChain, X509, parsePEMKey
from tlslite.messages import ClientHello
from tlslite.extensions import TLSExtension, SupportedVersionsExtension
from tlslite.constants import ExtensionType, CipherSuite, ContentType
from tlslite.errors import TLSError
import os, tlslite
ROOT = os.path.dirname(os.path.dirname(os.path.abspath(tlslite.__file__)))
cert = X509CertChain([X509().parse(open(os.path.join(ROOT, 'tests/serverX509Cert.pem')).read())])
key = parsePEMKey(open(os.path.join(ROOT, 'tests/serverX509Key.pem')).read(), private=True)
a, b = socket.socketpair(); a.settimeout(5); b.settimeout(5)
res = {}
def server():
    s = TLSConnection(b)
    try:
        s.handshakeServer(certChain=cert, privateKey=key)
        res['r'] = 'completed'
    except (TLSError, socket.error) as e:
        res['r'] = 'documented: %r' % e
    except Exception as e:
        res['r'] = 'UNDOCUMENTED %s: %s' % (type(e).__name__, e)
t = threading.Thread(target=server); t.start()
ext = TLSExtension(extType=ExtensionType.supported_versions).create(ExtensionType.supported_versions, bytearray(0))
ch = ClientHello().create((3, 3), bytearray(32), bytearray(0), [CipherSuite.TLS_RSA_WITH_AES_128_CBC_SHA], extensions=[ext])
data = ch.write()
a.sendall(bytearray([22, 3, 1, len(data) >> 8, len(data) & 255]) + data)
t.join()
try: print('peer got', a.recv(100))
except Exception as e: print('peer recv', e)
print(res['r'])
sys.exit(1 if res['r'].startswith('UNDOC') else 0)
