#!/bin/bash
# Confirms every seeded change produced by the independent sub-agents and copies the confirmed ones to /verif/seeded/.
# For each ${SEED_SRC:-/tmp/seed}/<P>/_out/<n>: demo passes on clean worktree, patch applies, unit tests pass with patch, demo fails with patch.
OUT=/verif/seeded
mkdir -p $OUT
for P in $(ls ${SEED_SRC:-/tmp/seed} | grep '^C'); do
  WT=${SEED_SRC:-/tmp/seed}/$P
  for N in 1 2 3 4; do
    D=$WT/_out/$N
    [ -f $D/patch.diff ] || continue
    ID=$P-$((N + ${SEED_OFFSET:-0}))
    [ -f $OUT/$ID/confirmed.json ] && continue
    cd $WT && git checkout -q -- . 
    timeout 600 /venv/bin/python $D/demo.py > ${SEED_SRC:-/tmp/seed}log_$ID.clean 2>&1; RC_CLEAN=$?
    if ! git apply $D/patch.diff 2>${SEED_SRC:-/tmp/seed}log_$ID.apply; then echo "$ID: patch does not apply"; continue; fi
    timeout 1200 /venv/bin/python -m pytest -q -p no:cacheprovider -x -n 6 unit_tests > ${SEED_SRC:-/tmp/seed}log_$ID.tests 2>&1; RC_TESTS=$?
    timeout 600 /venv/bin/python $D/demo.py > ${SEED_SRC:-/tmp/seed}log_$ID.patched 2>&1; RC_PATCHED=$?
    git checkout -q -- .
    APPLIES_HEAD=no; (cd /repo && git apply --check $D/patch.diff 2>/dev/null) && APPLIES_HEAD=yes
    echo "$ID: clean_demo=$RC_CLEAN tests=$RC_TESTS patched_demo=$RC_PATCHED applies_to_repo_head=$APPLIES_HEAD"
    if [ $RC_CLEAN -eq 0 ] && [ $RC_TESTS -eq 0 ] && [ $RC_PATCHED -eq 1 ]; then
      mkdir -p $OUT/$ID
      cp $D/patch.diff $D/demo.py $OUT/$ID/
      TESTLINE=$(tail -1 ${SEED_SRC:-/tmp/seed}log_$ID.tests)
      python3 - "$D/meta.json" "$OUT/$ID/meta.json" "$P" "$TESTLINE" "$APPLIES_HEAD" <<'PY'
import json,sys
src,dst,prop,testline,ah=sys.argv[1:6]
try: m=json.load(open(src))
except Exception: m={}
out={'property':prop,'breaks':m.get('summary'),'needs':m.get('needs'),
     'author':'independent sub-agent given only the property text and a scratch worktree',
     'confirmed_by_me':{'demo_on_clean_tree':'exit 0','unit_tests_with_patch':testline,'demo_with_patch':'exit 1',
                        'applies_to_repo_head':ah,
                        'ran':['cd <scratch worktree> && /venv/bin/python demo.py','git apply patch.diff',
                               '/venv/bin/python -m pytest -q -p no:cacheprovider -x -n 6 unit_tests','/venv/bin/python demo.py','git checkout -- .']}}
json.dump(out,open(dst,'w'),indent=1)
PY
      echo ok > $OUT/$ID/confirmed.json
    fi
  done
done
echo ALLDONE
