"""Executable plain specification of the CBC MAC-and-padding check (C12), written
from the property statement, and the differential run against the real
tlslite.utils.constanttime.ct_check_cbc_mac_and_pad."""
import hashlib
import hmac


def spec_cbc_ok(data, mac, seqnum_bytes, content_type, version, block_size):
    """True iff `data` ends in a padding the version allows, preceded by the
    correct MAC of the remaining data."""
    L = len(data)
    ds = mac.digest_size
    if L < ds + 1:
        return False
    p = data[L - 1]
    if p + 1 + ds > L:
        return False
    if version == (3, 0):
        if p > block_size:
            return False
    else:
        if any(b != p for b in data[L - 1 - p:L - 1]):
            return False
    ms = L - 1 - p - ds
    m = mac.copy()
    m.update(bytes(seqnum_bytes))
    m.update(bytes([content_type]))
    if version != (3, 0):
        m.update(bytes([version[0], version[1]]))
    m.update(bytes([ms >> 8, ms & 0xff]))
    m.update(bytes(data[:ms]))
    return bytes(data[ms:ms + ds]) == m.digest()


def _mk_mac(version, algo, key):
    if version == (3, 0):
        from tlslite.mathtls import createMAC_SSL
        from tlslite.utils import tlshashlib       # the library's own hashlib (md5 wrapper identity matters)
        return createMAC_SSL(bytearray(key), digestmod=getattr(tlshashlib, algo))
    from tlslite.mathtls import createHMAC
    from tlslite.utils import tlshashlib
    return createHMAC(bytearray(key), digestmod=getattr(tlshashlib, algo))


def _build(rng, version, algo, block_size, content_len, pad_len, seq, ctype):
    """A well-formed body: content || MAC || pad*pad_len || pad_len"""
    key = bytes(rng.randrange(256) for _ in range(20))
    mac = _mk_mac(version, algo, key)
    content = bytes(rng.randrange(256) for _ in range(content_len))
    m = mac.copy()
    seqb = seq.to_bytes(8, 'big')
    m.update(seqb + bytes([ctype]))
    if version != (3, 0):
        m.update(bytes(version))
    m.update(bytes([len(content) >> 8, len(content) & 0xff]))
    m.update(content)
    body = bytearray(content + m.digest() + bytes([pad_len]) * (pad_len + 1))
    return body, mac, bytearray(seqb)


def xcheck_cbc(rng, n):
    from tlslite.utils.constanttime import ct_check_cbc_mac_and_pad as real
    fails = []
    seen = set()
    evals = 0

    def run(body, mac, seqb, ctype, version, bs, tag):
        nonlocal evals
        evals += 1
        want = spec_cbc_ok(body, mac, seqb, ctype, version, bs)
        try:
            got = real(bytearray(body), mac, bytearray(seqb), ctype, version, bs)
        except Exception as e:          # the contract allows no exception
            got = 'raised %s: %s' % (type(e).__name__, e)
        seen.add((len(body), body[-1] if body else None, version, mac.digest_size, want))
        if got != want and len(fails) < 5:
            short = len(body) - 1 - (body[-1] if body else 0) < mac.digest_size
            fails.append({'class': 'cbc-short-body-accepted' if (short and got is True) else 'cbc-check-disagrees',
                          'what': 'ct_check_cbc_mac_and_pad returned %r, specification says %r (%s)' % (got, want, tag),
                          'input': {'data_hex': bytes(body).hex(), 'seqnum': bytes(seqb).hex(), 'contentType': ctype,
                                    'version': list(version), 'block_size': bs, 'digest_size': mac.digest_size,
                                    'mac': 'key-bound object; see spec _mk_mac', 'tag': tag}})
    versions = [(3, 0), (3, 1), (3, 2), (3, 3)]
    algos = ['md5', 'sha1', 'sha256', 'sha384']
    # 1. structured: every padding length x content lengths around hash-block / window edges
    budget = n
    clens = [0, 1, 11, 12, 13, 43, 44, 45, 55, 56, 63, 64, 65, 119, 127, 128, 129, 200, 255, 256, 257, 300, 500]
    pads = list(range(0, 256))
    cases = []
    for v in versions:
        for a in algos:
            if v == (3, 0) and a not in ('md5', 'sha1'):
                continue
            for cl in clens:
                for p in pads:
                    cases.append((v, a, cl, p))
    rng.shuffle(cases)
    for (v, a, cl, p) in cases[:budget]:
        bs = rng.choice([8, 16])
        seq = rng.randrange(1 << 64)
        body, mac, seqb = _build(rng, v, a, bs, cl, p, seq, 23)
        run(body, mac, seqb, 23, v, bs, 'well-formed')
        # single-byte corruptions: MAC, padding, data, length byte
        for where in ('mac', 'pad', 'data', 'last'):
            b2 = bytearray(body)
            ds = mac.digest_size
            if where == 'mac':
                idx = cl + rng.randrange(ds)
            elif where == 'pad':
                if p == 0:
                    continue
                idx = cl + ds + rng.randrange(p)
            elif where == 'data':
                if cl == 0:
                    continue
                idx = rng.randrange(cl)
            else:
                idx = len(b2) - 1
            b2[idx] ^= 1 << rng.randrange(8)
            run(b2, mac, seqb, 23, v, bs, 'corrupt-' + where)
    # 2. short bodies (shorter than MAC+1+pad): MAC(prefix) || p and random
    for v in versions:
        for a in ('md5', 'sha1'):
            key = b'k' * 16
            mac = _mk_mac(v, a, key)
            for p in range(0, 40):
                seqb = bytearray(8)
                m = mac.copy()
                m.update(bytes(seqb) + bytes([23]))
                if v != (3, 0):
                    m.update(bytes(v))
                m.update(bytes([0, 0]))
                body = bytearray(m.digest() + bytes([p]))
                run(body, mac, seqb, 23, v, 16, 'MAC(empty)||p')
            for L in range(0, 3 * mac.digest_size):
                body = bytearray(rng.randrange(256) for _ in range(L))
                run(body, mac, bytearray(8), 23, v, 16, 'random-short')
    return {'evaluations': evals, 'distinct_nontrivial': len(seen),
            'bound': 'bodies up to 800 bytes; 4 versions; md5/sha1/sha256/sha384; pads 0..255; seed-dependent sample',
            'rule': 'distinct (len, pad byte, version, digest size, expected verdict)', 'failures': fails}


XCHECKS = {'cbc_check': xcheck_cbc}
