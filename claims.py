"""Per-property claim texts used to generate MANIFEST.json (tools/mkmanifest.py)."""
TECH = 'contract-based deductive verification: VCs generated from the real function ASTs, discharged by z3/cvc5'
CLAIMS = {
 'C12': {
  'text': 'ct_check_cbc_mac_and_pad is proved equal to the plain specification of the property (correct MAC of the remaining data followed by a version-allowed padding) for every body length < 2^16, every pad byte, digest/block size, sequence number, content type and all four versions; the eight ct_* helpers are proved against their arithmetic meaning in bit-vector arithmetic; loops are cut by inductive invariants, nothing is bounded.',
  'design_ref': 'DESIGN.md section 3 C12',
  'note': 'HMAC is an uninterpreted function of (key, bytes fed); engine encoding of Python semantics (pyvc) is trusted and cross-checked against CPython on every run (bounded differential run reported under coverage.bounded, not counted as proved); SSLv3 "one block" read as pad_length <= block_size; caller strip and sender side: see evidence not_built.',
  'technique': TECH + '; loop invariants with quantifiers; bit-vector mode for ct_* helpers'},
 'C01': {
  'text': 'Per-path inverse lemmas over the real record-protection code: for MAC-then-encrypt (block and stream), encrypt-then-MAC and the three AEAD nonce/AAD constructions (AES-GCM TLS1.2, ChaCha20 TLS1.2, TLS1.3) the receiver function applied to the sender function\'s output returns exactly the payload, for every version, payload length, block/digest/tag size, with both sequence numbers and CBC chaining state staying in step; plus contracts for addPadding, calculateMAC, getSeqNumBytes and the TLS1.3 inner-plaintext de-padding. Partial: fragmentation, read-buffer FIFO, key-block mirror and record-size caps are listed under not_built in the evidence.',
  'design_ref': 'DESIGN.md section 3 C01',
  'note': 'cipher objects by assumed interface contract (Dec(Enc(x))=x, Open(Seal(x))=x), HMAC uninterpreted; no two live endpoints are executed; handshake-established key equality is C03/C04',
  'technique': TECH + '; round-trip scenarios over sender/receiver states'},
 'C02': {
  'text': 'Integrity-binding postconditions on every unprotect path of the real record layer: a record is returned only if the complete MAC (all digest bytes) over the receiver\'s own sequence number, type, version, length and body under the read key compared equal (MtE block via the C12 specification, MtE stream/null, EtM), padding is well formed, and the counter moves exactly once; every other path raises TLSBadRecordMAC/TLSDecryptionFailed before data is returned. Partial: AEAD open() internals are under C09; alert mapping and TLS1.3 header exceptions are not_built.',
  'design_ref': 'DESIGN.md section 3 C02',
  'note': 'the step from tag equality to "exactly what the peer sent next" is MAC/AEAD unforgeability (assumed); cipher/HMAC objects abstract',
  'technique': TECH + '; exceptional postconditions (raises-only-when)'},
}
NOT_APPLICABLE = {
 'C07': 'interoperability with OpenSSL: no contract on /repo functions can speak about another implementation\'s behaviour; needs a second implementation executing (see DESIGN.md C07)',
}
