"""C20 (cipher-suite semantics match the registered meaning) and the suite
filters of C03.

The oracle is `specs/iana.py`: an independent reading of the IANA names in the
live `CipherSuite.ietfNames`.  The suite id is a symbolic Int `s` constrained
to the ids of `ietfNames`; every attribute of `iana(s)` is a z3 term over `s`
(a disjunction / if-chain over the ids, computed from the parse only), the
classification lists are the live Python lists of `tlslite.constants`.  So one
z3 query covers all 123 ids (and, for the filters, all subsets of the three
name lists and all versions) at once; a refuted query enumerates every
counterexample.

Tasks
  list:<name>            s in CipherSuite.<name>  <=>  P_<name>(iana(s))        (TableTask, ground z3)
  lists-covered          every classification list has a predicate
  real functions (executed from source by pyvc):
    RecordLayer._getCipherSettings / _getMacSettings / _getHMACMethod
    CipherSuite.canonicalCipherName / canonicalMacName
    TLSConnection._getPRFParams, mathtls.calc_key (PRF choice)
    RecordLayer.calcTLS1_3PendingState / _calcTLS1_3KeyUpdate (HKDF hash, key length, 12-byte IV, factory)
    CipherSuite.filterForVersion / _filterSuites / filter_for_certificate / filter_for_prfs
    the twelve get*Suites wrappers
"""
import z3

import tlslite.recordlayer as RL
from tlslite import handshakesettings as HS
from tlslite.constants import CipherSuite as CS

from specs import iana
from pyvc import finite
from pyvc.finite import TableTask, VSymSet, VGList
from pyvc.contract import contract, REG
from pyvc.state import T
from pyvc import spec as S
from pyvc.values import VInt, VBool, VNone, VStr, VSeq, VTuple, VList, VPy, VOpaque, Unsupported, fresh_name
from pyvc.executor import Outcome
from pyvc import smt

P20 = ('C20',)
P203 = ('C20', 'C03')
K = 'tlslite/constants.py:CipherSuite.'
R = 'tlslite/recordlayer.py:RecordLayer.'

IDS = sorted(CS.ietfNames)
INFO = iana.table(CS.ietfNames)          # raises if some name cannot be read
VERSIONS = list(iana.ALL_VERSIONS)


# ---------------------------------------------------------------------------
# iana(s) as z3 terms over the symbolic id

def _t(s):
    return s.t if isinstance(s, VInt) else s


def dom(s):
    s = _t(s)
    return z3.Or([s == i for i in IDS])


def P(fn):
    """z3 predicate  s |-> fn(iana(s))  for a Python predicate on parsed names (false outside ietfNames)"""
    ids = [i for i in IDS if fn(INFO[i])]

    def pred(s):
        s = _t(s)
        return z3.Or([s == i for i in ids] + [z3.BoolVal(False)])
    return pred


def Vf(fn, s, default=-1):
    """z3 Int term fn(iana(s)) for an int-valued attribute (None -> default)"""
    s = _t(s)
    groups = {}
    for i in IDS:
        groups.setdefault(fn(INFO[i]), []).append(i)
    t = z3.IntVal(default)
    for val, ids in sorted(groups.items(), key=lambda kv: repr(kv[0])):
        if val is None:
            continue
        t = z3.If(z3.Or([s == i for i in ids]), z3.IntVal(val), t)
    return t


def is_suite(x):
    return x.kind in ('tls', 'tls13')


NEG = P(iana.negotiable)
SUITE = P(is_suite)
TLS13 = P(lambda x: x.kind == 'tls13')


def describe(row):
    out = []
    for k, v in row.items():
        if isinstance(v, int) and not isinstance(v, bool) and v in CS.ietfNames:
            out.append('%s=0x%04x %s' % (k, v, CS.ietfNames[v]))
    return '; '.join(out)


# ---------------------------------------------------------------------------
# O-lists.  Predicate fixed by how /repo uses the list (second column), truth by the IANA name.
#   scope 'neg': iff on the negotiable suites; on every other id membership implies the predicate
#                (a listed suite is never mis-classified; SCSVs / SSLv2 codes are in no list)
#   scope 'all': iff on every id of ietfNames (key-exchange dispatch lists: a suite whose key
#                exchange the library does not implement must not be dispatched at all)

from specs.suites import LISTS, SSL2_LISTS, OFFERED_BASES, WRAPPERS, CERT_ALGS, cert_allows   # noqa: shared with the concrete check


def member(lst, s):
    s = _t(s)
    return z3.Or([s == e for e in lst] + [z3.BoolVal(False)])


def _list_facts(name):
    pred, scope = LISTS[name][0], LISTS[name][1]

    def facts(task):
        s = z3.Int('s')
        live = list(getattr(CS, name))
        m, p = member(live, s), P(pred)(s)
        yield ('only-known-ids', [], z3.And([dom(z3.IntVal(e)) for e in live] + [z3.BoolVal(True)]), [])
        if scope == 'all':
            yield ('iff-all-ids', [dom(s)], m == p, [s])
        else:
            yield ('iff-negotiable', [dom(s), NEG(s)], m == p, [s])
            yield ('sound-elsewhere', [dom(s), z3.Not(NEG(s))], z3.Implies(m, p), [s])
    return facts


for _n in sorted(LISTS):
    REG.add_task(TableTask('list:' + _n, P20, K + _n, _list_facts(_n), describe=describe,
                           doc='s in CipherSuite.%s <=> %s' % (_n, LISTS[_n][2])))


def _covered_facts(task):
    live = sorted(k for k, v in vars(CS).items() if isinstance(v, list))
    missing = [k for k in live if k not in LISTS and k not in SSL2_LISTS]
    yield ('every-list-has-a-predicate(%s)' % ','.join(missing), [], z3.BoolVal(not missing), [])
    gone = [k for k in LISTS if k not in live]
    yield ('every-predicate-has-a-list(%s)' % ','.join(gone), [], z3.BoolVal(not gone), [])
    # the negotiable suites (by name) are exactly what the get*Suites wrappers can ever return
    s = z3.Int('s')
    offered = []
    for base in OFFERED_BASES:
        offered += list(getattr(CS, base))
    yield ('negotiable-by-name==union-of-offered-base-lists', [dom(s)], member(offered, s) == NEG(s), [s])


REG.add_task(TableTask('lists-covered', P20, K + 'ietfNames', _covered_facts, describe=describe))


# ---------------------------------------------------------------------------
# RecordLayer._getCipherSettings / _getMacSettings / _getHMACMethod

_FACTORIES = dict((id(getattr(RL, n)), n) for n in ('createAES', 'createAESGCM', 'createAESCCM', 'createAESCCM_8',
                                                     'createCHACHA20', 'createRC4', 'createTripleDES'))
_DIGESTS = {id(RL.hashlib.sha1): 'SHA', id(RL.hashlib.sha256): 'SHA256', id(RL.hashlib.sha384): 'SHA384',
            id(RL.hashlib.md5): 'MD5'}


def _name_of(v, table):
    """concrete name of a function-valued result (None for Python None)"""
    if isinstance(v, VNone):
        return None
    if isinstance(v, VPy) and id(v.obj) in table:
        return table[id(v.obj)]
    return '<unexpected %r>' % (v,)


def _str_of(v):
    if isinstance(v, VNone):
        return None
    if isinstance(v, VStr):
        return v.s
    return '<unexpected %r>' % (v,)


def _suite_req(ns):
    return VBool(z3.And(dom(ns.cipherSuite), SUITE(ns.cipherSuite)))


def table_contract(qual, **kw):
    """Contracts whose postcondition inspects the concrete Python object returned on each path
    (a factory, a name): meaningful only when the real body is executed, so they are never
    applied at call sites -- callers inline the real code."""
    c = contract(qual, **kw)
    c.variant = 'table'
    return c


REG.inline_ok.add(R + '_getCipherSettings')
table_contract(R + '_getCipherSettings', params={'cipherSuite': T.int()}, requires=_suite_req, raises={},
         ensures=lambda ns: (lambda s, r: S.And(
             r[0] == Vf(lambda x: x.key_len, s),
             # the key-block IV length of SSL3..TLS1.2; calcTLS1_3PendingState overrides it with 12
             S.implies(P(lambda x: x.kind == 'tls')(s), r[1] == Vf(lambda x: x.iv_len, s)),
             P(lambda x: is_suite(x) and iana.factory_name(x) == _name_of(r[2], _FACTORIES))(s)))(ns.cipherSuite, ns.result),
         prop=P20,
         doc='for every TLS suite id: key length, key-block IV length and cipher factory are those of the IANA name; '
             'no suite reaches raise AssertionError')

table_contract(R + '_getMacSettings', params={'cipherSuite': T.int()},
         # call sites pass the negotiated suite (static-DH / SRP_DSS names are classified only partially)
         requires=lambda ns: VBool(z3.And(dom(ns.cipherSuite), NEG(ns.cipherSuite))), raises={},
         ensures=lambda ns: (lambda s, r: S.And(
             r[0] == Vf(lambda x: x.mac_len, s),
             P(lambda x: is_suite(x) and x.mac == _name_of(r[1], _DIGESTS))(s)))(ns.cipherSuite, ns.result),
         prop=P20,
         doc='MAC key/output length and digest are those of the IANA name (0 / None for AEAD); no AssertionError')

_VER = T.tuple(T.int(), T.int())


def _one_of_versions(v, versions):
    return S.Or(*[v == x for x in versions])


table_contract(R + '_getHMACMethod', params={'version': _VER},
         requires=lambda ns: _one_of_versions(ns.version, VERSIONS[:4]), raises={},
         ensures=lambda ns: VBool(z3.BoolVal(isinstance(ns.result, VPy))) &
         S.iff(ns.version == (3, 0), VBool(z3.BoolVal(isinstance(ns.result, VPy) and ns.result.obj is RL.createMAC_SSL))) &
         S.iff(ns.version != (3, 0), VBool(z3.BoolVal(isinstance(ns.result, VPy) and ns.result.obj is RL.createHMAC))),
         prop=P20, doc='SSLv3 MAC construction exactly for SSL 3.0, HMAC for TLS 1.0-1.2')


# ---------------------------------------------------------------------------
# accessors

table_contract(K + 'canonicalCipherName', params={'ciphersuite': T.int()},
         requires=lambda ns: VBool(dom(ns.ciphersuite)), raises={},
         ensures=lambda ns: VBool(P(lambda x: iana.cipher_name(x) == _str_of(ns.result))(ns.ciphersuite)),
         prop=P20, doc='Session.getCipherName: the settings word for the bulk cipher of the IANA name (None for SCSVs / SSLv2)')

table_contract(K + 'canonicalMacName', params={'ciphersuite': T.int()},
         requires=lambda ns: VBool(dom(ns.ciphersuite)), raises={},
         ensures=lambda ns: VBool(z3.Or(
             P(lambda x: iana.hmac_name(x) == _str_of(ns.result))(ns.ciphersuite),
             # a suite the library cannot negotiate may be unclassified, never mis-classified
             z3.And(z3.Not(NEG(ns.ciphersuite)), z3.BoolVal(isinstance(ns.result, VNone))))),
         prop=P20, doc='Session.getMacName: hash of the HMAC of the IANA name; None when the suite has no HMAC (AEAD)')


# ---------------------------------------------------------------------------
# PRF choice

table_contract('tlslite/tlsconnection.py:TLSConnection._getPRFParams', params={'cipher_suite': T.int()},
         requires=lambda ns: VBool(z3.And(dom(ns.cipher_suite), SUITE(ns.cipher_suite))), raises={},
         ensures=lambda ns: (lambda s, r: S.And(
             P(lambda x: is_suite(x) and iana.prf_name(x) == _str_of(r[0]))(s),
             r[1] == Vf(lambda x: x.prf_len, s)))(ns.cipher_suite, ns.result),
         prop=P20, doc='(hash name, output size) of the PRF/HKDF hash denoted by the IANA name')

M = 'tlslite/mathtls.py:'
_PRF_FUNCS = ('PRF', 'PRF_SSL', 'PRF_1_2', 'PRF_1_2_SHA384')
Prf = S.uf('PrfOut', [smt.I, smt.Seq, smt.Seq, smt.Seq, smt.I], smt.Seq)


def _prf_external(fname):
    code = _PRF_FUNCS.index(fname)

    def h(ex, args, kwargs, st, fr, node):
        if fname == 'PRF_SSL':
            secret, seed, length = args
            label = VSeq(smt.s_empty, 'byte')
        else:
            secret, label, seed, length = args
        if not all(isinstance(a, VSeq) for a in (secret, label, seed)):
            raise Unsupported('%s with non-bytes arguments' % fname)
        r = VSeq(Prf(z3.IntVal(code), secret.t, label.t, seed.t, length.t), 'byte', 'bytearray')
        st.assume(z3.And(smt.slen(r.t) == z3.If(length.t < 0, 0, length.t), smt.isb(r.t)))
        st.events.append((M + fname, args, r))
        return [Outcome('normal', st, r)]
    return h


for _f in _PRF_FUNCS:
    REG.external.setdefault(M + _f, _prf_external(_f))


def _hh_digest_model():
    """handshake_hashes.digest(name) / digestSSL: an uninterpreted function of the (opaque) object and the name"""
    HHd = S.uf('HHdigest', [smt.Val, smt.I], smt.Seq)

    class HH(object):
        def getattr(self, ex, v, name, st):
            from pyvc.executor import SpecFn
            from pyvc.values import to_val, str_id
            if name == 'digest':
                def f(ex, args, kw, st, fr, node):
                    nm = args[0].s if args else 'default'
                    r = VSeq(HHd(to_val(v), z3.IntVal(str_id('hh:' + nm))), 'byte', 'bytearray')
                    st.assume(smt.isb(r.t))
                    return [Outcome('normal', st, r)]
                return VPy(SpecFn(f, 'digest'))
            if name == 'digestSSL':
                def g(ex, args, kw, st, fr, node):
                    r = VSeq(HHd(to_val(v), z3.IntVal(str_id('hh:ssl'))), 'byte', 'bytearray')
                    st.assume(smt.isb(r.t))
                    st.events.append(('digestSSL', args, r))
                    return [Outcome('normal', st, r)]
                return VPy(SpecFn(g, 'digestSSL'))
            return None
    return HH()


REG.models['HandshakeHashesModel'] = _hh_digest_model()


_FINISHED = (b'client finished', b'server finished')


def _calc_key_ensures(label):
    def ens(ns):
        calls = [e for e in ns.events if isinstance(e[0], str) and e[0].startswith(M) and e[0][len(M):] in _PRF_FUNCS]
        ssl_fin = [e for e in ns.events if e[0] == 'digestSSL']
        v = ns.version
        is_ssl3 = (v == (3, 0)).t
        res = ns.result
        if not isinstance(res, VSeq):
            return VBool(z3.BoolVal(False))
        if not calls:
            # RFC 6101 5.6.9: the SSL 3.0 Finished value is the nested MD5/SHA hash, no PRF
            ok = len(ssl_fin) == 1 and label in _FINISHED and ssl_fin[0][2].t.eq(res.t) and ssl_fin[0][1][0].t.eq(ns.secret.t)
            return VBool(z3.And(is_ssl3, z3.BoolVal(bool(ok))))
        if len(calls) != 1 or ssl_fin:
            return VBool(z3.BoolVal(False))
        fname, args, out = calls[0]
        used = _PRF_FUNCS.index(fname[len(M):])
        expected = z3.If(is_ssl3, _PRF_FUNCS.index('PRF_SSL'),
                         z3.If(z3.Or((v == (3, 1)).t, (v == (3, 2)).t), _PRF_FUNCS.index('PRF'),
                               z3.If(P(lambda x: x.prf == 'SHA384')(ns.cipher_suite), _PRF_FUNCS.index('PRF_1_2_SHA384'),
                                     _PRF_FUNCS.index('PRF_1_2'))))
        wiring = out.t.eq(res.t) and args[0].t.eq(ns.secret.t) and args[-1].t.eq(ns.output_length.t) and \
            (fname.endswith('PRF_SSL') or args[1].t.eq(ns.label.t))
        not_ssl_fin = z3.Not(z3.And(is_ssl3, z3.BoolVal(label in _FINISHED)))
        return VBool(z3.And(expected == used, not_ssl_fin, z3.BoolVal(bool(wiring))))
    return ens


def _calc_key_contract(label):
    def setup(ex, st, ns):
        from pyvc.executor import lift_py
        st.env['label'] = lift_py(label)
        hh = st.alloc('HandshakeHashesModel')
        st.fresh_objs.discard(hh.oid)
        st.env['handshake_hashes'] = hh
    c = contract(M + 'calc_key', name='calc_key[%s]' % label.decode(),
                 params={'version': _VER, 'secret': T.bytes(), 'cipher_suite': T.int(), 'label': T.bytes(),
                         'handshake_hashes': T.none(), 'client_random': T.bytes(), 'server_random': T.bytes(),
                         'output_length': T.int(0, 1 << 16)},
                 setup=setup,
                 requires=lambda ns: S.And(_one_of_versions(ns.version, VERSIONS[1:4] if label == b'extended master secret'
                                                              else VERSIONS[:4]),
                                           VBool(z3.And(dom(ns.cipher_suite), SUITE(ns.cipher_suite)))),
                 raises={}, ensures=_calc_key_ensures(label), prop=P20,
                 doc='the key-derivation function applied is PRF_SSL / MD5+SHA1 PRF / P_SHA256 / P_SHA384 exactly as '
                     'version and the IANA name prescribe, and its output is returned')
    c.variant = label.decode()          # per-configuration contract: never applied at call sites
    return c


for _l in (b'master secret', b'key expansion', b'extended master secret', b'client finished', b'server finished'):
    _calc_key_contract(_l)


# ---------------------------------------------------------------------------
# TLS 1.3 record keys: HKDF hash, key length, IV length 12 and cipher of the IANA name

HKDF_LABEL = 'tlslite/utils/cryptomath.py:HKDF_expand_label'
F = 'tlslite/utils/cipherfactory.py:'


def _hkdf_external(ex, args, kwargs, st, fr, node):
    secret, label, hash_value, length, algorithm = args
    r = T.bytes().make('hkdf_out', st)
    st.assume(smt.slen(r.t) == length.t)
    st.events.append((HKDF_LABEL, args, r))
    return [Outcome('normal', st, r)]


def _factory_external(fname):
    def h(ex, args, kwargs, st, fr, node):
        r = VOpaque(z3.Const(fresh_name('cipher_' + fname), smt.Val))
        st.events.append((F + fname, args, r))
        return [Outcome('normal', st, r)]
    return h


REG.external.setdefault(HKDF_LABEL, _hkdf_external)
for _f in ('createAESGCM', 'createAESCCM', 'createAESCCM_8', 'createCHACHA20'):
    REG.external.setdefault(F + _f, _factory_external(_f))


def _bytes_of(v):
    """concrete content of a literal bytes value built by the executor, else None"""
    if not isinstance(v, VSeq):
        return None
    n = z3.simplify(smt.slen(v.t))
    out = []
    t = v.t
    # literals are concatenations of singletons
    def walk(t):
        if t.decl().name() == 's_concat':
            walk(t.arg(0))
            walk(t.arg(1))
        elif t.decl().name() == 's_single' and z3.is_int_value(z3.simplify(t.arg(0))):
            out.append(z3.simplify(t.arg(0)).as_long())
        elif t.eq(smt.s_empty):
            pass
        else:
            out.append(None)
    walk(t)
    return None if None in out else bytes(out)


def _tls13_keys_ensures(secrets, with_update):
    """secrets: names of the traffic-secret parameters in the order they are expanded"""
    def ens(ns):
        s = ns.cipherSuite
        hk = [e for e in ns.events if e[0] == HKDF_LABEL]
        fc = [e for e in ns.events if isinstance(e[0], str) and e[0].startswith(F)]
        goals = []
        shape = True
        # every expansion uses the HKDF hash of the name
        for (_, args, out) in hk:
            alg = _str_of(args[4])
            goals.append(P(lambda x, alg=alg: is_suite(x) and iana.prf_name(x) == alg)(s))
            lab = _bytes_of(args[1])
            if lab == b'key':
                goals.append(args[3].t == Vf(lambda x: x.key_len, s))
            elif lab == b'iv':
                goals.append(args[3].t == 12)                      # RFC 8446 5.3
            elif lab == b'traffic upd' and with_update:
                goals.append(args[3].t == Vf(lambda x: x.prf_len, s))
            else:
                shape = False
        keys = [e for e in hk if _bytes_of(e[1][1]) == b'key']
        shape = shape and len(fc) == len(keys) == len(secrets) and len(hk) == (3 if with_update else 2) * len(secrets)
        for (fname, args, out), key_ev in zip(fc, keys):
            goals.append(P(lambda x, fname=fname: is_suite(x) and iana.factory_name(x) == fname[len(F):])(s))
            shape = shape and args[0].t.eq(key_ev[2].t)            # the cipher is keyed with the expanded key
        return VBool(z3.And(goals + [z3.BoolVal(bool(shape))]))
    return ens


def _tls13_req(ns):
    return VBool(z3.And(dom(ns.cipherSuite), TLS13(ns.cipherSuite)))


table_contract(R + 'calcTLS1_3PendingState',
               params={'self': T.obj(RL.RecordLayer, client=T.bool()), 'cipherSuite': T.int(),
                       'cl_traffic_secret': T.bytes(), 'sr_traffic_secret': T.bytes(), 'implementations': T.opaque()},
               requires=_tls13_req, raises={}, ensures=_tls13_keys_ensures(('cl', 'sr'), False), prop=P20,
               doc='both directions: key = HKDF-Expand-Label(secret, "key", "", key length of the name) and '
                   'iv = HKDF-Expand-Label(secret, "iv", "", 12) with the HKDF hash of the name; the cipher object is built '
                   'by the factory of the name from that key')
table_contract(R + '_calcTLS1_3KeyUpdate',
               params={'self': T.obj(RL.RecordLayer), 'cipherSuite': T.int(), 'app_secret': T.bytes()},
               requires=_tls13_req, raises={}, ensures=_tls13_keys_ensures(('app',), True), prop=P20,
               doc='key update: next secret of hash length, key and 12-byte iv with the HKDF hash, key length and factory '
                   'of the name')


# ---------------------------------------------------------------------------
# C03 filters

MAC_WORDS = list(HS.ALL_MAC_NAMES)
CIPHER_WORDS = list(HS.ALL_CIPHER_NAMES)
KX_WORDS = list(HS.KEY_EXCHANGE_NAMES)
OPTS = {'merge_if': True, 'guarded_comp': True, 'filter_witness_only': True}


def _settings():
    return T.obj(HS.HandshakeSettings, macNames=T.subset(MAC_WORDS), cipherNames=T.subset(CIPHER_WORDS),
                 keyExchangeNames=T.subset(KX_WORDS), maxVersion=_VER)


def _min_version_le(x, v):
    """min_version(iana(x)) <= v  for a symbolic version tuple v"""
    return z3.Or([z3.And(P(lambda q, v0=v0: is_suite(q) and iana.min_version(q) == v0)(x), (VTuple([VInt(v0[0]), VInt(v0[1])]) <= v).t)
                  for v0 in VERSIONS])


def allowed_by_settings(ns, x, version):
    """the suite x is within the policy: its MAC, cipher and key exchange (by IANA name) are
    enabled in the settings and some version <= `version` defines it"""
    st = ns.settings
    macs, ciphers, kxs = ns.f(st, 'macNames'), ns.f(st, 'cipherNames'), ns.f(st, 'keyExchangeNames')
    mac_ok = z3.Or([z3.And(macs.has(w), P(lambda q, w=w: iana.mac_name(q) == w)(x)) for w in MAC_WORDS])
    ciph_ok = z3.Or([z3.And(ciphers.has(w), P(lambda q, w=w: iana.cipher_name(q) == w)(x)) for w in CIPHER_WORDS])
    kx_ok = z3.Or([z3.And(kxs.has(w), P(lambda q, w=w: iana.kx_name(q) == w)(x)) for w in KX_WORDS] +
                  [TLS13(x)])                      # a TLS 1.3 suite names no key exchange
    return z3.And(mac_ok, ciph_ok, kx_ok, _min_version_le(x, version))


def _in(lst, x):
    """z3 Bool: x in lst for the list kinds the executor produces"""
    x = _t(x)
    if isinstance(lst, VSeq):
        k = z3.Int(fresh_name('mem_k'))
        return z3.Exists([k], z3.And(0 <= k, k < smt.slen(lst.t), smt.sat(lst.t, k) == x))
    if isinstance(lst, (VList, VGList)):
        return VGList.of(lst).contains_(VInt(x)).t
    raise Unsupported('membership in %r' % (lst,))


def _filter_props(ns, allowed, complete_when=None, extra=None):
    """`result = [x for x in suites if c(x)]` for an input list of any length.

    By the filter-comprehension rule (pyvc/finite.py, trusted) the result consists of exactly the
    elements of `suites` that satisfy c, in input order; `order` checks that the value returned is
    that comprehension over the parameter itself.  What depends on the tables is pointwise and
    quantifier-free: for an arbitrary element x,
        sound:     c(x) => allowed(x)
        complete:  allowed(x) and x negotiable => c(x)     (ids the library cannot negotiate may be dropped)
    """
    r, src = ns.result, ns.suites
    w = ns.ghost('filter')
    if not isinstance(r, VSeq) or w is None or not w.obj.src.t.eq(src.t) or not w.obj.res.t.eq(r.t):
        return dict((k, VBool(z3.BoolVal(False))) for k in ('sound', 'complete', 'order'))
    x = z3.Int('x_any')
    c = w.obj.cond(x)
    cw = (complete_when or NEG)(x)
    out = {'sound': VBool(z3.Implies(c, allowed(x))),
           'complete': VBool(z3.Implies(z3.And(allowed(x), cw), c)),
           'order': VBool(z3.BoolVal(True))}
    for name, fn in (extra or {}).items():
        out[name] = VBool(z3.Implies(c, fn(x)))
    return out


# --- filterForVersion
def _ffv_allowed(ns):
    lo, hi = ns.minVersion, ns.maxVersion

    def allowed(x):
        return z3.Or([z3.And((VTuple([VInt(v[0]), VInt(v[1])]) >= lo).t, (VTuple([VInt(v[0]), VInt(v[1])]) <= hi).t,
                             P(lambda q, v=v: is_suite(q) and v in q.versions)(x)) for v in VERSIONS])
    return allowed


def _ffv_props(ns):
    # corollary used at both call sites (min == max == negotiated version): a suite that
    # survives is defined in exactly that version
    def exact(x):
        return z3.Implies((ns.minVersion == ns.maxVersion).t,
                          z3.Or([z3.And((ns.minVersion == v).t, P(lambda q, v=v: is_suite(q) and v in q.versions)(x))
                                 for v in VERSIONS]))
    return _filter_props(ns, _ffv_allowed(ns), extra={'never-outside-its-versions': exact})


def _versions_req(ns):
    return S.And(_one_of_versions(ns.minVersion, VERSIONS), _one_of_versions(ns.maxVersion, VERSIONS),
                 ns.minVersion <= ns.maxVersion)


def _named(qual, base, props_fn, **kw):
    """register one contract per property so that every one is a named obligation"""
    names = kw.pop('prop_names')
    out = []
    for pn in names:
        c = contract(qual, name='%s[%s]' % (base, pn),
                     ensures=(lambda pn: lambda ns: props_fn(ns).get(pn, VBool(z3.BoolVal(False))))(pn), **kw)
        c.variant = pn
        out.append(c)
    return out


_named(K + 'filterForVersion', 'filterForVersion', _ffv_props,
       prop_names=['sound', 'complete', 'order', 'never-outside-its-versions'],
       params={'suites': T.ints(), 'minVersion': _VER, 'maxVersion': _VER}, requires=_versions_req, raises={},
       opts=OPTS, prop=P203,
       doc='result = the suites of the input, in input order, that some version in [minVersion, maxVersion] defines '
           '(by IANA name); unknown ids are dropped')


# --- _filterSuites over an arbitrary input list, and over a one-element list (ground)
def _fs_version(ns):
    v = ns.version
    return ns.f(ns.settings, 'maxVersion') if isinstance(v, VNone) else v


def _fs_props(ns):
    v = _fs_version(ns)
    return _filter_props(ns, lambda x: allowed_by_settings(ns, x, v))


def _fs_req(ns):
    # call sites: the negotiated version (server) or settings.maxVersion (client), both validated
    return _one_of_versions(_fs_version(ns), VERSIONS)


for _vn, _vt in (('version', _VER), ('default-version', T.none())):
    _named(K + '_filterSuites', '_filterSuites[any-list,%s]' % _vn, _fs_props, prop_names=['sound', 'complete', 'order'],
           params={'suites': T.ints(), 'settings': _settings(), 'version': _vt}, requires=_fs_req, raises={},
           opts=OPTS, prop=P203,
           doc='O-filter-sound / complete / order for every input list, every subset of the three name lists, every version')


def _fs_elem_props(ns):
    v = _fs_version(ns)
    x = ns.suites.items[0]
    r = ns.result
    kept = _in(r, x) if isinstance(r, (VList, VGList)) else z3.BoolVal(False)
    ok = allowed_by_settings(ns, x.t, v)
    return {'sound': VBool(z3.Implies(kept, ok)), 'complete': VBool(z3.Implies(ok, kept))}


_named(K + '_filterSuites', '_filterSuites[element]', _fs_elem_props, prop_names=['sound', 'complete'],
       params={'suites': T.symlist(1), 'settings': _settings(), 'version': _VER}, requires=_fs_req, raises={},
       opts=OPTS, prop=P203,
       doc='element level (quantifier-free): x is kept iff the settings allow it')
REG.inline_ok.add(K + '_filterSuites')


# --- get*Suites wrappers: the real class list is filtered
def _wrapper_props(pred, listname):
    def props(ns):
        v = _fs_version(ns)
        r = ns.result
        if not isinstance(r, (VList, VGList)):
            return {}
        s = z3.Int('s_any')
        kept = _in(r, s)
        ok = z3.And(P(pred)(s), allowed_by_settings(ns, s, v))
        vals = [it.concrete() for _, it in VGList.of(r).items]
        live = list(getattr(CS, listname))
        # order: the candidates are the class list's own elements in the class list's order
        pos, is_sub = 0, True
        for x in vals:
            while pos < len(live) and live[pos] != x:
                pos += 1
            if pos == len(live):
                is_sub = False
                break
            pos += 1
        return {'sound': VBool(z3.Implies(kept, ok)), 'complete': VBool(z3.Implies(ok, kept)),
                'order': VBool(z3.BoolVal(is_sub))}
    return props


for _w, (_pred, _ln) in sorted(WRAPPERS.items()):
    for _vn, _vt in (('version', _VER), ('default-version', T.none())):
        # getSrpDsaSuites: only what its name promises is stated (it filters another list, see findings)
        _named(K + _w, '%s[%s]' % (_w, _vn), _wrapper_props(_pred, _ln),
               prop_names=['sound'] if _w == 'getSrpDsaSuites' else ['sound', 'complete', 'order'],
               params={'cls': T.const(VPy(CS)), 'settings': _settings(), 'version': _vt}, requires=_fs_req,
               raises={}, opts=OPTS, prop=P203,
               doc='for every id s: s in result <=> the IANA name of s has this key exchange and its MAC, cipher and '
                   'key exchange are enabled in the settings and some version <= version defines it')


# --- filter_for_certificate
def _ffc_allowed(alg):
    return P(lambda x: cert_allows(alg, x))


def _ffc_contract(alg):
    import tlslite.x509certchain as XC
    import tlslite.x509 as X

    def props(ns):
        return _filter_props(ns, _ffc_allowed(alg))
    chain = T.none() if alg is None else T.obj(XC.X509CertChain)

    def setup(ex, st, ns):
        if alg is not None:
            cert = st.alloc(X.X509)
            st.fresh_objs.discard(cert.oid)
            st.heap[(cert.oid, 'certAlg')] = VStr(alg)
            st.heap[(st.env['cert_chain'].oid, 'x509List')] = VList([cert])
    _named(K + 'filter_for_certificate', 'filter_for_certificate[%s]' % (alg or 'no-certificate'), props,
           prop_names=['sound', 'complete', 'order'],
           params={'suites': T.ints(), 'cert_chain': chain}, setup=setup, raises={}, opts=OPTS, prop=P203,
           doc='result = the suites of the input, in order, whose authentication (by IANA name) the given '
               'certificate key type can provide; TLS 1.3 suites always')


for _a in CERT_ALGS:
    _ffc_contract(_a)


# --- filter_for_prfs
def _ffp_props(ns):
    prfs = ns.prfs

    def allowed(x):
        want256 = z3.Or(prfs.has('sha256'), prfs.has(None))      # None: PSK without a hash uses SHA-256 (RFC 8446 4.2.11)
        return z3.Or(z3.And(want256, P(lambda q: is_suite(q) and q.prf == 'SHA256')(x)),
                     z3.And(prfs.has('sha384'), P(lambda q: is_suite(q) and q.prf == 'SHA384')(x)))
    # completeness where the PSK hash matters: the TLS 1.2-only and TLS 1.3 suites
    return _filter_props(ns, allowed, complete_when=P(lambda q: iana.negotiable(q) and iana.min_version(q) >= iana.TLS12))


_named(K + 'filter_for_prfs', 'filter_for_prfs', _ffp_props, prop_names=['sound', 'complete', 'order'],
       params={'suites': T.ints(), 'prfs': T.subset([None, 'sha256', 'sha384'])}, raises={}, opts=OPTS, prop=P203,
       doc='result = the suites of the input, in order, whose PRF/HKDF hash (by IANA name) is among prfs (None = sha256)')


# ---------------------------------------------------------------------------
# bounded / concrete stand-in and counterexample reporter
for _name, _fn in (('lists', None),
                   ('canonicalMacName', K + 'canonicalMacName'),
                   ('canonicalCipherName', K + 'canonicalCipherName'),
                   ('_getCipherSettings', R + '_getCipherSettings'),
                   ('_getMacSettings', R + '_getMacSettings'),
                   ('prf', 'tlslite/tlsconnection.py:TLSConnection._getPRFParams'),
                   ('calc_key', M + 'calc_key'),
                   ('filterForVersion', K + 'filterForVersion'),
                   ('_filterSuites', K + '_filterSuites'),
                   ('filter_for_certificate', K + 'filter_for_certificate'),
                   ('filter_for_prfs', K + 'filter_for_prfs'),
                   ('factories', None)) + tuple((w, K + w) for w in sorted(WRAPPERS)) + \
        tuple(('list:' + l, K + l) for l in sorted(LISTS)):
    for _p in (P20 if _name in ('lists', 'canonicalMacName', 'canonicalCipherName', '_getCipherSettings',
                                '_getMacSettings', 'prf', 'calc_key', 'factories') or _name.startswith('list:') else P203):
        REG.xchecks.append({'prop': _p, 'module': 'specs.suites', 'name': _name, 'function': _fn})

for _p in P203:
    REG.note(_p, 'trusted', 'specs/iana.py: the reading of IANA suite names (RFC 5246 A.5/C, 4492, 5054, 5288, 5289, '
                            '6655, 7251, 7905, 8446 B.4) is the oracle; the bridge from IANA tokens to the words of '
                            'HandshakeSettings (aes128gcm, sha, dhe_dsa, ...) is part of it')
    REG.note(_p, 'trusted', 'pyvc/finite.py: sets/lists over a known universe with symbolic membership, guarded lists, '
                            'merging of pure if-arms, and the filter-comprehension rule (fresh result with an '
                            'order-preserving injection onto exactly the source positions satisfying the condition)')
    REG.note(_p, 'assumptions', 'suite ids range over the keys of the live CipherSuite.ietfNames (123 ids); ids outside '
                                'it are in no classification list, hence dropped by every filter')
    REG.note(_p, 'assumptions', 'MD5/SHA-MAC suites are taken as defined for SSL 3.0..TLS 1.2 although RFC 3268/4492/5054 '
                                'were written against TLS 1.0+ (the property\'s own rule list does the same)')
REG.note('C03', 'assumptions', 'settings.macNames / cipherNames / keyExchangeNames are subsets of ALL_MAC_NAMES / '
                               'ALL_CIPHER_NAMES / KEY_EXCHANGE_NAMES (HandshakeSettings.validate rejects other words; other '
                               'words are never tested by _filterSuites); prfs passed to filter_for_prfs are drawn from '
                               '{None, sha256, sha384} (validated pskConfigs)')
REG.note('C03', 'assumptions', '_filterSuites(version): version is an upper bound (client: maxVersion, server: the negotiated '
                               'version); exact-version filtering is filterForVersion(min == max), applied after it at '
                               'both call sites')
REG.note('C20', 'assumptions', 'the *_draft_00 ChaCha20 code points are not IANA-registered; they are read like the cipher '
                               'they name with the draft\'s 4-byte fixed IV')
REG.note('C20', 'not_built', 'ServerKeyExchange.parse / write dispatch on the suite (statement contracts on the if/elif chains); the '
                             'client and server KeyExchange-class dispatch is under contract in m2_client (_handshakeClientAsyncHelper/flow) '
                             'and m2_server (_handshakeServerAsyncHelper/key-exchange-dispatch)')
REG.note('C20', 'not_built', 'that the cipherfactory constructors build the cipher their name says (tag length 8 for '
                             'createAESCCM_8, ...) is checked concretely only (cross-check "factories"), contracts on '
                             'the cipher classes belong to C09')
