#!/bin/bash
# tools/seed_one.sh <seed-id>: apply one seeded patch on a private scratch worktree, run its property's quick check.
cd /verif
s=$1; p=${s%-*}; d=seeded/$s
WT=${VERIF_SCRATCH:-/var/tmp}/wt-seed-$s-$$
git -C /repo worktree add -q --detach $WT HEAD || exit 9
trap 'git -C /repo worktree remove --force $WT' EXIT
if ! git -C $WT apply --check /verif/$d/patch.diff 2>/dev/null; then echo -e "$s\t$p\tpatch-does-not-apply\t"; exit 0; fi
git -C $WT apply /verif/$d/patch.diff
VERIF_REPO=$WT VERIF_EVIDENCE_DIR=/var/tmp/seed_evidence ./check $p --tier quick > /var/tmp/seedrun_$s.out 2>&1; rc=$?
v=$(grep -m1 VIOLATION /var/tmp/seedrun_$s.out | cut -c1-260)
echo -e "$s\t$p\t$rc\t$v"
