"""Executable reference implementations of the symmetric primitives (C09), written
straight from the standards (FIPS-197, SP 800-38A/C/D, RFC 3610, RFC 8439), and
the *bounded* differential runs against tlslite's pure-Python implementations.

Nothing here is counted as proved: these runs are the stand-in for the parts
that are out of deductive reach (table-driven AES core, GHASH multiplication
table, ChaCha stream block splitting) and an independent sanity check of the
formal specifications used in contracts/ciphers.py.
"""
import struct


# ---------------------------------------------------------------------------
# FIPS-197, written plainly

def _xtime(a):
    a <<= 1
    if a & 0x100:
        a ^= 0x11b
    return a & 0xff


def _gmul(a, b):
    r = 0
    while b:
        if b & 1:
            r ^= a
        a = _xtime(a)
        b >>= 1
    return r


def _make_sbox():
    inv = [0] * 256
    for a in range(1, 256):
        for b in range(1, 256):
            if _gmul(a, b) == 1:
                inv[a] = b
                break
    sbox = [0] * 256
    for a in range(256):
        x = inv[a]
        y = x
        for _ in range(4):
            x = ((x << 1) | (x >> 7)) & 0xff
            y ^= x
        sbox[a] = y ^ 0x63
    return sbox


SBOX = _make_sbox()
INV_SBOX = [0] * 256
for _i, _v in enumerate(SBOX):
    INV_SBOX[_v] = _i


def aes_key_expansion(key):
    nk = len(key) // 4
    nr = nk + 6
    w = [list(key[4 * i:4 * i + 4]) for i in range(nk)]
    rcon = 1
    for i in range(nk, 4 * (nr + 1)):
        t = list(w[i - 1])
        if i % nk == 0:
            t = t[1:] + t[:1]
            t = [SBOX[b] for b in t]
            t[0] ^= rcon
            rcon = _xtime(rcon)
        elif nk > 6 and i % nk == 4:
            t = [SBOX[b] for b in t]
        w.append([a ^ b for a, b in zip(w[i - nk], t)])
    return w, nr


def _add_round_key(s, w, rnd):
    for c in range(4):
        for r in range(4):
            s[r][c] ^= w[4 * rnd + c][r]


def aes_encrypt_block(key, block):
    w, nr = aes_key_expansion(key)
    s = [[block[r + 4 * c] for c in range(4)] for r in range(4)]
    _add_round_key(s, w, 0)
    for rnd in range(1, nr + 1):
        s = [[SBOX[b] for b in row] for row in s]
        s = [s[r][r:] + s[r][:r] for r in range(4)]
        if rnd != nr:
            for c in range(4):
                a = [s[r][c] for r in range(4)]
                s[0][c] = _gmul(a[0], 2) ^ _gmul(a[1], 3) ^ a[2] ^ a[3]
                s[1][c] = a[0] ^ _gmul(a[1], 2) ^ _gmul(a[2], 3) ^ a[3]
                s[2][c] = a[0] ^ a[1] ^ _gmul(a[2], 2) ^ _gmul(a[3], 3)
                s[3][c] = _gmul(a[0], 3) ^ a[1] ^ a[2] ^ _gmul(a[3], 2)
        _add_round_key(s, w, rnd)
    return bytes(s[r][c] for c in range(4) for r in range(4))


def aes_decrypt_block(key, block):
    w, nr = aes_key_expansion(key)
    s = [[block[r + 4 * c] for c in range(4)] for r in range(4)]
    _add_round_key(s, w, nr)
    for rnd in range(nr - 1, -1, -1):
        s = [s[r][4 - r:] + s[r][:4 - r] for r in range(4)]
        s = [[INV_SBOX[b] for b in row] for row in s]
        _add_round_key(s, w, rnd)
        if rnd != 0:
            for c in range(4):
                a = [s[r][c] for r in range(4)]
                s[0][c] = _gmul(a[0], 14) ^ _gmul(a[1], 11) ^ _gmul(a[2], 13) ^ _gmul(a[3], 9)
                s[1][c] = _gmul(a[0], 9) ^ _gmul(a[1], 14) ^ _gmul(a[2], 11) ^ _gmul(a[3], 13)
                s[2][c] = _gmul(a[0], 13) ^ _gmul(a[1], 9) ^ _gmul(a[2], 14) ^ _gmul(a[3], 11)
                s[3][c] = _gmul(a[0], 11) ^ _gmul(a[1], 13) ^ _gmul(a[2], 9) ^ _gmul(a[3], 14)
    return bytes(s[r][c] for c in range(4) for r in range(4))


def _xor(a, b):
    return bytes(x ^ y for x, y in zip(a, b))


# --- SP 800-38A ------------------------------------------------------------
def cbc_encrypt(key, iv, data):
    out = b''
    prev = bytes(iv)
    for i in range(0, len(data), 16):
        prev = aes_encrypt_block(key, _xor(data[i:i + 16], prev))
        out += prev
    return out, prev


def cbc_decrypt(key, iv, data):
    out = b''
    prev = bytes(iv)
    for i in range(0, len(data), 16):
        blk = bytes(data[i:i + 16])
        out += _xor(aes_decrypt_block(key, blk), prev)
        prev = blk
    return out, prev


def ctr_crypt(key, counter_block, data):
    """standard incrementing function over the whole 128-bit block"""
    c = int.from_bytes(counter_block, 'big')
    out = b''
    for i in range(0, len(data), 16):
        ks = aes_encrypt_block(key, (c % (1 << 128)).to_bytes(16, 'big'))
        out += _xor(data[i:i + 16], ks)
        c += 1
    return out


# --- SP 800-38D ------------------------------------------------------------
def gf128_mul(x, y):
    """bit-wise multiplication in GF(2^128), GCM bit order (SP 800-38D 6.3), operands as 128-bit ints"""
    R = 0xe1 << 120
    z = 0
    v = y
    for i in range(127, -1, -1):
        if (x >> i) & 1:
            z ^= v
        if v & 1:
            v = (v >> 1) ^ R
        else:
            v >>= 1
    return z


def ghash(h, aad, ct):
    def blocks(d):
        for i in range(0, len(d), 16):
            yield bytes(d[i:i + 16]).ljust(16, b'\x00')
    y = 0
    for b in list(blocks(aad)) + list(blocks(ct)) + [struct.pack('>QQ', 8 * len(aad), 8 * len(ct))]:
        y = gf128_mul(y ^ int.from_bytes(b, 'big'), h)
    return y


def _inc32(block):
    return block[:12] + ((int.from_bytes(block[12:], 'big') + 1) % (1 << 32)).to_bytes(4, 'big')


def gcm_seal(key, nonce, pt, aad):
    h = int.from_bytes(aes_encrypt_block(key, bytes(16)), 'big')
    j0 = bytes(nonce) + b'\x00\x00\x00\x01'
    ct = b''
    cb = _inc32(j0)
    for i in range(0, len(pt), 16):
        ct += _xor(pt[i:i + 16], aes_encrypt_block(key, cb))
        cb = _inc32(cb)
    tag = ghash(h, aad, ct) ^ int.from_bytes(aes_encrypt_block(key, j0), 'big')
    return ct + tag.to_bytes(16, 'big')


def gcm_open(key, nonce, data, aad):
    if len(data) < 16:
        return None
    ct, tag = bytes(data[:-16]), bytes(data[-16:])
    h = int.from_bytes(aes_encrypt_block(key, bytes(16)), 'big')
    j0 = bytes(nonce) + b'\x00\x00\x00\x01'
    want = ghash(h, aad, ct) ^ int.from_bytes(aes_encrypt_block(key, j0), 'big')
    if want.to_bytes(16, 'big') != tag:
        return None
    pt = b''
    cb = _inc32(j0)
    for i in range(0, len(ct), 16):
        pt += _xor(ct[i:i + 16], aes_encrypt_block(key, cb))
        cb = _inc32(cb)
    return pt


# --- RFC 3610 --------------------------------------------------------------
def ccm_seal(key, nonce, msg, aad, M):
    L = 15 - len(nonce)
    flags = 64 * (1 if aad else 0) + 8 * ((M - 2) // 2) + (L - 1)
    b = bytes([flags]) + bytes(nonce) + len(msg).to_bytes(L, 'big')
    if aad:
        if len(aad) < 0xff00:
            b += len(aad).to_bytes(2, 'big')
        elif len(aad) < (1 << 32):
            b += b'\xff\xfe' + len(aad).to_bytes(4, 'big')
        else:
            b += b'\xff\xff' + len(aad).to_bytes(8, 'big')
        b += bytes(aad)
        b += bytes(-len(b) % 16)
    b += bytes(msg) + bytes(-len(msg) % 16)
    x = bytes(16)
    for i in range(0, len(b), 16):
        x = aes_encrypt_block(key, _xor(x, b[i:i + 16]))
    t = x[:M]

    def a(i):
        return bytes([L - 1]) + bytes(nonce) + i.to_bytes(L, 'big')
    u = _xor(t, aes_encrypt_block(key, a(0))[:M])
    c = b''
    for i in range(0, len(msg), 16):
        c += _xor(msg[i:i + 16], aes_encrypt_block(key, a(i // 16 + 1)))
    return c + u


def ccm_open(key, nonce, data, aad, M):
    if len(data) < M:
        return None
    L = 15 - len(nonce)
    c, u = bytes(data[:-M]), bytes(data[-M:])

    def a(i):
        return bytes([L - 1]) + bytes(nonce) + i.to_bytes(L, 'big')
    msg = b''
    for i in range(0, len(c), 16):
        msg += _xor(c[i:i + 16], aes_encrypt_block(key, a(i // 16 + 1)))
    if ccm_seal(key, nonce, msg, aad, M)[-M:] != u:
        return None
    return msg


# --- RFC 8439 --------------------------------------------------------------
def _rotl32(v, c):
    return ((v << c) & 0xffffffff) | (v >> (32 - c))


def _qr(s, a, b, c, d):
    s[a] = (s[a] + s[b]) & 0xffffffff; s[d] ^= s[a]; s[d] = _rotl32(s[d], 16)
    s[c] = (s[c] + s[d]) & 0xffffffff; s[b] ^= s[c]; s[b] = _rotl32(s[b], 12)
    s[a] = (s[a] + s[b]) & 0xffffffff; s[d] ^= s[a]; s[d] = _rotl32(s[d], 8)
    s[c] = (s[c] + s[d]) & 0xffffffff; s[b] ^= s[c]; s[b] = _rotl32(s[b], 7)


def chacha20_block(key, counter, nonce):
    init = [0x61707865, 0x3320646e, 0x79622d32, 0x6b206574] + list(struct.unpack('<8L', bytes(key))) + \
        [counter & 0xffffffff] + list(struct.unpack('<3L', bytes(nonce)))
    s = list(init)
    for _ in range(10):
        _qr(s, 0, 4, 8, 12); _qr(s, 1, 5, 9, 13); _qr(s, 2, 6, 10, 14); _qr(s, 3, 7, 11, 15)
        _qr(s, 0, 5, 10, 15); _qr(s, 1, 6, 11, 12); _qr(s, 2, 7, 8, 13); _qr(s, 3, 4, 9, 14)
    return struct.pack('<16L', *[(a + b) & 0xffffffff for a, b in zip(s, init)])


def chacha20_encrypt(key, counter, nonce, data):
    out = b''
    for j in range(0, len(data), 64):
        out += _xor(data[j:j + 64], chacha20_block(key, counter + j // 64, nonce))
    return out


def poly1305_mac(msg, key):
    r = int.from_bytes(key[:16], 'little') & 0x0ffffffc0ffffffc0ffffffc0fffffff
    s = int.from_bytes(key[16:32], 'little')
    p = (1 << 130) - 5
    acc = 0
    for i in range(0, len(msg), 16):
        n = int.from_bytes(bytes(msg[i:i + 16]) + b'\x01', 'little')
        acc = ((acc + n) * r) % p
    return ((acc + s) % (1 << 128)).to_bytes(16, 'little')


def _pad16(x):
    return bytes(-len(x) % 16)


def chacha20poly1305_seal(key, nonce, pt, aad):
    otk = chacha20_block(key, 0, nonce)[:32]
    ct = chacha20_encrypt(key, 1, nonce, pt)
    mac_data = bytes(aad) + _pad16(aad) + ct + _pad16(ct) + struct.pack('<Q', len(aad)) + struct.pack('<Q', len(ct))
    return ct + poly1305_mac(mac_data, otk)


def chacha20poly1305_open(key, nonce, data, aad):
    if len(data) < 16:
        return None
    ct, tag = bytes(data[:-16]), bytes(data[-16:])
    otk = chacha20_block(key, 0, nonce)[:32]
    mac_data = bytes(aad) + _pad16(aad) + ct + _pad16(ct) + struct.pack('<Q', len(aad)) + struct.pack('<Q', len(ct))
    if poly1305_mac(mac_data, otk) != tag:
        return None
    return chacha20_encrypt(key, 1, nonce, ct)


# ---------------------------------------------------------------------------
# published vectors (sanity of the references themselves)

def _h(s):
    return bytes.fromhex(s.replace(' ', '').replace('\n', ''))


def _selftest():
    bad = []
    pt = _h('00112233445566778899aabbccddeeff')
    for key, ct in ((_h('000102030405060708090a0b0c0d0e0f'), _h('69c4e0d86a7b0430d8cdb78070b4c55a')),
                    (_h('000102030405060708090a0b0c0d0e0f1011121314151617'), _h('dda97ca4864cdfe06eaf70a0ec0d7191')),
                    (_h('000102030405060708090a0b0c0d0e0f101112131415161718191a1b1c1d1e1f'),
                     _h('8ea2b7ca516745bfeafc49904b496089'))):
        if aes_encrypt_block(key, pt) != ct or aes_decrypt_block(key, ct) != pt:
            bad.append('FIPS-197 appendix C, key length %d' % len(key))
    # SP 800-38D test case 4 (AES-128)
    k = _h('feffe9928665731c6d6a8f9467308308')
    p = _h('d9313225f88406e5a55909c5aff5269a86a7a9531534f7da2e4c303d8a318a721c3c0c95956809532fcf0e2449a6b525'
           'b16aedf5aa0de657ba637b39')
    a = _h('feedfacedeadbeeffeedfacedeadbeefabaddad2')
    iv = _h('cafebabefacedbaddecaf888')
    want = _h('42831ec2217774244b7221b784d0d49ce3aa212f2c02a4e035c17e2329aca12e21d514b25466931c7d8f6a5aac84aa05'
              '1ba30b396a0aac973d58e091') + _h('5bc94fbc3221a5db94fae95ae7121a47')
    if gcm_seal(k, iv, p, a) != want:
        bad.append('GCM test case 4')
    # RFC 8439 2.3.2, 2.4.2, 2.5.2, 2.8.2
    key = bytes(range(32))
    blk = chacha20_block(key, 1, _h('000000090000004a00000000'))
    if blk[:16] != _h('10f1e7e4d13b5915500fdd1fa32071c4'):
        bad.append('RFC 8439 2.3.2')
    sun = (b"Ladies and Gentlemen of the class of '99: If I could offer you only one tip for the future, "
           b"sunscreen would be it.")
    if chacha20_encrypt(key, 1, _h('000000000000004a00000000'), sun)[:16] != _h('6e2e359a2568f98041ba0728dd0d6981'):
        bad.append('RFC 8439 2.4.2')
    if poly1305_mac(b'Cryptographic Forum Research Group',
                    _h('85d6be7857556d337f4452fe42d506a80103808afb0db2fd4abff6af4149f51b')) != \
            _h('a8061dc1305136c6c22b8baf0c0127a9'):
        bad.append('RFC 8439 2.5.2')
    k2 = _h('808182838485868788898a8b8c8d8e8f909192939495969798999a9b9c9d9e9f')
    out = chacha20poly1305_seal(k2, _h('070000004041424344454647'), sun, _h('50515253c0c1c2c3c4c5c6c7'))
    if out[-16:] != _h('1ae10b594f09e26a7e902ecbd0600691'):
        bad.append('RFC 8439 2.8.2')
    # RFC 3610 packet vector #1 has a 13-byte nonce (L = 2); the reference is generic in L
    k3 = _h('c0c1c2c3c4c5c6c7c8c9cacbcccdcecf')
    n3 = _h('00000003020100a0a1a2a3a4a5')
    full = _h('000102030405060708090a0b0c0d0e0f101112131415161718191a1b1c1d1e')
    want3 = _h('588c979a61c663d2f066d0c2c0f989806d5f6b61dac38417e8d12cfdf926e0')
    if ccm_seal(k3, n3, full[8:], full[:8], 8) != want3:
        bad.append('RFC 3610 vector 1')
    return bad


# ---------------------------------------------------------------------------
# differential runs

def _rb(rng, n):
    return bytes(rng.randrange(256) for _ in range(n))


def _result(evals, seen, bound, rule, fails):
    return {'evaluations': evals, 'distinct_nontrivial': len(seen), 'bound': bound, 'rule': rule, 'failures': fails[:5]}


def _fail(fails, cls, what, **inp):
    if len(fails) < 5:
        fails.append({'class': cls, 'what': what, 'input': inp})


def xcheck_aes_block(rng, n):
    from tlslite.utils.rijndael import Rijndael
    fails, seen, evals = [], set(), 0
    for b in _selftest():
        _fail(fails, 'reference-selftest', 'reference implementation disagrees with published vector: ' + b)
    structured = [bytes(16), bytes([0xff] * 16), bytes(range(16))] + [bytes([1 << (i % 8) if j == i // 8 else 0 for j in range(16)])
                                                                      for i in range(128)]
    for klen in (16, 24, 32):
        keys = [bytes(klen), bytes([0xff] * klen), bytes(range(klen))] + [_rb(rng, klen) for _ in range(max(2, n // 200))]
        for key in keys:
            r = Rijndael(bytearray(key), 16)
            blocks = structured[:20] + [_rb(rng, 16) for _ in range(max(4, n // (20 * len(keys))))]
            for blk in blocks:
                evals += 1
                c = bytes(r.encrypt(bytearray(blk)))
                seen.add((klen, key[:2], blk[:2]))
                if c != aes_encrypt_block(key, blk):
                    _fail(fails, 'aes-encrypt', 'Rijndael.encrypt differs from FIPS-197', key=key.hex(), block=blk.hex())
                d = bytes(r.decrypt(bytearray(c)))
                if d != blk or d != aes_decrypt_block(key, c):
                    _fail(fails, 'aes-decrypt', 'Rijndael.decrypt(encrypt(x)) != x or differs from FIPS-197',
                          key=key.hex(), block=blk.hex())
    return _result(evals, seen, 'AES-128/192/256, structured (zero, ones, counting, single-bit) and random keys/blocks; '
                   'seed-dependent sample', 'distinct (key length, key prefix, block prefix)', fails)


def xcheck_cbc(rng, n):
    from tlslite.utils import python_aes
    fails, seen, evals = [], set(), 0
    for t in range(max(10, n // 40)):
        key = _rb(rng, rng.choice([16, 24, 32]))
        iv = _rb(rng, 16)
        enc = python_aes.new(bytearray(key), 2, bytearray(iv))
        dec = python_aes.new(bytearray(key), 2, bytearray(iv))
        ref_iv = iv
        for call in range(3):                     # IV carried across calls
            nb = rng.choice([0, 1, 2, 3, 5, 17])
            pt = _rb(rng, 16 * nb)
            evals += 1
            want, ref_iv2 = cbc_encrypt(key, ref_iv, pt)
            got = bytes(enc.encrypt(bytearray(pt)))
            seen.add((len(key), nb, call))
            if got != want or bytes(enc.IV) != ref_iv2:
                _fail(fails, 'cbc-encrypt', 'CBC encryption / carried IV differs from SP 800-38A', key=key.hex(),
                      iv=ref_iv.hex(), pt=pt.hex())
            back = bytes(dec.decrypt(bytearray(got)))
            if back != pt or bytes(dec.IV) != ref_iv2 or cbc_decrypt(key, ref_iv, want)[0] != pt:
                _fail(fails, 'cbc-decrypt', 'decrypt(encrypt(x)) != x or carried IV differs', key=key.hex(),
                      iv=ref_iv.hex(), pt=pt.hex())
            ref_iv = ref_iv2
    return _result(evals, seen, 'up to 17 blocks, 3 chained calls per object, all key sizes',
                   'distinct (key length, blocks, call index)', fails)


def xcheck_ctr(rng, n):
    from tlslite.utils import python_aes
    fails, seen, evals = [], set(), 0
    specials = [bytes(16), bytes([0xff] * 16), bytes(15) + b'\xff', bytes(14) + b'\xff\xff', bytes(8) + bytes([0xff] * 8),
                bytes([0xff] * 15) + b'\xfe', b'\x01' + bytes([0xff] * 15)]
    for t in range(max(14, n // 20)):
        key = _rb(rng, rng.choice([16, 32]))
        ctr = specials[t % len(specials)] if t < 2 * len(specials) else _rb(rng, 16)
        ln = rng.choice([0, 1, 15, 16, 17, 31, 32, 33, 64, 100])
        pt = _rb(rng, ln)
        c = python_aes.new(bytearray(key), 6, bytearray(16))      # the construction used by GCM / CCM
        c.counter = bytearray(ctr)
        evals += 1
        got = bytes(c.encrypt(bytearray(pt)))
        seen.add((ctr[:1], ctr[-1:], ln))
        if got != ctr_crypt(key, ctr, pt):
            _fail(fails, 'ctr-keystream', 'CTR output differs from SP 800-38A with the 128-bit incrementing function',
                  key=key.hex(), counter=ctr.hex(), pt=pt.hex())
        want_ctr = ((int.from_bytes(ctr, 'big') + (ln + 15) // 16) % (1 << 128)).to_bytes(16, 'big')
        if bytes(c.counter) != want_ctr:
            _fail(fails, 'ctr-counter', 'counter after the call is not counter + ceil(len/16) mod 2^128',
                  counter=ctr.hex(), length=ln, got=bytes(c.counter).hex())
    return _result(evals, seen, 'messages up to 100 bytes; counters with carries across 1..16 bytes and wrap-around',
                   'distinct (first counter byte, last counter byte, length)', fails)


def xcheck_gcm_mul(rng, n):
    from tlslite.utils.aesgcm import AESGCM
    from tlslite.utils.rijndael import Rijndael
    fails, seen, evals = [], set(), 0
    # bit-level helpers against their definition
    for i in range(16):
        want = int('{:04b}'.format(i)[::-1], 2)
        evals += 1
        if AESGCM._reverseBits(i) != want:
            _fail(fails, 'gcm-reverseBits', '_reverseBits differs from 4-bit reversal', i=i)
    for t in range(max(20, n // 10)):
        x = rng.getrandbits(128) if t > 4 else [0, 1, 1 << 127, (1 << 128) - 1, 0xe1 << 120][t]
        y = rng.getrandbits(128)
        evals += 1
        # multiplication by the polynomial "x" (the element 2^126 in GCM bit order)
        if AESGCM._gcmShift(x) != gf128_mul(x, 1 << 126):
            _fail(fails, 'gcm-shift', '_gcmShift(x) != x * X in GF(2^128)', x=hex(x))
        if AESGCM._gcmAdd(x, y) != x ^ y:
            _fail(fails, 'gcm-add', '_gcmAdd differs from xor', x=hex(x), y=hex(y))
    for t in range(max(6, n // 60)):
        key = _rb(rng, rng.choice([16, 32]))
        g = AESGCM(bytearray(key), 'python', Rijndael(bytearray(key), 16).encrypt)
        h = int.from_bytes(aes_encrypt_block(key, bytes(16)), 'big')
        for i in range(16):                # product table: entry reverse(i) is i(x) * H
            evals += 1
            poly = sum(((i >> b) & 1) << (127 - b) for b in range(4))
            if g._productTable[AESGCM._reverseBits(i)] != gf128_mul(poly, h):
                _fail(fails, 'gcm-table', 'product table entry differs from the field product', key=key.hex(), i=i)
        ys = [0, 1, 1 << 127, (1 << 128) - 1] + [rng.getrandbits(128) for _ in range(max(8, n // 30))]
        for y in ys:
            evals += 1
            seen.add((key[:2], y & 0xff, y >> 120))
            if g._mul(y) != gf128_mul(y, h):
                _fail(fails, 'gcm-mul', 'AESGCM._mul(y) != y * H in GF(2^128)', key=key.hex(), y=hex(y))
    return _result(evals, seen, 'random and structured 128-bit operands, random keys; bit-wise GF(2^128) reference',
                   'distinct (key prefix, low byte, high byte of y)', fails)


def _tamper_cases(rng, sealed, nonce, aad):
    """(nonce, data, aad, description) variants that must be refused"""
    out = []
    for where in ('ct', 'tag-first', 'tag-last'):
        d = bytearray(sealed)
        if where == 'ct':
            if len(d) <= 16:
                continue
            idx = rng.randrange(len(d) - 16)
        elif where == 'tag-first':
            idx = len(d) - 16
        else:
            idx = len(d) - 1
        d[idx] ^= 1 << rng.randrange(8)
        out.append((nonce, bytes(d), aad, 'flip ' + where))
    n2 = bytearray(nonce)
    n2[rng.randrange(12)] ^= 1
    out.append((bytes(n2), sealed, aad, 'other nonce'))
    out.append((nonce, sealed, bytes(aad) + b'\x00', 'longer aad'))
    out.append((nonce, sealed[:-1], aad, 'truncated'))
    out.append((nonce, sealed[:15], aad, 'shorter than a tag'))
    return out


def _aead_run(rng, n, make, ref_seal, ref_open, name, lens):
    fails, seen, evals = [], set(), 0
    for t in range(max(12, n // 25)):
        key = _rb(rng, 32 if name == 'chacha20-poly1305' else rng.choice([16, 32]))
        nonce = _rb(rng, 12)
        pt = _rb(rng, rng.choice(lens))
        aad = _rb(rng, rng.choice([0, 1, 5, 13, 16, 17, 32, 70]))
        obj = make(key)
        evals += 1
        sealed = bytes(obj.seal(bytearray(nonce), bytearray(pt), bytearray(aad)))
        seen.add((len(key), len(pt), len(aad)))
        if sealed != ref_seal(key, nonce, pt, aad):
            _fail(fails, name + '-seal', 'seal differs from the reference construction', key=key.hex(), nonce=nonce.hex(),
                  pt=pt.hex(), aad=aad.hex())
            continue
        back = make(key).open(bytearray(nonce), bytearray(sealed), bytearray(aad))
        if back is None or bytes(back) != pt:
            _fail(fails, name + '-open', 'open(seal(x)) != x', key=key.hex(), nonce=nonce.hex(), pt=pt.hex(), aad=aad.hex())
        for (n2, d2, a2, what) in _tamper_cases(rng, sealed, nonce, aad):
            evals += 1
            got = make(key).open(bytearray(n2), bytearray(d2), bytearray(a2))
            want = ref_open(key, n2, d2, a2)
            if (got is None) != (want is None) or (got is not None and bytes(got) != want):
                _fail(fails, name + '-open-none', 'open on a modified input (%s): got %r, reference %r' %
                      (what, None if got is None else bytes(got).hex(), None if want is None else want.hex()),
                      key=key.hex(), nonce=bytes(n2).hex(), data=bytes(d2).hex(), aad=bytes(a2).hex())
    return _result(evals, seen, 'plaintexts up to %d bytes, AAD up to 70 bytes, single-bit / nonce / AAD / truncation '
                   'modifications' % max(lens), 'distinct (key length, plaintext length, AAD length)', fails)


def xcheck_gcm(rng, n):
    from tlslite.utils.aesgcm import AESGCM
    from tlslite.utils.rijndael import Rijndael
    return _aead_run(rng, n, lambda key: AESGCM(bytearray(key), 'python', Rijndael(bytearray(key), 16).encrypt),
                     gcm_seal, gcm_open, 'aesgcm', [0, 1, 15, 16, 17, 31, 32, 33, 64, 100])


def xcheck_ccm(rng, n):
    from tlslite.utils.aesccm import AESCCM
    from tlslite.utils.rijndael import Rijndael
    out = None
    for M in (16, 8):
        r = _aead_run(rng, n // 2, lambda key: AESCCM(bytearray(key), 'python', Rijndael(bytearray(key), 16).encrypt, M),
                      lambda k, nn, p, a: ccm_seal(k, nn, p, a, M), lambda k, nn, d, a: ccm_open(k, nn, d, a, M),
                      'aesccm' if M == 16 else 'aesccm_8', [0, 1, 15, 16, 17, 31, 32, 33, 64, 100])
        if out is None:
            out = r
        else:
            out['evaluations'] += r['evaluations']
            out['distinct_nontrivial'] += r['distinct_nontrivial']
            out['failures'] = (out['failures'] + r['failures'])[:5]
    # the a-length encodings above 2^16 - 2^8 (one case each; 2^32 is out of reach of a bounded run)
    key, nonce = _rb(rng, 16), _rb(rng, 12)
    for la in (0xff00 - 1, 0xff00, 0x10000):
        aad = _rb(rng, la)
        got = bytes(AESCCM(bytearray(key), 'python', Rijndael(bytearray(key), 16).encrypt, 16)
                    .seal(bytearray(nonce), bytearray(b'abc'), bytearray(aad)))
        out['evaluations'] += 1
        if got != ccm_seal(key, nonce, b'abc', aad, 16):
            _fail(out['failures'], 'aesccm-aad-length', 'seal differs for len(aad) == %d' % la, key=key.hex(), nonce=nonce.hex())
    out['bound'] += '; AAD lengths 65279, 65280, 65536 once each (the >= 2^32 encoding is not exercised)'
    return out


def xcheck_chacha(rng, n):
    from tlslite.utils.chacha import ChaCha
    fails, seen, evals = [], set(), 0
    for b in _selftest():
        _fail(fails, 'reference-selftest', 'reference implementation disagrees with published vector: ' + b)
    for t in range(max(20, n // 10)):
        key, nonce = _rb(rng, 32), _rb(rng, 12)
        counter = rng.choice([0, 1, 2, 0xfffffff0, rng.getrandbits(31)])     # counter + blocks stays below 2^32 (RFC 8439 domain)
        c = ChaCha(bytearray(key), bytearray(nonce), counter)
        evals += 1
        blk = bytes(ChaCha.word_to_bytearray(ChaCha.chacha_block(c.key, counter, c.nonce, 20)))
        if blk != chacha20_block(key, counter, nonce):
            _fail(fails, 'chacha-block', 'chacha_block differs from RFC 8439 2.3', key=key.hex(), nonce=nonce.hex(), counter=counter)
        ln = rng.choice([0, 1, 63, 64, 65, 127, 128, 129, 200])
        pt = _rb(rng, ln)
        evals += 1
        seen.add((counter & 0xff, ln))
        got = bytes(c.encrypt(bytearray(pt)))
        if got != chacha20_encrypt(key, counter, nonce, pt) or bytes(c.decrypt(bytearray(got))) != pt:
            _fail(fails, 'chacha-encrypt', 'ChaCha.encrypt differs from RFC 8439 2.4 (block i uses counter + i, partial last block)',
                  key=key.hex(), nonce=nonce.hex(), counter=counter, pt=pt.hex())
    return _result(evals, seen, 'messages up to 200 bytes (0..4 blocks incl. partial), counters 0, 1, 2, 2^32-16, random (counter + blocks < 2^32)',
                   'distinct (counter low byte, length)', fails)


def xcheck_poly1305(rng, n):
    from tlslite.utils.poly1305 import Poly1305
    fails, seen, evals = [], set(), 0
    for t in range(max(30, n // 5)):
        key = _rb(rng, 32) if t > 3 else [bytes(32), bytes([0xff] * 32), bytes(16) + bytes([0xff] * 16),
                                           bytes([0xff] * 16) + bytes(16)][t]
        ln = rng.choice([0, 1, 15, 16, 17, 31, 32, 33, 48, 100])
        msg = _rb(rng, ln) if t % 7 else bytes([0xff] * ln)
        evals += 1
        seen.add((key[:1], ln))
        if bytes(Poly1305(bytearray(key)).create_tag(bytearray(msg))) != poly1305_mac(msg, key):
            _fail(fails, 'poly1305', 'create_tag differs from RFC 8439 2.5', key=key.hex(), msg=msg.hex())
    return _result(evals, seen, 'messages up to 100 bytes incl. all-ones blocks; structured and random keys',
                   'distinct (first key byte, length)', fails)


def xcheck_chacha20poly1305(rng, n):
    from tlslite.utils.chacha20_poly1305 import CHACHA20_POLY1305
    return _aead_run(rng, n, lambda key: CHACHA20_POLY1305(bytearray(key), 'python'),
                     chacha20poly1305_seal, chacha20poly1305_open, 'chacha20-poly1305',
                     [0, 1, 15, 16, 17, 63, 64, 65, 100, 130])


XCHECKS = {'aes_block': xcheck_aes_block, 'aes_cbc': xcheck_cbc, 'aes_ctr': xcheck_ctr, 'gcm_mul': xcheck_gcm_mul,
           'aesgcm': xcheck_gcm, 'aesccm': xcheck_ccm, 'chacha': xcheck_chacha, 'poly1305': xcheck_poly1305,
           'chacha20poly1305': xcheck_chacha20poly1305}
