#!/bin/bash
# tools/seed_matrix.sh [-j N] [Cxx ...]: run every confirmed seeded change against the quick check of its property
# (each on its own scratch worktree, N at a time; /repo itself is not touched).
# Writes seeded/RESULTS.tsv (seed, property, exit code, first VIOLATION line).
cd /verif
J=4; if [ "$1" = "-j" ]; then J=$2; shift 2; fi
: > seeded/RESULTS.tsv.tmp
LIST=""
for d in seeded/C*-*; do
  s=$(basename $d); p=${s%-*}
  if [ $# -gt 0 ]; then case " $* " in *" $p "*) ;; *) continue;; esac; fi
  if ! grep -q "\"property_id\": \"$p\"" MANIFEST.json; then echo -e "$s\t$p\tunclaimed\t" >> seeded/RESULTS.tsv.tmp; continue; fi
  LIST="$LIST $s"
done
echo $LIST | tr ' ' '\n' | grep . | xargs -P $J -I{} tools/seed_one.sh {} >> seeded/RESULTS.tsv.tmp
sort seeded/RESULTS.tsv.tmp > seeded/RESULTS.tsv; rm -f seeded/RESULTS.tsv.tmp
cut -c1-200 seeded/RESULTS.tsv
