"""rogue server: answers every ClientHello with a HelloRetryRequest (RFC 8446 4.1.4: the client MUST abort with
unexpected_message on the second one)"""
import sys, traceback
sys.path.insert(0, '/verif/design_probes')  # loop.py harness
from loop import *
from tlslite.messages import ServerHello
from tlslite.extensions import SrvSupportedVersionsExtension, HRRKeyShareExtension
from tlslite.constants import (ContentType, HandshakeType, ExtensionType, TLS_1_3_HRR, GroupName, CipherSuite)
mode = sys.argv[1]

def drive(gen):
    r = None
    for r in gen:
        pass
    return r

def server(conn):
    conn._handshakeStart(client=False)
    groups = [GroupName.secp384r1, GroupName.secp521r1]
    log = []
    for i in range(2):
        for r in conn._getMsg(ContentType.handshake, HandshakeType.client_hello):
            if r not in (0, 1): break
        ch = r
        shares = [e.group for e in ch.getExtension(ExtensionType.key_share).client_shares]
        log.append(('ClientHello', i + 1, 'key shares', shares))
        if mode == 'twice' or i == 0:
            hrr = ServerHello().create((3, 3), TLS_1_3_HRR, ch.session_id, CipherSuite.TLS_AES_128_GCM_SHA256,
                                       extensions=[SrvSupportedVersionsExtension().create((3, 4)),
                                                   HRRKeyShareExtension().create(groups[i])])
            drive(conn._sendMsg(hrr)); conn.version = (3, 4)
        else:
            break
    try:
        for r in conn._getMsg((ContentType.handshake, ContentType.alert, ContentType.change_cipher_spec), HandshakeType.client_hello):
            if r not in (0, 1): break
        log.append(('then received', type(r).__name__, getattr(r, 'description', None)))
    except Exception as e:
        log.append(('then', repr(e)))
    return log

cs = HandshakeSettings()
def client(conn):
    try:
        conn.handshakeClientCert(settings=cs)
        return 'completed'
    except Exception as e:
        return ('client raised', type(e).__name__, str(e)[:100], traceback.format_exc().splitlines()[-3].strip())
print(run(client, server))
