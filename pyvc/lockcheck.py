"""Lock discipline as a verification task over the real AST (C18, monitor form).

For one function of a class that protects shared fields with a lock, an
abstract interpretation of the function body tracks the ghost variable `held`
(set of possible values, flow sensitive, through try/finally, with, loops,
return / raise / break / continue and "every statement may raise").  It
produces one named obligation

  * per access site of a shared field  (`read:f#k`, `write:f#k`,
    `content-read|content-write|content-delete:f#k` for `self.f[...]`):
    the site is executed with held == {True};
  * per `acquire` (requires not held), per `release` (requires held);
  * per call made while the lock is held: the callee is in the declared list
    (no unknown code runs inside the critical section);
  * per call of a helper that requires the lock (`self._purge()`): held;
  * for the exits: normal and exceptional exits leave with the lock released
    (helpers that require the lock: leave it held).

Verdicts: held == {True} -> proved, held == {False} -> refuted (the structured
control flow makes the abstract value exact at that site), {True, False} ->
undecided.

Assumed (stated by the contracts module with REG.note): threading.Lock is a
mutex; `release()` of a held lock and `with lock:` exit do not raise;
`with lock:` releases on every exit.
"""
import ast
import glob
import os

from . import source
from .asttask import AstTask, dotted, parent_map
from .smt import Verdict

MAX_FIX = 8


class LockSpec(object):
    def __init__(self, qual, lock, shared, allowed_calls=(), held_helpers=(), entry_held=False,
                 recv='self', content_only=(), group=(), ctor_quals=(), atomic_calls=()):
        self.qual = qual
        self.lock = lock                        # attribute name of the lock on the receiver
        self.shared = set(shared)
        self.allowed_calls = set(allowed_calls)
        self.held_helpers = set(held_helpers)   # method names that may only be called with the lock held
        self.entry_held = entry_held            # this function itself requires the lock
        self.recv = recv
        self.content_only = set(content_only)   # fields whose *reference* is fixed after construction/open
        self.group = list(group)                # all functions of the monitor (for reference stability)
        self.ctor_quals = list(ctor_quals)
        # calls whose result is part of the shared state's invariant (e.g. the clock value stored with an entry of a
        # time-ordered list): they must run inside the critical section that uses the value
        self.atomic_calls = set(atomic_calls)


class _Flow(object):
    def __init__(self):
        self.normal = set()
        self.ret = set()
        self.exc = set()
        self.brk = set()
        self.cont = set()

    def absorb(self, o, normal=False):
        self.ret |= o.ret
        self.exc |= o.exc
        self.brk |= o.brk
        self.cont |= o.cont
        if normal:
            self.normal |= o.normal


class _Analysis(object):
    def __init__(self, spec, fn):
        self.spec = spec
        self.fn = fn
        self.pm = parent_map(fn)
        self.sites = {}          # id(node) -> dict(node, kind, field, H)
        self.calls = {}          # id(node) -> dict(node, callee, H)
        self.lockops = {}        # id(node) -> [node, op, H]
        self.problems = []       # (node, text)
        self.order = []

    # ---------------------------------------------------------------- helpers
    def _is_lock_expr(self, node):
        return dotted(node) == '%s.%s' % (self.spec.recv, self.spec.lock)

    def _lock_call(self, node):
        if isinstance(node, ast.Call) and isinstance(node.func, ast.Attribute) and \
                node.func.attr in ('acquire', 'release') and self._is_lock_expr(node.func.value):
            return node.func.attr
        return None

    def _kind(self, n):
        p = self.pm.get(id(n))
        if isinstance(n.ctx, ast.Store):
            return 'write'
        if isinstance(n.ctx, ast.Del):
            return 'delete'
        if isinstance(p, ast.Subscript) and p.value is n:
            if isinstance(p.ctx, ast.Store):
                return 'content-write'
            if isinstance(p.ctx, ast.Del):
                return 'content-delete'
            return 'content-read'
        if isinstance(p, ast.Compare) and (n in p.comparators) and \
                all(isinstance(o, (ast.In, ast.NotIn)) for o in p.ops):
            return 'content-read'
        if isinstance(p, ast.Attribute) and p.value is n and isinstance(self.pm.get(id(p)), ast.Call) \
                and self.pm[id(p)].func is p:
            return 'content-call'        # self.db.keys(), self.db.sync()
        if n.attr in self.spec.content_only and isinstance(p, ast.Compare) and p.left is n and len(p.ops) == 1 \
                and isinstance(p.ops[0], (ast.Eq, ast.Is)) and isinstance(p.comparators[0], ast.Constant) \
                and p.comparators[0].value is None:
            g = self.pm.get(id(p))
            if isinstance(g, ast.If) and g.test is p and len(g.body) == 1 and isinstance(g.body[0], ast.Raise) \
                    and not g.orelse:
                return 'open-check'
        return 'read'

    def scan(self, node, H, top_lock_ok=False):
        """Record every shared access / call inside `node` as executed with held in H."""
        if node is None:
            return
        H = _held(H)
        stack = [node]
        while stack:
            n = stack.pop()
            if isinstance(n, (ast.Lambda, ast.FunctionDef, ast.AsyncFunctionDef, ast.ClassDef)) and n is not node:
                for m in ast.walk(n):
                    if isinstance(m, ast.Attribute) and isinstance(m.value, ast.Name) and \
                            m.value.id == self.spec.recv and m.attr in self.spec.shared:
                        self.problems.append((m, 'shared field %s accessed in a nested function/lambda '
                                                 '(deferred execution, lock state unknown)' % m.attr))
                continue
            if isinstance(n, ast.Attribute) and isinstance(n.value, ast.Name) and n.value.id == self.spec.recv \
                    and n.attr in self.spec.shared:
                e = self.sites.get(id(n))
                if e is None:
                    e = {'node': n, 'kind': self._kind(n), 'field': n.attr, 'H': set()}
                    self.sites[id(n)] = e
                e['H'] |= H
            if isinstance(n, ast.Call):
                op = self._lock_call(n)
                if op is not None:
                    self.problems.append((n, 'lock.%s() used inside an expression (only statement-level '
                                             'acquire/release is analysed)' % op))
                else:
                    e = self.calls.get(id(n))
                    if e is None:
                        e = {'node': n, 'callee': dotted(n.func) or '<computed>', 'H': set()}
                        self.calls[id(n)] = e
                    e['H'] |= H
            for c in ast.iter_child_nodes(n):
                stack.append(c)

    # -------------------------------------------------------------- statements
    def block(self, stmts, H):
        fl = _Flow()
        cur = set(H)
        for s in stmts:
            if not cur:
                break
            f = self.stmt(s, cur)
            fl.absorb(f)
            cur = f.normal
        fl.normal = cur
        return fl

    def stmt(self, s, H):
        fl = _Flow()
        H = set(H)
        if isinstance(s, ast.Expr) and self._lock_call(s.value):
            op = self._lock_call(s.value)
            self.lockops.setdefault(id(s), [s, op, set()])[2].update(_held(H))
            if op == 'acquire':
                fl.exc |= _at(H, s)             # acquire itself failing leaves the state unchanged
                fl.normal = _set(H, True)
            else:
                fl.normal = _set(H, False)
            return fl
        if isinstance(s, ast.Pass):
            fl.normal = H
            return fl
        if isinstance(s, ast.If):
            self.scan(s.test, H)
            fl.exc |= _at(H, s)
            a = self.block(s.body, H)
            b = self.block(s.orelse, H)
            fl.absorb(a, True)
            fl.absorb(b, True)
            return fl
        if isinstance(s, (ast.While, ast.For)):
            hin = set(H)
            if isinstance(s, ast.For):
                self.scan(s.iter, H)
                fl.exc |= _at(H, s)
            brk = set()
            for _ in range(MAX_FIX):
                if isinstance(s, ast.While):
                    self.scan(s.test, hin)
                else:
                    self.scan(s.target, hin)
                fl.exc |= _at(hin, s)
                fb = self.block(s.body, hin)
                fl.ret |= fb.ret
                fl.exc |= fb.exc
                brk |= fb.brk
                new = hin | fb.normal | fb.cont
                if new == hin:
                    break
                hin = new
            fo = self.block(s.orelse, hin)
            fl.absorb(fo)
            fl.normal = fo.normal | brk
            return fl
        if isinstance(s, ast.Try):
            return self._try(s, H)
        if isinstance(s, ast.With):
            cur = set(H)
            locked = False
            for it in s.items:
                if self._is_lock_expr(it.context_expr):
                    self.lockops.setdefault(id(s), [s, 'acquire', set()])[2].update(_held(cur))
                    fl.exc |= _at(cur, s)
                    cur = _set(cur, True)
                    locked = True
                else:
                    self.scan(it.context_expr, cur)
                    fl.exc |= _at(cur, s)
            fb = self.block(s.body, cur)
            if locked:
                # __exit__ of the lock releases on every way out of the body
                rel = lambda hs: _set(hs, False)
                fl.normal = rel(fb.normal)
                fl.ret |= rel(fb.ret)
                fl.exc |= rel(fb.exc)
                fl.brk |= rel(fb.brk)
                fl.cont |= rel(fb.cont)
            else:
                fl.absorb(fb, True)
            return fl
        if isinstance(s, ast.Return):
            self.scan(s.value, H)
            if s.value is not None:
                fl.exc |= _at(H, s)
            fl.ret |= _at(H, s)
            return fl
        if isinstance(s, ast.Raise):
            self.scan(s, H)
            fl.exc |= _at(H, s)
            return fl
        if isinstance(s, ast.Break):
            fl.brk |= H
            return fl
        if isinstance(s, ast.Continue):
            fl.cont |= H
            return fl
        if isinstance(s, (ast.FunctionDef, ast.AsyncFunctionDef, ast.ClassDef)):
            self.scan(s, H)
            fl.normal = H
            return fl
        # simple statements
        self.scan(s, H)
        fl.exc |= _at(H, s)
        fl.normal = H
        return fl

    def _try(self, s, H):
        res = _Flow()
        fb = self.block(s.body, H)
        res.ret |= fb.ret
        res.brk |= fb.brk
        res.cont |= fb.cont
        if s.handlers:
            catches_all = False
            for h in s.handlers:
                if h.type is None or dotted(h.type) == 'BaseException':
                    catches_all = True
                if fb.exc:
                    fh = self.block(h.body, fb.exc)
                    res.absorb(fh, True)
            if not catches_all:
                res.exc |= fb.exc
        else:
            res.exc |= fb.exc
        if s.orelse:
            fo = self.block(s.orelse, fb.normal)
            res.absorb(fo, True)
        else:
            res.normal |= fb.normal
        if not s.finalbody:
            return res
        out = _Flow()
        for kind in ('normal', 'ret', 'exc', 'brk', 'cont'):
            K = getattr(res, kind)
            if not K:
                continue
            ff = self.block(s.finalbody, K)
            out.ret |= ff.ret
            out.exc |= ff.exc
            out.brk |= ff.brk
            out.cont |= ff.cont
            setattr(out, kind, getattr(out, kind) | ff.normal)
        return out


def _held(H):
    """held components of a state set; states are (held, origin line) pairs."""
    return set(h if isinstance(h, bool) else h[0] for h in H)


def _at(H, node):
    """the states of H as exits originating at statement `node`"""
    return set((h if isinstance(h, bool) else h[0], node.lineno) for h in H)


def _set(H, value):
    return set((value, None if isinstance(h, bool) else h[1]) for h in H)


def _exit_verdict(states, want):
    """states: (held, origin) pairs.  Refuted if some origin leaves only with the wrong value."""
    by = {}
    for (h, o) in states:
        by.setdefault(o, set()).add(h)
    wrong = sorted(str(o) for o, hs in by.items() if want not in hs)
    mixed = sorted(str(o) for o, hs in by.items() if want in hs and len(hs) > 1)
    if wrong:
        return Verdict.REFUTED, 'exits originating at line(s) %s leave with held == %s' % (', '.join(wrong), not want)
    if mixed:
        return Verdict.UNDECIDED, 'exits originating at line(s) %s may leave with held == %s' % (', '.join(mixed), not want)
    return Verdict.PROVED, None


def _verdict(H, want):
    """want: the required value of held."""
    if H == {want}:
        return Verdict.PROVED
    if H and want not in H:
        return Verdict.REFUTED
    return Verdict.UNDECIDED


class LockDisciplineTask(AstTask):
    """One task per function; see module docstring."""

    def __init__(self, spec, prop='C18'):
        short = spec.qual.split(':')[-1]
        AstTask.__init__(self, 'lock-discipline[%s]' % short, prop, spec.qual,
                         'every access to %s in %s happens with %s held; the lock is released on every exit'
                         % (sorted(spec.shared), short, spec.lock))
        self.spec = spec

    def run(self, reg, meta):
        spec = self.spec
        fs = source.load(spec.qual)
        fn = fs.node
        args = [a.arg for a in fn.args.posonlyargs + fn.args.args]
        if not args or args[0] != spec.recv:
            self.result('receiver-parameter', 'vacuity', Verdict.REFUTED,
                        'first parameter is %r, expected %r' % (args[:1], spec.recv))
            return
        # the receiver name must not be rebound (else `self.f` would not denote the shared object)
        rebound = [n for n in ast.walk(fn) if isinstance(n, ast.Name) and n.id == spec.recv
                   and isinstance(n.ctx, (ast.Store, ast.Del))]
        self.holds('receiver-not-rebound', 'lock-frame', not rebound,
                   'parameter %s is assigned at line %s' % (spec.recv, [n.lineno for n in rebound]))
        # the lock attribute itself is never assigned here
        lock_writes = [n for n in ast.walk(fn) if isinstance(n, ast.Attribute) and n.attr == spec.lock
                       and isinstance(n.value, ast.Name) and n.value.id == spec.recv
                       and isinstance(n.ctx, (ast.Store, ast.Del))]
        self.holds('lock-object-not-replaced', 'lock-frame', not lock_writes,
                   'self.%s assigned at line %s' % (spec.lock, [n.lineno for n in lock_writes]))

        an = _Analysis(spec, fn)
        h0 = {(True, None)} if spec.entry_held else {(False, None)}
        fl = an.block(source.strip_docstring(fn.body), h0)
        meta['paths'] = len(an.sites)

        for (node, text) in an.problems:
            self.result('unsupported@L%d' % node.lineno, 'lock-unsupported', Verdict.UNDECIDED, text, node.lineno)

        # acquire / release
        cnt = {}
        for (node, op, H) in sorted(an.lockops.values(), key=lambda e: e[0].lineno):
            cnt[op] = cnt.get(op, 0) + 1
            nm = '%s#%d' % (op, cnt[op])
            if op == 'acquire':
                v = _verdict(H, False)
                self.result(nm + ':requires-not-held', 'lock-op', v,
                            None if v == Verdict.PROVED else 'acquire at line %d with held in %s (self-deadlock)'
                            % (node.lineno, sorted(H)), node.lineno)
            else:
                v = _verdict(H, True)
                self.result(nm + ':requires-held', 'lock-op', v,
                            None if v == Verdict.PROVED else 'release at line %d with held in %s'
                            % (node.lineno, sorted(H)), node.lineno)
        if not spec.entry_held:
            self.holds('acquires-the-lock', 'vacuity', cnt.get('acquire', 0) >= 1,
                       'no acquire of self.%s found in %s' % (spec.lock, spec.qual))

        # access sites, in source order
        sites = sorted(an.sites.values(), key=lambda e: (e['node'].lineno, e['node'].col_offset))
        ordinal = {}
        ref_stable = None
        for e in sites:
            k = (e['kind'], e['field'])
            ordinal[k] = ordinal.get(k, 0) + 1
            nm = '%s:%s#%d' % (e['kind'], e['field'], ordinal[k])
            n = e['node']
            src = ast.get_source_segment(source._SRC_CACHE[fs.path], an.pm.get(id(n), n)) or ''
            if e['kind'] == 'open-check':
                # an unlocked comparison of the *reference* with None guarding a raise: observes no content;
                # sound if no operation of the monitor re-assigns the reference
                if ref_stable is None:
                    ref_stable = self._reference_writes(e['field'])
                self.holds(nm + ':reference-only-and-stable', 'lock-access', not ref_stable,
                           'self.%s is assigned by monitor operations at %s, so the unlocked open-check at line %d '
                           'races with them' % (e['field'], ref_stable, n.lineno), n.lineno)
                continue
            v = _verdict(e['H'], True)
            self.result(nm + ':in-critical-section', 'lock-access', v,
                        None if v == Verdict.PROVED else
                        '%s of self.%s at line %d (`%s`) executes with held in %s' %
                        (e['kind'], e['field'], n.lineno, src.strip()[:80], sorted(e['H'])),
                        n.lineno, model=None if v == Verdict.PROVED else
                        {'line': n.lineno, 'col': n.col_offset, 'field': e['field'], 'kind': e['kind'],
                         'held': sorted(e['H'])})
        self.holds('shared-access-sites-found', 'vacuity', len(sites) >= 1,
                   'no access to any of %s found in %s: the specification no longer matches the code'
                   % (sorted(spec.shared), spec.qual))

        # calls
        cord = {}
        for e in sorted(an.calls.values(), key=lambda e: (e['node'].lineno, e['node'].col_offset)):
            n = e['node']
            callee = e['callee']
            if callee.startswith(spec.recv + '.') and callee.split('.', 1)[1] in spec.held_helpers:
                cord[callee] = cord.get(callee, 0) + 1
                v = _verdict(e['H'], True)
                self.result('helper-call:%s#%d:lock-held' % (callee, cord[callee]), 'lock-call', v,
                            None if v == Verdict.PROVED else '%s() touches the shared state and is called at line %d '
                            'with held in %s' % (callee, n.lineno, sorted(e['H'])), n.lineno)
                continue
            if callee in spec.atomic_calls:
                cord['atomic:' + callee] = cord.get('atomic:' + callee, 0) + 1
                v = _verdict(e['H'], True)
                self.result('atomic-call:%s#%d:lock-held' % (callee, cord['atomic:' + callee]), 'lock-call', v,
                            None if v == Verdict.PROVED else 'the value of %s() at line %d enters the shared state but is '
                            'obtained with held in %s (another thread can interleave between the call and its use)'
                            % (callee, n.lineno, sorted(e['H'])), n.lineno)
            if True in e['H']:
                cord[callee] = cord.get(callee, 0) + 1
                self.holds('call-while-held:%s#%d:declared' % (callee, cord[callee]), 'lock-call',
                           callee in spec.allowed_calls,
                           'call of %s at line %d runs inside the critical section and is not in the declared list %s'
                           % (callee, n.lineno, sorted(spec.allowed_calls)), n.lineno, undecided=True)

        # exits
        want = True if spec.entry_held else False
        word = 'held' if want else 'released'
        v, why = _exit_verdict(fl.normal | fl.ret, want)
        self.result('exit-normal:lock-%s' % word, 'lock-exit', v, why)
        v, why = _exit_verdict(fl.exc, want)
        self.result('exit-exceptional:lock-%s' % word, 'lock-exit', v, why)
        self.holds('no-break-continue-leak', 'lock-exit', not (fl.brk | fl.cont), 'break/continue outside loop')

    def _reference_writes(self, field):
        """Lines (qual:line) in the monitor's operations that assign self.<field> itself."""
        out = []
        for q in self.spec.group or [self.spec.qual]:
            f = source.load(q).node
            for n in ast.walk(f):
                if isinstance(n, ast.Attribute) and n.attr == field and isinstance(n.value, ast.Name) and \
                        n.value.id == self.spec.recv and isinstance(n.ctx, (ast.Store, ast.Del)):
                    out.append('%s:%d' % (q.split(':')[-1], n.lineno))
        return out


class EncapsulationTask(AstTask):
    """The shared fields are touched nowhere in the package except in the
    functions covered by lock-discipline tasks and in the listed
    construction-time functions (which run before the object is shared)."""

    def __init__(self, name, fields, covered_quals, ctor_quals, prop='C18', package='tlslite', owner_file=None):
        AstTask.__init__(self, 'lock-encapsulation[%s]' % name, prop, covered_quals[0],
                         'fields %s are accessed only by the lock-checked operations and by %s'
                         % (sorted(fields), [q.split(':')[-1] for q in ctor_quals]))
        self.fields = set(fields)
        self.covered = list(covered_quals)
        self.ctors = list(ctor_quals)
        self.package = package
        self.owner_file = owner_file

    def run(self, reg, meta):
        allowed = {}
        for q in self.covered + self.ctors:
            fs = source.load(q)
            allowed.setdefault(fs.path, []).append((fs.node.lineno, fs.node.end_lineno, q))
        root = os.path.join(source.REPO, self.package)
        bad = []
        seen = 0
        for path in sorted(glob.glob(os.path.join(root, '**', '*.py'), recursive=True)):
            tree = source.module_ast(path)
            for n in ast.walk(tree):
                if isinstance(n, ast.Attribute) and n.attr in self.fields:
                    # in the owner file every `x.<field>` counts; elsewhere too (conservative, by name)
                    seen += 1
                    ok = any(lo <= n.lineno <= hi for (lo, hi, q) in allowed.get(path, []))
                    if not ok:
                        bad.append('%s:%d .%s' % (os.path.relpath(path, source.REPO), n.lineno, n.attr))
        for f in sorted(self.fields):
            mine = [b for b in bad if b.endswith(' .' + f)]
            self.holds('only-lock-checked-functions-touch:%s' % f, 'lock-encapsulation', not mine,
                       'field accessed outside the covered functions: %s' % mine[:8], model={'sites': mine})
        self.holds('fields-exist', 'vacuity', seen > 0, 'no attribute named %s anywhere' % sorted(self.fields))
