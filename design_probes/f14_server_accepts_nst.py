from loop import *
from tlslite.messages import NewSessionTicket1_0
chain,key=creds()
cs=HandshakeSettings(); cs.maxVersion=(3,3)
def client(conn):
    orig=conn._sendFinished
    def patched(*a,**k):
        for r in conn._sendMsg(NewSessionTicket1_0().create(100, bytearray(b'bogus-ticket'))): yield r
        for r in orig(*a,**k): yield r
    conn._sendFinished=patched
    conn.handshakeClientCert(settings=cs); conn.write(b'hi'); return ('completed', conn.read(min=2,max=2))
def server(conn):
    conn.handshakeServer(certChain=chain, privateKey=key, settings=cs); r=conn.read(min=2,max=2); conn.write(r)
    return ('completed', [t.ticket for t in conn.tls_1_0_tickets])
print(run(client, server))
