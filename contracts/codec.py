"""Contracts on tlslite/utils/codec.py (Writer, Parser) -- C15 framing primitives, C08 clean failure.

Statement of the contracts (from the property, RFC 8446 section 3 presentation language):
* Writer.addX(v) appends exactly the n-byte big-endian encoding of v; when v does not fit in
  n bytes it raises ValueError (it never truncates or wraps); nothing but self.bytes changes and
  the old content stays a prefix (also on the exceptional exits).
* Parser.getX reads exactly the bytes at the old index, advances the index by exactly the
  number of bytes the framing declares, keeps 0 <= index <= len(bytes), never moves backwards,
  and raises DecodeError -- and nothing else -- exactly when the input is too short / the
  length is not a multiple of the element size / the length check fails.
"""
import z3

import tlslite.utils.codec as codec
from tlslite.utils.codec import DecodeError

from pyvc.contract import contract, scenario, LoopSpec, REG
from pyvc.state import T
from pyvc import spec as S
from pyvc import smt
from pyvc.values import VInt, VBool, VSeq, VNone, VObj, same_value, _lift

C = 'tlslite/utils/codec.py:'
PROP = ('C15', 'C08')

WRITER = T.obj(codec.Writer, bytes=T.bytes())


def wbytes(ns):
    return ns.f(ns.self, 'bytes')


# ---------------------------------------------------------------------------
# frame condition: every heap location of a pre-existing object other than the
# listed ones holds syntactically the same value as at entry.

def only_modifies(ns, *allowed):
    """allowed: (object value, field).  Every other heap location of a pre-existing object must hold
    the identical term as at entry or a value equal to it."""
    if ns._assume:
        # at a call site the frame is enforced by the `modifies` list (only those fields are havocked)
        return VBool(z3.BoolVal(True))
    st, old = ns._st, ns._old
    ok = set()
    eqs = []
    for (o, f) in allowed:
        if isinstance(o, VObj):
            ok.add((o.oid, f))
    for key, val in st.heap.items():
        if key in ok or key[0] in st.fresh_objs:
            continue
        if key not in old.heap:
            if key[0] in old.fresh_objs:
                continue
            # a field materialised lazily by a read is unchanged by construction; a field
            # created by a store on a pre-existing object is a frame violation
            return VBool(z3.BoolVal(False))
        if not same_value(val, old.heap[key]):
            o = old.heap[key]
            if isinstance(val, VInt) and isinstance(o, VInt):
                eqs.append(val == o)
            elif isinstance(val, VBool) and isinstance(o, VBool):
                eqs.append(val == o)
            elif isinstance(val, VSeq) and isinstance(o, VSeq):
                eqs.append(S.seq_eq(val, o))
            else:
                return VBool(z3.BoolVal(False))
    return S.And(*eqs)


def at(seq, k):
    """seq[k] for an index known to be in range and non-negative (no negative-index normalisation, so the
    term can serve as an instantiation trigger)"""
    from pyvc.values import VTupSeq, VTuple
    k = _lift(k)
    if isinstance(seq, VTupSeq):
        return VTuple([VInt(smt.sat(c, k.t)) for c in seq.cols])
    return VInt(smt.sat(seq.t, k.t))


def header_is(new, at_, ll, value):
    """new[at:at+ll] is the ll-byte big-endian encoding of value"""
    return VInt(smt.s_val(smt.s_slice(new.t, _lift(at_).t, (at_ + ll).t))) == value


def header_at(new, at_, ll, value):
    """header_is in a form that instantiates on ANY slice term of `new` and decides by arithmetic whether it is the
    header (avoids congruence reasoning over arithmetically equal slice bounds in callers)"""
    from pyvc.values import fresh_name
    a, e = z3.Int(fresh_name('hlo')), z3.Int(fresh_name('hhi'))
    return VBool(z3.ForAll([a, e], z3.Implies(z3.And(a == _lift(at_).t, e == (_lift(at_) + ll).t),
                                              smt.s_val(smt.s_slice(new.t, a, e)) == _lift(value).t),
                           patterns=[smt.s_slice(new.t, a, e)]))


def region_at(new, base, seq, n, arity=1):
    """region_decodes / tuples_region in a form that instantiates on ANY slice term of `new` together with an
    element term of `seq` and decides by arithmetic whether the slice is that element's group"""
    from pyvc.values import fresh_name
    a, e, k = z3.Int(fresh_name('rlo')), z3.Int(fresh_name('rhi')), z3.Int(fresh_name('rk'))
    cs = []
    for c in range(arity):
        el = at(seq, VInt(k))
        el = el[c] if arity > 1 else el
        lo = (_lift(base) + (VInt(k) * arity + c) * n).t
        cs.append(z3.ForAll([a, e, k], z3.Implies(z3.And(0 <= k, k < S.len_(seq).t, a == lo, e == lo + _lift(n).t),
                                                  smt.s_val(smt.s_slice(new.t, a, e)) == el.t),
                            patterns=[z3.MultiPattern(smt.s_slice(new.t, a, e), el.t)]))
    return VBool(z3.And(cs))


def sval_frame(new, old):
    """groups lying inside the old content decode to the same values in the new content"""
    from pyvc.values import fresh_name
    lo, hi = z3.Int(fresh_name('flo')), z3.Int(fresh_name('fhi'))
    return VBool(z3.ForAll([lo, hi], z3.Implies(z3.And(0 <= lo, lo <= hi, hi <= smt.slen(old.t)),
                                                smt.s_val(smt.s_slice(new.t, lo, hi)) == smt.s_val(smt.s_slice(old.t, lo, hi))),
                           patterns=[smt.s_slice(new.t, lo, hi)]))


def appended(ns, enc):
    """self.bytes == old self.bytes ++ enc, only self.bytes changed"""
    new, old = wbytes(ns), wbytes(ns.old)
    return S.And(S.seq_eq(new, S.cat(old, enc)),
                 S.len_(new) == S.len_(old) + S.len_(enc),
                 S.is_bytes(new),
                 only_modifies(ns, (ns.self, 'bytes')))


def prefix_kept(ns):
    """old content of self.bytes is a prefix of the new content; only self.bytes changed"""
    new, old = wbytes(ns), wbytes(ns.old)
    return S.And(S.len_(new) >= S.len_(old),
                 S.forall(lambda k: at(new, k) == at(old, k), 0, S.len_(old)),
                 sval_frame(new, old),
                 only_modifies(ns, (ns.self, 'bytes')))


def unchanged(ns):
    new, old = wbytes(ns), wbytes(ns.old)
    return S.And(S.seq_eq(new, old), only_modifies(ns, (ns.self, 'bytes')))


def div(a, b):
    """floor division for a positive divisor (spec side)"""
    return VInt(_lift(a).t / _lift(b).t)


def fits(x, n):
    """0 <= x < 256**n for literal n"""
    return (x >= 0) & (x < (1 << (8 * n)))


# --- Writer.addOne / addTwo / addThree / addFour ----------------------------
for _name, _n in (('addOne', 1), ('addTwo', 2), ('addThree', 3), ('addFour', 4)):
    contract(C + 'Writer.' + _name,
             params={'self': WRITER, 'val': T.int()},
             result=T.none(), modifies=[('self', 'bytes')],
             ensures=(lambda n: lambda ns: S.And(fits(ns.val, n), appended(ns, S.be(ns.val, n))))(_n),
             raises={ValueError: ('iff', (lambda n: lambda ns: S.Not(fits(ns.val, n)))(_n))},
             exc_ensures=unchanged,
             prop=PROP,
             doc='appends exactly the %d-byte big-endian encoding of val; ValueError iff val is outside '
                 '[0, 256**%d); buffer unchanged on error' % (_n, _n))


# --- Writer.add --------------------------------------------------------------
def fits_n(x, n):
    return S.And(n >= 0, x >= 0, x < S.pow256(n))


contract(C + 'Writer.add',
         params={'self': WRITER, 'x': T.int(), 'length': T.int()},
         result=T.none(), modifies=[('self', 'bytes')],
         ensures=lambda ns: S.And(fits_n(ns.x, ns.length), appended(ns, S.be_n(ns.x, ns.length)),
                                  S.len_(wbytes(ns)) == S.len_(wbytes(ns.old)) + ns.length,
                                  # the appended group decodes to x (consequence, stated for callers)
                                  header_is(wbytes(ns), S.len_(wbytes(ns.old)), ns.length, ns.x),
                                  header_at(wbytes(ns), S.len_(wbytes(ns.old)), ns.length, ns.x),
                                  sval_frame(wbytes(ns), wbytes(ns.old))),
         raises={ValueError: ('iff', lambda ns: S.Not(fits_n(ns.x, ns.length)))},
         exc_ensures=unchanged,
         prop=PROP,
         doc='appends exactly the length-byte big-endian encoding of x (any length >= 0); ValueError iff '
             'x is outside [0, 256**length) or length < 0; buffer unchanged on error')

REG.note('C15', 'trusted', 'int.to_bytes(n, "big") / int.from_bytes(b, "big") / struct.pack(">BHI") are modelled as the '
         'mathematical big-endian encoding s_be / s_val (pyvc/smt.py _be_axioms: element-wise definition for n <= 8, '
         'decode(encode(x)) == x for 0 <= x < 256**n, encode(decode(b)) == b, value range); OverflowError / struct.error '
         'exactly when the value is out of range; ValueError for a negative length')


# ===========================================================================
# Parser
# ===========================================================================
PARSER = T.obj(codec.Parser, bytes=T.bytes(), index=T.int(), indexCheck=T.int(), lengthCheck=T.int())


def pf(ns, name):
    return ns.f(ns.self, name)


def p_inv(ns):
    """class invariant of Parser as established by __init__: 0 <= index <= len(bytes)"""
    return S.And(pf(ns, 'index') >= 0, pf(ns, 'index') <= S.len_(pf(ns, 'bytes')))


def p_same(ns):
    """parser state completely unchanged (exceptional exits leave the parser where it was)"""
    return S.And(pf(ns, 'index') == pf(ns.old, 'index'), only_modifies(ns))


def p_advanced(ns, n):
    """index advanced by exactly n, invariant kept, nothing but index modified"""
    return S.And(pf(ns, 'index') == pf(ns.old, 'index') + n,
                 pf(ns, 'index') >= pf(ns.old, 'index'),
                 p_inv(ns),
                 only_modifies(ns, (ns.self, 'index')))


def p_mono(ns):
    """exceptional exits: index only moved forward, still inside the buffer; nothing else modified"""
    return S.And(pf(ns, 'index') >= pf(ns.old, 'index'), p_inv(ns), only_modifies(ns, (ns.self, 'index')))


def chunk(ns_old, off, n):
    """bytes[index+off : index+off+n] of the entry state"""
    b, i = pf(ns_old, 'bytes'), pf(ns_old, 'index')
    return VSeq(smt.s_slice(b.t, (i + off).t, (i + off + n).t), 'byte', 'bytearray')


def sub_frame(result, bytes_, start):
    """byte groups of a returned sub-string decode like the same groups of the buffer it was cut from (for nested
    parsers: Parser(p.getVarBytes(2)))"""
    from pyvc.values import fresh_name
    a, e = z3.Int(fresh_name('sa')), z3.Int(fresh_name('se'))
    st = _lift(start).t
    return VBool(z3.ForAll([a, e], z3.Implies(z3.And(0 <= a, a <= e, e <= smt.slen(result.t)),
                                              smt.s_val(smt.s_slice(result.t, a, e)) == smt.s_val(smt.s_slice(bytes_.t, st + a, st + e))),
                           patterns=[smt.s_slice(result.t, a, e)]))


def short(ns, n):
    """fewer than n bytes left"""
    return pf(ns, 'index') + n > S.len_(pf(ns, 'bytes'))


contract(C + 'Parser.__init__',
         variants={'any': {'self': T.obj(codec.Parser), 'bytes': T.bytes()}},     # never applied: callers inline it
         result=T.none(), modifies=[],
         ensures=lambda ns: S.And(pf(ns, 'index') == 0, pf(ns, 'indexCheck') == 0, pf(ns, 'lengthCheck') == 0,
                                  pf(ns, 'bytes') == ns.bytes, p_inv(ns)),
         raises={}, prop=PROP,
         doc='binds the buffer, index = 0: establishes the invariant 0 <= index <= len(bytes)')

contract(C + 'Parser.getFixBytes',
         params={'self': PARSER, 'lengthBytes': T.int()},
         requires=lambda ns: p_inv(ns) & (ns.lengthBytes >= 0),
         result=T.bytes(), modifies=[('self', 'index')],
         ensures=lambda ns: S.And(S.seq_eq(ns.result, chunk(ns.old, 0, ns.lengthBytes)),
                                  S.len_(ns.result) == ns.lengthBytes, S.is_bytes(ns.result),
                                  sub_frame(ns.result, pf(ns.old, 'bytes'), pf(ns.old, 'index')),
                                  p_advanced(ns, ns.lengthBytes)),
         raises={DecodeError: ('iff', lambda ns: short(ns, ns.lengthBytes))},
         exc_ensures=p_same, prop=PROP,
         doc='returns exactly bytes[index:index+n] and advances by n; DecodeError iff fewer than n bytes remain')

contract(C + 'Parser.skip_bytes',
         params={'self': PARSER, 'length': T.int()},
         requires=lambda ns: p_inv(ns) & (ns.length >= 0),
         result=T.none(), modifies=[('self', 'index')],
         ensures=lambda ns: p_advanced(ns, ns.length),
         raises={DecodeError: ('iff', lambda ns: short(ns, ns.length))},
         exc_ensures=p_same, prop=PROP,
         doc='advances by exactly n; DecodeError iff fewer than n bytes remain')

contract(C + 'Parser.get',
         params={'self': PARSER, 'length': T.int()},
         requires=lambda ns: p_inv(ns) & (ns.length >= 0),
         result=T.int(), modifies=[('self', 'index')],
         ensures=lambda ns: S.And(ns.result == S.be_val(chunk(ns.old, 0, ns.length)),
                                  ns.result >= 0, ns.result < S.pow256(ns.length),
                                  p_advanced(ns, ns.length)),
         raises={DecodeError: ('iff', lambda ns: short(ns, ns.length))},
         exc_ensures=p_same, prop=PROP,
         doc='returns the big-endian value of bytes[index:index+n], 0 <= value < 256**n, advances by n; '
             'DecodeError iff fewer than n bytes remain')

contract(C + 'Parser.getRemainingLength',
         params={'self': PARSER}, requires=p_inv, result=T.int(),
         ensures=lambda ns: S.And(ns.result == S.len_(pf(ns, 'bytes')) - pf(ns, 'index'), ns.result >= 0, p_same(ns)),
         raises={}, prop=PROP, doc='number of unread bytes (>= 0), no state change')


def lenfield(ns, ll):
    """value of the ll-byte length field at the entry index"""
    return S.be_val(chunk(ns, 0, ll))


def var_short(ns, ll):
    """length field itself truncated, or fewer bytes left than it declares"""
    return S.Or(short(ns, ll), pf(ns, 'index') + ll + lenfield(ns, ll) > S.len_(pf(ns, 'bytes')))


contract(C + 'Parser.getVarBytes',
         params={'self': PARSER, 'lengthLength': T.int()},
         requires=lambda ns: p_inv(ns) & (ns.lengthLength >= 0),
         result=T.bytes(), modifies=[('self', 'index')],
         ensures=lambda ns: (lambda n: S.And(
             S.seq_eq(ns.result, chunk(ns.old, ns.lengthLength, n)),
             S.len_(ns.result) == n, S.is_bytes(ns.result),
             sub_frame(ns.result, pf(ns.old, 'bytes'), pf(ns.old, 'index') + ns.lengthLength),
             p_advanced(ns, ns.lengthLength + n)))(lenfield(ns.old, ns.lengthLength)),
         raises={DecodeError: ('iff', lambda ns: var_short(ns, ns.lengthLength))},
         exc_ensures=p_mono, prop=PROP,
         doc='reads an ll-byte length n, returns exactly the next n bytes, consumes ll+n; DecodeError iff the '
             'length field or the declared body is truncated')

contract(C + 'Parser.startLengthCheck',
         params={'self': PARSER, 'lengthLength': T.int()},
         requires=lambda ns: p_inv(ns) & (ns.lengthLength >= 0),
         result=T.none(), modifies=[('self', 'index'), ('self', 'lengthCheck'), ('self', 'indexCheck')],
         ensures=lambda ns: S.And(pf(ns, 'lengthCheck') == lenfield(ns.old, ns.lengthLength),
                                  pf(ns, 'lengthCheck') >= 0, pf(ns, 'lengthCheck') < S.pow256(ns.lengthLength),
                                  pf(ns, 'indexCheck') == pf(ns, 'index'),
                                  pf(ns, 'index') == pf(ns.old, 'index') + ns.lengthLength, p_inv(ns),
                                  only_modifies(ns, (ns.self, 'index'), (ns.self, 'lengthCheck'), (ns.self, 'indexCheck'))),
         raises={DecodeError: ('iff', lambda ns: short(ns, ns.lengthLength))},
         exc_ensures=p_same, prop=PROP,
         doc='reads the ll-byte declared length into lengthCheck and marks the start of the structure')

contract(C + 'Parser.setLengthCheck',
         params={'self': PARSER, 'length': T.int()},
         result=T.none(), modifies=[('self', 'lengthCheck'), ('self', 'indexCheck')],
         ensures=lambda ns: S.And(pf(ns, 'lengthCheck') == ns.length, pf(ns, 'indexCheck') == pf(ns, 'index'),
                                  only_modifies(ns, (ns.self, 'lengthCheck'), (ns.self, 'indexCheck'))),
         raises={}, prop=PROP, doc='declares the structure length, marks its start; index untouched')


def consumed(ns):
    return pf(ns, 'index') - pf(ns, 'indexCheck')


contract(C + 'Parser.stopLengthCheck',
         params={'self': PARSER}, result=T.none(),
         ensures=lambda ns: S.And(consumed(ns) == pf(ns, 'lengthCheck'), only_modifies(ns)),
         raises={DecodeError: ('iff', lambda ns: consumed(ns) != pf(ns, 'lengthCheck'))},
         exc_ensures=lambda ns: only_modifies(ns), prop=PROP,
         doc='returns normally iff exactly lengthCheck bytes were consumed since the mark (no trailing bytes, no overrun); '
             'otherwise DecodeError; no state change')

contract(C + 'Parser.atLengthCheck',
         params={'self': PARSER}, result=T.bool(),
         ensures=lambda ns: S.And(S.iff(ns.result, consumed(ns) == pf(ns, 'lengthCheck')),
                                  consumed(ns) <= pf(ns, 'lengthCheck'), only_modifies(ns)),
         raises={DecodeError: ('iff', lambda ns: consumed(ns) > pf(ns, 'lengthCheck'))},
         exc_ensures=lambda ns: only_modifies(ns), prop=PROP,
         doc='True iff exactly lengthCheck bytes consumed, False iff fewer, DecodeError iff more; no state change')


def elem_at(bytes_, base, k, n):
    """value of the k-th n-byte element of the array starting at offset base of bytes_"""
    return VInt(smt.s_val(smt.s_slice(bytes_.t, (base + k * n).t, (base + k * n + n).t)))


def list_decodes(lst, bytes_, base, n, count):
    """lst == [value of element k for k in range(count)]"""
    return S.And(S.len_(lst) == count,
                 S.forall(lambda k: at(lst, k) == elem_at(bytes_, base, k, n), 0, count))


def inv_fixlist(ns):
    i0 = pf(ns.old, 'index')
    return S.And(pf(ns, 'index') == i0 + ns.idx * ns.length,
                 p_inv(ns),
                 S.len_(ns.l) == S.max_(ns.lengthList, 0),
                 S.forall(lambda k: at(ns.l, k) == elem_at(pf(ns, 'bytes'), i0, k, ns.length), 0, ns.idx))


contract(C + 'Parser.getFixList',
         params={'self': PARSER, 'length': T.int(), 'lengthList': T.int()},
         requires=lambda ns: S.And(p_inv(ns), ns.length >= 0, ns.lengthList >= 0),
         result=T.ints(), modifies=[('self', 'index')],
         ensures=lambda ns: S.And(list_decodes(ns.result, pf(ns.old, 'bytes'), pf(ns.old, 'index'), ns.length, ns.lengthList),
                                  p_advanced(ns, ns.length * ns.lengthList)),
         raises={DecodeError: ('iff', lambda ns: short(ns, ns.length * ns.lengthList))},
         exc_ensures=p_mono,
         loops={1: LoopSpec(inv_fixlist, variant=lambda ns: ns.lengthList - ns.idx,
                            modifies_fields=[('self', 'index')], fingerprint='range(lengthList)')},
         prop=PROP,
         doc='returns the lengthList big-endian length-byte integers at the old index, consumes exactly '
             'length*lengthList bytes; DecodeError iff fewer remain')


def varlist_bad(ns, ll, unit):
    """length field truncated, or declared length not a multiple of the element size, or body truncated"""
    n = lenfield(ns, ll)
    return S.Or(short(ns, ll), S.And(S.Not(short(ns, ll)), S.Or(n % unit != 0, short(ns, ll + n))))


contract(C + 'Parser.getVarList',
         params={'self': PARSER, 'length': T.int(), 'lengthLength': T.int()},
         requires=lambda ns: S.And(p_inv(ns), ns.length >= 1, ns.lengthLength >= 0),
         result=T.ints(), modifies=[('self', 'index')],
         ensures=lambda ns: (lambda n: S.And(
             n % ns.length == 0,
             list_decodes(ns.result, pf(ns.old, 'bytes'), pf(ns.old, 'index') + ns.lengthLength, ns.length, div(n, ns.length)),
             S.len_(ns.result) * ns.length == n,
             p_advanced(ns, ns.lengthLength + n)))(lenfield(ns.old, ns.lengthLength)),
         raises={DecodeError: ('iff', lambda ns: varlist_bad(ns, ns.lengthLength, ns.length))},
         exc_ensures=p_mono,
         loops={1: LoopSpec(inv_fixlist, variant=lambda ns: ns.lengthList - ns.idx,
                            modifies_fields=[('self', 'index')], fingerprint='range(lengthList)')},
         prop=PROP,
         doc='reads an ll-byte byte-length n; n must be a multiple of the element size; returns the n/length '
             'elements and consumes exactly ll+n bytes; DecodeError iff length field truncated, n not a multiple, '
             'or body truncated')


# --- Parser.getVarTupleList (tuple arity is a literal at every call site; proved per arity) -------------
from pyvc import tupseq  # noqa: registers iteration over symbolic-length tuple lists


def tuples_decode(lst, arity, bytes_, base, n, count):
    """lst == [(element k*arity, ..., element k*arity+arity-1) for k in range(count)]"""
    return S.And(S.len_(lst) == count,
                 S.forall(lambda k: S.And(*[at(lst, k)[c] == elem_at(bytes_, base, k * arity + c, n)
                                            for c in range(arity)]), 0, count))


def _inv_tuplelist(arity):
    def inv(ns):
        i0 = pf(ns.old, 'index')
        return S.And(pf(ns, 'index') == i0 + ns.idx * arity * ns.elemLength,
                     p_inv(ns),
                     tuples_decode(ns.tupleList, arity, pf(ns, 'bytes'), i0, ns.elemLength, ns.idx))
    return inv


def _tuplelist_contract(arity):
    return dict(
        params={'self': PARSER, 'elemLength': T.int(), 'elemNum': T.const(arity), 'lengthLength': T.int()},
        requires=lambda ns: S.And(p_inv(ns), ns.elemLength >= 1, ns.elemNum == arity, ns.lengthLength >= 0),
        result=T.tuples(arity), modifies=[('self', 'index')],
        ensures=lambda ns: (lambda n: S.And(
            n % (ns.elemLength * arity) == 0,
            tuples_decode(ns.result, arity, pf(ns.old, 'bytes'), pf(ns.old, 'index') + ns.lengthLength,
                          ns.elemLength, div(n, ns.elemLength * arity)),
            S.len_(ns.result) * arity * ns.elemLength == n,
            p_advanced(ns, ns.lengthLength + n)))(lenfield(ns.old, ns.lengthLength)),
        raises={DecodeError: ('iff', lambda ns: varlist_bad(ns, ns.lengthLength, ns.elemLength * arity))},
        exc_ensures=p_mono,
        loops={1: LoopSpec(_inv_tuplelist(arity), variant=lambda ns: ns.tupleCount - ns.idx,
                           modifies_fields=[('self', 'index')], modifies_vars=['tupleList'],
                           var_types={'tupleList': T.tuples(arity)}, fingerprint='range(tupleCount)')},
        prop=PROP,
        doc='reads an ll-byte byte-length n (multiple of the tuple size), returns the n/(%d*elemLength) tuples, '
            'consumes exactly ll+n bytes; DecodeError iff length field truncated, n not a multiple, or body '
            'truncated (tuple arity %d)' % (arity, arity))


contract(C + 'Parser.getVarTupleList', **_tuplelist_contract(2))
REG.note('C15', 'assumptions', 'Parser.getVarTupleList / Writer.addVarTupleSeq are proved for tuple arity 2 (the only arity '
         'used in /repo: signature-algorithm pairs); element size and length-field size are arbitrary')


# ===========================================================================
# Writer: sequences.  The appended region is characterised by what it decodes to: together with
# "all bytes" and the exact length this determines every appended byte (big-endian encoding is injective
# on fixed width: smt._be_axioms encode(decode(b)) == b).
# ===========================================================================

def _static(seq):
    """items of a statically known list/tuple argument (e.g. one tuple of a tuple list), else None"""
    from pyvc.values import VList, VTuple
    return list(seq.items) if isinstance(seq, (VList, VTuple)) else None


def all_fit(seq, n, count=None):
    """every element of seq fits in n bytes"""
    if _static(seq) is not None and count is None:
        return S.And(*[S.And(x >= 0, x < S.pow256(n)) for x in _static(seq)])
    return S.forall(lambda k: S.And(at(seq, k) >= 0, at(seq, k) < S.pow256(n)), 0, S.len_(seq) if count is None else count)


def region_decodes(new, base, seq, n, count=None):
    """for every k: new[base+k*n : base+(k+1)*n] is the n-byte big-endian encoding of seq[k]"""
    if _static(seq) is not None and count is None:
        return S.And(*[elem_at(new, base, k, n) == x for k, x in enumerate(_static(seq))])
    return S.forall(lambda k: elem_at(new, base, k, n) == at(seq, k), 0, S.len_(seq) if count is None else count)


def inv_addfixseq(ns):
    cur, old0 = wbytes(ns), wbytes(ns.old)
    return S.And(S.len_(cur) == S.len_(old0) + ns.idx * ns.length,
                 S.is_bytes(cur),
                 S.forall(lambda k: at(cur, k) == at(old0, k), 0, S.len_(old0)),
                 sval_frame(cur, old0),
                 all_fit(ns.seq, ns.length, ns.idx),
                 # arithmetic fact carried inductively (keeps the solver in linear arithmetic): group k ends
                 # inside the part written so far
                 S.forall(lambda k: k * ns.length + ns.length <= ns.idx * ns.length, 0, ns.idx),
                 region_decodes(cur, S.len_(old0), ns.seq, ns.length, ns.idx))


contract(C + 'Writer.addFixSeq',
         params={'self': WRITER, 'seq': T.ints(), 'length': T.int()},
         requires=lambda ns: ns.length >= 0,
         result=T.none(), modifies=[('self', 'bytes')],
         ensures=lambda ns: S.And(all_fit(ns.seq, ns.length),
                                  S.len_(wbytes(ns)) == S.len_(wbytes(ns.old)) + S.len_(ns.seq) * ns.length,
                                  S.is_bytes(wbytes(ns)),
                                  region_decodes(wbytes(ns), S.len_(wbytes(ns.old)), ns.seq, ns.length),
                                  prefix_kept(ns)),
         raises={ValueError: ('iff', lambda ns: S.Not(all_fit(ns.seq, ns.length)))},
         exc_ensures=prefix_kept,
         loops={1: LoopSpec(inv_addfixseq, variant=lambda ns: S.len_(ns.seq) - ns.idx,
                            modifies_fields=[('self', 'bytes')], fingerprint='seq')},
         prop=PROP,
         doc='appends len(seq)*length bytes, the k-th length-byte group being the big-endian encoding of seq[k]; '
             'ValueError iff some element is outside [0, 256**length); old content stays a prefix')


def multiple_lemma(a, b):
    """pure arithmetic: a*b is a multiple of b and divides back to a"""
    return S.implies(S.And(a >= 0, b >= 1), S.And((a * b) % b == 0, div(a * b, b) == a))


def varseq_fits(ns):
    return S.And(S.len_(ns.seq) * ns.length < S.pow256(ns.lengthLength), all_fit(ns.seq, ns.length))


contract(C + 'Writer.addVarSeq',
         params={'self': WRITER, 'seq': T.ints(), 'length': T.int(), 'lengthLength': T.int()},
         requires=lambda ns: (ns.length >= 0) & (ns.lengthLength >= 0),
         result=T.none(), modifies=[('self', 'bytes')],
         ensures=lambda ns: (lambda new, b0, n: S.And(
             varseq_fits(ns),
             S.len_(new) == b0 + ns.lengthLength + n, S.is_bytes(new),
             header_is(new, b0, ns.lengthLength, n), header_at(new, b0, ns.lengthLength, n),
             # the byte-count is a multiple of the element size and divides back to the element count
             S.implies(ns.length >= 1, S.And(n % ns.length == 0, div(n, ns.length) == S.len_(ns.seq))),
             region_decodes(new, b0 + ns.lengthLength, ns.seq, ns.length),
             region_at(new, b0 + ns.lengthLength, ns.seq, ns.length),
             # one-byte elements (opaque vectors written with addVarSeq(data, 1, ll)): the bytes themselves
             # (indexed by the position in the buffer, so that the buffer element is the instantiation trigger)
             S.implies(ns.length == 1, S.forall(lambda i: at(new, i) == at(ns.seq, i - b0 - ns.lengthLength),
                                                b0 + ns.lengthLength, b0 + ns.lengthLength + S.len_(ns.seq))),
             prefix_kept(ns)))(wbytes(ns), S.len_(wbytes(ns.old)), S.len_(ns.seq) * ns.length),
         lemmas=[(multiple_lemma, lambda ns: (S.len_(ns.seq), ns.length))],
         raises={ValueError: ('iff', lambda ns: S.Not(varseq_fits(ns)))},
         exc_ensures=prefix_kept,
         loops={1: LoopSpec(inv_addfixseq, variant=lambda ns: S.len_(ns.seq) - ns.idx,
                            modifies_fields=[('self', 'bytes')], fingerprint='seq')},
         prop=PROP,
         doc='appends the lengthLength-byte byte-count len(seq)*length followed by the length-byte big-endian '
             'encodings of the elements (all three code paths: extend / struct.pack / add loop); ValueError iff the '
             'byte-count does not fit the length field or an element does not fit; old content stays a prefix')


# --- Writer.addVarTupleSeq (arity 2) -----------------------------------------------------------------
def tuples_fit(seq, arity, n, count=None):
    return S.forall(lambda k: S.And(*[S.And(at(seq, k)[c] >= 0, at(seq, k)[c] < S.pow256(n)) for c in range(arity)]),
                    0, S.len_(seq) if count is None else count)


def tuples_region(new, base, seq, arity, n, count=None):
    return S.forall(lambda k: S.And(*[elem_at(new, base, k * arity + c, n) == at(seq, k)[c] for c in range(arity)]),
                    0, S.len_(seq) if count is None else count)


def _inv_addtuples(arity):
    def inv(ns):
        cur, old0 = wbytes(ns), wbytes(ns.old)
        return S.And(S.len_(cur) == S.len_(old0) + ns.idx * arity * ns.length,
                     S.is_bytes(cur),
                     S.forall(lambda k: at(cur, k) == at(old0, k), 0, S.len_(old0)),
                     sval_frame(cur, old0),
                     tuples_fit(ns.seq, arity, ns.length, ns.idx),
                     S.forall(lambda k: k * arity * ns.length + arity * ns.length <= ns.idx * arity * ns.length, 0, ns.idx),
                     tuples_region(cur, S.len_(old0), ns.seq, arity, ns.length, ns.idx))
    return inv


def _vartuple_fits(arity):
    return lambda ns: S.And(S.len_(ns.seq) * arity * ns.length < S.pow256(ns.lengthLength),
                            tuples_fit(ns.seq, arity, ns.length))


def _vartupleseq_contract(arity):
    ok = _vartuple_fits(arity)
    ls = LoopSpec(_inv_addtuples(arity), variant=lambda ns: S.len_(ns.seq) - ns.idx,
                  modifies_fields=[('self', 'bytes')], fingerprint='seq')
    return dict(
        params={'self': WRITER, 'seq': T.tuples(arity), 'length': T.int(), 'lengthLength': T.int()},
        requires=lambda ns: (ns.length >= 0) & (ns.lengthLength >= 0),
        result=T.none(), modifies=[('self', 'bytes')],
        ensures=lambda ns: (lambda new, b0, n: S.And(
            ok(ns),
            S.len_(new) == b0 + ns.lengthLength + n, S.is_bytes(new),
            header_is(new, b0, ns.lengthLength, n), header_at(new, b0, ns.lengthLength, n),
            S.implies(ns.length >= 1, S.And(n % (ns.length * arity) == 0, div(n, ns.length * arity) == S.len_(ns.seq))),
            tuples_region(new, b0 + ns.lengthLength, ns.seq, arity, ns.length),
            region_at(new, b0 + ns.lengthLength, ns.seq, ns.length, arity),
            prefix_kept(ns)))(wbytes(ns), S.len_(wbytes(ns.old)), S.len_(ns.seq) * arity * ns.length),
        lemmas=[(multiple_lemma, lambda ns: (S.len_(ns.seq), ns.length * arity))],
        raises={ValueError: ('iff', lambda ns: S.Not(ok(ns)))},
        exc_ensures=prefix_kept,
        loops={1: ls, 2: ls},
        prop=PROP,
        doc='appends the lengthLength-byte byte-count len(seq)*%d*length and then every tuple element as a '
            'length-byte big-endian integer; ValueError iff the byte-count or an element does not fit; old content '
            'stays a prefix (tuple arity %d)' % (arity, arity))


contract(C + 'Writer.addVarTupleSeq', **_vartupleseq_contract(2))


contract(C + 'Writer.add_var_bytes',
         params={'self': WRITER, 'data': T.bytes(), 'length_length': T.int()},
         result=T.none(), modifies=[('self', 'bytes')],
         ensures=lambda ns: (lambda new, b0, n, ll: S.And(
             fits_n(n, ll),
             S.seq_eq(new, S.cat(wbytes(ns.old), S.be_n(n, ll), ns.data)),
             S.len_(new) == b0 + ll + n, S.is_bytes(new),
             header_is(new, b0, ll, n),
             S.forall(lambda k: at(new, b0 + ll + k) == at(ns.data, k), 0, n),
             prefix_kept(ns)))(wbytes(ns), S.len_(wbytes(ns.old)), S.len_(ns.data), ns.length_length),
         raises={ValueError: ('iff', lambda ns: S.Not(fits_n(S.len_(ns.data), ns.length_length)))},
         exc_ensures=unchanged,
         prop=PROP,
         doc='appends the length_length-byte big-endian len(data) followed by data verbatim; ValueError iff len(data) '
             'does not fit the length field (never truncates); buffer unchanged on error')


contract(C + 'Writer.__init__',
         variants={'any': {'self': T.obj(codec.Writer)}},          # never applied: callers inline it
         result=T.none(), ensures=lambda ns: S.len_(wbytes(ns)) == 0, raises={}, prop=PROP,
         doc='a new Writer holds the empty buffer')


# ===========================================================================
# Pair lemmas (scenarios): decoding what was encoded gives the value back and consumes exactly the
# bytes that were written.  They compose the contracts above (each proved against the real body); the
# Writer starts from an arbitrary buffer b0 and the Parser is positioned at len(b0), which covers
# `Parser(Writer().bytes)` (b0 empty) and every position inside a larger message.
# ===========================================================================

def _writer(api, name='w'):
    w = api.make(name, WRITER)
    return w, api.ns(api.st).f(w, 'bytes')


def _parser_at(api, st, buf, index):
    """Parser(buf) through the real constructor, then positioned at `index`"""
    outs = api.ex.instantiate(codec.Parser, [buf], {}, st, api.fr, None)
    assert len(outs) == 1 and outs[0].kind == 'normal'
    p = outs[0].val
    st.heap[(p.oid, 'index')] = _lift(index)
    return p, outs[0].st


def _normal(api, outs, label, allow=()):
    """yield the normal outcomes; every other outcome must be unreachable (unless its class is allowed)"""
    for o in outs:
        if o.kind == 'normal':
            yield o
        elif o.kind == 'raise' and any(issubclass(o.val.cls, a) for a in allow):
            continue
        else:
            api.unreachable(o.st, '%s-does-not-raise(%s %s)' % (label, getattr(o.val.cls, '__name__', '?'), o.val.origin))


def _must_raise(api, outs, label, cls):
    """every outcome is a raise of cls"""
    for o in outs:
        if o.kind == 'raise' and issubclass(o.val.cls, cls):
            api.oblige(o.st, '%s-raises-%s' % (label, cls.__name__), True)
        else:
            api.unreachable(o.st, '%s-must-raise-%s(but: %s)' % (label, cls.__name__, o.kind))


@scenario('pair-add-get', PROP,
          doc='Parser.get(n) after Writer.add(x, n) returns x and consumes exactly the n bytes written (any n >= 0, any x that fits)')
def pair_add_get(api):
    w, b0 = _writer(api)
    x, n = api.make('x', T.int()), api.make('n', T.int(0, None))
    for o in _normal(api, api.call(C + 'Writer.add', [w, x, n], api.st, inline=False), 'add', allow=(ValueError,)):
        buf = api.ns(o.st).f(w, 'bytes')
        p, st = _parser_at(api, o.st, buf, S.len_(b0))
        for o2 in _normal(api, api.call(C + 'Parser.get', [p, n], st, inline=False), 'get'):
            ns = api.ns(o2.st)
            api.oblige(o2.st, 'value-back', o2.val == x)
            api.oblige(o2.st, 'consumed-exactly', S.And(ns.f(p, 'index') == S.len_(b0) + n, ns.f(p, 'index') == S.len_(buf)))


@scenario('pair-add_var_bytes-getVarBytes', PROP,
          doc='Parser.getVarBytes(ll) after Writer.add_var_bytes(data, ll) returns data and consumes exactly what was written')
def pair_varbytes(api):
    w, b0 = _writer(api)
    data, ll = api.make('data', T.bytes()), api.make('ll', T.int(0, None))
    for o in _normal(api, api.call(C + 'Writer.add_var_bytes', [w, data, ll], api.st, inline=False), 'write', allow=(ValueError,)):
        buf = api.ns(o.st).f(w, 'bytes')
        p, st = _parser_at(api, o.st, buf, S.len_(b0))
        for o2 in _normal(api, api.call(C + 'Parser.getVarBytes', [p, ll], st, inline=False), 'parse'):
            ns = api.ns(o2.st)
            api.oblige(o2.st, 'bytes-back', S.seq_eq(o2.val, data))
            api.oblige(o2.st, 'consumed-exactly', ns.f(p, 'index') == S.len_(buf))


@scenario('pair-addFixSeq-getFixList', PROP,
          doc='Parser.getFixList(n, len(seq)) after Writer.addFixSeq(seq, n) returns seq and consumes exactly what was written')
def pair_fixseq(api):
    w, b0 = _writer(api)
    seq, n = api.make('seq', T.ints()), api.make('n', T.int(0, None))
    for o in _normal(api, api.call(C + 'Writer.addFixSeq', [w, seq, n], api.st, inline=False), 'write', allow=(ValueError,)):
        buf = api.ns(o.st).f(w, 'bytes')
        p, st = _parser_at(api, o.st, buf, S.len_(b0))
        for o2 in _normal(api, api.call(C + 'Parser.getFixList', [p, n, S.len_(seq)], st, inline=False), 'parse'):
            ns = api.ns(o2.st)
            api.oblige(o2.st, 'list-back', S.And(S.len_(o2.val) == S.len_(seq),
                                                 S.forall(lambda k: at(o2.val, k) == at(seq, k), 0, S.len_(seq))))
            api.oblige(o2.st, 'consumed-exactly', ns.f(p, 'index') == S.len_(buf))


@scenario('pair-addVarSeq-getVarList', PROP,
          doc='Parser.getVarList(n, ll) after Writer.addVarSeq(seq, n, ll) returns seq and consumes exactly what was written (n >= 1)')
def pair_varseq(api):
    w, b0 = _writer(api)
    seq, n, ll = api.make('seq', T.ints()), api.make('n', T.int(1, None)), api.make('ll', T.int(0, None))
    for o in _normal(api, api.call(C + 'Writer.addVarSeq', [w, seq, n, ll], api.st, inline=False), 'write', allow=(ValueError,)):
        buf = api.ns(o.st).f(w, 'bytes')
        p, st = _parser_at(api, o.st, buf, S.len_(b0))
        for o2 in _normal(api, api.call(C + 'Parser.getVarList', [p, n, ll], st, inline=False), 'parse'):
            ns = api.ns(o2.st)
            api.oblige(o2.st, 'list-back', S.And(S.len_(o2.val) == S.len_(seq),
                                                 S.forall(lambda k: at(o2.val, k) == at(seq, k), 0, S.len_(seq))))
            api.oblige(o2.st, 'consumed-exactly', ns.f(p, 'index') == S.len_(buf))


@scenario('pair-addVarTupleSeq-getVarTupleList', PROP,
          doc='Parser.getVarTupleList(n, 2, ll) after Writer.addVarTupleSeq(pairs, n, ll) returns the pairs and consumes exactly what was written (n >= 1)')
def pair_vartuples(api):
    w, b0 = _writer(api)
    seq, n, ll = api.make('seq', T.tuples(2)), api.make('n', T.int(1, None)), api.make('ll', T.int(0, None))
    for o in _normal(api, api.call(C + 'Writer.addVarTupleSeq', [w, seq, n, ll], api.st, inline=False), 'write', allow=(ValueError,)):
        buf = api.ns(o.st).f(w, 'bytes')
        p, st = _parser_at(api, o.st, buf, S.len_(b0))
        for o2 in _normal(api, api.call(C + 'Parser.getVarTupleList', [p, n, _lift(2), ll], st, inline=False), 'parse'):
            ns = api.ns(o2.st)
            api.oblige(o2.st, 'tuples-back', S.And(S.len_(o2.val) == S.len_(seq),
                                                   S.forall(lambda k: S.And(at(o2.val, k)[0] == at(seq, k)[0],
                                                                            at(o2.val, k)[1] == at(seq, k)[1]), 0, S.len_(seq))))
            api.oblige(o2.st, 'consumed-exactly', ns.f(p, 'index') == S.len_(buf))


# --- framing is enforced: truncation and trailing bytes are decode errors ---------------------------------
def _prefix(buf, cut):
    return VSeq(smt.s_slice(buf.t, z3.IntVal(0), cut.t), 'byte', 'bytearray')


@scenario('truncated-var-bytes-rejected', PROP,
          doc='every strict prefix of the encoding written by add_var_bytes makes getVarBytes raise DecodeError (never a short read)')
def trunc_varbytes(api):
    w, b0 = _writer(api)
    data, ll = api.make('data', T.bytes()), api.make('ll', T.int(0, None))
    cut = api.make('cut', T.int())
    for o in _normal(api, api.call(C + 'Writer.add_var_bytes', [w, data, ll], api.st, inline=False), 'write', allow=(ValueError,)):
        buf = api.ns(o.st).f(w, 'bytes')
        o.st.assume(((cut >= S.len_(b0)) & (cut < S.len_(buf))).t)
        short_buf = _prefix(buf, cut)
        p, st = _parser_at(api, o.st, short_buf, S.len_(b0))
        _must_raise(api, api.call(C + 'Parser.getVarBytes', [p, ll], st, inline=False), 'parse-truncated', DecodeError)


@scenario('truncated-var-list-rejected', PROP,
          doc='every strict prefix of the encoding written by addVarSeq makes getVarList raise DecodeError')
def trunc_varlist(api):
    w, b0 = _writer(api)
    seq, n, ll = api.make('seq', T.ints()), api.make('n', T.int(1, None)), api.make('ll', T.int(0, None))
    cut = api.make('cut', T.int())
    for o in _normal(api, api.call(C + 'Writer.addVarSeq', [w, seq, n, ll], api.st, inline=False), 'write', allow=(ValueError,)):
        buf = api.ns(o.st).f(w, 'bytes')
        o.st.assume(((cut >= S.len_(b0)) & (cut < S.len_(buf))).t)
        short_buf = _prefix(buf, cut)
        p, st = _parser_at(api, o.st, short_buf, S.len_(b0))
        _must_raise(api, api.call(C + 'Parser.getVarList', [p, n, ll], st, inline=False), 'parse-truncated', DecodeError)


@scenario('declared-length-must-match', PROP,
          doc='setLengthCheck(m); getVarBytes(ll); stopLengthCheck() succeeds iff m == ll + len(body): trailing bytes inside '
              'a length-delimited structure, or an inner length overrunning the outer one, are DecodeErrors')
def length_check_exact(api):
    p = api.make('p', PARSER)
    m, ll = api.make('m', T.int()), api.make('ll', T.int(0, None))
    ns0 = api.ns(api.st)
    api.st.assume(p_inv_of(ns0, p).t)
    i0 = ns0.f(p, 'index')
    for o in _normal(api, api.call(C + 'Parser.setLengthCheck', [p, m], api.st, inline=False), 'set'):
        for o2 in _normal(api, api.call(C + 'Parser.getVarBytes', [p, ll], o.st, inline=False), 'body', allow=(DecodeError,)):
            body = o2.val
            for o3 in api.call(C + 'Parser.stopLengthCheck', [p], o2.st, inline=False):
                exact = (m == ll + S.len_(body))
                if o3.kind == 'normal':
                    api.oblige(o3.st, 'accepted-only-if-exact', exact)
                else:
                    api.oblige(o3.st, 'rejected-only-if-mismatch', S.Not(exact))
                    api.oblige(o3.st, 'rejection-is-DecodeError', issubclass(o3.val.cls, DecodeError))


def p_inv_of(ns, p):
    return S.And(ns.f(p, 'index') >= 0, ns.f(p, 'index') <= S.len_(ns.f(p, 'bytes')))


for _p in PROP:
    REG.xchecks.append({'prop': _p, 'module': 'specs.codec', 'name': 'writer_primitives', 'function': C + 'Writer.add'})
    REG.xchecks.append({'prop': _p, 'module': 'specs.codec', 'name': 'parser_primitives', 'function': C + 'Parser.get'})
    REG.xchecks.append({'prop': _p, 'module': 'specs.codec', 'name': 'codec_roundtrip', 'function': C + 'Parser.getVarList'})

REG.note('C15', 'assumptions', 'Parser methods: requires 0 <= index <= len(bytes) (established by Parser.__init__, preserved by every '
         'method: proved) and non-negative length arguments, element size >= 1 for getVarList/getVarTupleList (all call sites pass '
         'positive literals or values returned by get())')
REG.note('C15', 'assumptions', 'Writer sequence methods: requires length >= 0 and lengthLength >= 0; elements are Python ints '
         '(a non-int element raises TypeError/struct.error-as-ValueError outside the model)')
REG.note('C08', 'assumptions', 'Parser contracts: the only exception that can leave any Parser method is DecodeError (a SyntaxError subclass), '
         'under the same preconditions as for C15')
REG.note('C15', 'trusted', 'frame conditions ("only self.bytes / self.index changes") are checked on the executor heap: every other field of a '
         'pre-existing object holds the same term or a provably equal value')
