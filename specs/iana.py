"""Independent reading of IANA TLS cipher-suite names (property C20).

`parse(name)` turns a registered name

    TLS_<KX>[_<AUTH>]_WITH_<CIPHER>[_<KEYBITS>][_<MODE>][_<HASH>]   (SSL 3.0 .. TLS 1.2)
    TLS_<AEAD-CIPHER>_<HASH>                                         (TLS 1.3, RFC 8446 B.4)

into the meaning the defining RFCs give to it.  Nothing here looks at
tlslite's classification lists: the only inputs are the name string and the
rules below, each with the RFC it is taken from.

 key exchange / authentication (RFC 5246 A.5 and 7.4.2, RFC 4492 2, RFC 5054 2.7)
   RSA          RSA key transport, RSA certificate
   DH_DSS/DH_RSA      static DH,  DSS / RSA certificate
   DHE_DSS/DHE_RSA    ephemeral DH, signed with DSS / RSA
   DH_anon      ephemeral DH, nobody authenticated
   ECDH_ECDSA/ECDH_RSA   static ECDH
   ECDHE_ECDSA/ECDHE_RSA ephemeral ECDH, signed with ECDSA / RSA
   ECDH_anon    ephemeral ECDH, nobody authenticated
   SRP_SHA      SRP, no certificate;  SRP_SHA_RSA / SRP_SHA_DSS: SRP + signed with RSA / DSS
 bulk cipher (RFC 5246 appendix C table; RFC 5288 3; RFC 6655 3, 6.1; RFC 7905 2)
   NULL           stream, key 0, IV 0
   RC4_128        stream, key 16, IV 0
   3DES_EDE_CBC   block 8,  key 24 (168 effective bits), IV 8
   AES_128_CBC    block 16, key 16, IV 16;  AES_256_CBC key 32
   AES_n_GCM      AEAD, key n/8, fixed (implicit) IV 4, explicit nonce 8, tag 16
   AES_n_CCM      AEAD, key n/8, fixed IV 4, explicit nonce 8, tag 16
   AES_n_CCM_8    as CCM with tag 8
   CHACHA20_POLY1305  AEAD, key 32, fixed IV 12, no explicit nonce, tag 16
 MAC (RFC 5246 appendix C): MD5 16, SHA 20, SHA256 32, SHA384 48; AEAD suites have no MAC
   (RFC 5246 6.2.3.3) -- the trailing hash of an AEAD suite name is the PRF hash only
   (RFC 5288 3, RFC 5289 3.2).
 PRF in TLS 1.2 (RFC 5246 5 and 1.2; RFC 5289 3): P_SHA256 unless the suite says otherwise;
   the *_SHA384 suites (CBC_SHA384 and GCM_SHA384) use P_SHA384; CCM suites without a
   hash suffix use SHA-256 (RFC 6655 3).  TLS 1.3: trailing hash = HKDF hash (RFC 8446 B.4).
 versions: AEAD suites and suites with a SHA256/SHA384 MAC "MUST NOT be negotiated in
   older versions of TLS" (RFC 5288 4, RFC 5289 4, RFC 6655 3, RFC 7905 3, RFC 5246 A.5 for
   the SHA256 MACs): TLS 1.2 only.  TLS 1.3 names: TLS 1.3 only (RFC 8446 B.4: the 1.3
   suites "cannot be used for TLS 1.2" and the older ones "cannot be used with TLS 1.3").  MD5/SHA MAC suites: every
   version SSL 3.0 .. TLS 1.2.
   (Reading choice, recorded as an assumption by the callers: the RFC 3268 / 4492 / 5054
   suites were specified for TLS 1.0+, but SSL 3.0 stacks negotiate them with the SSLv3
   MAC/KDF unchanged; like the property statement's rule list we do not treat SSL 3.0
   as "not defining" them.)
 `*_draft_00` names are not in the IANA registry: pre-RFC 7905 code points
   (draft-ietf-tls-chacha20-poly1305-00).  They are parsed like the cipher they name and
   flagged `registered=False`; their fixed-IV length (4) is the draft's, not an RFC's.
"""
import collections

SSL3, TLS10, TLS11, TLS12, TLS13 = (3, 0), (3, 1), (3, 2), (3, 3), (3, 4)
ALL_VERSIONS = (SSL3, TLS10, TLS11, TLS12, TLS13)

Suite = collections.namedtuple('Suite', [
    'name',
    'kind',          # 'tls' (SSL3..TLS1.2 suite) | 'tls13' | 'scsv' | 'ssl2'
    'registered',    # False for the *_draft_00 private code points
    'kx',            # 'RSA' 'DH' 'DHE' 'ECDH' 'ECDHE' 'SRP' | 'TLS13' | None
    'auth',          # 'RSA' 'DSS' 'ECDSA' 'anon' 'SRP' (password only) | 'TLS13' | None
    'ephemeral',     # key exchange uses ephemeral (EC)DH
    'cert_expected',  # the server sends a Certificate message (RFC 5246 7.4.2)
    'cipher',        # 'AES' '3DES' 'RC4' 'NULL' 'CHACHA20'
    'key_bits',      # nominal: 128 / 256 / 168 / 0
    'key_len',       # bytes of key material
    'mode',          # 'CBC' 'GCM' 'CCM' 'CCM_8' 'POLY1305' 'STREAM'
    'ctype',         # 'block' 'stream' 'aead'
    'block_size',    # cipher block size for CBC suites else 0
    'iv_len',        # bytes of IV taken from the key block (<= TLS 1.2) / 12 for TLS 1.3
    'mac',           # 'MD5' 'SHA' 'SHA256' 'SHA384' | None for AEAD
    'mac_len',       # bytes of MAC key == MAC output; 0 for AEAD
    'tag_len',       # AEAD tag bytes; 0 otherwise
    'prf',           # 'SHA256' | 'SHA384': TLS 1.2 PRF hash / TLS 1.3 HKDF hash
    'prf_len',       # 32 | 48
    'versions',      # tuple of protocol versions in which the suite is defined
])

_NONE = dict(registered=True, kx=None, auth=None, ephemeral=False, cert_expected=False, cipher=None, key_bits=0,
             key_len=0, mode=None, ctype=None, block_size=0, iv_len=0, mac=None, mac_len=0, tag_len=0, prf=None,
             prf_len=0, versions=())

# <KX>[_<AUTH>] part, upper-cased (the registry spells DH_anon / ECDH_anon in mixed case)
_KX = {
    'RSA': ('RSA', 'RSA', False),
    'DH_DSS': ('DH', 'DSS', False),
    'DH_RSA': ('DH', 'RSA', False),
    'DHE_DSS': ('DHE', 'DSS', True),
    'DHE_RSA': ('DHE', 'RSA', True),
    'DH_ANON': ('DHE', 'anon', True),          # RFC 5246 F.1.1.3 / 7.4.3: fresh parameters, unauthenticated
    'ECDH_ECDSA': ('ECDH', 'ECDSA', False),
    'ECDH_RSA': ('ECDH', 'RSA', False),
    'ECDHE_ECDSA': ('ECDHE', 'ECDSA', True),
    'ECDHE_RSA': ('ECDHE', 'RSA', True),
    'ECDH_ANON': ('ECDHE', 'anon', True),      # RFC 4492 2.5: ephemeral keys, no signature
    'SRP_SHA': ('SRP', 'SRP', False),
    'SRP_SHA_RSA': ('SRP', 'RSA', False),
    'SRP_SHA_DSS': ('SRP', 'DSS', False),
}
_MAC_LEN = {'MD5': 16, 'SHA': 20, 'SHA256': 32, 'SHA384': 48}
_HASHES = ('MD5', 'SHA', 'SHA256', 'SHA384')


class NameError_(ValueError):
    pass


def _cipher(tokens, name):
    """tokens of <CIPHER>[_<KEYBITS>][_<MODE>] -> dict"""
    t = list(tokens)
    if t == ['NULL']:
        return dict(cipher='NULL', key_bits=0, key_len=0, mode='STREAM', ctype='stream', block_size=0, iv_len=0,
                    tag_len=0)
    if t == ['RC4', '128']:
        return dict(cipher='RC4', key_bits=128, key_len=16, mode='STREAM', ctype='stream', block_size=0, iv_len=0,
                    tag_len=0)
    if t == ['3DES', 'EDE', 'CBC']:
        return dict(cipher='3DES', key_bits=168, key_len=24, mode='CBC', ctype='block', block_size=8, iv_len=8,
                    tag_len=0)
    if len(t) >= 3 and t[0] == 'AES' and t[1] in ('128', '256'):
        bits = int(t[1])
        mode = t[2:]
        if mode == ['CBC']:
            return dict(cipher='AES', key_bits=bits, key_len=bits // 8, mode='CBC', ctype='block', block_size=16,
                        iv_len=16, tag_len=0)
        if mode == ['GCM']:
            return dict(cipher='AES', key_bits=bits, key_len=bits // 8, mode='GCM', ctype='aead', block_size=0,
                        iv_len=4, tag_len=16)
        if mode == ['CCM']:
            return dict(cipher='AES', key_bits=bits, key_len=bits // 8, mode='CCM', ctype='aead', block_size=0,
                        iv_len=4, tag_len=16)
        if mode == ['CCM', '8']:
            return dict(cipher='AES', key_bits=bits, key_len=bits // 8, mode='CCM_8', ctype='aead', block_size=0,
                        iv_len=4, tag_len=8)
    if t == ['CHACHA20', 'POLY1305']:
        return dict(cipher='CHACHA20', key_bits=256, key_len=32, mode='POLY1305', ctype='aead', block_size=0,
                    iv_len=12, tag_len=16)
    raise NameError_('cipher part %r of %s not understood' % ('_'.join(tokens), name))


def parse(name):
    """IANA name -> Suite.  Raises NameError_ for a name that fits none of the
    registered shapes (so a new, unreadable entry cannot pass silently)."""
    if name.startswith('SSL_CK_'):
        return Suite(name=name, kind='ssl2', **_NONE)
    if name.startswith('TLS_') and name.endswith('_SCSV'):
        return Suite(name=name, kind='scsv', **_NONE)
    if not name.startswith('TLS_'):
        raise NameError_('not a TLS suite name: %s' % name)
    body = name[len('TLS_'):]
    registered = True
    if body.endswith('_draft_00'):
        registered = False
        body = body[:-len('_draft_00')]
    if body.count('_WITH_') == 1:
        kind = 'tls'
        kxpart, rest = body.split('_WITH_')
        if kxpart.upper() not in _KX:
            raise NameError_('key exchange %r of %s not understood' % (kxpart, name))
        kx, auth, ephemeral = _KX[kxpart.upper()]
    elif '_WITH_' not in body:
        kind = 'tls13'
        rest = body
        kx, auth, ephemeral = 'TLS13', 'TLS13', True
    else:
        raise NameError_('two _WITH_ in %s' % name)
    toks = rest.split('_')
    hash_tok = toks.pop() if toks and toks[-1] in _HASHES else None
    c = _cipher(toks, name)
    if c['ctype'] == 'aead':
        mac, mac_len = None, 0
        if hash_tok is None:
            if kind == 'tls13':
                raise NameError_('TLS 1.3 suite without hash: %s' % name)
            prf = 'SHA256'                    # RFC 6655 3 (and the draft-00 ChaCha20 code points)
        elif hash_tok in ('SHA256', 'SHA384'):
            prf = hash_tok
        else:
            raise NameError_('AEAD suite with hash %s: %s' % (hash_tok, name))
    else:
        if kind == 'tls13':
            raise NameError_('TLS 1.3 suite with a non-AEAD cipher: %s' % name)
        if hash_tok is None:
            raise NameError_('MAC suite without hash: %s' % name)
        mac, mac_len = hash_tok, _MAC_LEN[hash_tok]
        prf = 'SHA384' if hash_tok == 'SHA384' else 'SHA256'
    if kind == 'tls13':
        versions = (TLS13,)
        c = dict(c, iv_len=12)                # RFC 8446 5.3: iv_length = max(8, N_MIN) = 12 for all five
    elif c['ctype'] == 'aead' or mac in ('SHA256', 'SHA384'):
        versions = (TLS12,)
    else:
        versions = (SSL3, TLS10, TLS11, TLS12)
    if not registered and c['cipher'] == 'CHACHA20':
        c = dict(c, iv_len=4)                 # draft-00: 4-byte fixed part || 8-byte sequence number
    cert_expected = kind == 'tls' and auth in ('RSA', 'DSS', 'ECDSA')
    return Suite(name=name, kind=kind, registered=registered, kx=kx, auth=auth, ephemeral=ephemeral,
                 cert_expected=cert_expected, mac=mac, mac_len=mac_len, prf=prf,
                 prf_len={'SHA256': 32, 'SHA384': 48}[prf], versions=versions, **c)


# ---------------------------------------------------------------------------
# bridge to the vocabulary of HandshakeSettings (cipherNames / macNames /
# keyExchangeNames are documented there; the strings are tlslite's, the
# meaning attached to each string is the IANA one)

def cipher_name(s):
    """HandshakeSettings.cipherNames word for the suite's bulk cipher."""
    if s.kind not in ('tls', 'tls13'):
        return None
    if s.cipher == 'AES':
        return 'aes%d%s' % (s.key_bits, {'CBC': '', 'GCM': 'gcm', 'CCM': 'ccm', 'CCM_8': 'ccm_8'}[s.mode])
    if s.cipher == 'CHACHA20':
        return 'chacha20-poly1305' if s.registered else 'chacha20-poly1305_draft00'
    return {'3DES': '3des', 'RC4': 'rc4', 'NULL': 'null'}[s.cipher]


def mac_name(s):
    """HandshakeSettings.macNames word: hash of the HMAC, or 'aead'."""
    if s.kind not in ('tls', 'tls13'):
        return None
    if s.ctype == 'aead':
        return 'aead'
    return s.mac.lower()


def hmac_name(s):
    """Session.getMacName: 'name of the HMAC hash algo used', None when there is no HMAC."""
    if s.kind not in ('tls', 'tls13') or s.ctype == 'aead':
        return None
    return s.mac.lower()


_KXNAME = {('RSA', 'RSA'): 'rsa', ('DHE', 'RSA'): 'dhe_rsa', ('DHE', 'DSS'): 'dhe_dsa',
           ('ECDHE', 'RSA'): 'ecdhe_rsa', ('ECDHE', 'ECDSA'): 'ecdhe_ecdsa',
           ('SRP', 'SRP'): 'srp_sha', ('SRP', 'RSA'): 'srp_sha_rsa',
           ('DHE', 'anon'): 'dh_anon', ('ECDHE', 'anon'): 'ecdh_anon'}


def kx_name(s):
    """HandshakeSettings.keyExchangeNames word, None when the settings
    vocabulary has no word for it (static (EC)DH, SRP_SHA_DSS: not implemented)."""
    if s.kind != 'tls':
        return None
    return _KXNAME.get((s.kx, s.auth))


def prf_name(s):
    return None if s.prf is None else s.prf.lower()


def negotiable(s):
    """Can a handshake of this library end with this suite?  TLS 1.3 suites
    and the <= 1.2 suites whose key exchange has a keyExchangeNames word."""
    return s.kind == 'tls13' or (s.kind == 'tls' and kx_name(s) is not None)


#: Suites that have an ietfNames entry and a key-exchange list entry but are in NO MAC class list of the library
#: (sha/sha256/sha384/md5/aead), so no settings can make any get*Suites wrapper return them: the library cannot
#: negotiate them and the properties (which quantify over negotiable suites) say nothing about them.  Fixed by
#: name here, so that a change which makes ANOTHER suite unreachable is still reported.
NEVER_OFFERED = frozenset(['TLS_DHE_DSS_WITH_AES_128_CBC_SHA256', 'TLS_DHE_DSS_WITH_AES_256_CBC_SHA256'])


def defined_in(s, version):
    return tuple(version) in s.versions


def min_version(s):
    return min(s.versions) if s.versions else None


def factory_name(s):
    """Name of the tlslite.utils.cipherfactory constructor that builds this
    bulk cipher (None: no encryption)."""
    if s.kind not in ('tls', 'tls13'):
        return None
    if s.cipher == 'AES':
        return {'CBC': 'createAES', 'GCM': 'createAESGCM', 'CCM': 'createAESCCM', 'CCM_8': 'createAESCCM_8'}[s.mode]
    return {'3DES': 'createTripleDES', 'RC4': 'createRC4', 'NULL': None, 'CHACHA20': 'createCHACHA20'}[s.cipher]


def table(ietf_names):
    """{id: Suite} for a dict id -> name; raises on any unreadable name."""
    return dict((i, parse(n)) for i, n in ietf_names.items())
