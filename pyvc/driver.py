"""Check driver: `./check <property> [--tier quick|thorough] [--replay file]`.

exit 0  every obligation of the property discharged (known findings printed)
exit 1  VIOLATION: an obligation is refuted with a failing input replayed on the
        real code, or an obligation recorded as proved for the pinned tree
        (baseline_obligations.json) no longer discharges
exit 2  undecided (unsupported construct, new obligation that does not discharge)
exit 3  checker crash / vacuity guard failed
"""
import argparse
import concurrent.futures as cf
import hashlib
import importlib
import json
import multiprocessing as mp
import os
import subprocess
import sys
import time
import traceback

HERE = os.path.dirname(os.path.dirname(os.path.abspath(__file__)))
VENV_PY = '/venv/bin/python'


def _prop_modules(prop):
    from contracts import PROPS
    return PROPS.get(prop, [])


def _worker(args):
    modnames, key, budget_ms = args
    t0 = time.time()
    _log = os.environ.get('VERIF_TASKLOG')
    if _log:
        with open(_log, 'a') as f:
            f.write('start %d %s\n' % (os.getpid(), key))
    try:
        for m in modnames:
            importlib.import_module(m)
        from pyvc.contract import REG
        from pyvc import smt
        smt.prove_bit_lemmas()
        from pyvc import spec
        smt.axioms_consistency_selftest(spec.consistency_witnesses())
        task = REG.task(key)
        # termination guard: z3 can sit in a check that ignores its resource limit until the stage's wall-clock cap;
        # past this point the task's remaining obligations are reported undecided instead of keeping the check alive
        smt.DEADLINE[0] = time.time() + (600 if budget_ms <= 120000 else 3600)
        results, meta = task.verify(REG, budget_ms)
        meta['wall_s'] = time.time() - t0
        meta['solver'] = dict(smt.STATS)
        if _log:
            with open(_log, 'a') as f:
                f.write('end %d %s %.1f\n' % (os.getpid(), key, time.time() - t0))
        return key, results, meta, None
    except Exception as e:
        from pyvc.values import Unsupported
        kind = 'unsupported' if isinstance(e, Unsupported) else 'crash'
        return key, [], {'wall_s': time.time() - t0}, (kind, '%s: %s' % (type(e).__name__, e), traceback.format_exc())


def _child(conn, args):
    try:
        from pyvc import smt
        smt.HEARTBEAT[0] = lambda cap: conn.send(('hb', cap))
        conn.send(_worker(args))
    finally:
        conn.close()


SILENCE_MIN = 240.0      # a worker is presumed stuck when it has been silent for SILENCE_MIN seconds outside a solver call, or
                         # for 1.5 * cap + 30 seconds inside a solver call whose wall-clock cap is `cap` (the solver's own timer
                         # should have ended that call at `cap`)


def _task_limits(prop, tasks, tier):
    """wall-clock limit per task attempt: from the time the task took when the baseline was recorded (generous factor:
    the verification harness was measured about three times slower than the machine the baseline was recorded on)"""
    cap = 1000.0 if tier == 'quick' else 5400.0     # (the worker itself stops posing queries after 600 s / 3600 s)
    return dict((k, cap) for k in tasks)


def _run_tasks(ctx, nproc, jobs, limits, attempts=3):
    """One process per task (a reused worker would accumulate the modules of earlier tasks).  z3 was observed to sit in a
    single check() that honours neither its resource limit nor its timeout (same task: 8 s in most runs); a worker that
    exceeds its limit is killed and the task is started again in a fresh process, at most `attempts` times; a task
    that never returns is reported as a checker problem (exit 3), never as a violation."""
    pending = [(j, 1) for j in jobs]
    running = {}         # key -> (process, conn, t0, job, attempt)
    beats = {}           # key -> (time of the last heartbeat, wall-clock cap of the solver call it announced)
    out = {}
    while pending or running:
        while pending and len(running) < nproc:
            job, att = pending.pop(0)
            a, b = ctx.Pipe(duplex=False)
            pr = ctx.Process(target=_child, args=(b, job))
            # a restarted task gets another hash seed: the order in which facts reach z3 changes, and with it z3's luck
            os.environ['PYTHONHASHSEED'] = str(att - 1)
            pr.start()
            b.close()
            running[job[1]] = (pr, a, time.time(), job, att)
            beats[job[1]] = (time.time(), 0.0)
        time.sleep(0.05)
        for key in list(running):
            pr, conn, t0, job, att = running[key]
            done = False
            while not done and conn.poll():
                try:
                    msg = conn.recv()
                except EOFError:
                    break
                if isinstance(msg, tuple) and len(msg) == 2 and msg[0] == 'hb':
                    beats[key] = (time.time(), msg[1])
                    continue
                k, results, meta, err = msg
                meta['attempts'] = att
                out[k] = (results, meta, err)
                done = True
            if not done and not pr.is_alive() and not conn.poll():
                out[key] = ([], {'wall_s': time.time() - t0, 'attempts': att},
                            ('crash', 'worker process ended without a result (exit code %s)' % pr.exitcode, ''))
                done = True
            lb, lcap = beats.get(key, (t0, 0.0))
            silent = time.time() - lb
            stuck = silent > (SILENCE_MIN if not lcap else max(60.0, 1.5 * lcap + 30.0))
            if not done and (stuck or time.time() - t0 > limits.get(key, 1000.0)):
                pr.kill()
                pr.join(5)
                conn.close()
                del running[key]
                if att < attempts:
                    print('  task %s: no sign of life for %.0f s after %.0f s (attempt %d): worker killed, task restarted' % (key, silent, time.time() - t0, att))
                    pending.append((job, att + 1))
                else:
                    out[key] = ([], {'wall_s': time.time() - t0, 'attempts': att},
                                ('crash', 'no result in %d attempts (solver call not returning: silent for %.0f s)' % (att, silent), ''))
                continue
            if done:
                pr.join(5)
                if pr.is_alive():
                    pr.kill()          # (interpreter exit can hang on z3 objects; the result is already here)
                conn.close()
                del running[key]
    return out


def load_json(path, default):
    try:
        with open(path) as f:
            return json.load(f)
    except (IOError, ValueError):
        return default


def run_check(prop, tier, seed, replay=None, update_baseline=False):
    t_start = time.time()
    os.chdir(HERE)
    sys.path.insert(0, HERE)
    modnames = _prop_modules(prop)
    if not modnames:
        print('no contracts registered for %s' % prop)
        return 3
    from pyvc.contract import REG
    # every task is verified in a process that has loaded only the module that registered it (plus whatever
    # that module imports itself): contract modules register global models and hooks, and a task must not
    # change its meaning because another area's module happens to serve the same property
    owner = {}
    for m in modnames:
        before = set(REG.task_keys())
        importlib.import_module(m)
        for k in set(REG.task_keys()) - before:
            # the module whose own top-level code registered the task (a module of this property may merely import it,
            # e.g. contracts.links); the worker then loads that module only -- plus contracts.links when the task is
            # listed under this property through a link
            owner[k] = REG.origin.get(k) or m
    tasks = [k for k in REG.task_keys() if prop in REG.task(k).prop]
    skipped = []
    if tier == 'quick':
        from contracts import QUICK_SKIP
        skipped = [k for k in tasks if REG.task(k).name in QUICK_SKIP]
        tasks = [k for k in tasks if k not in skipped]
    if not tasks:
        print('property %s: zero verification tasks -- vacuous, refusing to report success' % prop)
        return 3
    budget = 120000 if tier == "quick" else 300000
    nproc = min(16, len(tasks), os.cpu_count() or 4)
    ctx = mp.get_context('spawn')
    out = _run_tasks(ctx, nproc, [([owner.get(k, modnames[0])], k, budget) for k in tasks],
                     _task_limits(prop, tasks, tier))

    known = load_json(os.path.join(HERE, 'known_findings.json'), {'findings': []})['findings']
    baseline = load_json(os.path.join(HERE, 'baseline_obligations.json'), {})
    base_prop = set((baseline.get(prop) or {}).get('tasks', []))    # tasks fully discharged on the pinned tree

    all_results = []
    crashes, unsupported = [], []
    functions = []
    solver_s = 0.0
    backends = {}
    assumptions = set()
    for key in tasks:
        results, meta, err = out[key]
        if err is not None:
            (unsupported if err[0] == 'unsupported' else crashes).append((key, err))
            continue
        all_results.extend(results)
        if meta.get('qual'):
            functions.append({'function': meta['qual'], 'sha256': meta.get('sha256'), 'contract': meta.get('contract'),
                              'paths': meta.get('paths'), 'inlined': meta.get('inlined'), 'opaque': meta.get('opaque')})
        for a in meta.get('assumptions', []):
            assumptions.add(a)
        for i in meta.get('inlined', []):
            assumptions.add('inlined from real source (verified as part of caller): ' + i)
        for o in meta.get('opaque', []):
            assumptions.add('opaque callee (result unconstrained, assumed to raise nothing undeclared): ' + o)
        solver_s += meta.get('solver', {}).get('z3_s', 0) + meta.get('solver', {}).get('cvc5_s', 0)

    for r in all_results:
        backends[r['backend'] or '?'] = backends.get(r['backend'] or '?', 0) + 1
    proved = [r for r in all_results if r['verdict'] == 'proved']
    refuted = [r for r in all_results if r['verdict'] == 'refuted']
    undecided = [r for r in all_results if r['verdict'] == 'undecided']

    # concrete cross-check (real function vs executable spec) under the test-suite interpreter
    xres = run_crosschecks(prop, tier, seed)
    for x in xres:
        if x.get('error'):
            crashes.append(('crosscheck:' + x['name'], ('crash', 'cross-check harness failed', x['error'])))

    violations = []
    known_hit = []
    exit_code = 0
    os.makedirs(os.path.join(HERE, 'replays'), exist_ok=True)

    def record_violation(r, why, failing_input=None):
        name = r['obligation'].replace('/', '_').replace(':', '_').replace(' ', '_')[:150]
        path = os.path.join('replays', '%s-%s.json' % (prop, name))
        with open(os.path.join(HERE, path), 'w') as f:
            json.dump({'property': prop, 'obligation': r['obligation'], 'function': r.get('qual'),
                       'why': why, 'verdict': r['verdict'], 'backend': r.get('backend'),
                       'solver_reason': r.get('reason'), 'solver_model': r.get('model'),
                       'path_trace': r.get('trace'), 'failing_input': failing_input}, f, indent=1, default=str)
        violations.append((r, path, failing_input))

    # failing inputs found by the concrete cross-check are violations by themselves
    for x in xres:
        unlisted = []
        for fail in x.get('failures', []):
            k = match_known(known, prop, fail)
            if k is not None:
                if not any(k is kk for kk, _ in known_hit):
                    known_hit.append((k, fail))
                continue
            unlisted.append(fail)
        if unlisted:
            r = {'obligation': '%s::crosscheck' % x['name'], 'qual': x.get('function'), 'verdict': 'refuted',
                 'backend': 'cpython', 'reason': unlisted[0].get('what'), 'model': None, 'trace': None}
            record_violation(r, 'real function disagrees with the executable specification', unlisted)

    unproved = refuted + undecided
    excused = []
    for r in unproved:
        fail = find_failing_input(r, xres)
        if r['kind'] == 'vacuity':
            crashes.append((r['obligation'], ('vacuity', 'vacuity guard failed: %s' % r['obligation'], '')))
            continue
        k_ob = known_for_obligation(known, prop, r['obligation'])
        if k_ob is not None:
            # listed obligation of a known finding: excused (and announced), nothing else of that function is
            excused.append((r, k_ob))
            if not any(k_ob is kk for kk, _ in known_hit):
                known_hit.append((k_ob, fail or {}))
            continue
        if r['verdict'] == 'refuted' or r['contract'] in base_prop:
            why = 'obligation refuted by the solver' if r['verdict'] == 'refuted' else \
                'every obligation of this contract was discharged on the pinned tree; this one no longer discharges (%s)' % (r.get('reason') or 'unknown')
            if not any(v[0]['obligation'] == r['obligation'] for v in violations):
                record_violation(r, why, fail)
        else:
            exit_code = max(exit_code, 2)

    for k, fail in known_hit:
        print('KNOWN-FINDING: property=%s %s [%s]' % (prop, k['what'], k['id']))

    for (r, path, fail) in violations:
        suffix = '' if fail is not None else ' no-failing-input-found'
        print('VIOLATION property=%s replay=%s obligation=%s%s' % (prop, path, r['obligation'], suffix))
    if violations:
        exit_code = 1
    if unsupported and exit_code == 0:
        exit_code = 2
    if crashes:
        exit_code = 3 if exit_code != 1 else 1

    # obligations of a function for which a listed known finding has a failing input are reported apart:
    # they are not discharged and not counted (the finding's input class is the carve-out)
    n_ob = len([r for r in all_results]) - len(excused)
    n_dis = len(proved)
    for (r, k) in excused:
        assumptions.add('CARVE-OUT known finding %s: obligation %s is not discharged (function %s has the listed failing '
                        'input; any other violation in that function would also be masked for this obligation)'
                        % (k['id'], r['obligation'], r.get('qual')))
    ev = {
        'property_id': prop, 'tier': tier, 'seed': seed, 'level': 'proof',
        'coverage': {
            'obligations': n_ob, 'discharged': n_dis,
            'checker_cmd': './check %s --tier %s' % (prop, tier),
            'trusted_base': sorted(assumptions) + REG.trusted_for(prop),
            'functions_under_contract': functions,
            'backends': backends, 'solver_s': round(solver_s, 2),
            'undecided': [r['obligation'] for r in undecided],
            'refuted': [r['obligation'] for r in refuted],
            'unsupported': [{'task': k, 'reason': e[1]} for k, e in unsupported],
            'crashes': [{'task': str(k), 'reason': e[1]} for k, e in crashes],
            'bounded': xres,
            'known_findings_hit': [k['id'] for k, _ in known_hit],
            'obligations_excused_by_known_findings': [{'obligation': r['obligation'], 'finding': k['id'], 'verdict': r['verdict']}
                                                      for (r, k) in excused],
            'not_built': REG.not_built_for(prop),
            'tasks_run_in_thorough_tier_only': [REG.task(k).name for k in skipped],
            'slowest_obligations': [{'obligation': r['obligation'], 's': r['s'], 'backend': r['backend'],
                                     'rlimit_used': r.get('rlimit_used'), 'rlimit_cap': r.get('rlimit_cap')}
                                    for r in sorted(all_results, key=lambda r: -(r.get('rlimit_used') or 0))[:8]],
            'samples': [{'obligation': r['obligation'], 'kind': r['kind'], 'verdict': r['verdict'],
                         'backend': r['backend'], 's': r['s']} for r in all_results[:12]],
        },
        'assumptions': REG.assumptions_for(prop),
        'wall_s': round(time.time() - t_start, 2),
        'violations': len(violations),
    }
    # (seed runs redirect the evidence so that they do not overwrite the evidence of the unchanged tree)
    evdir = os.environ.get('VERIF_EVIDENCE_DIR') or os.path.join(HERE, 'evidence')
    os.makedirs(evdir, exist_ok=True)
    with open(os.path.join(evdir, '%s.json' % prop), 'w') as f:
        json.dump(ev, f, indent=1, default=str)

    print('%s [%s]: %d obligations, %d discharged, %d refuted, %d undecided; %d functions under contract; '
          'solver %.1fs; wall %.1fs; exit %d'
          % (prop, tier, n_ob, n_dis, len(refuted), len(undecided), len(functions), solver_s,
             time.time() - t_start, exit_code))
    slow = sorted(((out[k][1].get('wall_s', 0), k) for k in tasks), reverse=True)[:12]
    print('  slowest tasks: ' + '; '.join('%s %.0fs' % (k.split(':')[-1][-60:], w) for w, k in slow))
    for k, e in unsupported:
        print('  UNDECIDED (unsupported construct) %s: %s' % (k, e[1]))
    for k, e in crashes:
        print('  CHECKER PROBLEM %s: %s' % (k, e[1]))
        if e[2]:
            print(e[2])
    for r in undecided:
        print('  undecided: %s (%s)' % (r['obligation'], r.get('reason')))

    if update_baseline and exit_code == 0:
        bad_tasks = set(r['contract'] for r in all_results if r['verdict'] != 'proved')
        names = sorted(set(r['contract'] for r in all_results) - bad_tasks)
        baseline[prop] = {'tasks': names, 'obligations': len(proved),
                          'wall_s': dict((k, round(v[1].get('wall_s', 0.0), 1)) for k, v in out.items())}
        with open(os.path.join(HERE, 'baseline_obligations.json'), 'w') as f:
            json.dump(baseline, f, indent=0, sort_keys=True)
        print('baseline updated: %d fully discharged tasks (%d obligations) for %s' % (len(names), len(proved), prop))
    return exit_code


def known_for_obligation(known, prop, obligation):
    import re
    name = re.sub(r'\(raise line \d+\)|@L\d+', '', obligation)
    for k in known:
        if k.get('status') != 'known' or k['property'] != prop:
            continue
        for pre in k.get('obligations', []):
            if name.startswith(pre):
                return k
    return None


def match_known(known, prop, fail):
    for k in known:
        if k.get('status') != 'known' or k['property'] != prop:
            continue
        if k.get('match') and fail.get('class') == k['match']:
            return k
    return None


def find_failing_input(r, xres):
    """A concrete failing input for the function this obligation belongs to."""
    for x in xres:
        if x.get('function') == r.get('qual') and x.get('failures'):
            return x['failures'][0]
    return None


def run_crosschecks(prop, tier, seed):
    """Executable-spec vs real-code differential runs (bounded stand-in and
    counterexample search).  Run under /venv/bin/python, one process each."""
    from pyvc.contract import REG
    res = []
    jobs = REG.crosschecks_for(prop)
    if not jobs:
        return res
    n = 300 if tier == 'quick' else 5000

    def one(job):
        cmd = [VENV_PY, os.path.join(HERE, 'specs', 'xcheck.py'), job['module'], job['name'], str(seed), str(n)]
        env = dict(os.environ)
        env['PYTHONPATH'] = os.environ.get('VERIF_REPO', '/repo') + ':' + HERE
        try:
            p = subprocess.run(cmd, capture_output=True, text=True, timeout=600 if tier == 'quick' else 3000,
                               env=env, cwd=HERE)
            lines = [l for l in p.stdout.strip().split('\n') if l.startswith('{')]
            d = json.loads(lines[-1]) if lines else {'error': (p.stderr or p.stdout)[-2000:]}
        except subprocess.TimeoutExpired:
            d = {'error': 'timeout'}
        d.update({'name': job['name'], 'function': job.get('function'), 'label': 'bounded'})
        return d
    with cf.ThreadPoolExecutor(max_workers=8) as tp:
        res = list(tp.map(one, jobs))
    return res


def main():
    ap = argparse.ArgumentParser()
    ap.add_argument('prop')
    ap.add_argument('--tier', default=os.environ.get('VERIF_TIER', 'quick'))
    ap.add_argument('--replay')
    ap.add_argument('--update-baseline', action='store_true')
    a = ap.parse_args()
    seed = int(os.environ.get('VERIF_SEED', '0'))
    if a.replay:
        from pyvc import replay
        sys.exit(replay.run(a.prop, a.replay))
    try:
        rc = run_check(a.prop, a.tier, seed, update_baseline=a.update_baseline)
    except Exception:
        traceback.print_exc()
        rc = 3
    sys.stdout.flush()
    os._exit(rc)


if __name__ == '__main__':
    main()
