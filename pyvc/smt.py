"""SMT layer of pyvc: sorts, the axiomatised integer-sequence ("Bytes") theory,
the bit-operation lemma library and the solver front end (z3 first, cvc5 CLI
for z3's unknowns).

Sequences of ints (bytes, bytearray, list of int) are NOT encoded with z3's
native Seq theory (measured: unstable / unknown on simple padding lemmas) but
as an uninterpreted sort `Seq` with `slen`, `sat` and constructor functions
defined by quantified axioms with explicit triggers.  The intended model is
finite integer sequences; all axioms below are true in it, so any `unsat`
(= proved) answer is valid for real Python byte strings.  Equality of
sequences in *goals* is expanded extensionally (see `seq_eq_goal`).
"""
import os
import subprocess
import tempfile
import time

import z3

Seq = z3.DeclareSort('ISeq')
Val = z3.DeclareSort('PyVal')          # opaque Python values (M2 mode)
I = z3.IntSort()
B = z3.BoolSort()

slen = z3.Function('slen', Seq, I)
sat = z3.Function('sat', Seq, I, I)
isb = z3.Function('isb', Seq, B)            # every element in 0..255
s_empty = z3.Const('s_empty', Seq)
s_concat = z3.Function('s_concat', Seq, Seq, Seq)
s_slice = z3.Function('s_slice', Seq, I, I, Seq)   # normalised 0<=lo<=hi<=len
s_single = z3.Function('s_single', I, Seq)
s_rep = z3.Function('s_rep', I, I, Seq)            # value, count (count >= 0)
s_upd = z3.Function('s_upd', Seq, I, I, Seq)       # seq, index, value
s_xor = z3.Function('s_xor', Seq, Seq, Seq)        # element-wise xor of equal-length byte seqs
s_be = z3.Function('s_be', I, I, Seq)              # big-endian encoding: value, nbytes
s_diff = z3.Function('s_diff', Seq, Seq, I)        # extensionality witness

# integer bit operations in "lemma mode" (see bit_lemmas)
bxor = z3.Function('bxor', I, I, I)
band = z3.Function('band', I, I, I)
bor = z3.Function('bor', I, I, I)
pow2 = z3.Function('pow2', I, I)


def _ax():
    a, b, c = z3.Consts('a b c', Seq)
    i, j, k, x, n, lo, hi = z3.Ints('i j k x n lo hi')
    A = []

    def fa(vs, body, pats):
        A.append(z3.ForAll(vs, body, patterns=pats))

    fa([a], slen(a) >= 0, [slen(a)])
    A.append(slen(s_empty) == 0)
    A.append(isb(s_empty))
    fa([a, i], z3.Implies(z3.And(isb(a), 0 <= i, i < slen(a)),
                          z3.And(0 <= sat(a, i), sat(a, i) <= 255)), [sat(a, i)])
    # concat
    fa([a, b], slen(s_concat(a, b)) == slen(a) + slen(b), [s_concat(a, b)])
    fa([a, b, i], sat(s_concat(a, b), i) ==
       z3.If(i < slen(a), sat(a, i), sat(b, i - slen(a))), [sat(s_concat(a, b), i)])
    fa([a, b], isb(s_concat(a, b)) == z3.And(isb(a), isb(b)), [s_concat(a, b)])
    # slice (arguments already normalised by the executor: 0<=lo<=hi<=len)
    fa([a, lo, hi], z3.Implies(z3.And(0 <= lo, lo <= hi, hi <= slen(a)),
                               slen(s_slice(a, lo, hi)) == hi - lo), [s_slice(a, lo, hi)])
    fa([a, lo, hi, i], z3.Implies(z3.And(0 <= lo, 0 <= i, i < hi - lo),
                                  sat(s_slice(a, lo, hi), i) == sat(a, lo + i)),
       [sat(s_slice(a, lo, hi), i)])
    fa([a, lo, hi], z3.Implies(isb(a), isb(s_slice(a, lo, hi))), [s_slice(a, lo, hi)])
    # single
    fa([x], z3.And(slen(s_single(x)) == 1, sat(s_single(x), 0) == x,
                   isb(s_single(x)) == z3.And(0 <= x, x <= 255)), [s_single(x)])
    # rep
    fa([x, n], z3.Implies(n >= 0, slen(s_rep(x, n)) == n), [s_rep(x, n)])
    fa([x, n, i], z3.Implies(z3.And(0 <= i, i < n), sat(s_rep(x, n), i) == x),
       [sat(s_rep(x, n), i)])
    fa([x, n], z3.Implies(z3.And(0 <= x, x <= 255), isb(s_rep(x, n))), [s_rep(x, n)])
    # upd
    fa([a, i, x], slen(s_upd(a, i, x)) == slen(a), [s_upd(a, i, x)])
    # guarded: an update at an out-of-range index is the identity (otherwise two updates of the same
    # sequence outside its range would be extensionally equal yet differ at that index)
    fa([a, i, x, j], sat(s_upd(a, i, x), j) == z3.If(z3.And(j == i, 0 <= i, i < slen(a)), x, sat(a, j)),
       [sat(s_upd(a, i, x), j)])
    fa([a, i, x], z3.Implies(z3.And(isb(a), 0 <= x, x <= 255), isb(s_upd(a, i, x))),
       [s_upd(a, i, x)])
    # xor (defined for equal lengths; length of result = length of first)
    fa([a, b], z3.And(slen(s_xor(a, b)) == slen(a),
                      z3.Implies(z3.And(isb(a), isb(b)), isb(s_xor(a, b)))), [s_xor(a, b)])
    fa([a, b, i], sat(s_xor(a, b), i) == bxor(sat(a, i), sat(b, i)), [sat(s_xor(a, b), i)])
    # big-endian encoding of value x on n bytes (only meaningful for 0 <= x < 256**n)
    fa([x, n], z3.Implies(n >= 0, z3.And(slen(s_be(x, n)) == n, isb(s_be(x, n)))), [s_be(x, n)])
    # byte i of be(x, n) is floor(x / 256**(n-1-i)) mod 256; stated with pow2 so that the
    # exponent stays symbolic only when needed; for literal n the executor expands bytes itself.
    fa([x, n, i], z3.Implies(z3.And(0 <= i, i < n, n - 1 - i >= 0),
                             z3.And(0 <= sat(s_be(x, n), i), sat(s_be(x, n), i) <= 255)),
       [sat(s_be(x, n), i)])
    return A


AXIOMS = _ax()

# --- big-endian integer encoding with a symbolic number of bytes (codec layer) ---
# Intended model: pow256(n) = 256**n for n >= 0; s_be(x, n)[i] = floor(x / 256**(n-1-i)) mod 256
# (for every integer x); s_val(a) = sum a[i] * 256**(len(a)-1-i).  All axioms below are true in it.
pow256 = z3.Function('pow256', I, I)
s_val = z3.Function('s_val', Seq, I)               # big-endian value of a sequence
BE_EXPLICIT = 8                                    # lengths with element-wise definitions


def _be_axioms():
    a = z3.Const('a', Seq)
    x, n = z3.Ints('x n')
    A = []
    for k in range(0, 17):
        A.append(pow256(z3.IntVal(k)) == z3.IntVal(256 ** k))
    A.append(z3.ForAll([n], z3.Implies(n >= 0, pow256(n) >= 1), patterns=[pow256(n)]))
    A.append(z3.ForAll([n], z3.Implies(n >= 17, pow256(n) >= z3.IntVal(256 ** 17)), patterns=[pow256(n)]))
    for k in range(0, BE_EXPLICIT + 1):
        kk = z3.IntVal(k)
        t = s_be(x, kk)
        A.append(z3.ForAll([x], z3.And([slen(t) == k] +
                                       [sat(t, i) == (x / z3.IntVal(256 ** (k - 1 - i))) % 256 for i in range(k)]),
                           patterns=[t]))
        tot = z3.IntVal(0)
        for i in range(k):
            tot = tot + sat(a, i) * z3.IntVal(256 ** (k - 1 - i))
        A.append(z3.ForAll([a], z3.Implies(slen(a) == k, s_val(a) == tot), patterns=[s_val(a)]))
    # decode(encode(x)) == x when x fits
    A.append(z3.ForAll([x, n], z3.Implies(z3.And(n >= 0, 0 <= x, x < pow256(n)), s_val(s_be(x, n)) == x),
                       patterns=[s_be(x, n)]))
    # range of a decoded byte string, and encode(decode(a)) == a
    A.append(z3.ForAll([a], z3.Implies(isb(a), z3.And(0 <= s_val(a), s_val(a) < pow256(slen(a)))),
                       patterns=[s_val(a)]))
    # stated element-wise on purpose: a Seq-level equality here would identify sequences that agree on
    # 0..len-1 but not on out-of-range `sat` terms (s_upd at an out-of-range index) -> inconsistent
    i = z3.Int('i')
    A.append(z3.ForAll([a, i], z3.Implies(z3.And(isb(a), 0 <= i, i < slen(a)),
                                          sat(s_be(s_val(a), slen(a)), i) == sat(a, i)),
                       patterns=[sat(s_be(s_val(a), slen(a)), i)]))
    # s_val depends only on the length and the in-range elements (skolemised extensionality, witness s_diff)
    b = z3.Const('b', Seq)
    d = s_diff(a, b)
    A.append(z3.ForAll([a, b], z3.Or(s_val(a) == s_val(b), slen(a) != slen(b),
                                     z3.And(0 <= d, d < slen(a), sat(a, d) != sat(b, d))),
                       patterns=[z3.MultiPattern(s_val(a), s_val(b))]))
    return A


BE_AXIOMS = _be_axioms()
AXIOMS.extend(BE_AXIOMS)
_BE_IDS = set(a.get_id() for a in BE_AXIOMS)
_BE_SYMS = ('s_be', 's_val', 'pow256')


def active_axioms(formulas):
    """AXIOMS without the big-endian group when no formula mentions s_be / s_val / pow256 (the group only
    constrains these three symbols; dropping axioms can only make fewer things provable).  Keeps the
    quantifier load of unrelated obligations (and of the mbqi fallback) as before."""
    acc, seen = set(), set()
    for f in formulas:
        _symbols(f, acc, seen)
        if any(n in acc for n in _BE_SYMS):
            return AXIOMS
    return [a for a in AXIOMS if a.get_id() not in _BE_IDS]

s_nonbyte = z3.Function('s_nonbyte', Seq, I)


def nonbyte_witness(t):
    """Sound instance for a sequence known NOT to satisfy isb (isb = every element in 0..255): some
    in-range element is outside 0..255."""
    w = s_nonbyte(t)
    return z3.Or(isb(t), z3.And(0 <= w, w < slen(t), z3.Or(sat(t, w) < 0, sat(t, w) > 255)))


def ext_pair_instances(formulas, pairs, limit=150):
    """pairs: list of (f_name, pos, g_name[, gpos]).  For every ground application
    f(.., X, ..) (X at `pos`) and every ground application G = g(...) the
    instance `X == Y or observably different`, Y being G itself (gpos None) or
    G's argument at gpos.  Lets axioms such as Dec(k,s,Enc(k,s,p)) == p fire
    when the arguments are only extensionally equal."""
    if not pairs:
        return []
    pairs = [tuple(p) + (None,) * (4 - len(p)) for p in pairs]
    fn_names = set(p[0] for p in pairs)
    gn_names = set(p[2] for p in pairs)
    fapps, gapps = {}, {}
    seen = set()
    cache = {}

    def walk(e):
        k = e.get_id()
        if k in seen:
            return
        seen.add(k)
        if z3.is_quantifier(e):
            walk(e.body())
            return
        if z3.is_app(e):
            nm = e.decl().name()
            if not _has_var(e, cache):
                if nm in fn_names:
                    fapps.setdefault(nm, {})[e.get_id()] = e
                if nm in gn_names:
                    gapps.setdefault(nm, {})[e.get_id()] = e
            for c in e.children():
                walk(c)
    for f in formulas:
        walk(f)
    out = []
    done = set()
    for (fn, pos, gn, gpos) in pairs:
        for fa in fapps.get(fn, {}).values():
            x = fa.arg(pos)
            for ga in gapps.get(gn, {}).values():
                y = ga if gpos is None else ga.arg(gpos)
                key = (x.get_id(), y.get_id())
                if x.get_id() == y.get_id() or key in done:
                    continue
                done.add(key)
                out.append(ext_witness_eq(x, y))
                if len(out) >= limit:
                    return out
    return out


def _has_var(e, cache):
    k = e.get_id()
    if k in cache:
        return cache[k]
    if z3.is_var(e):
        r = True
    elif z3.is_quantifier(e):
        r = True          # do not look for ground terms across nested binders
    else:
        r = any(_has_var(c, cache) for c in e.children())
    cache[k] = r
    return r


EXT_PARTIAL = set()     # names of functions whose ground Seq arguments are collected even from non-ground applications


def ext_instances(formulas, funcs, limit=300):
    """Extensionality instances for registered uninterpreted functions over
    Seq: for every pair of ground applications f(.., a, ..), f(.., b, ..)
    occurring in `formulas`, the (sound) instance
        a == b  or  len(a) != len(b)  or  a[d] != b[d] for the witness d.
    `funcs` is a list of (function, sorts, seq_arg_position)."""
    if not funcs:
        return []
    want = {}
    for (f, sorts, pos) in funcs:
        want.setdefault(f.name(), []).append(pos)
    found = {}
    seen = set()
    cache = {}

    def walk(e):
        k = e.get_id()
        if k in seen:
            return
        seen.add(k)
        if z3.is_quantifier(e):
            walk(e.body())
            return
        if z3.is_app(e):
            nm = e.decl().name()
            if nm in want and not _has_var(e, cache):
                for pos in want[nm]:
                    found.setdefault((nm, pos), {})[e.arg(pos).get_id()] = e.arg(pos)
            elif nm in want and nm in EXT_PARTIAL:
                # opt-in: application under a quantifier (e.g. f(k, iv, p, j) with j bound) whose
                # sequence argument itself is ground
                for pos in want[nm]:
                    if not _has_var(e.arg(pos), cache):
                        found.setdefault((nm, pos), {})[e.arg(pos).get_id()] = e.arg(pos)
            for c in e.children():
                walk(c)
    for f in formulas:
        walk(f)
    out = []
    for key, args in found.items():
        ts = list(args.values())
        for i in range(len(ts)):
            for j in range(i + 1, len(ts)):
                out.append(ext_witness_eq(ts[i], ts[j]))
                if len(out) >= limit:
                    return out
    return out


def seq_eq_atoms_witnesses(formulas, limit=200):
    """For every ground equality atom between sequences occurring in the
    formulas, the sound instance `a == b or observably different`.  Needed
    because native disequality of two sequence terms does not by itself give
    the solver an index at which they differ."""
    out = []
    seen = set()
    done = set()
    cache = {}

    def walk(e):
        k = e.get_id()
        if k in seen:
            return
        seen.add(k)
        if z3.is_quantifier(e):
            return
        if z3.is_app(e):
            if e.decl().kind() in (z3.Z3_OP_EQ, z3.Z3_OP_DISTINCT) and e.num_args() == 2 and e.arg(0).sort() == Seq:
                a, b = e.arg(0), e.arg(1)
                key = (a.get_id(), b.get_id())
                if key not in done and not _has_var(e, cache):
                    done.add(key)
                    out.append(ext_witness_eq(a, b))
            for c in e.children():
                walk(c)
    for f in formulas:
        walk(f)
        if len(out) >= limit:
            break
    return out[:limit]


def seq_eq_goal(x, y, tag=[0]):
    """Extensional form of x == y for use in a goal (to be negated)."""
    tag[0] += 1
    i = z3.Int('ext!%d' % tag[0])
    return z3.And(slen(x) == slen(y),
                  z3.ForAll([i], z3.Implies(z3.And(0 <= i, i < slen(x)), sat(x, i) == sat(y, i))))


def ext_witness_eq(x, y):
    """Sound *assumption-side* instance: x == y or they differ observably."""
    d = s_diff(x, y)
    return z3.Or(x == y, slen(x) != slen(y),
                 z3.And(0 <= d, d < slen(x), sat(x, d) != sat(y, d)))


# ----------------------------------------------------------------------------
# bit-operation lemmas.  Each lemma is a schema over Int terms using the
# uninterpreted bxor/band/bor; before use every schema is proved in bit-vector
# arithmetic of sufficient width (prove_bit_lemmas); an unproved lemma aborts
# the checker.  Operands are required to be in [0, 2^32) by the lemma guards.

LIM = 1 << 32


def _rng(t):
    return z3.And(0 <= t, t < LIM)


def bit_lemma_instances(op, x, y):
    """Instances of the lemma library for one occurrence op(x, y)."""
    L = []
    if op == 'xor':
        r = bxor(x, y)
        L.append(bxor(x, y) == bxor(y, x))
        L.append(z3.Implies(z3.And(_rng(x), _rng(y)), z3.And(_rng(r), (r == 0) == (x == y))))
        L.append(z3.Implies(z3.And(0 <= x, x < 256, 0 <= y, y < 256), z3.And(0 <= r, r < 256)))
        L.append(z3.Implies(z3.And(0 <= x, x < 65536, 0 <= y, y < 65536), z3.And(0 <= r, r < 65536)))
        L.append(z3.Implies(x == 0, r == y))
        L.append(z3.Implies(y == 0, r == x))
        # 1 ^ b for a bit b
        L.append(z3.Implies(z3.And(x == 1, 0 <= y, y <= 1), r == 1 - y))
        L.append(z3.Implies(z3.And(y == 1, 0 <= x, x <= 1), r == 1 - x))
    elif op == 'and':
        r = band(x, y)
        L.append(band(x, y) == band(y, x))
        L.append(z3.Implies(z3.Or(x == 0, y == 0), r == 0))
        L.append(z3.Implies(z3.And(_rng(x), _rng(y)), z3.And(0 <= r, r <= x, r <= y)))
        L.append(z3.Implies(z3.And(0 <= x, x < 256, y == 255), r == x))
        L.append(z3.Implies(z3.And(0 <= y, y < 256, x == 255), r == y))
        L.append(z3.Implies(z3.And(0 <= x, x < 65536, y == 65535), r == x))
        L.append(z3.Implies(z3.And(0 <= y, y < 65536, x == 65535), r == y))
        L.append(z3.Implies(z3.And(_rng(x), y == 1), r == x % 2))
    elif op == 'or':
        r = bor(x, y)
        L.append(bor(x, y) == bor(y, x))
        L.append(z3.Implies(z3.And(_rng(x), _rng(y)),
                            z3.And(_rng(r), r >= x, r >= y, (r == 0) == z3.And(x == 0, y == 0))))
        L.append(z3.Implies(z3.And(0 <= x, x < 256, 0 <= y, y < 256), r < 256))
        L.append(z3.Implies(z3.And(0 <= x, x < 65536, 0 <= y, y < 65536), r < 65536))
        L.append(z3.Implies(x == 0, r == y))
        L.append(z3.Implies(y == 0, r == x))
        L.append(z3.Implies(z3.And(_rng(x), _rng(y), x == y), r == x))
    return L


def axioms_consistency_selftest(extra=()):
    """The axiom set must not prove False, neither alone nor together with a few
    ground witnesses that exercise every constructor (a derivable contradiction
    would make every obligation vacuously 'proved')."""
    s = z3.Solver()
    s.set('timeout', 4000)
    s.set('smt.mbqi', False)
    for a in AXIOMS:
        s.add(a)
    x = z3.Const('w_x', Seq)
    y = z3.Const('w_y', Seq)
    big = s_single(z3.IntVal(300))
    s.add(slen(x) == 3, isb(x), z3.Not(isb(y)), slen(y) == 2)
    terms = [s_concat(x, y), s_concat(y, big), s_slice(x, z3.IntVal(1), z3.IntVal(2)), s_rep(z3.IntVal(7), z3.IntVal(4)),
             s_upd(x, z3.IntVal(0), z3.IntVal(9)), s_xor(x, x), s_be(z3.IntVal(258), z3.IntVal(2)),
             s_be(z3.IntVal(-5), z3.IntVal(2)), s_be(z3.IntVal(70000), z3.IntVal(2)), s_be(s_val(x), z3.IntVal(3)),
             s_be(s_val(y), slen(y)), s_be(z3.Int('w_v'), z3.Int('w_n')), s_single(s_val(s_concat(x, y)))]
    s.add(pow256(z3.Int('w_n')) >= 0)
    for w in (s_upd(s_empty, z3.IntVal(0), z3.IntVal(0)), s_upd(s_empty, z3.IntVal(0), z3.IntVal(255))):
        terms.append(s_be(s_val(w), slen(w)))       # out-of-range update: must not be identified by any axiom
    for t in terms:
        s.add(slen(t) >= 0)
        s.add(sat(t, 0) == sat(t, 0))
    for e in extra:
        s.add(e)
    r = s.check()
    if r == z3.unsat:
        raise RuntimeError('axiom set is inconsistent (proves False)')
    return True


_BIT_LEMMAS_OK = [None]


def prove_bit_lemmas():
    """Prove every schema of bit_lemma_instances in 34-bit signed BV arithmetic
    (operands constrained to [0, 2^32), so no wrap-around can occur)."""
    if _BIT_LEMMAS_OK[0] is not None:
        return _BIT_LEMMAS_OK[0]
    W = 34
    xb, yb = z3.BitVecs('xb yb', W)
    xi, yi = z3.Ints('x y')
    n = 0
    for op, bvop in (('xor', lambda p, q: p ^ q), ('and', lambda p, q: p & q), ('or', lambda p, q: p | q)):
        for lem in bit_lemma_instances(op, xi, yi):
            # translate the Int lemma to BV: substitute function applications
            t = _int_to_bv(lem, {'x': xb, 'y': yb}, W)
            s = z3.Solver()
            s.set('timeout', 20000)
            s.add(z3.ULT(xb, z3.BitVecVal(LIM, W)), z3.ULT(yb, z3.BitVecVal(LIM, W)))
            # lemmas are guarded by ranges, but lemmas like "x == 0 -> r == y" are
            # unguarded: they hold for all ints; in BV we check them on [0,2^32) only
            # and the guards make the others vacuous; unguarded ones are simple identities
            s.add(z3.Not(t))
            r = s.check()
            if r != z3.unsat:
                raise RuntimeError('bit lemma not proved: %s -> %s' % (lem, r))
            n += 1
    _BIT_LEMMAS_OK[0] = n
    return n


def _int_to_bv(e, env, W):
    """Translate a lemma over Int x,y with bxor/band/bor into BV(W)."""
    if z3.is_int_value(e):
        return z3.BitVecVal(e.as_long(), W)
    if z3.is_const(e) and e.decl().kind() == z3.Z3_OP_UNINTERPRETED:
        return env[e.decl().name()]
    k = e.decl().kind()
    ch = [_int_to_bv(c, env, W) for c in e.children()]
    name = e.decl().name()
    if name == 'bxor':
        return ch[0] ^ ch[1]
    if name == 'band':
        return ch[0] & ch[1]
    if name == 'bor':
        return ch[0] | ch[1]
    if k == z3.Z3_OP_AND:
        return z3.And(*ch)
    if k == z3.Z3_OP_OR:
        return z3.Or(*ch)
    if k == z3.Z3_OP_NOT:
        return z3.Not(ch[0])
    if k == z3.Z3_OP_IMPLIES:
        return z3.Implies(ch[0], ch[1])
    if k == z3.Z3_OP_EQ or k == z3.Z3_OP_IFF:
        return ch[0] == ch[1]
    if k == z3.Z3_OP_LE:
        return ch[0] <= ch[1]          # signed; all values in [0,2^32) < 2^33
    if k == z3.Z3_OP_LT:
        return ch[0] < ch[1]
    if k == z3.Z3_OP_GE:
        return ch[0] >= ch[1]
    if k == z3.Z3_OP_GT:
        return ch[0] > ch[1]
    if k == z3.Z3_OP_SUB:
        return ch[0] - ch[1]
    if k == z3.Z3_OP_ADD:
        r = ch[0]
        for c in ch[1:]:
            r = r + c
        return r
    if k == z3.Z3_OP_MOD:
        return z3.SRem(ch[0], ch[1])   # operands non-negative here
    if k == z3.Z3_OP_TRUE:
        return z3.BoolVal(True)
    raise RuntimeError('int_to_bv: unsupported %s' % e)


# ----------------------------------------------------------------------------
# solver front end

class Verdict:
    PROVED = 'proved'
    REFUTED = 'refuted'
    UNDECIDED = 'undecided'


STATS = {'z3_queries': 0, 'z3_s': 0.0, 'cvc5_queries': 0, 'cvc5_s': 0.0}


_RL = [0, None]     # [cumulative rlimit count seen last, consumption of the last check]


HEARTBEAT = [None]     # set by the driver's worker: called with the wall-clock cap (s) of the check that is about to start,
                       # and with 0 when that check has returned (the worker is back in python code)


def beat(cap_s):
    h = HEARTBEAT[0]
    if h is not None:
        try:
            h(float(cap_s))
        except Exception:
            pass


def check_trusted(make_solver, timeout_ms):
    """`solver.check()` under a timeout, guarded against a cancellation race of the installed z3
    (5.1.0): a check that is being cancelled by its timeout timer occasionally answers `unsat`
    (measured: axioms only, timeout 500 ms, 3 spurious unsat in 600 runs, all at 93-95% of the
    timeout; the same deterministic query with 15 s answers unknown).  An `unsat` that arrives in
    the last 40% of its budget is therefore not believed: the query is repeated once with four
    times the budget and accepted only if `unsat` comes back within 60% of that.
    make_solver() must build a fresh solver with everything asserted.
    Returns (result, solver, seconds)."""
    s = make_solver()
    s.set('timeout', int(timeout_ms))
    beat(timeout_ms / 1000.0)
    t0 = time.time()
    r = s.check()
    beat(0)
    dt = time.time() - t0
    try:        # z3's 'rlimit count' is cumulative per context: keep the consumption of this check
        now = s.statistics().get_key_value('rlimit count')
        _RL[1] = now - _RL[0]
        _RL[0] = now
    except Exception:
        _RL[1] = None
    if r == z3.unsat and dt * 1000.0 >= 0.6 * timeout_ms:
        STATS['late_unsat_rechecks'] = STATS.get('late_unsat_rechecks', 0) + 1
        s2 = make_solver()
        s2.set('timeout', int(4 * timeout_ms))
        beat(4 * timeout_ms / 1000.0)
        t1 = time.time()
        r2 = s2.check()
        beat(0)
        dt2 = time.time() - t1
        if r2 == z3.unsat and dt2 * 1000.0 >= 0.6 * 4 * timeout_ms:
            r2 = z3.unknown
        return r2, s2, dt + dt2
    return r, s, dt


_AX_SYMS = [None, -1]


def _symbols(e, acc, seen):
    """names of the uninterpreted symbols of e; returns False when e contains a quantifier"""
    ok = True
    stack = [e]
    while stack:
        t = stack.pop()
        k = t.get_id()
        if k in seen:
            continue
        seen.add(k)
        if z3.is_quantifier(t):
            ok = False
            stack.append(t.body())
            continue
        if z3.is_app(t):
            d = t.decl()
            if d.kind() == z3.Z3_OP_UNINTERPRETED:
                acc.add(d.name())
            if t.sort().kind() == z3.Z3_UNINTERPRETED_SORT:
                acc.add('sort:' + t.sort().name())
            stack.extend(t.children())
    return ok


def independent_of_axioms(formulas):
    """True when the formulas are quantifier-free and mention no symbol (function, constant or sort)
    that occurs in AXIOMS.  Then AXIOMS, being consistent (axioms_consistency_selftest) and only
    constraining their own symbols, can be dropped: validity is unchanged and a `sat` answer is a
    genuine counterexample (finite-domain table facts, pyvc/finite.py)."""
    if _AX_SYMS[1] != len(AXIOMS):
        acc = set()
        seen = set()
        for a in AXIOMS:
            _symbols(a, acc, seen)
        acc.update(('sort:ISeq', 'sort:PyVal'))
        _AX_SYMS[0], _AX_SYMS[1] = acc, len(AXIOMS)
    acc = set()
    seen = set()
    for f in formulas:
        if not _symbols(f, acc, seen):
            return False
    return not (acc & _AX_SYMS[0])


DEADLINE = [None]      # wall-clock time after which a task's remaining obligations are reported undecided (set per worker)


def solve(assumptions, goal, timeout_ms=10000, extra_axioms=(), want_model=True, use_cvc5=True, scale=None):
    """Check validity of (AXIOMS and assumptions) => goal.
    Returns (verdict, model_or_None, info)."""
    if DEADLINE[0] is not None and time.time() > DEADLINE[0]:
        return Verdict.UNDECIDED, None, {'backend': 'none', 's': 0.0, 'reason': 'task wall-clock limit reached'}
    if not extra_axioms and independent_of_axioms(list(assumptions) + [goal]):
        def mk0():
            sv = z3.Solver()
            for a in assumptions:
                sv.add(a)
            sv.add(z3.Not(goal))
            return sv
        r0, s0, dt0 = check_trusted(mk0, timeout_ms)
        STATS['z3_queries'] += 1
        STATS['z3_s'] += dt0
        if r0 == z3.unsat:
            return Verdict.PROVED, None, {'backend': 'z3(ground)', 's': dt0}
        if r0 == z3.sat:
            return Verdict.REFUTED, (s0.model() if want_model else None), {'backend': 'z3(ground)', 's': dt0}
    # portfolio with escalating time slices: pattern-based instantiation only
    # (mbqi off: fast on the axiomatised sequence theory) and z3's default
    # configuration (mbqi on: sometimes proves what e-matching alone misses and
    # can produce definite models); cheap slices first so that verdicts do not
    # depend on how busy the machine is.
    def mk(mbqi):
        sv = z3.Solver()
        if not mbqi:
            sv.set('smt.mbqi', False)
        for a in active_axioms(list(assumptions) + [goal] + list(extra_axioms)):
            sv.add(a)
        for a in extra_axioms:
            sv.add(a)
        for a in assumptions:
            sv.add(a)
        sv.add(z3.Not(goal))
        return sv
    # The slices are z3 RESOURCE limits (rlimit, deterministic: about 1-2.5 million units per second on this
    # machine), not wall-clock times, so that a verdict cannot flip because the machine is busy; the wall-clock
    # timeout is only a distant safety net.  timeout_ms scales the limits (120 s == factor 1).
    f = max(0.25, timeout_ms / 120000.0)
    if scale is not None:
        # contract option 'rlimit_scale': explicit factor on the resource limits, no floor.  Used by tasks that
        # are expected NOT to prove (known findings) so that they give up quickly; a smaller limit can only
        # turn 'proved' into 'undecided', never the other way round.
        f = float(scale)
        use_cvc5 = use_cvc5 and f >= 0.25
    stages = [(False, int(4e6 * f)), (True, int(1.5e7 * f)), (False, int(5e7 * f)), (True, int(5e7 * f))]
    # wall-clock safety net per stage (generous: discharged obligations use a small fraction of their resource
    # limit); without it an exhausted stage can take very long because rlimit units are not proportional to time
    walls = [int(30000 * f), int(60000 * f), int(120000 * f), int(120000 * f)]
    total = 0.0
    cand = None
    reason = None
    last = None
    for si, (mbqi, rl) in enumerate(stages):
        def mk_rl(mbqi=mbqi, rl=rl):
            sv = mk(mbqi)
            sv.set('rlimit', rl)
            return sv
        r, sv, dt = check_trusted(mk_rl, walls[si])
        total += dt
        STATS['z3_queries'] += 1
        STATS['z3_s'] += dt
        name = 'z3(mbqi)' if mbqi else 'z3'
        if r == z3.unsat:
            used = _RL[1]
            return Verdict.PROVED, None, {'backend': name, 's': total, 'rlimit_used': used, 'rlimit_cap': rl}
        if r == z3.sat:
            return Verdict.REFUTED, (sv.model() if want_model else None), {'backend': name, 's': total}
        reason = sv.reason_unknown()
        last = sv
        if not mbqi and want_model and cand is None and 'incomplete' in (reason or ''):
            try:
                cand = sv.model()          # candidate model of the e-matching run (needs replay to be believed)
            except z3.Z3Exception:
                cand = None
    if use_cvc5:
        v = _cvc5(last, min(timeout_ms, 10000))
        if v == 'unsat':
            return Verdict.PROVED, None, {'backend': 'cvc5', 's': total}
        if v == 'sat':
            return Verdict.REFUTED, cand, {'backend': 'cvc5', 's': total, 'model_from': 'z3-candidate'}
    return Verdict.UNDECIDED, cand, {'backend': 'z3+cvc5', 's': total, 'reason': reason}


def solve_ground(assumptions, goal, timeout_ms=10000):
    """Validity of assumptions => goal without the sequence-theory axioms."""
    from .values import val_axioms
    s0 = z3.Solver()
    s0.set('timeout', int(timeout_ms))
    for a in val_axioms(list(assumptions) + [goal]):
        s0.add(a)
    for a in assumptions:
        s0.add(a)
    s0.add(z3.Not(goal))
    t0 = time.time()
    beat(60.0)
    r0 = s0.check()
    beat(0)
    dt0 = time.time() - t0
    if r0 == z3.unsat and dt0 > 0.6 * timeout_ms / 1000.0:
        r0 = z3.unknown            # an unsat arriving at the timeout edge is not trusted
    STATS['z3_queries'] += 1
    STATS['z3_s'] += dt0
    if r0 == z3.unsat:
        return Verdict.PROVED, None, {'backend': 'z3(ground)', 's': dt0}
    if r0 == z3.sat:
        return Verdict.REFUTED, None, {'backend': 'z3(ground)', 's': dt0, 'reason': 'countermodel over the opaque abstraction'}
    return Verdict.UNDECIDED, None, {'backend': 'z3(ground)', 's': dt0, 'reason': s0.reason_unknown()}


def _cvc5(solver, timeout_ms):
    if not os.path.exists('/usr/bin/cvc5'):
        return 'unknown'
    txt = solver.to_smt2()
    t0 = time.time()
    with tempfile.NamedTemporaryFile('w', suffix='.smt2', dir=os.environ.get('VERIF_SCRATCH', '/var/tmp'),
                                     delete=False) as f:
        f.write('(set-logic ALL)\n' + txt)
        path = f.name
    try:
        p = subprocess.run(['/usr/bin/cvc5', '--tlimit=%d' % int(timeout_ms), path],
                           capture_output=True, text=True, timeout=timeout_ms / 1000.0 + 5)
        out = p.stdout.strip().split('\n')[0] if p.stdout else 'unknown'
    except subprocess.TimeoutExpired:
        out = 'unknown'
    finally:
        os.unlink(path)
    STATS['cvc5_queries'] += 1
    STATS['cvc5_s'] += time.time() - t0
    return out if out in ('sat', 'unsat') else 'unknown'


def feasible(assumptions, timeout_ms=300, rlimit=None):
    """Quick satisfiability pre-check used only for pruning paths: returns
    False only on a definite unsat."""
    def mk():
        s = z3.Solver()
        s.set('smt.mbqi', False)
        for a in active_axioms(assumptions):
            s.add(a)
        for a in assumptions:
            s.add(a)
        # deterministic resource limit (about 0.3 s at 300 ms): which paths are pruned must not depend on load
        s.set('rlimit', int((rlimit or 1500 * timeout_ms)))
        return s
    r, _, dt = check_trusted(mk, max(20 * timeout_ms, 20000))
    STATS['z3_queries'] += 1
    STATS['z3_s'] += dt
    return r != z3.unsat
