"""C02/C08: RecordLayer._decryptSSL2 -- what an SSLv2-FRAMED record (first byte >= 0x80) can do on a connection.
  * with an AEAD read state it is never accepted (there is no SSLv2 protection for AEAD ciphers; before fix F48 the AEAD object
    was asked to decrypt() and AttributeError left the call);
  * with a MAC context it is returned only if the 16 MAC bytes compared equal to the MAC over data || last 4 sequence bytes;
  * the only ways out are the return, TLSDecryptionFailed and TLSBadRecordMAC."""
import z3

from pyvc.m2 import M2Spec, m2task, fresh_opaque
from pyvc.executor import Outcome
from pyvc.values import VBool, VOpaque, truthy, to_val, v_truthy
from pyvc import smt
from pyvc.contract import REG
from tlslite.errors import TLSBadRecordMAC, TLSDecryptionFailed

Q = 'tlslite/recordlayer.py:RecordLayer._decryptSSL2'
Val = smt.Val
ATTR = lambda n, t: z3.Function('v_attr_' + n, Val, Val)(t)


def h_decrypt(ex, recv, args, kwargs, st, fr, node):
    st.ghost['decrypt_on'] = recv
    # an AEAD object has no decrypt(): reaching this call with one is the defect
    ex.oblige(st, 'decrypt()-is-never-called-on-an-AEAD-cipher-object', z3.Not(v_truthy(ATTR('isAEAD', to_val(recv)))), kind='m2')
    return [Outcome('normal', st, fresh_opaque('decrypted'))]


def h_digest(ex, recv, args, kwargs, st, fr, node):
    r = fresh_opaque('calc_mac')
    st.ghost['calc_mac_src'] = r
    return [Outcome('normal', st, r)]


CALC = []        # terms of bytearray(mac.digest()) (python side: ghost values are merged at joins)


def h_bytearray(ex, recv, args, kwargs, st, fr, node):
    r = fresh_opaque('new_bytearray')
    if args and args[0] is st.ghost.get('calc_mac_src'):
        st.ghost['calc_mac'] = r
        CALC.append(r.t)
    return [Outcome('normal', st, r)]


SPEC = M2Spec(hooks={'decrypt': h_decrypt, 'digest': h_digest, 'bytearray': h_bytearray},
              pure={'getSeqNumBytes', 'copy', 'compatHMAC', 'len', 'update'})


def _check(api):
    ns = api.normal_exits()
    api.oblige(api.entry, 'has-normal-exit', len(ns) >= 1)
    me = api.entry.env['self']
    for k, o in enumerate(ns, 1):
        st = o.st
        rs = api.ex.getattr_(me, '_readState', st, None)[0].val
        enc = to_val(api.ex.getattr_(rs, 'encContext', st, None)[0].val)
        mac = to_val(api.ex.getattr_(rs, 'macContext', st, None)[0].val)
        api.oblige(st, 'exit#%d:never-returns-data-under-an-AEAD-read-state' % k,
                   z3.Not(z3.And(v_truthy(enc), v_truthy(ATTR('isAEAD', enc)))))
        # (the locals of the MAC branch do not survive the join: the comparison is found as the equality atom of the path
        # condition whose one side is the bytearray built from mac.digest())
        atoms = []
        if CALC:
            seen, todo = set(), list(st.pc)
            while todo:
                t = todo.pop()
                if t.get_id() in seen:
                    continue
                seen.add(t.get_id())
                if z3.is_eq(t) and any(a.eq(c) for a in t.children() for c in CALC):
                    atoms.append(t)
                todo.extend(t.children())
        api.oblige(st, 'exit#%d:with-a-MAC-context-the-record-is-returned-only-if-its-MAC-compared-equal' % k,
                   z3.Implies(v_truthy(mac), z3.Or(atoms) if atoms else z3.BoolVal(False)))
    for o in api.raise_exits():
        api.oblige(o.st, 'leaves-only-by-TLSBadRecordMAC-or-TLSDecryptionFailed:%s' % getattr(o.val.cls, '__name__', '?'),
                   o.val.cls in (TLSBadRecordMAC, TLSDecryptionFailed))


m2task('RecordLayer._decryptSSL2/acceptance', ('C02', 'C08'), Q, SPEC, check=_check, opts={'ground_feasible': True},
       doc='an SSLv2-framed record is never accepted under an AEAD read state, is accepted under a MAC context only if its MAC '
           'compared equal, and the function leaves only by return / TLSBadRecordMAC / TLSDecryptionFailed')
REG.note('C02', 'assumptions', '_decryptSSL2: with no cipher and no MAC context (before the first ChangeCipherSpec) SSLv2-framed plaintext '
                               'is accepted by design (SSLv2-compatible ClientHello); after that the gate of _getMsg decides what is admitted')
