"""Bounded stand-in / counterexample finder for C08 'memory in proportion to the bytes received':
CompressedCertificate.parse on zlib streams that inflate to far more than the declared uncompressed length."""
import tracemalloc
import zlib

from tlslite.messages import CompressedCertificate
from tlslite.constants import CertificateType
from tlslite.utils.codec import Parser, Writer
from tlslite.errors import TLSProtocolException


def xcheck_zlib_output_bounded(rng, n):
    fails, ev = [], 0
    for i in range(min(n, 12)):
        inflated = rng.choice([1, 4, 16, 32]) * 1000 * 1000
        declared = rng.choice([0, 1, 100, 1000, 65535])
        bomb = zlib.compress(b'\0' * inflated, 9)
        w = Writer(); w.add(1, 2); w.add(declared, 3); w.add(len(bomb), 3); w.bytes += bomb
        body = Writer(); body.add(len(w.bytes), 3); body.bytes += w.bytes
        c = CompressedCertificate(CertificateType.x509)
        tracemalloc.start()
        what = None
        try:
            c.parse(Parser(body.bytes))
            what = 'accepted a stream of %d bytes although %d were declared' % (inflated, declared)
        except (SyntaxError, TLSProtocolException):
            pass
        except Exception as e:
            what = 'undocumented exception %s' % type(e).__name__
        peak = tracemalloc.get_traced_memory()[1]
        tracemalloc.stop()
        ev += 1
        budget = 16 * (len(body.bytes) + declared) + (1 << 16)
        if what is None and peak > budget:
            what = 'peak allocation %d bytes for %d input bytes declaring %d uncompressed bytes' % (peak, len(body.bytes), declared)
        if what:
            fails.append({'class': 'compressed-certificate-zlib-output-unbounded', 'what': what,
                          'input': {'inflated': inflated, 'declared': declared, 'compressed_len': len(bomb)}})
    return {'evaluations': ev, 'distinct_nontrivial': ev, 'bound': 'zlib streams of 1-32 MB zeros, declared length 0..65535',
            'failures': fails[:5]}


XCHECKS = {'compressed_certificate_zlib_output_bounded': xcheck_zlib_output_bounded}
