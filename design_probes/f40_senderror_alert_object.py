"""F40 (C08): _serverCertKeyExchange handed an Alert OBJECT to _sendError for TLSIllegalParameterException / TLSDecodeError
from makeServerKeyExchange; writing that alert raised AttributeError ('Alert' object has no attribute 'to_bytes').
Input: TLS 1.2 ECDHE, client offers only the uncompressed point format, server is configured with compressed only.
Run with PYTHONPATH=<tree>:/verif; exit 1 = undocumented exception."""
import sys
sys.path.insert(0, '/verif')
from specs.empty_ext import client_hello_bytes, serve
from tlslite.api import HandshakeSettings
from tlslite.constants import ECPointFormat
c = HandshakeSettings(); c.maxVersion = (3, 3); c.ec_point_formats = [ECPointFormat.uncompressed]
body = client_hello_bytes(c)
def srv(st):
    st.maxVersion = (3, 3)
    st.ec_point_formats = [ECPointFormat.ansiX962_compressed_prime]
r = serve(body, srv)
print(r)
sys.exit(1 if r.startswith('UNDOC') else 0)
