"""C14 / C17 (and the C01 / C08 record-length caps): the byte transport under the record layer.

  tlslite/bufferedsocket.py   BufferedSocket.send / sendall / flush / recv / shutdown / close
  tlslite/recordlayer.py      RecordSocket._sockSendAll / _sockRecvAll / _recvHeader / recv / send  (+ round-trip lemma)
  tlslite/integration/asyncstatemachine.py   representation invariant of _checkAssert over all methods
  tlslite/messagesocket.py    MessageSocket.flush / queueMessage (sendRecord assumed)

GHOST TRANSPORT (trusted model of the object the library calls `socket`, class name 'GhostSock'):
  stream : Bytes   everything the peer will ever deliver on this connection, in order (fixed)
  pos    : Int     how much of it the library has taken out of the socket, 0 <= pos <= len(stream)
  sent   : Bytes   everything the socket has accepted from the library, in order
  closed, sent_at_close   set by shutdown()/close(): what had been accepted when the socket was shut
and an ADVERSARIAL SCHEDULE, i.e. every call forks into all of:
  recv(n)      raises socket.error with an arbitrary errno (would-block, reset, ...; nothing consumed)      or
               returns stream[pos:pos+m] for ANY 0 <= m <= min(n, len(stream)-pos), m == 0 only at the end of the
               stream (EOF) or for n == 0; pos += m
  send(d)      raises socket.error (nothing accepted)  or  accepts ANY prefix d[:m], 0 <= m <= len(d), returns m
  sendall(d)   raises socket.error after having accepted ANY prefix of d  or  accepts all of d, returns None
  shutdown/close   raise socket.error  or  mark the socket closed
A contract proved against this model holds for every chunking / partial-accept / would-block / fault schedule:
that is the quantifier of C14 ("all schedules of recv() return sizes, send() partial-accept sizes, EWOULDBLOCK
occurrences") and of C17 ("a transport fault injected at every recv and send call index") in contract form.

Generators are verified with pyvc/gen1.py: what is yielded before completion ("only 0" on the read side, "only 1"
on the write side) is a per-yield-site obligation; the completion value is the last element of `ns.result`.
"""
import errno
import socket

import z3

import tlslite.bufferedsocket as BS
import tlslite.recordlayer as RL
import tlslite.messages as MSG
from tlslite.errors import (TLSAbruptCloseError, TLSRecordOverflow, TLSIllegalParameterException)

from pyvc.contract import contract, scenario, LoopSpec, REG
from pyvc.state import T
from pyvc import spec as S
from pyvc import smt
from pyvc.smt import slen, sat, isb
from pyvc.values import (V, VInt, VBool, VSeq, VNone, VStr, VObj, VPy, VExc, VTuple, VList, Unsupported, fresh_name,
                         truthy, _lift)
from pyvc.executor import Outcome, SpecFn
from pyvc import gen1
from pyvc.gen1 import gen_contract, final_of

R = 'tlslite/recordlayer.py:'
B = 'tlslite/bufferedsocket.py:'

SOCK = 'GhostSock'


# ======================================================================================================
# ghost transport

def sock_t():
    return T.obj(SOCK, stream=T.bytes('bytes'), pos=T.int(0), sent=T.bytes('bytes'), closed=T.bool(),
                 sent_at_close=T.bytes('bytes'))


def _line(node):
    return getattr(node, 'lineno', 0)


def _sock_error(st, what, node):
    e = VInt(z3.Int(fresh_name('errno')))
    return Outcome('raise', st, VExc(socket.error, [e, VStr('transport fault')], '%s line %d' % (what, _line(node))))


class GhostSockModel(object):
    METHODS = ('recv', 'send', 'sendall', 'shutdown', 'close')

    def getattr(self, ex, v, name, st):
        if name in self.METHODS:
            return VPy(SpecFn(getattr(self, 'm_' + name)(v), 'sock.' + name))
        return None

    def m_recv(self, v):
        def f(ex, args, kw, st, fr, node):
            n = ex._as_int(args[0])
            res = []
            ok, bad = ex.split(st, n.t >= 0)
            if bad is not None:
                res.append(ex.raise_(bad, ValueError, 'negative buffersize in sock.recv line %d' % _line(node)))
            if ok is None:
                return res
            res.append(_sock_error(ok.fork(), 'sock.recv', node))
            stream, pos = ok.heap[(v.oid, 'stream')], ok.heap[(v.oid, 'pos')]
            m = z3.Int(fresh_name('recv_m'))
            left = slen(stream.t) - pos.t
            ok.assume(z3.And(0 <= m, m <= n.t, m <= left, z3.Implies(m == 0, z3.Or(n.t == 0, left == 0))))
            chunk = VSeq(smt.s_slice(stream.t, pos.t, pos.t + m), 'byte', 'bytes')
            ok.assume(z3.And(slen(chunk.t) == m, isb(chunk.t)))
            ok.heap[(v.oid, 'pos')] = VInt(z3.simplify(pos.t + m))
            ok.events.append(('sock.recv', [n], chunk))
            res.append(Outcome('normal', ok, chunk))
            return res
        return f

    def m_send(self, v):
        def f(ex, args, kw, st, fr, node):
            d = args[0]
            if not isinstance(d, VSeq):
                raise Unsupported('sock.send(%r)' % (d,))
            res = [_sock_error(st.fork(), 'sock.send', node)]
            sent = st.heap[(v.oid, 'sent')]
            m = z3.Int(fresh_name('send_m'))
            st.assume(z3.And(0 <= m, m <= slen(d.t)))
            st.heap[(v.oid, 'sent')] = VSeq(smt.s_concat(sent.t, smt.s_slice(d.t, z3.IntVal(0), m)), 'byte', 'bytes')
            st.events.append(('sock.send', [d], VInt(m)))
            res.append(Outcome('normal', st, VInt(m)))
            return res
        return f

    def m_sendall(self, v):
        def f(ex, args, kw, st, fr, node):
            d = args[0]
            if not isinstance(d, VSeq):
                raise Unsupported('sock.sendall(%r)' % (d,))
            sent = st.heap[(v.oid, 'sent')]
            bad = st.fork()
            k = z3.Int(fresh_name('sendall_k'))
            bad.assume(z3.And(0 <= k, k <= slen(d.t)))
            bad.heap[(v.oid, 'sent')] = VSeq(smt.s_concat(sent.t, smt.s_slice(d.t, z3.IntVal(0), k)), 'byte', 'bytes')
            res = [_sock_error(bad, 'sock.sendall', node)]
            st.heap[(v.oid, 'sent')] = VSeq(smt.s_concat(sent.t, d.t), 'byte', 'bytes')
            st.events.append(('sock.sendall', [d], VNone()))
            res.append(Outcome('normal', st, VNone()))
            return res
        return f

    def _closing(self, v, what):
        def f(ex, args, kw, st, fr, node):
            res = [_sock_error(st.fork(), 'sock.' + what, node)]
            already = st.heap[(v.oid, 'closed')]
            sent = st.heap[(v.oid, 'sent')]
            old = st.heap[(v.oid, 'sent_at_close')]
            # the FIRST shutdown/close fixes what the peer can still have received
            st.heap[(v.oid, 'sent_at_close')] = VSeq(z3.If(truthy(already), old.t, sent.t), 'byte', 'bytes')
            st.heap[(v.oid, 'closed')] = VBool(z3.BoolVal(True))
            st.events.append(('sock.' + what, list(args), VNone()))
            res.append(Outcome('normal', st, VNone()))
            return res
        return f

    def m_shutdown(self, v):
        return self._closing(v, 'shutdown')

    def m_close(self, v):
        return self._closing(v, 'close')


REG.models[SOCK] = GhostSockModel()


def sock_ok(ns, s):
    return S.And(ns.f(s, 'pos') >= 0, ns.f(s, 'pos') <= S.len_(ns.f(s, 'stream')))


def is_prefix_extension(new, old, of):
    """new == old ++ of[:k] for k = len(new) - len(old)   (quantifier free)"""
    k = S.len_(new) - S.len_(old)
    return S.And(k >= 0, k <= S.len_(of), new[0:S.len_(old)] == old, new[S.len_(old):S.len_(new)] == of[0:k])


def would_block(e):
    return S.Or(e == errno.EWOULDBLOCK, e == errno.EAGAIN)


# ======================================================================================================
# RecordSocket._sockSendAll / _sockRecvAll

def rsock_t(**extra):
    f = {'sock': sock_t()}
    f.update(extra)
    return T.obj(RL.RecordSocket, **f)


def _rs_sock(ns):
    return ns.f(ns.self, 'sock')


def _ssa_inv(ns):
    sk = _rs_sock(ns)
    sent, sent0 = ns.f(sk, 'sent'), ns.old.f(_rs_sock(ns.old), 'sent')
    data, data0 = ns.data, ns.old.data
    d = S.len_(data0) - S.len_(data)
    return S.And(d >= 0, sent == S.cat(sent0, data0[0:d]), data == data0[d:S.len_(data0)])


gen_contract(R + 'RecordSocket._sockSendAll',
             params={'self': rsock_t(), 'data': T.bytes()},
             each=lambda ns, v: v == 1, final='return',
             modifies=[('self.sock', 'sent')],
             ensures=lambda ns: S.And(
                 ns.f(_rs_sock(ns), 'sent') == S.cat(ns.old.f(_rs_sock(ns.old), 'sent'), ns.data),
                 ns.f(_rs_sock(ns), 'pos') == ns.old.f(_rs_sock(ns.old), 'pos')),
             raises={socket.error: None},
             exc_ensures=lambda ns: S.And(
                 is_prefix_extension(ns.f(_rs_sock(ns), 'sent'), ns.old.f(_rs_sock(ns.old), 'sent'), ns.old.data),
                 ns.f(_rs_sock(ns), 'pos') == ns.old.f(_rs_sock(ns.old), 'pos')),
             loops={1: LoopSpec(_ssa_inv, modifies_fields=[('self.sock', 'sent')], fingerprint='1')},
             prop=('C14', 'C17'), cover=True,
             doc='for every partial-accept / would-block schedule the bytes accepted by the socket grow by exactly `data` '
                 '(in order, nothing twice); only 1 ("want write") is yielded before completion; a transport fault leaves '
                 'as socket.error with a prefix of `data` on the wire and nothing else')


def _sra_inv(ns):
    sk = _rs_sock(ns)
    pos, pos0 = ns.f(sk, 'pos'), ns.old.f(_rs_sock(ns.old), 'pos')
    stream = ns.f(sk, 'stream')
    return S.And(pos0 <= pos, pos <= S.len_(stream), pos == pos0 + S.len_(ns.buf), S.len_(ns.buf) < ns.length,
                 ns.buf == stream[pos0:pos], S.is_bytes(ns.buf))


def _sra_post(ns):
    sk0 = _rs_sock(ns.old)
    pos0 = ns.old.f(sk0, 'pos')
    stream = ns.old.f(sk0, 'stream')
    return S.And(final_of(ns) == stream[pos0:pos0 + ns.length],
                 S.len_(final_of(ns)) == ns.length, S.is_bytes(final_of(ns)),
                 ns.f(_rs_sock(ns), 'pos') == pos0 + ns.length,
                 pos0 + ns.length <= S.len_(stream),
                 ns.f(_rs_sock(ns), 'sent') == ns.old.f(sk0, 'sent'))


def _truncated(ns, n):
    """the peer's stream ends less than n bytes after the current position"""
    sk = _rs_sock(ns)
    return S.len_(ns.f(sk, 'stream')) - ns.f(sk, 'pos') < n


def _recv_exc_post(ns):
    """after any raising exit of a receive generator: consumed bytes only move forward inside the stream and
    nothing was written; after TLSAbruptCloseError the stream is exhausted"""
    sk0 = _rs_sock(ns.old)
    pos, pos0 = ns.f(_rs_sock(ns), 'pos'), ns.old.f(sk0, 'pos')
    parts = [pos0 <= pos, pos <= S.len_(ns.old.f(sk0, 'stream')),
             ns.f(_rs_sock(ns), 'sent') == ns.old.f(sk0, 'sent')]
    return S.And(*parts)


gen_contract(R + 'RecordSocket._sockRecvAll',
             params={'self': rsock_t(), 'length': T.int(0)},
             requires=lambda ns: sock_ok(ns, _rs_sock(ns)),
             each=lambda ns, v: v == 0, final='yield', final_type=T.bytes(),
             modifies=[('self.sock', 'pos')],
             ensures=_sra_post,
             raises={TLSAbruptCloseError: lambda ns: _truncated(ns, ns.length),
                     socket.error: None},
             exc_ensures=lambda ns: S.And(_recv_exc_post(ns),
                                          ns.f(_rs_sock(ns), 'pos') - ns.old.f(_rs_sock(ns.old), 'pos') < ns.old.length),
             loops={1: LoopSpec(_sra_inv, modifies_fields=[('self.sock', 'pos')], fingerprint='True')},
             prop=('C14', 'C17'),
             doc='for every chunking / would-block schedule the completion value is exactly the next `length` bytes of the '
                 'peer\'s stream and exactly those are consumed; only 0 ("want read") is yielded before; EOF before `length` '
                 'bytes => TLSAbruptCloseError (only then); other faults leave as socket.error')

for _p in ('C14', 'C17'):
    REG.note(_p, 'trusted', 'ghost transport model (contracts/transport.py GhostSock): the OS socket delivers the peer\'s byte '
                            'stream in order in arbitrary pieces, returns b"" only at end of stream, accepts arbitrary '
                            'prefixes on send, and may raise socket.error with any errno at any call without consuming or '
                            'accepting anything (sendall: after accepting an arbitrary prefix)')
    REG.note(_p, 'trusted', 'pyvc/gen1.py reading of the 0/1 generators: a consumer leaves its loop at the first non-int value '
                            '(all 309 loops over generator calls in /repo follow one of the await idioms, DESIGN 2.1); '
                            'intermediate rounds of a consumer loop see the callee\'s modifies-set havocked')


# ======================================================================================================
# RecordSocket._recvHeader / recv / send
#
# Header formats (RFC 5246 6.2.1; SSL 2.0 draft section 1.1 "record header format"):
#   TLS / SSLv3   type(1) major(1) minor(1) length(2);   a record starts with a TLS header exactly when its first
#                 byte is a TLS content type: 20 change_cipher_spec, 21 alert, 22 handshake, 23 application_data,
#                 24 heartbeat (RFC 6520)
#   SSLv2         2 bytes when the most significant bit of byte 0 is set:  length = ((b0 & 0x7f) << 8) | b1
#                 3 bytes otherwise:  length = ((b0 & 0x3f) << 8) | b1, is-escape = b0 & 0x40, padding = b2
#                 a header whose padding exceeds the length, or with padding and a length that is no multiple of
#                 the block size 8, is malformed
# (contracts.codec / contracts.messages_simple are deliberately NOT imported: loading them changes how Parser / Writer calls
# are resolved in every other module of the same property; the header codecs are small and are inlined from /repo here)

TLS_CONTENT_TYPES = (20, 21, 22, 23, 24)

# When contracts/messages_simple.py is loaded in the same run (e.g. under C08): RecordHeader3.parse returns `self`; its
# contract there describes the fields but gives the RESULT as an opaque value, so the identity "result is the parsed
# header object" would be lost at the call site.  Inside the bodies verified here the 5-statement real body is
# therefore always inlined (Parser.get / Writer.add are used by contract when contracts/codec.py is loaded, inlined
# otherwise: both configurations discharge).
_PREFER_INLINE = {'tlslite/messages.py:RecordHeader3.parse'}
_prev_contract_for = type(REG).contract_for


def _contract_for(self, qual, fr):
    c = getattr(fr, 'contract', None)
    if qual in _PREFER_INLINE and c is not None and getattr(c, 'qual', '').startswith(R + 'RecordSocket.'):
        return None
    return _prev_contract_for(self, qual, fr)


type(REG).contract_for = _contract_for


class HdrView(object):
    """what the bytes at stream[pos:] say when read as a record header (plain arithmetic, from the formats above)"""

    def __init__(self, stream, pos):
        b0, b1, b2, b3, b4 = [stream[pos + k] for k in range(5)]
        self.is_tls = S.Or(*[b0 == t for t in TLS_CONTENT_TYPES])
        self.two_byte = S.And(S.Not(self.is_tls), b0 >= 128)
        self.three_byte = S.And(S.Not(self.is_tls), b0 < 128)
        self.tls_len = b3 * 256 + b4
        self.len2 = (b0 - 128) * 256 + b1
        self.len3 = (b0 % 64) * 256 + b1
        self.pad3 = b2
        self.esc3 = (b0 % 128) >= 64
        self.b = (b0, b1, b2, b3, b4)
        self.hlen = S.ite(self.is_tls, 5, S.ite(b0 >= 128, 2, 3))
        self.length = S.ite(self.is_tls, self.tls_len, S.ite(b0 >= 128, self.len2, self.len3))
        self.padding = S.ite(self.three_byte, self.pad3, 0)
        self.malformed = S.And(self.three_byte,
                               S.Or(self.pad3 > self.len3, S.And(self.pad3 != 0, self.len3 % 8 != 0)))


def _hv(ns_old):
    sk = _rs_sock(ns_old)
    return HdrView(ns_old.f(sk, 'stream'), ns_old.f(sk, 'pos'))


def _hdr_fields_ok(ns, hdr, hv):
    """the header object `hdr` (post-state ns) carries what HdrView says"""
    b0, b1, b2, b3, b4 = hv.b
    try:
        pad_ok = ns.f(hdr, 'padding') == hv.padding
    except Unsupported:                 # an object without `padding` (RecordHeader3) is acceptable only for a TLS header
        pad_ok = hv.is_tls
    return S.And(
        S.implies(hv.is_tls, S.And(ns.f(hdr, 'type') == b0, ns.f(hdr, 'version') == (b1, b2),
                                   ns.f(hdr, 'length') == hv.tls_len, S.Not(ns.f(hdr, 'ssl2')))),
        S.implies(S.Not(hv.is_tls), S.And(ns.f(hdr, 'type') == 22, ns.f(hdr, 'version') == (2, 0), ns.f(hdr, 'ssl2'),
                                          ns.f(hdr, 'length') == hv.length, pad_ok)),
        ns.f(hdr, 'length') >= 0, ns.f(hdr, 'length') < 65536)


HDR_T = T.obj(MSG.RecordHeader, type=T.int(), version=T.tuple(T.int(), T.int()), length=T.int(), ssl2=T.bool(),
              padding=T.int())


def _rh_post(ns):
    hv = _hv(ns.old)
    sk0 = _rs_sock(ns.old)
    pos0 = ns.old.f(sk0, 'pos')
    hdr = final_of(ns)
    return S.And(pos0 + hv.hlen <= S.len_(ns.old.f(sk0, 'stream')),
                 ns.f(_rs_sock(ns), 'pos') == pos0 + hv.hlen,
                 _hdr_fields_ok(ns, hdr, hv),
                 S.Not(hv.malformed),
                 ns.f(_rs_sock(ns), 'sent') == ns.old.f(sk0, 'sent'))


def _pos_delta(ns):
    return ns.f(_rs_sock(ns), 'pos') - ns.old.f(_rs_sock(ns.old), 'pos')


gen_contract(R + 'RecordSocket._recvHeader',
             params={'self': rsock_t()},
             requires=lambda ns: sock_ok(ns, _rs_sock(ns)),
             each=lambda ns, v: v == 0, final='yield', final_type=HDR_T,
             modifies=[('self.sock', 'pos')],
             ensures=_rh_post,
             raises={TLSAbruptCloseError: lambda ns: S.Or(_truncated(ns, 1), _truncated(ns, _hv(ns).hlen)),
                     TLSIllegalParameterException: lambda ns: S.And(S.Not(_truncated(ns, 3)), _hv(ns).malformed),
                     socket.error: None},
             exc_ensures=lambda ns: S.And(_recv_exc_post(ns), _pos_delta(ns) <= 5),
             prop=('C14', 'C17', 'C08'),
             doc='reads exactly one record header for every chunking schedule: 5 bytes when the first byte is a TLS content '
                 'type, else an SSLv2 header of 2 (MSB set) or 3 bytes; fields as the formats say; a malformed SSLv2 '
                 'padding => TLSIllegalParameterException; only 0 yielded before; EOF inside the header => TLSAbruptCloseError')


# --- recv: header, length caps, body -----------------------------------------------------------------------
def _limit(ns):
    return ns.f(ns.self, 'recv_record_limit')


def _overflow(ns, length):
    """RFC 5246 6.2.3: TLSCiphertext.length MUST NOT exceed 2^14 + 2048 (limit + 1024 compression + 1024 protection);
    RFC 8446 5.2 / RFC 8449 4: in TLS 1.3 it MUST NOT exceed the plaintext limit + 256"""
    lim = _limit(ns)
    return S.Or(length > lim + 2048, S.And(ns.f(ns.self, 'tls13record'), length > lim + 256))


def _recv_post(ns):
    hv = _hv(ns.old)
    sk0 = _rs_sock(ns.old)
    pos0 = ns.old.f(sk0, 'pos')
    stream = ns.old.f(sk0, 'stream')
    fin = final_of(ns)
    hdr, body = fin.items[0], fin.items[1]
    n = ns.f(hdr, 'length')
    return S.And(_hdr_fields_ok(ns, hdr, hv), S.Not(hv.malformed),
                 S.Not(_overflow(ns.old, n)),                                  # O-recv-cap
                 S.len_(body) == n,                                              # length field == len(body)
                 body == stream[pos0 + hv.hlen:pos0 + hv.hlen + n],
                 ns.f(_rs_sock(ns), 'pos') == pos0 + hv.hlen + n,                # exactly one record consumed
                 S.is_bytes(body),
                 ns.f(_rs_sock(ns), 'sent') == ns.old.f(sk0, 'sent'))


def _recv_exc(ns):
    base = [_recv_exc_post(ns)]
    if ns.exc is not None and ns.exc.cls is TLSRecordOverflow:
        # rejected BEFORE the body is read: nothing beyond the header was taken from the socket, so the
        # memory held for an oversized record is the header
        base.append(_pos_delta(ns) == _hv(ns.old).hlen)
    return S.And(*base)


gen_contract(R + 'RecordSocket.recv',
             params={'self': rsock_t(recv_record_limit=T.int(0, 1 << 14), tls13record=T.bool())},
             requires=lambda ns: sock_ok(ns, _rs_sock(ns)),
             each=lambda ns, v: v == 0, final='yield', final_type=T.tuple(HDR_T, T.bytes()),
             modifies=[('self.sock', 'pos')],
             ensures=_recv_post,
             raises={TLSRecordOverflow: lambda ns: S.And(S.Not(_truncated(ns, _hv(ns).hlen)),
                                                         _overflow(ns, _hv(ns).length)),
                     TLSAbruptCloseError: lambda ns: S.Or(_truncated(ns, 1), _truncated(ns, _hv(ns).hlen),
                                                          _truncated(ns, _hv(ns).hlen + _hv(ns).length)),
                     TLSIllegalParameterException: lambda ns: S.And(S.Not(_truncated(ns, 3)), _hv(ns).malformed),
                     socket.error: None},
             exc_ensures=_recv_exc,
             prop=('C14', 'C17', 'C01', 'C08'),
             doc='returns exactly the next record (header, body) of the peer\'s stream for every chunking schedule, with '
                 'len(body) == header.length; a declared length above limit+2048 (TLS 1.3 records: limit+256) raises '
                 'TLSRecordOverflow before any body byte is read; truncation => TLSAbruptCloseError; only 0 yielded before')


# --- send: header || body through _sockSendAll -----------------------------------------------------------
MSG_T = T.obj(MSG.Message, contentType=T.int(), data=T.bytes())


def _div(a, k):
    return VInt(_lift(a).t / k)


def _is_ssl2_version(v):
    return S.Or(v == (2, 0), v == (0, 2))


def _send_cases(ns):
    """[(condition, header bytes)] for RecordSocket.send, from the header formats above; ns = entry state"""
    v = ns.f(ns.self, 'version')
    n = S.len_(ns.f(ns.msg, 'data'))
    t = ns.f(ns.msg, 'contentType')
    pad = ns.padding
    ssl2 = _is_ssl2_version(v)
    tls_hdr = S.cat(S.byte(t), S.byte(v[0]), S.byte(v[1]), S.byte(_div(n, 256)), S.byte(n % 256))
    h2 = S.cat(S.byte(_div(n, 256) + 128), S.byte(n % 256))
    h3 = S.cat(S.byte(_div(n, 256)), S.byte(n % 256), S.byte(pad))
    return [(S.Not(ssl2), tls_hdr), (S.And(ssl2, pad == 0), h2), (S.And(ssl2, pad != 0), h3)]


def _send_fits(ns):
    v = ns.f(ns.self, 'version')
    n = S.len_(ns.f(ns.msg, 'data'))
    t = ns.f(ns.msg, 'contentType')
    pad = ns.padding
    byte = lambda x: (x >= 0) & (x <= 255)
    return S.ite(_is_ssl2_version(v),
                 S.ite(pad == 0, n < 0x8000, S.And(n < 0x4000, byte(pad))),
                 S.And(byte(t), byte(v[0]), byte(v[1]), n < 65536))


def _send_post(ns):
    sent, sent0 = ns.f(_rs_sock(ns), 'sent'), ns.old.f(_rs_sock(ns.old), 'sent')
    data = ns.old.f(ns.msg, 'data')
    return S.And(_send_fits(ns.old),
                 *[S.implies(c, sent == S.cat(sent0, h, data)) for (c, h) in _send_cases(ns.old)])


def _send_exc(ns):
    sent, sent0 = ns.f(_rs_sock(ns), 'sent'), ns.old.f(_rs_sock(ns.old), 'sent')
    data = ns.old.f(ns.msg, 'data')
    return S.And(*[S.implies(c, is_prefix_extension(sent, sent0, S.cat(h, data))) for (c, h) in _send_cases(ns.old)])


gen_contract(R + 'RecordSocket.send',
             params={'self': rsock_t(version=T.tuple(T.int(), T.int())), 'msg': MSG_T, 'padding': T.int()},
             each=lambda ns, v: v == 1, final='return',
             modifies=[('self.sock', 'sent')],
             ensures=_send_post,
             raises={ValueError: ('iff', lambda ns: S.Not(_send_fits(ns))), socket.error: None},
             exc_ensures=_send_exc,
             prop=('C14', 'C17', 'C01'),
             doc='puts exactly header || body on the wire for every partial-accept / would-block schedule, the header '
                 'length field being len(body) (TLS: type, version, uint16 length; SSLv2: 2- or 3-byte header); a field '
                 'that does not fit raises ValueError before anything is sent (never a wrapped length); only 1 yielded')


# --- header round trip over the ghost wire (C01: "length == len(body)", type / version preserved) -----------
@scenario('roundtrip-record-socket', ('C01', 'C14'),
          doc='RecordSocket.recv on the receiver returns exactly (type, version, len(body), body) of what RecordSocket.send '
              'put on the sender\'s wire, for every chunking on both sides, whenever the body length is within the '
              'receiver\'s cap; uses the two contracts proved above')
def rt_record_socket(api):
    st = api.st
    ex = api.ex
    snd = api.make('S', rsock_t(version=T.tuple(T.int(0, 255), T.int(0, 255))))
    rcv = api.make('R', rsock_t(recv_record_limit=T.int(0, 1 << 14), tls13record=T.bool()))
    msg = api.make('msg', MSG_T)
    ns = api.ns(st)
    v = ns.f(snd, 'version')
    t = ns.f(msg, 'contentType')
    data = ns.f(msg, 'data')
    lim = ns.f(rcv, 'recv_record_limit')
    rsk, ssk = ns.f(rcv, 'sock'), ns.f(snd, 'sock')
    st.assume(S.And(S.Not(_is_ssl2_version(v)), S.Or(*[t == k for k in TLS_CONTENT_TYPES]),
                    S.len_(data) <= lim + 2048, S.implies(ns.f(rcv, 'tls13record'), S.len_(data) <= lim + 256),
                    ns.f(rsk, 'pos') >= 0, ns.f(rsk, 'pos') <= S.len_(ns.f(rsk, 'stream'))).t)
    sent0 = ns.f(ssk, 'sent')
    pos0 = ns.f(rsk, 'pos')
    stream = ns.f(rsk, 'stream')
    for o in gen1.apply_now(ex, R + 'RecordSocket.send', [snd, msg, VInt(0)], st, api.fr):
        if o.kind != 'normal':
            if issubclass(o.val.cls, ValueError):
                api.unreachable(o.st, 'sender-does-not-reject(%s)' % o.val.origin)
            continue                                        # socket.error: the transport failed, nothing to receive
        ns1 = api.ns(o.st)
        sent1 = ns1.f(ssk, 'sent')
        w = S.len_(sent1) - S.len_(sent0)
        # the wire delivers to the receiver what the sender's socket accepted
        # (stated as stream == already-consumed || accepted-by-the-sender's-socket || whatever follows)
        before = api.make('before', T.bytes(), o.st)
        after = api.make('after', T.bytes(), o.st)
        o.st.assume(S.And(w >= 0, S.len_(before) == pos0,
                          stream == S.cat(before, sent1[S.len_(sent0):S.len_(sent1)], after)).t)
        api.oblige(o.st, 'wire-is-header-plus-body', w == 5 + S.len_(data))
        for o2 in gen1.apply_now(ex, R + 'RecordSocket.recv', [rcv], o.st, api.fr):
            if o2.kind != 'normal':
                if not issubclass(o2.val.cls, socket.error):
                    api.unreachable(o2.st, 'receiver-accepts(%s)' % o2.val.cls.__name__)
                continue
            ns2 = api.ns(o2.st)
            hdr, body = o2.val.items[-1].items
            api.oblige(o2.st, 'type-version-preserved', S.And(ns2.f(hdr, 'type') == t, ns2.f(hdr, 'version') == v,
                                                              S.Not(ns2.f(hdr, 'ssl2'))))
            api.oblige(o2.st, 'length-field-is-body-length', S.And(ns2.f(hdr, 'length') == S.len_(data),
                                                                   S.len_(body) == S.len_(data)))
            api.oblige(o2.st, 'body-equal', S.seq_eq(body, data))
            api.oblige(o2.st, 'exactly-one-record-consumed', ns2.f(rsk, 'pos') == pos0 + w)


# ======================================================================================================
# BufferedSocket
#
# Abstract view:  read_buffer : Bytes  (read ahead, not yet handed out)
#                 write_queue : list of Bytes, held until flush; FLAT(queue) = concatenation in order
# The deque of byte strings is modelled as the heap object 'BytesQueue' (trusted model of collections.deque
# restricted to append / clear / iteration / len, elements byte strings that are not mutated after the append):
#   n : Int  number of elements,   flat : Bytes  their concatenation,
#   off : Int -> Int  start offsets, off[0] = 0, off[k] <= off[k+1], off[n] = len(flat);  element k = flat[off[k]:off[k+1]]
import collections                                       # noqa: E402

QUEUE = 'BytesQueue'
_OffSort = z3.ArraySort(z3.IntSort(), z3.IntSort())


class VArr(V):
    """z3 array kept in a heap field"""

    def __init__(self, t):
        self.t = t

    def fresh_like_(self, base):
        return VArr(z3.Const(fresh_name(base), self.t.sort()))

    def __repr__(self):
        return 'VArr'


def make_queue(name, st, empty=False):
    o = st.alloc(QUEUE)
    if empty:
        st.heap[(o.oid, 'n')] = VInt(0)
        st.heap[(o.oid, 'flat')] = VSeq(smt.s_empty, 'byte', 'bytearray')
        st.heap[(o.oid, 'off')] = VArr(z3.K(z3.IntSort(), z3.IntVal(0)))
        return o
    st.fresh_objs.discard(o.oid)
    n = VInt(z3.Int(fresh_name(name + '.n')))
    flat = VSeq(z3.Const(fresh_name(name + '.flat'), smt.Seq), 'byte', 'bytearray')
    off = VArr(z3.Const(fresh_name(name + '.off'), _OffSort))
    st.assume(z3.And(n.t >= 0, isb(flat.t), z3.Select(off.t, 0) == 0, z3.Select(off.t, n.t) == slen(flat.t)))
    st.heap[(o.oid, 'n')], st.heap[(o.oid, 'flat')], st.heap[(o.oid, 'off')] = n, flat, off
    return o


class TQueue(T):
    def __init__(self):
        T.__init__(self, 'bytesqueue')

    def make(self, name, st, bv=None):
        return make_queue(name, st)


class BytesQueueModel(object):
    def getattr(self, ex, v, name, st):
        if name in ('append', 'clear'):
            return VPy(SpecFn(getattr(self, 'm_' + name)(v), 'deque.' + name))
        return None

    def len(self, ex, v, st):
        return st.heap[(v.oid, 'n')]

    def m_append(self, v):
        def f(ex, args, kw, st, fr, node):
            d = args[0]
            if not (isinstance(d, VSeq) and d.elem == 'byte'):
                raise Unsupported('BytesQueue.append(%r)' % (d,))
            n, flat, off = st.heap[(v.oid, 'n')], st.heap[(v.oid, 'flat')], st.heap[(v.oid, 'off')]
            st.heap[(v.oid, 'n')] = VInt(z3.simplify(n.t + 1))
            st.heap[(v.oid, 'flat')] = VSeq(smt.s_concat(flat.t, d.t), 'byte', 'bytearray')
            st.heap[(v.oid, 'off')] = VArr(z3.Store(off.t, n.t + 1, z3.Select(off.t, n.t) + slen(d.t)))
            return [Outcome('normal', st, VNone())]
        return f

    def m_clear(self, v):
        def f(ex, args, kw, st, fr, node):
            off = st.heap[(v.oid, 'off')]
            st.heap[(v.oid, 'n')] = VInt(0)
            st.heap[(v.oid, 'flat')] = VSeq(smt.s_empty, 'byte', 'bytearray')
            st.heap[(v.oid, 'off')] = VArr(z3.Store(off.t, 0, 0))
            return [Outcome('normal', st, VNone())]
        return f


REG.models[QUEUE] = BytesQueueModel()
REG.class_models[collections.deque] = \
    lambda ex, args, kw, st, fr, node: [Outcome('normal', st, make_queue('deque', st, empty=True))] if not args and not kw \
    else (_ for _ in ()).throw(Unsupported('deque(...) with arguments'))


class _QueueSource(object):
    """loop source (pyvc/iters.py protocol) for `for x in queue`"""
    stateful = False

    def __init__(self, q, st):
        self.q = q
        self.lo, self.hi = VInt(0), st.heap[(q.oid, 'n')]

    def elem_at(self, ex, st, i):
        flat, off = st.heap[(self.q.oid, 'flat')], st.heap[(self.q.oid, 'off')]
        a, b = z3.Select(off.t, i), z3.Select(off.t, i + 1)
        st.assume(z3.And(0 <= a, a <= b, b <= slen(flat.t)))          # instance of the representation invariant
        x = VSeq(smt.s_slice(flat.t, a, b), 'byte', 'bytearray')
        st.assume(isb(x.t))
        return x

    def done(self, ex, st):
        pass

    def static_items(self, ex, st):
        return None


def _queue_provider(ex, v, st):
    if isinstance(v, VObj) and v.cls == QUEUE:
        return _QueueSource(v, st)
    return None


if not hasattr(REG, 'loop_sources'):
    REG.loop_sources = []
REG.loop_sources.append(_queue_provider)


def bsock_t():
    return T.obj(BS.BufferedSocket, socket=sock_t(), _write_queue=TQueue(), buffer_writes=T.bool(),
                 _read_buffer=T.bytes())


def _bs(ns):
    return ns.f(ns.self, 'socket')


def _q(ns):
    return ns.f(ns.self, '_write_queue')


def q_flat(ns):
    return ns.f(_q(ns), 'flat')


def q_n(ns):
    return ns.f(_q(ns), 'n')


def q_off(ns, k):
    return VInt(z3.Select(ns.f(_q(ns), 'off').t, _lift(k).t))


def q_empty(ns):
    return S.And(q_n(ns) == 0, S.len_(q_flat(ns)) == 0)


def q_unchanged(ns):
    return S.And(q_n(ns) == q_n(ns.old), q_flat(ns) == q_flat(ns.old))


def _sock_same(ns, *fields):
    return S.And(*[ns.f(_bs(ns), f) == ns.old.f(_bs(ns.old), f) for f in fields])


def _rb(ns):
    return ns.f(ns.self, '_read_buffer')


_BS_MOD_SEND = [('self.socket', 'sent'), ('self._write_queue', 'n'), ('self._write_queue', 'flat'),
                ('self._write_queue', 'off')]

# --- flush ---------------------------------------------------------------------------------------------------
contract(B + 'BufferedSocket.flush',
         params={'self': bsock_t()},
         result=T.none(), modifies=_BS_MOD_SEND,
         ensures=lambda ns: S.And(ns.f(_bs(ns), 'sent') == S.cat(ns.old.f(_bs(ns.old), 'sent'), q_flat(ns.old)),
                                  q_empty(ns), _rb(ns) == _rb(ns.old), _sock_same(ns, 'pos', 'closed')),
         raises={socket.error: None},
         exc_ensures=lambda ns: S.And(q_empty(ns),          # a failed flush is not retried (e.g. by close())
                                      is_prefix_extension(ns.f(_bs(ns), 'sent'), ns.old.f(_bs(ns.old), 'sent'), q_flat(ns.old)),
                                      _rb(ns) == _rb(ns.old), _sock_same(ns, 'pos', 'closed')),
         loops={1: LoopSpec(lambda ns: S.And(ns.buf == q_flat(ns)[0:q_off(ns, ns.idx)], S.is_bytes(ns.buf)),
                            fingerprint='_write_queue')},
         prop=('C14', 'C17'),
         doc='sends the concatenation of the queued writes, in order, in one sendall; the queue is empty afterwards on '
             'EVERY exit, also when sendall raises (then a prefix of the data is on the wire)')


# --- send / sendall ------------------------------------------------------------------------------------------
def _queued(ns):
    """the queue grew by exactly the element `data`"""
    n0 = q_n(ns.old)
    return S.And(q_n(ns) == n0 + 1, q_flat(ns) == S.cat(q_flat(ns.old), ns.data),
                 q_off(ns, n0 + 1) == q_off(ns.old, n0) + S.len_(ns.data), q_off(ns, n0) == q_off(ns.old, n0))


contract(B + 'BufferedSocket.send',
         params={'self': bsock_t(), 'data': T.bytes()},
         result=T.int(), modifies=_BS_MOD_SEND,
         ensures=lambda ns: S.And(
             S.implies(ns.old.f(ns.self, 'buffer_writes'),
                       S.And(ns.result == S.len_(ns.data), _queued(ns), _sock_same(ns, 'sent', 'pos', 'closed'))),
             S.implies(S.Not(ns.old.f(ns.self, 'buffer_writes')),
                       S.And(ns.result >= 0, ns.result <= S.len_(ns.data), q_unchanged(ns),
                             ns.f(_bs(ns), 'sent') == S.cat(ns.old.f(_bs(ns.old), 'sent'), ns.data[0:ns.result]),
                             _sock_same(ns, 'pos', 'closed'))),
             _rb(ns) == _rb(ns.old)),
         raises={socket.error: lambda ns: S.Not(ns.f(ns.self, 'buffer_writes'))},
         exc_ensures=lambda ns: S.And(q_unchanged(ns), _sock_same(ns, 'sent', 'pos', 'closed'), _rb(ns) == _rb(ns.old)),
         prop=('C14', 'C17'),
         doc='buffer_writes: the data is appended to the queue (nothing sent, reported as fully accepted, cannot fail); '
             'otherwise passed through to the socket unchanged: result = number of bytes the socket accepted')

contract(B + 'BufferedSocket.sendall',
         params={'self': bsock_t(), 'data': T.bytes()},
         result=T.none(), modifies=_BS_MOD_SEND,
         ensures=lambda ns: S.And(
             S.implies(ns.old.f(ns.self, 'buffer_writes'), S.And(_queued(ns), _sock_same(ns, 'sent', 'pos', 'closed'))),
             S.implies(S.Not(ns.old.f(ns.self, 'buffer_writes')),
                       S.And(q_unchanged(ns), ns.f(_bs(ns), 'sent') == S.cat(ns.old.f(_bs(ns.old), 'sent'), ns.data),
                             _sock_same(ns, 'pos', 'closed'))),
             _rb(ns) == _rb(ns.old)),
         raises={socket.error: lambda ns: S.Not(ns.f(ns.self, 'buffer_writes'))},
         exc_ensures=lambda ns: S.And(q_unchanged(ns), _rb(ns) == _rb(ns.old), _sock_same(ns, 'pos', 'closed'),
                                      is_prefix_extension(ns.f(_bs(ns), 'sent'), ns.old.f(_bs(ns.old), 'sent'), ns.data)),
         prop=('C14', 'C17'),
         doc='buffer_writes: queued; otherwise everything is passed to socket.sendall')


# --- recv ----------------------------------------------------------------------------------------------------
def _bs_recv_post(ns):
    sk0 = _bs(ns.old)
    pos0, pos1 = ns.old.f(sk0, 'pos'), ns.f(_bs(ns), 'pos')
    stream = ns.old.f(sk0, 'stream')
    rb0, rb1 = _rb(ns.old), _rb(ns)
    avail = S.len_(rb0) + (pos1 - pos0)
    return S.And(pos0 <= pos1, pos1 <= S.len_(stream),
                 # FIFO, nothing lost, nothing duplicated: handed out ++ kept == held before ++ newly read
                 S.cat(ns.result, rb1) == S.cat(rb0, stream[pos0:pos1]),
                 # as much as asked for and available, never more than asked for
                 S.len_(ns.result) == S.min_(ns.bufsize, avail),
                 # the socket is only asked when nothing is buffered (no read-ahead beyond one chunk)
                 S.implies(S.len_(rb0) > 0, pos1 == pos0),
                 # an empty result for a non-empty request means end of stream (never "would block", never data withheld)
                 S.implies(S.And(S.len_(ns.result) == 0, ns.bufsize > 0), S.And(pos1 == S.len_(stream), S.len_(rb1) == 0)),
                 S.is_bytes(ns.result), S.is_bytes(rb1),
                 q_unchanged(ns), _sock_same(ns, 'sent', 'closed'))


contract(B + 'BufferedSocket.recv',
         params={'self': bsock_t(), 'bufsize': T.int(0)},
         requires=lambda ns: sock_ok(ns, _bs(ns)),
         result=T.bytes(), modifies=[('self', '_read_buffer'), ('self.socket', 'pos')],
         ensures=_bs_recv_post,
         raises={socket.error: lambda ns: S.len_(_rb(ns)) == 0},
         exc_ensures=lambda ns: S.And(_rb(ns) == _rb(ns.old), _sock_same(ns, 'pos', 'sent', 'closed'), q_unchanged(ns)),
         prop=('C14', 'C17'),
         doc='returns the first min(bufsize, available) bytes of read_buffer ++ chunk-just-read and keeps exactly the rest '
             '(FIFO, nothing lost or duplicated); the socket is read only when the buffer is empty; when socket.recv '
             'raises (would-block / fault) no buffered byte is lost: buffer and position unchanged; b"" only at EOF')


# --- shutdown / close: flush first -----------------------------------------------------------------------------
def _closing_post(ns):
    return S.And(ns.f(_bs(ns), 'closed'),
                 # everything queued reached the socket BEFORE it was shut
                 ns.f(_bs(ns), 'sent_at_close') == S.cat(ns.old.f(_bs(ns.old), 'sent'), q_flat(ns.old)),
                 ns.f(_bs(ns), 'sent') == ns.f(_bs(ns), 'sent_at_close'),
                 q_empty(ns))


_BS_MOD_CLOSE = _BS_MOD_SEND + [('self.socket', 'closed'), ('self.socket', 'sent_at_close')]
for _name, _params in (('shutdown', {'self': bsock_t(), 'how': T.int()}), ('close', {'self': bsock_t()})):
    contract(B + 'BufferedSocket.' + _name, params=_params,
             requires=lambda ns: S.Not(ns.f(_bs(ns), 'closed')),
             result=T.none(), modifies=_BS_MOD_CLOSE,
             ensures=_closing_post,
             raises={socket.error: None},
             exc_ensures=lambda ns: S.And(q_empty(ns),
                                          is_prefix_extension(ns.f(_bs(ns), 'sent'), ns.old.f(_bs(ns.old), 'sent'),
                                                              q_flat(ns.old))),
             prop=('C14', 'C17'),
             doc='%s() flushes first: all queued data is accepted by the socket before it is shut; the queue is empty on '
                 'every exit' % _name)

for _p in ('C14', 'C17'):
    REG.note(_p, 'trusted', 'collections.deque restricted to append/clear/iteration, modelled as (count, concatenation, offsets) '
                            '(contracts/transport.py BytesQueue); queued bytearrays are not mutated by the caller after send()')
    REG.note(_p, 'assumptions', 'BufferedSocket.recv / RecordSocket receive side: 0 <= pos <= len(stream) (ghost invariant), bufsize >= 0, '
                                'length >= 0 (call sites pass 1, 4, 1|2 and a parsed uint16); recv_record_limit in 0..2^14 '
                                '(written only from min(2**14, ...) in tlsconnection.py)')


# ======================================================================================================
# AsyncStateMachine: representation invariant of _checkAssert
#
#   I(self):  (result is None  and  no operation slot is set)   or   (result in (0, 1)  and  exactly one slot is set)
# established by __init__ / _clear, preserved by every set*Op / in*Event / _do*Op on EVERY exit (normal or raising).
# The operation slots hold None or a generator; generators are the abstract object 'AbsGen' whose next() may
#   return 0 or 1, raise StopIteration, raise any other exception, and (the read operation only) return a
#   completion value that is not 0/1 -- i.e. what the generator contracts above and the M2 tasks establish for
#   the handshake / close / write / read generators ("only 0/1 before completion").
# The states satisfying I are exactly five shapes (idle, or one of the four slots set with result in {0,1}); each
# method is verified once per shape (contract variants), so the union is "for every state satisfying I".
import tlslite.integration.asyncstatemachine as ASM            # noqa: E402

A = 'tlslite/integration/asyncstatemachine.py:'
GEN = 'AbsGen'
CONN = 'AbsConn'
SLOTS = ('handshaker', 'closer', 'reader', 'writer')


class AbsGenModel(object):
    def getattr(self, ex, v, name, st):
        return None

    def next(self, ex, it, st, fr, node):
        kind = st.heap.get((it.oid, 'kind'))
        res = []
        r = VInt(z3.Int(fresh_name('gen_yield')))
        s1 = st.fork()
        s1.assume(z3.Or(r.t == 0, r.t == 1))
        res.append(Outcome('normal', s1, r))
        res.append(Outcome('raise', st.fork(), VExc(StopIteration, [], 'next() line %d' % _line(node))))
        res.append(Outcome('raise', st.fork(), VExc(Exception, [], 'exception inside the operation, line %d' % _line(node))))
        if isinstance(kind, VStr) and kind.s == 'reader':
            s2 = st.fork()
            data = VSeq(z3.Const(fresh_name('read_data'), smt.Seq), 'byte', 'bytearray')
            s2.assume(isb(data.t))
            res.append(Outcome('normal', s2, data))
        return res


class AbsConnModel(object):
    """tlsConnection.readAsync / closeAsync / writeAsync / handshakeServerAsync: return a new generator (calling a
    generator function runs no code) -- or raise, which the callers must survive as well"""
    KINDS = {'readAsync': 'reader', 'closeAsync': 'closer', 'writeAsync': 'writer', 'handshakeServerAsync': 'handshaker'}

    def getattr(self, ex, v, name, st):
        if name in self.KINDS:
            kind = self.KINDS[name]

            def f(ex, args, kw, st, fr, node):
                g = st.alloc(GEN)
                st.heap[(g.oid, 'kind')] = VStr(kind)
                bad = st.fork()
                return [Outcome('normal', st, g),
                        Outcome('raise', bad, VExc(Exception, [], 'tlsConnection.%s line %d' % (name, _line(node))))]
            return VPy(SpecFn(f, 'conn.' + name))
        return None


REG.models[GEN] = AbsGenModel()
REG.models[CONN] = AbsConnModel()


def asm_t(active=None, result='auto', extra_active=None):
    """AsyncStateMachine in a given shape: `active` in SLOTS or None"""
    f = {'tlsConnection': T.obj(CONN)}
    for s in SLOTS:
        f[s] = T.obj(GEN, kind=T.const(s)) if s in (active, extra_active) else T.none()
    if result == 'auto':
        f['result'] = T.none() if active is None else T.int(0, 1)
    else:
        f['result'] = result
    return T.obj(ASM.AsyncStateMachine, **f)


def asm_inv(ns):
    """I(self) over the state ns"""
    vals = [ns.f(ns.self, s) for s in SLOTS]
    if not all(isinstance(v, (VNone, VObj)) for v in vals):
        return VBool(z3.BoolVal(False))
    active = sum(1 for v in vals if isinstance(v, VObj))
    r = ns.f(ns.self, 'result')
    if isinstance(r, VNone):
        return VBool(z3.BoolVal(active == 0))
    if isinstance(r, VInt):
        return S.And(S.Or(r == 0, r == 1), VBool(z3.BoolVal(active == 1)))
    return VBool(z3.BoolVal(False))


def asm_idle(ns):
    return VBool(z3.BoolVal(all(isinstance(ns.f(ns.self, s), VNone) for s in SLOTS) and
                            isinstance(ns.f(ns.self, 'result'), VNone)))


SHAPES = {'idle': None, 'handshaking': 'handshaker', 'closing': 'closer', 'reading': 'reader', 'writing': 'writer'}
_ASM_PROP = ('C14',)

# callbacks to the subclass: the invariant must hold when control is handed out (the callback may start the next
# operation); nothing is executed after a callback returns
def _callback(name):
    def h(ex, args, kw, st, fr, node):
        from pyvc.contract import NS
        s = st.fork()
        s.env = {'self': args[0]}
        ex.oblige(st, 'invariant-holds-at-callback:%s@L%d' % (name, _line(node)), truthy(_lift(asm_inv(NS(ex, s, fr)))),
                  kind='callback')
        return [Outcome('normal', st, VNone())]
    return h


for _cb in ('outConnectEvent', 'outCloseEvent', 'outReadEvent', 'outWriteEvent'):
    REG.external[A + 'AsyncStateMachine.' + _cb] = _callback(_cb)
    REG.no_inline.add(A + 'AsyncStateMachine.' + _cb)

contract(A + 'AsyncStateMachine.__init__', params={'self': T.obj(ASM.AsyncStateMachine)},
         result=T.none(), ensures=lambda ns: S.And(asm_inv(ns), asm_idle(ns)), raises={}, prop=_ASM_PROP,
         variants={'new': {'self': T.obj(ASM.AsyncStateMachine)}},
         doc='establishes the invariant: no operation, result None')

contract(A + 'AsyncStateMachine._clear', result=T.none(),
         variants={k: {'self': asm_t(v)} for k, v in SHAPES.items()},
         ensures=lambda ns: S.And(asm_inv(ns), asm_idle(ns)), raises={}, prop=_ASM_PROP,
         doc='from any state: all four slots None, result None')

# _checkAssert raises exactly on the states outside I (or with more operations than the caller allows)
_BAD_SHAPES = {
    'two-active': asm_t('reader', T.int(0, 1), extra_active='writer'),
    'result-without-operation': asm_t(None, T.int(0, 1)),
    'operation-without-result': asm_t('closer', T.none()),
    'result-not-0-1': asm_t('handshaker', T.int(2, 9)),
}
contract(A + 'AsyncStateMachine._checkAssert', name='AsyncStateMachine._checkAssert[valid]', result=T.none(),
         variants={k: {'self': asm_t(v), 'maxActive': T.int(0, 1)} for k, v in SHAPES.items()},
         ensures=lambda ns: asm_inv(ns),
         raises={AssertionError: ('iff', lambda ns: S.And(S.Not(asm_idle(ns)), ns.maxActive == 0))},
         prop=_ASM_PROP, doc='on a state satisfying I: passes unless an operation is active and maxActive == 0')
contract(A + 'AsyncStateMachine._checkAssert', name='AsyncStateMachine._checkAssert[invalid]', result=T.none(),
         variants={k: {'self': t, 'maxActive': T.int(0, 1)} for k, t in _BAD_SHAPES.items()},
         ensures=lambda ns: VBool(z3.BoolVal(False)), raises={AssertionError: None}, cover=False,
         prop=_ASM_PROP, doc='every state outside I is rejected with AssertionError (never passes)')

for _m in ('inReadEvent', 'inWriteEvent'):
    contract(A + 'AsyncStateMachine.' + _m, result=T.none(),
             variants={k: {'self': asm_t(v)} for k, v in SHAPES.items()},
             ensures=asm_inv, raises={Exception: None},
             exc_ensures=lambda ns: S.And(asm_inv(ns), asm_idle(ns)),
             prop=_ASM_PROP,
             doc='preserves I from every state satisfying I; an exception from the running operation clears the machine '
                 '(idle) and is re-raised; AssertionError cannot arise from _checkAssert')

for _m, _extra in (('setHandshakeOp', {'handshaker': T.obj(GEN, kind=T.const('handshaker'))}), ('setCloseOp', {}),
                   ('setWriteOp', {'writeBuffer': T.bytes()})):
    contract(A + 'AsyncStateMachine.' + _m, result=T.none(),
             variants={'idle': dict({'self': asm_t(None)}, **_extra)},
             ensures=asm_inv, raises={Exception: None},
             exc_ensures=lambda ns: S.And(asm_inv(ns), asm_idle(ns)),
             prop=_ASM_PROP,
             doc='from the idle state: starts the operation and runs its first step; I holds on every exit')
    contract(A + 'AsyncStateMachine.' + _m, name='AsyncStateMachine.%s[busy]' % _m, result=T.none(),
             variants={k: dict({'self': asm_t(v)}, **_extra) for k, v in SHAPES.items() if v is not None},
             ensures=lambda ns: VBool(z3.BoolVal(False)), raises={AssertionError: None}, cover=False,
             exc_ensures=lambda ns: S.And(asm_inv(ns), asm_idle(ns)),
             prop=_ASM_PROP,
             doc='while an operation is active a second one is never started: AssertionError, machine cleared (I holds)')

for _m, _shape in (('_doHandshakeOp', 'handshaker'), ('_doCloseOp', 'closer'), ('_doReadOp', 'reader'), ('_doWriteOp', 'writer')):
    contract(A + 'AsyncStateMachine.' + _m, result=T.none(),
             variants={'active': {'self': asm_t(_shape)}},
             ensures=asm_inv, raises={Exception: None},
             prop=_ASM_PROP,
             doc='one step of the active operation: result := 0/1, or the slot is released together with result on completion')

REG.note('C14', 'trusted', 'AsyncStateMachine: operation generators modelled abstractly (next() returns 0/1, raises StopIteration or any '
                           'exception; the read operation may return a non-0/1 completion value); tlsConnection.*Async return a new '
                           'generator or raise; subclass callbacks out*Event are checked to be entered with the invariant and are '
                           'assumed to leave it intact')
REG.note('C14', 'not_built', 'AsyncStateMachine.setServerHandshakeOp (**kwargs forwarder to setHandshakeOp); MessageSocket.recvMessage / '
                             'sendMessage (needs the Defragmenter abstraction); Defragmenter framing-freedom lemma; yield-transparency scan; blocking == draining wrappers')


# ======================================================================================================
# concrete differential runs (specs/transport.py): scripted sockets with random chunking / would-block / fault
# schedules compared with an unconstrained run and with the executable reference
for _p, _names in (('C14', ('recordsocket_recv', 'recordsocket_send', 'bufferedsocket_history')),
                   ('C17', ('recordsocket_recv', 'recordsocket_send', 'bufferedsocket_history', 'flush_failure_then_close')),
                   ('C01', ('recordsocket_send', 'recordsocket_recv')),
                   ('C08', ('recordsocket_recv',))):
    _fn = {'recordsocket_recv': R + 'RecordSocket.recv', 'recordsocket_send': R + 'RecordSocket.send',
           'bufferedsocket_history': B + 'BufferedSocket.recv', 'flush_failure_then_close': B + 'BufferedSocket.flush'}
    for _n in _names:
        REG.xchecks.append({'prop': _p, 'module': 'specs.transport', 'name': _n, 'function': _fn[_n]})

REG.note('C01', 'trusted', 'RecordSocket header round trip and length caps (contracts/transport.py) are proved against the ghost transport '
                           'model: the OS socket delivers the accepted bytes in order')
REG.note('C08', 'assumptions', 'RecordSocket.recv cap: recv_record_limit in 0..2^14; "bounded memory" is stated as: TLSRecordOverflow leaves '
                               'with exactly the header consumed from the socket (no body byte read), accepted bodies are <= limit+2048 '
                               '(TLS 1.3 records: limit+256)')
REG.note('C17', 'assumptions', 'BufferedSocket.close()/shutdown(): when the flush inside fails the underlying socket is NOT closed by this call '
                               '(the exception propagates first); the contract only requires the queue to be empty so that a retry does '
                               'not resend; TLSRecordLayer._shutdown ordering (closed flag before sock.close()) is outside this module')


# ======================================================================================================
# MessageSocket.flush / queueMessage  (write-side queue above the record layer)
#
# Abstract view: pending = _sendBuffer (bytes of ONE content type, _sendBufferType).  Ghost history of what was handed
# to RecordLayer.sendRecord, kept on the object:  g_out = concatenation of the payloads, g_types[k] / g_lens[k] =
# content type / payload length of the k-th record.  RecordLayer.sendRecord itself (protection + RecordSocket.send,
# proved above) is ASSUMED here to: hand exactly msg.write() of type msg.contentType to the wire as one record,
# yield only 1 before completing, and on failure not count the record as sent.
import tlslite.messagesocket as MS                     # noqa: E402

MSK = 'tlslite/messagesocket.py:'


def msock_t(typed):
    return T.obj(MS.MessageSocket, _sendBuffer=T.bytes(), _sendBufferType=(T.int(0, 255) if typed else T.none()),
                 recordSize=T.int(), g_out=T.bytes(), g_types=T.ints(), g_lens=T.ints())


def _single(x):
    return VSeq(smt.s_single(_lift(x).t), 'int', 'list')


def _g(ns, f):
    return ns.f(ns.self, f)


_G_MOD = [('self', 'g_out'), ('self', 'g_types'), ('self', 'g_lens')]

_SENDRECORD = gen_contract(
    R + 'RecordLayer.sendRecord', assumed=True,
    params={'self': msock_t(True), 'msg': MSG_T},
    each=lambda ns, v: v == 1, final='return', modifies=_G_MOD,
    ensures=lambda ns: S.And(_g(ns, 'g_out') == S.cat(_g(ns.old, 'g_out'), ns.f(ns.msg, 'data')),
                             _g(ns, 'g_types') == S.cat(_g(ns.old, 'g_types'), _single(ns.f(ns.msg, 'contentType'))),
                             _g(ns, 'g_lens') == S.cat(_g(ns.old, 'g_lens'), _single(S.len_(ns.f(ns.msg, 'data'))))),
    raises={Exception: None},
    exc_ensures=lambda ns: S.And(*[_g(ns, f) == _g(ns.old, f) for f in ('g_out', 'g_types', 'g_lens')]),
    prop=('C14',), doc='assumed model of RecordLayer.sendRecord for the MessageSocket contracts')
gen1.assume_generator(_SENDRECORD)


def _ms_hist_ok(ns):
    return S.len_(_g(ns, 'g_types')) == S.len_(_g(ns, 'g_lens'))


def _flush_records(ns, ns0, final):
    """the records appended since ns0 all carry the queue's type, are non-empty and at most recordSize long, and all
    but possibly the last are exactly recordSize long (=> as few records as possible); `final`: nothing is pending"""
    types, lens = _g(ns, 'g_types'), _g(ns, 'g_lens')
    n0, n = S.len_(_g(ns0, 'g_types')), S.len_(types)
    t0, rs = _g(ns0, '_sendBufferType'), _g(ns0, 'recordSize')
    more = S.len_(_g(ns, '_sendBuffer')) > 0
    return S.And(
        n >= n0, S.len_(lens) == n,
        types[0:n0] == _g(ns0, 'g_types'), lens[0:n0] == _g(ns0, 'g_lens'),
        S.forall(lambda k: S.And(types[k] == t0, lens[k] >= 1, lens[k] <= rs,
                                 S.implies(S.Or(k < n - 1, VBool(z3.BoolVal(False)) if final else more), lens[k] == rs)),
                 n0, n))


def _flush_inv(ns):
    buf, buf0 = _g(ns, '_sendBuffer'), _g(ns.old, '_sendBuffer')
    d = S.len_(buf0) - S.len_(buf)
    return S.And(d >= 0, buf == buf0[d:S.len_(buf0)], _g(ns, 'g_out') == S.cat(_g(ns.old, 'g_out'), buf0[0:d]),
                 S.is_bytes(buf), _flush_records(ns, ns.old, False))


def _set_type_none(ex, st, env):
    st.heap[(env['self'].oid, '_sendBufferType')] = VNone()


def _type_is_none(ns):
    return VBool(z3.BoolVal(isinstance(_g(ns, '_sendBufferType'), VNone)))


_MS_MOD = _G_MOD + [('self', '_sendBuffer')]

gen_contract(MSK + 'MessageSocket.flush',
             params={'self': msock_t(True)},
             requires=lambda ns: S.And(_g(ns, 'recordSize') >= 1, _ms_hist_ok(ns)),
             each=lambda ns, v: v == 1, final='return', modifies=_MS_MOD, post_apply=_set_type_none,
             ensures=lambda ns: S.And(_g(ns, 'g_out') == S.cat(_g(ns.old, 'g_out'), _g(ns.old, '_sendBuffer')),
                                      S.len_(_g(ns, '_sendBuffer')) == 0, _type_is_none(ns),
                                      _flush_records(ns, ns.old, True)),
             raises={Exception: None},
             exc_ensures=lambda ns: S.And(is_prefix_extension(_g(ns, 'g_out'), _g(ns.old, 'g_out'), _g(ns.old, '_sendBuffer')),
                                          # nothing is queued twice: sent ++ still pending is a suffix-free cut of the old queue
                                          S.len_(_g(ns, 'g_out')) - S.len_(_g(ns.old, 'g_out')) + S.len_(_g(ns, '_sendBuffer'))
                                          <= S.len_(_g(ns.old, '_sendBuffer'))),
             loops={1: LoopSpec(_flush_inv, variant=lambda ns: S.len_(_g(ns, '_sendBuffer')),
                                modifies_fields=[('self', f) for f in ('_sendBuffer', 'g_out', 'g_types', 'g_lens')],
                                fingerprint='_sendBuffer')},
             prop=('C14', 'C01'),
             doc='hands the queued bytes to sendRecord in order, in fragments of the queue\'s content type, each 1..recordSize '
                 'bytes and all but the last exactly recordSize (fewest possible records); queue empty and untyped afterwards; '
                 'terminates (variant len(queue)) for recordSize >= 1; only 1 yielded')


def _qm_post(ns):
    t0 = _g(ns.old, '_sendBufferType')
    mt = ns.old.f(ns.msg, 'contentType')
    data = ns.old.f(ns.msg, 'data')
    same = VBool(z3.BoolVal(True)) if isinstance(t0, VNone) else (t0 == mt)
    out0, buf0 = _g(ns.old, 'g_out'), _g(ns.old, '_sendBuffer')
    return S.And(
        _g(ns, '_sendBufferType') == mt,
        S.implies(same, S.And(_g(ns, 'g_out') == out0, _g(ns, '_sendBuffer') == S.cat(buf0, data),
                              _g(ns, 'g_types') == _g(ns.old, 'g_types'), _g(ns, 'g_lens') == _g(ns.old, 'g_lens'))),
        S.implies(S.Not(same), S.And(_g(ns, 'g_out') == S.cat(out0, buf0), _g(ns, '_sendBuffer') == data)))


gen_contract(MSK + 'MessageSocket.queueMessage',
             variants={'queue-untyped': {'self': msock_t(False), 'msg': MSG_T},
                       'queue-typed': {'self': msock_t(True), 'msg': MSG_T}},
             requires=lambda ns: S.And(_g(ns, 'recordSize') >= 1, _ms_hist_ok(ns),
                                       ns.f(ns.msg, 'contentType') >= 0, ns.f(ns.msg, 'contentType') <= 255,
                                       # an untyped queue is empty (established by __init__ and flush)
                                       VBool(z3.BoolVal(True)) if not isinstance(_g(ns, '_sendBufferType'), VNone)
                                       else S.len_(_g(ns, '_sendBuffer')) == 0),
             each=lambda ns, v: v == 1, final='return', modifies=_MS_MOD + [('self', '_sendBufferType')],
             ensures=_qm_post, raises={Exception: None},
             prop=('C14', 'C01'),
             doc='a message of the queue\'s type (or any message on an empty queue) is appended; a message of another type first '
                 'flushes the queue, so records leave in the order the messages were queued: (sent ++ pending) grows by exactly '
                 'msg.write()')

REG.note('C14', 'trusted', 'MessageSocket contracts: RecordLayer.sendRecord assumed to put exactly msg.write() on the wire as one record of '
                           'msg.contentType, yield only 1, and not count a failed record (its parts are proved separately: protect paths '
                           'under C01, RecordSocket.send above)')
REG.note('C14', 'assumptions', 'MessageSocket.flush / queueMessage: recordSize >= 1 (recordSize == 0 makes flush spin forever without '
                               'consuming the queue: caller error, as for TLSRecordLayer._sendMsg); message content types are bytes')
