"""C09 / C02 -- the cipher *constructions* around an abstract block cipher.

Contracts on tlslite/utils/python_aes.py (CBC, CTR), aesgcm.py, aesccm.py,
chacha.py, poly1305.py and chacha20_poly1305.py.

What is abstract (uninterpreted, see the REG.note(..., 'trusted', ...) lines at
the end): the raw AES block function (rijndael.py) `AesE(k, b0..b15)` and its
inverse `AesD`, with the single algebraic assumption D(E(x)) == x; the GF(2^128)
multiplication by the hash key `GcmMulH`; the 20-round ChaCha block function
when the stream/AEAD layer is verified (the block function itself is verified
separately in 32-bit bit-vector arithmetic); the Poly1305 nonlinear step.  All of
these are covered by *bounded* differential checks in specs/ciphers.py.

Spec functions (CBC chain, CTR key stream, GHASH fold, ...) are introduced as
uninterpreted functions with *definitional* axioms transcribed from the
standards (SP 800-38A/C/D, RFC 3610, RFC 8439); every such axiom is a primitive
recursive or explicit definition, hence a conservative extension.
"""
import z3

import tlslite.utils.python_aes as PA
import tlslite.utils.rijndael as RJ

from pyvc.contract import contract, scenario, LoopSpec, REG
from pyvc.state import T
from pyvc import spec as S
from pyvc import smt
from pyvc.smt import slen, sat, isb, Seq, Val, I, B
from pyvc.values import (VInt, VBool, VSeq, VNone, VObj, VOpaque, VStr, VTuple, VList, Unsupported, to_val, _lift,
                         truthy, fresh_name)
from pyvc.executor import Outcome

PROP = ('C09',)
U = 'tlslite/utils/'


# ---------------------------------------------------------------------------
# small spec-side helpers

_KEEP = []


def _mp(*terms):
    _KEEP.extend(terms)            # keep references alive (z3py frees temporaries too early)
    return z3.MultiPattern(*terms)


def FA(vs, body, pats):
    return z3.ForAll(vs, body, patterns=pats)


def vb(t):
    return VBool(t)


# Trigger markers.  Unfold(j) / UnfoldY(y) are always true (axioms below); they only serve as e-matching
# triggers: a goal written as  forall j, y: Unfold(j) and UnfoldY(y) -> body  is equivalent to the plain one
# and, once negated and skolemised, offers the terms Unfold(j0), UnfoldY(y0) at which block-indexed
# hypotheses and recursive spec definitions are instantiated (no matching loops, no arithmetic in triggers).
MkJ = z3.Function('MkJ', I, I)
MkY = z3.Function('MkY', I, I)
_mk = z3.Int('mk')
smt.AXIOMS.extend([z3.ForAll([_mk], MkJ(_mk) == 0, patterns=[MkJ(_mk)]),
                   z3.ForAll([_mk], MkY(_mk) == 0, patterns=[MkY(_mk)])])


MkU = z3.Function('MkU', I, I)          # "unfold the spec definitions at index j" (only where asked for)
smt.AXIOMS.append(z3.ForAll([_mk], MkU(_mk) == 0, patterns=[MkU(_mk)]))


def Unfold(j):
    return MkJ(j) == 0


def UnfoldY(y):
    return MkY(y) == 0


def unfold(j):
    """marker asking for the spec definitions (CbcC, CtrKS, GFold, ...) to be unfolded at index j"""
    return VBool(MkU(_lift(j).t) == 0)


def forall2(fn, hi_j, hi_y=16, pat=None, goal=True, unfold=False):
    """forall j in [0,hi_j), y in [0,hi_y): fn(j, y)   (hi_y a literal: unrolled over y, so every byte
    position inside a block is a literal offset).  `pat(j, y)` gives the trigger terms; the marker MkJ(j) is
    always an alternative trigger.  goal=True: the body is guarded by the marker."""
    out = []
    for t in range(hi_y):
        j = z3.Int(fresh_name('j'))
        y = VInt(z3.IntVal(t))
        body = truthy(_lift(fn(VInt(j), y)))
        g = z3.And(0 <= j, j < _lift(hi_j).t)
        if goal:
            g = z3.And(g, Unfold(j))
        if unfold:
            g = z3.And(g, MkU(j) == 0)
        marker = MkJ(j)
        _KEEP.append(marker)
        pats = [marker]
        if pat is not None:
            p = pat(VInt(j), y)
            p = [x.t if hasattr(x, 't') else x for x in (p if isinstance(p, (list, tuple)) else [p])]
            pats = [_mp(*p) if len(p) > 1 else p[0], marker]
        try:
            q = z3.ForAll([j], z3.Implies(g, body), patterns=pats)
        except z3.Z3Exception:          # trigger term not admissible (contains ite)
            q = z3.ForAll([j], z3.Implies(g, body), patterns=[marker])
        out.append(q)
    return VBool(z3.And(out))


def forall1(fn, lo, hi, pat=None):
    k = z3.Int(fresh_name('k'))
    body = truthy(_lift(fn(VInt(k))))
    g = z3.And(_lift(lo).t <= k, k < _lift(hi).t)
    if pat is None:
        return VBool(z3.ForAll([k], z3.Implies(g, body)))
    p = pat(VInt(k))
    p = [x.t if hasattr(x, 't') else x for x in (p if isinstance(p, (list, tuple)) else [p])]
    try:
        return VBool(z3.ForAll([k], z3.Implies(g, body), patterns=p))
    except z3.Z3Exception:
        return VBool(z3.ForAll([k], z3.Implies(g, body)))


def forallq(fn, hi, pat=None):
    """forall q in [0, hi): fn(q)  -- byte-indexed; trigger `pat(q)` (or the marker MkJ(q)); the body is guarded by
    the marker so that a negated goal offers MkJ(q0) for its skolem position"""
    q = z3.Int(fresh_name('q'))
    body = truthy(_lift(fn(VInt(q))))
    g = z3.And(0 <= q, q < _lift(hi).t, Unfold(q))
    marker = MkJ(q)
    _KEEP.append(marker)
    pats = [marker]
    if pat is not None:
        p = pat(VInt(q))
        p = [x.t if hasattr(x, 't') else x for x in (p if isinstance(p, (list, tuple)) else [p])]
        pats = [_mp(*p) if len(p) > 1 else p[0], marker]
    try:
        return VBool(z3.ForAll([q], z3.Implies(g, body), patterns=pats))
    except z3.Z3Exception:
        return VBool(z3.ForAll([q], z3.Implies(g, body), patterns=[marker]))


def vxor(a, b):
    return VInt(smt.bxor(_lift(a).t, _lift(b).t))


def at(s, i):
    """s[i] for an index known to be non-negative (no Python negative-index normalisation)"""
    return VInt(sat(s.t, _lift(i).t))


class _Rename(object):
    """view of a spec namespace with parameters renamed (same spec for encrypt/decrypt aliases)"""

    def __init__(self, ns, **ren):
        object.__setattr__(self, '_ns', ns)
        object.__setattr__(self, '_ren', ren)

    def __getattr__(self, name):
        if name == 'old':
            return _Rename(self._ns.old, **self._ren)
        return getattr(self._ns, self._ren.get(name, name))


def bytes16_eq(a, b):
    """a, b: VSeq of length 16 -- element-wise equality (no quantifier)."""
    return S.And(S.len_(a) == 16, S.len_(b) == 16, *[a[t] == b[t] for t in range(16)])


# ---------------------------------------------------------------------------
# abstract AES block function on 16 bytes (arguments as 16 Ints: equality of
# blocks is then plain congruence, no sequence extensionality needed)

AesE = S.uf('AesE', [Val] + [I] * 16, Seq)
AesD = S.uf('AesD', [Val] + [I] * 16, Seq)


def E16(k, bs):
    """bs: list of 16 z3 Int terms"""
    return AesE(k, *bs)


def D16(k, bs):
    return AesD(k, *bs)


def E_of_seq(k, s):
    """AES_k(s) for a z3 Seq term s of length 16"""
    return AesE(k, *[sat(s, z3.IntVal(t)) for t in range(16)])


def D_of_seq(k, s):
    return AesD(k, *[sat(s, z3.IntVal(t)) for t in range(16)])


def _aes_axioms():
    k = z3.Const('ak', Val)
    b = [z3.Int('ab%d' % t) for t in range(16)]
    A = []
    for F in (AesE, AesD):
        A.append(FA([k] + b, z3.And(slen(F(k, *b)) == 16, isb(F(k, *b))), [F(k, *b)]))
    # the one algebraic assumption on the block cipher: D_k(E_k(x)) == x for every 16-byte block x
    e = AesE(k, *b)
    de = AesD(k, *[sat(e, z3.IntVal(t)) for t in range(16)])
    A.append(FA([k] + b, z3.Implies(z3.And([z3.And(0 <= x, x <= 255) for x in b]),
                                    z3.And([sat(de, z3.IntVal(t)) == b[t] for t in range(16)])), [e]))
    # xor is an involution (true for all Python ints; proved in BV by _selfcheck_xor_involution)
    x, y = z3.Ints('xx xy')
    A.append(FA([x, y], smt.bxor(smt.bxor(x, y), y) == x, [smt.bxor(smt.bxor(x, y), y)]))
    A.append(FA([x, y], smt.bxor(x, y) == smt.bxor(y, x), [smt.bxor(x, y)]))
    A.append(FA([x, y], z3.Implies(z3.And(0 <= x, x <= 255, 0 <= y, y <= 255),
                                   z3.And(0 <= smt.bxor(x, y), smt.bxor(x, y) <= 255)), [smt.bxor(x, y)]))
    return A


def _selfcheck_xor_involution():
    a, b = z3.BitVecs('sa sb', 192)
    s = z3.Solver()
    s.add(z3.Not(z3.And(((a ^ b) ^ b) == a, (a ^ b) == (b ^ a),
                        z3.Implies(z3.And(z3.ULE(a, 255), z3.ULE(b, 255)), z3.ULE(a ^ b, 255)))))
    if s.check() != z3.unsat:
        raise RuntimeError('xor involution lemma not proved')


_selfcheck_xor_involution()
smt.AXIOMS.extend(_aes_axioms())


def _key_of(st, obj):
    """the abstract key of a Rijndael object (ghost field `k`)"""
    key = (obj.oid, 'k')
    if key not in st.heap:
        st.heap[key] = VOpaque(z3.Const(fresh_name('rijndael.k'), Val))
    return st.heap[key].t


def _rijndael_block(F, what):
    def h(ex, args, kw, st, fr, node):
        self_, block = args[0], args[1]
        if not isinstance(block, VSeq):
            raise Unsupported('Rijndael.%s(%r)' % (what, block))
        res = []
        ok, bad = ex.split(st, slen(block.t) == 16)
        if bad is not None:
            res.append(ex.raise_(bad, ValueError, 'wrong block length line %d' % getattr(node, 'lineno', 0)))
        if ok is not None:
            k = _key_of(ok, self_)
            out = VSeq(F(k, *[sat(block.t, z3.IntVal(t)) for t in range(16)]), 'byte', 'bytearray')
            ok.assume(z3.And(slen(out.t) == 16, isb(out.t)))
            res.append(Outcome('normal', ok, out))
        return res
    return h


REG.external[U + 'rijndael.py:Rijndael.encrypt'] = _rijndael_block(AesE, 'encrypt')
REG.external[U + 'rijndael.py:Rijndael.decrypt'] = _rijndael_block(AesD, 'decrypt')

RIJ = T.obj(RJ.Rijndael, k=T.opaque())


def K(ns, obj=None):
    """abstract AES key of self.rijndael"""
    o = ns.self if obj is None else obj
    return ns.f(ns.f(o, 'rijndael'), 'k').t


# ---------------------------------------------------------------------------
# CBC (SP 800-38A 6.2):  C_j = E(P_j xor C_{j-1}),  C_{-1} = IV

CbcC = S.uf('CbcC', [Val, Seq, Seq, I], Seq, seq_ext=[1, 2])   # key, IV, plaintext, block index (>= -1) -> ciphertext block


smt.EXT_PARTIAL.add('CbcC')


def _cbc_axioms():
    k = z3.Const('ck', Val)
    iv, p = z3.Consts('civ cp', Seq)
    j = z3.Int('cj')
    prev = CbcC(k, iv, p, j - 1)
    blk = AesE(k, *[smt.bxor(sat(p, 16 * j + t), sat(prev, z3.IntVal(t))) for t in range(16)])
    return [FA([k, iv, p, j], z3.Implies(j == -1, CbcC(k, iv, p, j) == iv), [CbcC(k, iv, p, j)]),
            # every C_j (j >= 0) is an AES output block (consequence of the definition below)
            FA([k, iv, p, j], z3.Implies(j >= 0, z3.And(slen(CbcC(k, iv, p, j)) == 16, isb(CbcC(k, iv, p, j)))),
               [CbcC(k, iv, p, j)]),
            # C_j = E(P_j xor C_{j-1});  instantiated only where an Unfold(j) marker is present (no matching loop)
            FA([k, iv, p, j], z3.Implies(j >= 0, CbcC(k, iv, p, j) == blk),
               [_mp(CbcC(k, iv, p, j), MkU(j))])]


smt.AXIOMS.extend(_cbc_axioms())


def cbc_block(k, iv, p, j):
    """VSeq: j-th ciphertext block of CBC_k,iv(p);  block -1 is the IV"""
    return VSeq(CbcC(k, iv.t, p.t, _lift(j).t), 'byte')


def cbc_chain(k, iv, p, j):
    """chaining value before block j: C_{j-1}"""
    return cbc_block(k, iv, p, _lift(j) - 1)


AES_CBC = T.obj(PA.Python_AES, rijndael=RIJ, IV=T.bytes())


def _cbc_enc_inv(ns):
    k = K(ns)
    iv0 = ns.old.f(ns.self, 'IV')
    p0 = ns.old.plaintextBytes
    r = ns.plaintextBytes
    n = S.len_(p0)
    chain = cbc_chain(k, iv0, p0, ns.idx)
    return S.And(
        S.len_(r) == n, S.is_bytes(r), S.len_(ns.chainBytes) == 16, S.is_bytes(ns.chainBytes),
        ns.idx >= 0, 16 * ns.idx <= n,
        # blocks already produced
        forall2(lambda j, y: at(r, 16 * j + y) == at(cbc_block(k, iv0, p0, j), y), ns.idx,
                pat=lambda j, y: [at(cbc_block(k, iv0, p0, j), y)]),
        # the rest is still the plaintext
        forall1(lambda q: at(r, q) == at(p0, q), 16 * ns.idx, n, pat=lambda q: [at(r, q)]),
        S.And(*[ns.chainBytes[t] == chain[t] for t in range(16)]),
        unfold(ns.idx))


def _cbc_enc_post(ns):
    k = K(ns.old)
    iv0 = ns.old.f(ns.self, 'IV')
    p0 = ns.plaintext
    n = S.len_(p0)
    nb = n / 16
    iv1 = ns.f(ns.self, 'IV')
    last = cbc_chain(k, iv0, p0, nb)
    return S.And(
        S.len_(ns.result) == n, S.is_bytes(ns.result),
        forall2(lambda j, y: at(ns.result, 16 * j + y) == at(cbc_block(k, iv0, p0, j), y), nb,
                pat=lambda j, y: [at(cbc_block(k, iv0, p0, j), y)]),
        S.len_(iv1) == 16, S.is_bytes(iv1),
        S.And(*[iv1[t] == last[t] for t in range(16)]))


VInt.__truediv__ = lambda self, o: VInt(self.t / (o.t if hasattr(o, 't') else o))

contract(U + 'python_aes.py:Python_AES.encrypt',
         params={'self': AES_CBC, 'plaintext': T.bytes()},
         requires=lambda ns: S.len_(ns.f(ns.self, 'IV')) == 16,
         result=T.bytes(), modifies=[('self', 'IV')],
         raises={AssertionError: ('iff', lambda ns: S.len_(ns.plaintext) % 16 != 0)},
         ensures=_cbc_enc_post,
         loops={1: LoopSpec(_cbc_enc_inv, fingerprint='len(plaintextBytes)//16')},
         prop=PROP,
         doc='CBC encryption: block j of the result is E(P_j xor C_{j-1}) with C_{-1} = the IV carried from the '
             'previous call; afterwards self.IV is the last ciphertext block (unchanged for empty input)')


# --- CBC decryption: P_j = D(C_j) xor C_{j-1} -------------------------------

def _cbc_prev(c, iv, j, t):
    """byte t of C_{j-1} (the IV for j == 0), as VInt"""
    jt = _lift(j).t
    return VInt(z3.If(jt == 0, sat(iv.t, z3.IntVal(t)), sat(c.t, 16 * (jt - 1) + t)))


def cbc_dec_byte(k, iv, c, j, y):
    """byte y of plaintext block j: (D_k(C_j) xor C_{j-1})[y]   (z3 term; y a z3 Int)"""
    jt = _lift(j).t
    yt = _lift(y).t
    d = AesD(k, *[sat(c.t, 16 * jt + t) for t in range(16)])
    prev = z3.If(jt == 0, sat(iv.t, yt), sat(c.t, 16 * (jt - 1) + yt))
    return VInt(smt.bxor(sat(d, yt), prev))


CbcP = S.uf('CbcP', [Val, Seq, Seq, I], Seq)        # key, IV, ciphertext, block index -> plaintext block


def _cbc_dec_axioms():
    k = z3.Const('ck', Val)
    iv, c = z3.Consts('civ cc', Seq)
    j = z3.Int('cj')
    d = AesD(k, *[sat(c, 16 * j + t) for t in range(16)])
    body = []
    for t in range(16):
        prev = z3.If(j == 0, sat(iv, z3.IntVal(t)), sat(c, 16 * (j - 1) + t))
        body.append(sat(CbcP(k, iv, c, j), z3.IntVal(t)) == smt.bxor(sat(d, z3.IntVal(t)), prev))
    return [FA([k, iv, c, j], z3.Implies(j >= 0, z3.And(body)), [CbcP(k, iv, c, j)])]


smt.AXIOMS.extend(_cbc_dec_axioms())


def cbc_pblock(k, iv, c, j):
    return VSeq(CbcP(k, iv.t, c.t, _lift(j).t), 'byte')


def _cbc_dec_inv(ns):
    k = K(ns)
    iv0 = ns.old.f(ns.self, 'IV')
    c0 = ns.ciphertext
    r = ns.ciphertextBytes
    n = S.len_(c0)
    idx = ns.idx
    return S.And(
        S.len_(r) == n, S.is_bytes(r), S.len_(ns.chainBytes) == 16, S.is_bytes(ns.chainBytes),
        idx >= 0, 16 * idx <= n,
        forall2(lambda j, y: at(r, 16 * j + y) == at(cbc_pblock(k, iv0, c0, j), y), idx,
                pat=lambda j, y: [at(cbc_pblock(k, iv0, c0, j), y)]),
        forall1(lambda q: at(r, q) == at(c0, q), 16 * idx, n, pat=lambda q: [at(r, q)]),
        S.And(*[ns.chainBytes[t] == _cbc_prev(c0, iv0, idx, t) for t in range(16)]))


def _cbc_dec_post(ns):
    k = K(ns.old)
    iv0 = ns.old.f(ns.self, 'IV')
    c0 = ns.ciphertext
    n = S.len_(c0)
    nb = n / 16
    iv1 = ns.f(ns.self, 'IV')
    return S.And(
        S.len_(ns.result) == n, S.is_bytes(ns.result),
        forall2(lambda j, y: at(ns.result, 16 * j + y) == at(cbc_pblock(k, iv0, c0, j), y), nb,
                pat=lambda j, y: [at(cbc_pblock(k, iv0, c0, j), y)]),
        S.len_(iv1) == 16, S.is_bytes(iv1),
        S.And(*[iv1[t] == _cbc_prev(c0, iv0, nb, t) for t in range(16)]))


contract(U + 'python_aes.py:Python_AES.decrypt',
         params={'self': AES_CBC, 'ciphertext': T.bytes()},
         requires=lambda ns: S.len_(ns.f(ns.self, 'IV')) == 16,
         result=T.bytes(), modifies=[('self', 'IV')],
         raises={AssertionError: ('iff', lambda ns: S.len_(ns.ciphertext) % 16 != 0)},
         ensures=_cbc_dec_post,
         loops={1: LoopSpec(_cbc_dec_inv, fingerprint='len(ciphertextBytes)//16')},
         prop=PROP,
         doc='CBC decryption: block j of the result is D(C_j) xor C_{j-1} with C_{-1} = the IV carried from the '
             'previous call; afterwards self.IV is the last ciphertext block (unchanged for empty input)')


# --- CBC round trip (two consecutive records): decrypt(encrypt(x)) == x, IVs stay in step ---------

def _cbc_pair(api):
    st = api.st
    snd = api.make('snd', AES_CBC)
    rcv = api.make('rcv', AES_CBC)
    ns = api.ns(st)
    h = st.heap
    h[(ns.f(rcv, 'rijndael').oid, 'k')] = h[(ns.f(snd, 'rijndael').oid, 'k')]
    h[(rcv.oid, 'IV')] = h[(snd.oid, 'IV')]
    st.assume(S.len_(ns.f(snd, 'IV')) == 16)
    return snd, rcv


def _bytewise_eq_unfold(a, b, nblocks):
    """a == b byte-wise over nblocks 16-byte blocks; the goal carries the Unfold(j) marker so that the CBC
    definition is unfolded at the (skolem) block index"""
    return forall2(lambda j, y: at(a, 16 * j + y) == at(b, 16 * j + y), nblocks, unfold=True)


@scenario('cbc-roundtrip', PROP,
          doc='Python_AES: decrypt(encrypt(x)) == x for two consecutive messages of any block-multiple length with '
              'the chaining IV carried across calls on both sides; only D(E(b)) == b is assumed of the block cipher')
def cbc_roundtrip(api):
    snd, rcv = _cbc_pair(api)
    x1 = api.make('x1', T.bytes())
    x2 = api.make('x2', T.bytes())
    api.st.assume(S.And(S.len_(x1) % 16 == 0, S.len_(x2) % 16 == 0))
    E, D = U + 'python_aes.py:Python_AES.encrypt', U + 'python_aes.py:Python_AES.decrypt'

    def step(st, x, tag, then):
        for o in api.call(E, [snd, x], st, inline=False):
            if o.kind != 'normal':
                api.unreachable(o.st, tag + ':encrypt-does-not-raise')
                continue
            c = o.val
            for o2 in api.call(D, [rcv, c], o.st, inline=False):
                if o2.kind != 'normal':
                    api.unreachable(o2.st, tag + ':decrypt-does-not-raise')
                    continue
                ns = api.ns(o2.st)
                api.oblige(o2.st, tag + ':length', S.len_(o2.val) == S.len_(x))
                api.oblige(o2.st, tag + ':plaintext-equal', _bytewise_eq_unfold(o2.val, x, S.len_(x) / 16))
                api.oblige(o2.st, tag + ':ivs-in-step', S.And(*[ns.f(snd, 'IV')[t] == ns.f(rcv, 'IV')[t]
                                                                for t in range(16)]))
                # continue from a state where the two IVs are known equal as sequences (just proved byte-wise;
                # both have length 16)
                o2.st.heap[(rcv.oid, 'IV')] = o2.st.heap[(snd.oid, 'IV')]
                then(o2.st)
    step(api.st, x1, 'msg1', lambda st: step(st, x2, 'msg2', lambda st2: None))


# ---------------------------------------------------------------------------
# CTR (SP 800-38A 6.5, standard incrementing function over the whole 128-bit block):
#   T_i = (T_0 + i) mod 2^128 (big-endian),  O_i = E(T_i),  C = P xor MSB_len(P)(O_0 || O_1 || ...)
import pyvc.models_crypto as MC   # noqa: numberToByteArray / int.from_bytes models (s_be / s_val)
import pyvc.iters                 # noqa: comprehensions over iterables of symbolic length

TWO128 = 1 << 128
CtrT = S.uf('CtrT', [I] * 16 + [I], Seq)             # the 16 bytes of T_0, block index i -> counter block T_i
CtrKS = S.uf('CtrKS', [Val] + [I] * 16 + [I], Seq)   # key, the 16 bytes of T_0, block index i -> O_i = E_K(T_i)


def inc128(blk):
    """the standard incrementing function on a 16-byte block (z3 Seq term): + 1 mod 2^128, big-endian"""
    return smt.s_be((smt.s_val(blk) + 1) % TWO128, z3.IntVal(16))


def _ctr_axioms():
    k = z3.Const('ck', Val)
    i = z3.Int('ci')
    c = [z3.Int('cb%d' % t) for t in range(16)]
    t0 = CtrT(*(c + [z3.IntVal(0)]))
    ti = CtrT(*(c + [i]))
    A = [
        # T_0 is the given block
        FA(c, z3.And([slen(t0) == 16] + [sat(t0, z3.IntVal(t)) == c[t] for t in range(16)]), [t0]),
        FA(c + [i], z3.Implies(i >= 0, z3.And(slen(ti) == 16, isb(ti) == z3.Or(i > 0, z3.And([z3.And(0 <= x, x <= 255) for x in c])))),
           [ti]),
        # T_{i+1} = inc(T_i); unfolded only where the marker MkU(i) is present
        FA(c + [i], z3.Implies(i >= 0, CtrT(*(c + [i + 1])) == inc128(ti)), [_mp(ti, MkU(i))]),
        # O_i = E_K(T_i)
        FA([k] + c + [i], CtrKS(k, *(c + [i])) == E_of_seq(k, ti), [_mp(CtrKS(k, *(c + [i])), MkU(i))]),
        FA([k] + c + [i], z3.And(slen(CtrKS(k, *(c + [i]))) == 16, isb(CtrKS(k, *(c + [i])))), [CtrKS(k, *(c + [i]))]),
    ]
    # numberToByteArray(n, 16) keeps the low-order 16 bytes: the one instance needed (n == 2^128 -> 0)
    hi, lo = smt.s_be(z3.IntVal(TWO128), z3.IntVal(16)), smt.s_be(z3.IntVal(0), z3.IntVal(16))
    A.append(z3.And([sat(hi, z3.IntVal(t)) == sat(lo, z3.IntVal(t)) for t in range(16)]))
    A.append(z3.ForAll([i], sat(hi, i) == sat(lo, i), patterns=[sat(hi, i), sat(lo, i)]))
    # consequences of the s_val / s_be axioms stated with a trigger that always fires: the value of a 16-byte
    # block is below 2^128 and re-encoding it on 16 bytes gives the block back
    a = z3.Const('ca', Seq)
    re = smt.s_be(smt.s_val(a) % TWO128, z3.IntVal(16))
    A.append(FA([a], z3.Implies(z3.And(isb(a), slen(a) == 16),
                                z3.And([sat(re, z3.IntVal(t)) == sat(a, z3.IntVal(t)) for t in range(16)] +
                                       [smt.s_val(a) % TWO128 == smt.s_val(a)])),
                [smt.s_val(a)]))
    return A


smt.AXIOMS.extend(_ctr_axioms())

AES_CTR = T.obj(PA.Python_AES_CTR, rijndael=RIJ, _counter=T.bytes(), _counter_bytes=T.int())


def ctr_ks(k, c0bytes, j):
    """key stream block j for the initial counter block given by its 16 byte terms (VSeq)"""
    return VSeq(CtrKS(k, *(list(c0bytes) + [_lift(j).t])), 'byte')


def seq_bytes16(s):
    return [sat(s.t, z3.IntVal(t)) for t in range(16)]


def ctr_t(c0bytes, i):
    """counter block T_i for the initial block given by its 16 byte terms (VSeq)"""
    return VSeq(CtrT(*(list(c0bytes) + [_lift(i).t])), 'byte')


def _ctr_counter_is(counter, c0bytes, i):
    return vb(counter.t == ctr_t(c0bytes, i).t)


contract(U + 'python_aes.py:Python_AES_CTR._counter_update',
         params={'self': AES_CTR},
         requires=lambda ns: S.And(S.len_(ns.f(ns.self, '_counter')) == 16, ns.f(ns.self, '_counter_bytes') >= 0,
                                   ns.f(ns.self, '_counter_bytes') <= 16),
         result=T.none(), modifies=[('self', '_counter')],
         raises={OverflowError: ('iff', lambda ns: (lambda cb, new: S.And(
             cb > 0, new[16 - cb:16] == S.rep(255, cb)))(
                 ns.f(ns.self, '_counter_bytes'),
                 VSeq(smt.s_be(smt.s_val(ns.f(ns.self, '_counter').t) + 1, z3.IntVal(16)), 'byte')))},
         ensures=lambda ns: S.And(vb(ns.f(ns.self, '_counter').t == inc128(ns.old.f(ns.self, '_counter').t)),
                                  S.len_(ns.f(ns.self, '_counter')) == 16, S.is_bytes(ns.f(ns.self, '_counter'))),
         exc_ensures=lambda ns: vb(ns.f(ns.self, '_counter').t == inc128(ns.old.f(ns.self, '_counter').t)),
         prop=PROP,
         doc='the counter block is incremented as one 128-bit big-endian integer (carry across all bytes, wrap at '
             '2^128); OverflowError exactly when a dedicated counter field (last _counter_bytes bytes) becomes all-ones')


def _ctr_enc_inv(ns):
    k = K(ns)
    cb = seq_bytes16(ns.old.f(ns.self, '_counter'))
    mask = ns.mask
    n = S.len_(ns.plaintext)
    m = S.len_(mask) / 16
    return S.And(
        S.is_bytes(mask), S.len_(mask) == 16 * m, m >= 0,
        S.Or(m == 0, 16 * (m - 1) < n), unfold(m),
        _ctr_counter_is(ns.f(ns.self, '_counter'), cb, m),
        S.len_(ns.f(ns.self, '_counter')) == 16, S.is_bytes(ns.f(ns.self, '_counter')),
        forallq(lambda q: at(mask, q) == at(ctr_ks(k, cb, q / 16), q % 16), 16 * m, pat=lambda q: [at(mask, q)]))


def ctr_nblocks(n):
    """number of key stream blocks consumed for n bytes: ceil(n / 16)"""
    n = _lift(n)
    return VInt((n.t + 15) / 16)


CtrX = S.uf('CtrX', [Val] + [I] * 16 + [Seq], Seq, seq_ext=[17])   # functional form of the CTR transformation


def _ctrx_axioms():
    k = z3.Const('ck', Val)
    c = [z3.Int('cb%d' % t) for t in range(16)]
    inp = z3.Const('cinp', Seq)
    q = z3.Int('cq')
    x = CtrX(k, *(c + [inp]))
    return [FA([k] + c + [inp], z3.And(slen(x) == slen(inp), z3.Implies(isb(inp), isb(x))), [x]),
            FA([k] + c + [inp, q], z3.Implies(z3.And(0 <= q, q < slen(inp)),
                                            sat(x, q) == smt.bxor(sat(inp, q), sat(CtrKS(k, *(c + [q / 16])), q % 16))),
               [sat(x, q)])]


smt.AXIOMS.extend(_ctrx_axioms())


def ctr_xor(k, cb, inp):
    """the CTR transformation of inp as a term: byte q is inp[q] xor O_{q div 16}[q mod 16]"""
    return VSeq(CtrX(k, *(list(cb) + [inp.t])), 'byte')


def ctr_xor_spec(k, cb, inp, out):
    """out == CtrX(k, cb, inp): out[q] == inp[q] xor O_{q div 16}[q mod 16] for every q < len(inp), O_j the key
    stream block j of the CTR started at the counter block with bytes cb"""
    return vb(out.t == ctr_xor(k, cb, inp).t)


def _ctr_enc_post(ns):
    k = K(ns.old)
    cb = seq_bytes16(ns.old.f(ns.self, '_counter'))
    p = ns.plaintext
    n = S.len_(p)
    r = ns.result
    return S.And(
        S.len_(r) == n, S.is_bytes(r),
        # byte q of the result is P[q] xor O_{q div 16}[q mod 16]; the last block may be partial
        ctr_xor_spec(k, cb, p, r),
        _ctr_counter_is(ns.f(ns.self, '_counter'), cb, ctr_nblocks(n)),
        S.len_(ns.f(ns.self, '_counter')) == 16, S.is_bytes(ns.f(ns.self, '_counter')))


for _nm in ('encrypt', 'decrypt'):
    contract(U + 'python_aes.py:Python_AES_CTR.' + _nm,
             params={'self': AES_CTR, ('plaintext' if _nm == 'encrypt' else 'ciphertext'): T.bytes()},
             requires=lambda ns: S.And(S.len_(ns.f(ns.self, '_counter')) == 16, ns.f(ns.self, '_counter_bytes') == 0),
             result=T.bytes(), modifies=[('self', '_counter')],
             ensures=(_ctr_enc_post if _nm == 'encrypt' else
                      (lambda ns: _ctr_enc_post(_Rename(ns, plaintext='ciphertext')))),
             loops={('Python_AES_CTR.encrypt', 1): LoopSpec(_ctr_enc_inv, modifies_fields=[('self', '_counter')],
                                                           fingerprint='len(mask) < len(plaintext)')},
             prop=PROP,
             doc='CTR mode: byte q of the result is P[q] xor E(T_{q//16})[q%16], T_0 = self._counter, T_{i+1} = inc(T_i) '
                 '(128-bit big-endian + 1, wrap at 2^128); afterwards the counter is T_{ceil(len/16)}; precondition from '
                 'the call sites (GCM, CCM): no dedicated counter field')


# ---------------------------------------------------------------------------
# ct_compare_digest: under the running interpreter tlslite.utils.constanttime.ct_compare_digest IS
# hmac.compare_digest (C builtin); the pure-Python fallback in constanttime.py is not the definition in
# force.  Trusted model: compare_digest(a, b) == (a == b) for byte strings (whole-string comparison).
# (the model itself lives in pyvc/builtins_model.py: m_compare_digest)


# ---------------------------------------------------------------------------
# AES-GCM (SP 800-38D).  Abstract: GMul(h, y) = y * H in GF(2^128) (table-driven AESGCM._mul, bounded
# differential check against the bit-wise definition in specs/ciphers.py).
#   GHASH:  X_0 = 0,  X_i = (X_{i-1} xor B_i) * H  over  pad16(A) || pad16(C) || [len(A)]_64 || [len(C)]_64
#   T = GHASH xor E_K(J_0),   J_0 = IV || 0^31 || 1,   C = CTR_K(inc32(J_0), P)
import tlslite.utils.aesgcm as GCMMOD
from pyvc.executor import BoundMethod

GMul = S.uf('GMul', [Val, I], I)
GFold = S.uf('GFold', [Val, I, Seq, I], I, seq_ext=[2])     # h, start value, data, number of full blocks folded


def _gcm_axioms():
    h = z3.Const('gh', Val)
    d = z3.Const('gd', Seq)
    y, i, x, z = z3.Ints('gy gi gx gz')
    A = [FA([h, y], z3.Implies(z3.And(0 <= y, y < TWO128), z3.And(0 <= GMul(h, y), GMul(h, y) < TWO128)),
            [GMul(h, y)]),
         FA([h, y, d], GFold(h, y, d, z3.IntVal(0)) == y, [GFold(h, y, d, z3.IntVal(0))]),
         FA([h, y, d, i], z3.Implies(i == 0, GFold(h, y, d, i) == y), [GFold(h, y, d, i)]),
         # X_{i+1} = (X_i xor B_i) * H ; unfolded only where the marker MkJ(i) is present
         FA([h, y, d, i], z3.Implies(i >= 0, GFold(h, y, d, i + 1) ==
                                     GMul(h, smt.bxor(GFold(h, y, d, i), smt.s_val(smt.s_slice(d, 16 * i, 16 * i + 16))))),
            [_mp(GFold(h, y, d, i), MkU(i))]),
         # bit-operation facts on 128-bit operands (proved in BV by _selfcheck_bits128)
         FA([x, z], z3.Implies(z3.And(0 <= x, x < TWO128, 0 <= z, z < TWO128),
                               z3.And(0 <= smt.bxor(x, z), smt.bxor(x, z) < TWO128)), [smt.bxor(x, z)]),
         FA([x, z], z3.Implies(z3.And(0 <= x, x < TWO128, x % (1 << 64) == 0, 0 <= z, z < (1 << 64)),
                               smt.bor(x, z) == x + z), [smt.bor(x, z)])]
    return A


def _selfcheck_bits128():
    a, b = z3.BitVecs('s128a s128b', 136)
    lim = z3.BitVecVal(TWO128, 136)
    s = z3.Solver()
    s.add(z3.ULT(a, lim), z3.ULT(b, lim))
    s.add(z3.Not(z3.And(z3.ULT(a ^ b, lim),
                        z3.Implies(z3.And(z3.Extract(63, 0, a) == 0, z3.ULT(b, z3.BitVecVal(1 << 64, 136))),
                                   (a | b) == a + b))))
    if s.check() != z3.unsat:
        raise RuntimeError('128-bit bit-operation lemmas not proved')


_selfcheck_bits128()
smt.AXIOMS.extend(_gcm_axioms())

AES_GCM = T.obj(GCMMOD.AESGCM, _ctr=AES_CTR, h=T.opaque())


def _gcm_setup(ex, st, ns):
    """self._rawAesEncrypt is Rijndael(key, 16).encrypt for the same key as the CTR object
    (python_aesgcm.new / AESGCM.__init__); the hash key h stands for E_K(0^128) and its product table."""
    g = st.env['self']
    ctr = st.heap[(g.oid, '_ctr')]
    rij = st.heap[(ctr.oid, 'rijndael')]
    st.heap[(g.oid, '_rawAesEncrypt')] = VPy(BoundMethod(rij, RJ.Rijndael.__dict__['encrypt'], RJ.Rijndael))


from pyvc.values import VPy   # noqa


def _gcm_mul(ex, args, kw, st, fr, node):
    self_, y = args[0], ex._as_int(args[1])
    h = st.heap[(self_.oid, 'h')].t
    res = []
    ok, bad = ex.split(st, z3.And(0 <= y.t, y.t < TWO128))
    if bad is not None:     # `assert y == 0` after consuming 128 bits fails for larger y; negative y loops on -1
        res.append(ex.raise_(bad, AssertionError, 'AESGCM._mul operand out of range line %d' % getattr(node, 'lineno', 0)))
    if ok is not None:
        r = VInt(GMul(h, y.t))
        ok.assume(z3.And(0 <= r.t, r.t < TWO128))
        res.append(Outcome('normal', ok, r))
    return res


REG.external[U + 'aesgcm.py:AESGCM._mul'] = _gcm_mul
REG.no_inline.add(U + 'aesgcm.py:AESGCM._mul')


def H(ns, obj=None):
    return ns.f(ns.self if obj is None else obj, 'h').t


def gfold(h, y, d, i):
    return VInt(GFold(h, _lift(y).t, d.t, _lift(i).t))


def gmul(h, y):
    return VInt(GMul(h, _lift(y).t))


GUpd = S.uf('GUpd', [Val, I, Seq], I, seq_ext=[2])     # h, start value, data -> GHASH state after absorbing pad16(data)
MkD = z3.Function('MkD', Seq, I)                       # marker: "unfold GUpd for this data"
_md = z3.Const('mkd', Seq)
smt.AXIOMS.append(z3.ForAll([_md], MkD(_md) == 0, patterns=[MkD(_md)]))


def gupd_def(h, y, d):
    """definition of GUpd: all full blocks, then the zero-padded partial block if any (VInt)"""
    n = S.len_(d)
    nb = n / 16
    e = n % 16
    full = gfold(h, y, d, nb)
    last = S.cat(d[16 * nb:n], S.rep(0, 16 - e))
    return S.ite(e == 0, full, gmul(h, vxor(full, VInt(smt.s_val(last.t)))))


def _gupd_axiom():
    h = z3.Const('gh', Val)
    d = z3.Const('gd', Seq)
    y = z3.Int('gy')
    return [FA([h, y, d], GUpd(h, y, d) == gupd_def(h, VInt(y), VSeq(d)).t, [_mp(GUpd(h, y, d), MkD(d))]),
            FA([h, y, d], z3.Implies(z3.And(0 <= y, y < TWO128), z3.And(0 <= GUpd(h, y, d), GUpd(h, y, d) < TWO128)),
               [GUpd(h, y, d)])]


smt.AXIOMS.extend(_gupd_axiom())


def gupd(h, y, d):
    return VInt(GUpd(h, _lift(y).t, d.t))


def unfold_data(d):
    return vb(MkD(d.t) == 0)


def _gcm_update_inv(ns):
    h = H(ns)
    return S.And(ns.y >= 0, ns.y < TWO128, ns.idx >= 0, unfold(ns.idx),
                 ns.y == gfold(h, ns.old.y, ns.data, ns.idx))


contract(U + 'aesgcm.py:AESGCM._update',
         params={'self': AES_GCM, 'y': T.int(), 'data': T.bytes()}, setup=_gcm_setup,
         requires=lambda ns: S.And(ns.y >= 0, ns.y < TWO128),
         result=T.int(),
         ensures=lambda ns: S.And(S.implies(unfold_data(ns.data), ns.result == gupd(H(ns), ns.y, ns.data)),
                                  ns.result >= 0, ns.result < TWO128),
         loops={1: LoopSpec(_gcm_update_inv, fingerprint='len(data) // 16')},
         prop=PROP,
         doc='GHASH absorption: every full 16-byte block B updates y to (y xor B)*H, a trailing partial block is '
             'zero-padded on the right to 16 bytes first; nothing is absorbed for empty data')


def ghash_tag(h, k, j0_bytes, aad, ct):
    """T = GHASH_H(A, C) xor E_K(J_0) as 16 bytes (VSeq).  j0_bytes: 16 z3 Int terms."""
    x = gupd(h, gupd(h, 0, aad), ct)
    lenblk = S.len_(aad) * 8 * (1 << 64) + S.len_(ct) * 8            # [len(A)]_64 || [len(C)]_64, lengths in bits
    s = gmul(h, vxor(x, lenblk))
    mask = VInt(smt.s_val(AesE(k, *j0_bytes)))
    return VSeq(smt.s_be(vxor(s, mask).t, z3.IntVal(16)), 'byte')


LEN61 = 1 << 61      # SP 800-38D: len(A), len(C) < 2^64 bits


contract(U + 'aesgcm.py:AESGCM._auth',
         params={'self': AES_GCM, 'ciphertext': T.bytes(), 'ad': T.bytes(), 'tagMask': T.bytes()}, setup=_gcm_setup,
         requires=lambda ns: S.And(S.len_(ns.ciphertext) < LEN61, S.len_(ns.ad) < LEN61, S.len_(ns.tagMask) == 16),
         result=T.bytes(),
         ensures=lambda ns: (lambda h, x: S.And(
             S.len_(ns.result) == 16, S.is_bytes(ns.result),
             ns.result == VSeq(smt.s_be(vxor(gmul(h, vxor(x, S.len_(ns.ad) * 8 * (1 << 64) + S.len_(ns.ciphertext) * 8)),
                                             VInt(smt.s_val(ns.tagMask.t))).t, z3.IntVal(16)), 'byte')))(
                 H(ns), gupd(H(ns), gupd(H(ns), 0, ns.ad), ns.ciphertext)),
         prop=PROP,
         doc='tag = (GHASH over pad16(A) || pad16(C) || [8 len(A)]_64 || [8 len(C)]_64) xor tagMask, 16 bytes big-endian')


def _j0(nonce, last):
    """bytes of nonce || 0^3 || last  (16 z3 Int terms)"""
    return [sat(nonce.t, z3.IntVal(t)) for t in range(12)] + [z3.IntVal(0)] * 3 + [z3.IntVal(last)]


def _gcm_ctr(ns, st_ns=None):
    return (st_ns or ns).f(ns.self, '_ctr')


GCM_PMAX = (1 << 36) - 32          # SP 800-38D: len(P) <= 2^39 - 256 bits


def _gcm_ct_spec(k, nonce, inp, out):
    """out == CTR_K(J_0 + 1, inp): byte-wise, counter blocks J_0 + 1 + j (128-bit add == inc32 for <= 2^32 - 2 blocks)"""
    return ctr_xor_spec(k, _j0(nonce, 2), inp, out)


def _gcm_seal_post(ns):
    k = ns.f(ns.f(_gcm_ctr(ns.old), 'rijndael'), 'k').t
    h = H(ns)
    n = S.len_(ns.plaintext)
    ct = ctr_xor(k, _j0(ns.nonce, 2), ns.plaintext)
    return S.And(S.len_(ns.result) == n + 16, S.is_bytes(ns.result),
                 ns.result == S.cat(ct, ghash_tag(h, k, _j0(ns.nonce, 1), ns.data, ct)))


contract(U + 'aesgcm.py:AESGCM.seal',
         params={'self': AES_GCM, 'nonce': T.bytes(), 'plaintext': T.bytes(), 'data': T.bytes()}, setup=_gcm_setup,
         requires=lambda ns: S.And(S.len_(ns.plaintext) <= GCM_PMAX, S.len_(ns.data) < LEN61,
                                   ns.f(_gcm_ctr(ns), '_counter_bytes') == 0),
         result=T.bytes(), modifies=[('self._ctr', '_counter')],
         raises={ValueError: ('iff', lambda ns: S.len_(ns.nonce) != 12)},
         ensures=_gcm_seal_post,
         prop=PROP,
         doc='seal = C || T with C = CTR_K(J_0 + 1, P), J_0 = nonce || 0^31 || 1, T = GHASH_H(A, C) xor E_K(J_0)')


def _gcm_open_post(ns):
    k = ns.f(ns.f(_gcm_ctr(ns.old), 'rijndael'), 'k').t
    h = H(ns)
    c = ns.ciphertext
    ct, tag = c[:-16], c[-16:]
    want = ghash_tag(h, k, _j0(ns.nonce, 1), ns.data, ct)
    ctr0 = ns.old.f(_gcm_ctr(ns.old), '_counter')
    ctr1 = ns.f(_gcm_ctr(ns.old), '_counter')
    if isinstance(ns.result, VNone):
        # refused: too short to hold a tag, or the 16-byte tag is not the one computed over (nonce, aad, ct);
        # no key stream was produced (the CTR counter is untouched)
        return S.And(S.Or(S.len_(c) < 16, tag != want), vb(ctr1.t == ctr0.t))
    return S.And(S.len_(c) >= 16, tag == want, S.is_bytes(ns.result),
                 _gcm_ct_spec(k, ns.nonce, ct, ns.result))


contract(U + 'aesgcm.py:AESGCM.open',
         params={'self': AES_GCM, 'nonce': T.bytes(), 'ciphertext': T.bytes(), 'data': T.bytes()}, setup=_gcm_setup,
         requires=lambda ns: S.And(S.len_(ns.ciphertext) <= GCM_PMAX + 16, S.len_(ns.data) < LEN61,
                                   ns.f(_gcm_ctr(ns), '_counter_bytes') == 0),
         result=T.bytes(), modifies=[('self._ctr', '_counter')],
         raises={ValueError: ('iff', lambda ns: S.len_(ns.nonce) != 12)},
         ensures=_gcm_open_post,
         prop=('C09', 'C02'),
         doc='open returns None exactly when the input is shorter than a tag or its last 16 bytes differ (as a whole) '
             'from GHASH_H(A, C) xor E_K(J_0); only otherwise it returns CTR_K(J_0 + 1, C), and only then is any '
             'key stream produced')


def make_gcm(api, name):
    g = api.make(name, AES_GCM)
    st = api.st
    ctr = st.heap[(g.oid, '_ctr')]
    rij = st.heap[(ctr.oid, 'rijndael')]
    st.heap[(g.oid, '_rawAesEncrypt')] = VPy(BoundMethod(rij, RJ.Rijndael.__dict__['encrypt'], RJ.Rijndael))
    st.assume(st.heap[(ctr.oid, '_counter_bytes')].t == 0)
    return g


def _same_key_gcm(api, a, b):
    h = api.st.heap
    h[(b.oid, 'h')] = h[(a.oid, 'h')]
    ra = h[(h[(a.oid, '_ctr')].oid, 'rijndael')]
    rb = h[(h[(b.oid, '_ctr')].oid, 'rijndael')]
    h[(rb.oid, 'k')] = h[(ra.oid, 'k')]


@scenario('gcm-open-seal', ('C09', 'C02'),
          doc='AESGCM: open(nonce, seal(nonce, P, A), A) == P for every P, A, 12-byte nonce (two objects with the '
              'same key); the refusal side is the None branch of the AESGCM.open contract',
          opts={'prune': False})
def gcm_open_seal(api):
    snd, rcv = make_gcm(api, 'snd'), make_gcm(api, 'rcv')
    _same_key_gcm(api, snd, rcv)
    nonce, p, a = api.make('nonce', T.bytes()), api.make('p', T.bytes()), api.make('a', T.bytes())
    api.st.assume(S.And(S.len_(nonce) == 12, S.len_(p) <= GCM_PMAX, S.len_(a) < LEN61))
    for o in api.call(U + 'aesgcm.py:AESGCM.seal', [snd, nonce, p, a], api.st, inline=False):
        if o.kind != 'normal':
            api.unreachable(o.st, 'seal-does-not-raise')
            continue
        sealed = o.val
        for o2 in api.call(U + 'aesgcm.py:AESGCM.open', [rcv, nonce, sealed, a], o.st.fork()):
            if o2.kind != 'normal':
                api.unreachable(o2.st, 'open-does-not-raise')
            elif isinstance(o2.val, VNone):
                api.unreachable(o2.st, 'open-accepts-untouched-ciphertext')
            else:
                n = S.len_(p)
                api.oblige(o2.st, 'length', S.len_(o2.val) == n)
                api.oblige(o2.st, 'plaintext-equal', forallq(lambda q: at(o2.val, q) == at(p, q), n))


# ---------------------------------------------------------------------------
# AES-CCM (RFC 3610), L = 15 - len(nonce) = 3, M = tagLength in {8, 16}
#   B_0 = flags || N || l(m),  flags = 64*Adata + 8*((M-2)/2) + (L-1)
#   a-encoding: [l(a)]_2 | FF FE [l(a)]_4 | FF FF [l(a)]_8, then a, zero-padded to 16;  then m zero-padded to 16
#   X_1 = E(B_0), X_{i+1} = E(X_i xor B_i)  (== CBC with zero IV),  T = first M bytes of the last X
#   A_i = (L-1) || N || [i]_L,  S_i = E(A_i),  U = T xor first M bytes of S_0,  C = m xor (S_1 S_2 ...)
import tlslite.utils.aesccm as CCMMOD
import ast as _ast

AES_CCM = T.obj(CCMMOD.AESCCM, _ctr=AES_CTR, _cbc=AES_CBC, tagLength=T.int())


def _ccm_setup(ex, st, ns):
    """both mode objects are built from the same key (AESCCM.__init__)"""
    g = st.env['self']
    rc = st.heap[(st.heap[(g.oid, '_ctr')].oid, 'rijndael')]
    rb = st.heap[(st.heap[(g.oid, '_cbc')].oid, 'rijndael')]
    st.heap[(rb.oid, 'k')] = st.heap[(rc.oid, 'k')]


def _padlen(n, size):
    return VInt(z3.If(n.t % size.t == 0, 0, size.t - n.t % size.t))


def pad16(x):
    """x zero-padded on the right to a multiple of 16 bytes (VSeq)"""
    n = S.len_(x)
    return S.cat(x, S.rep(0, _padlen(n, VInt(16))))


def _pad_apply(c, ex, args, kwargs, st, fr, node):
    """AESCCM._pad_with_zeroes(data, size) extends the caller's bytearray IN PLACE (bytearray `+=`): modelled by
    rebinding the caller's variable; only call sites passing a plain local name are supported"""
    data, size = args[-2], ex._as_int(args[-1])
    argn = node.args[0]
    if not isinstance(argn, _ast.Name) or not isinstance(data, VSeq):
        raise Unsupported('_pad_with_zeroes on a non-local argument')
    ex.oblige(st, 'call:_pad_with_zeroes:requires@L%d' % node.lineno, size.t >= 1, kind='call-requires')
    new = VSeq(smt.s_concat(data.t, smt.s_rep(z3.IntVal(0), _padlen(VInt(slen(data.t)), size).t)), 'byte', data.pytype)
    outs = ex.assign(_ast.Name(id=argn.id, ctx=_ast.Store()), new, st, fr)
    return [Outcome('normal', o.st, VNone()) for o in outs]


contract(U + 'aesccm.py:AESCCM._pad_with_zeroes',
         params={'data': T.bytes(), 'size': T.int()},
         requires=lambda ns: ns.size >= 1,
         result=T.none(),
         ensures=lambda ns: S.seq_eq(ns.final('data'),
                                     S.cat(ns.data, S.rep(0, _padlen(S.len_(ns.data), ns.size)))),
         apply_fn=_pad_apply,
         prop=PROP,
         doc='appends the minimal number (0..size-1) of zero bytes that makes the length a multiple of size; the '
             'argument is extended in place')


def ccm_flags(M, adata, L=3):
    return 64 * S.ite(adata, 1, 0) + 8 * ((M - 2) / 2) + (L - 1)


def ccm_b0(M, nonce, aad, msg):
    return S.cat(S.byte(ccm_flags(M, S.len_(aad) > 0)), nonce, S.be_n(S.len_(msg), 3))


def ccm_blocks_cases(M, nonce, aad, msg):
    """[(condition, B)] -- the CBC-MAC input B = B_0 || encoded a || m (each part zero-padded), one entry per
    case of the a-length encoding / empty message (case split kept at the boolean level)"""
    la = S.len_(aad)
    b0 = ccm_b0(M, nonce, aad, msg)
    encs = [(la == 0, S.empty()),
            ((la > 0) & (la < 0xFF00), S.be_n(la, 2)),
            ((la >= 0xFF00) & (la < (1 << 32)), S.cat([0xFF, 0xFE], S.be_n(la, 4))),
            (la >= (1 << 32), S.cat([0xFF, 0xFF], S.be_n(la, 8)))]
    out = []
    for cond, enc in encs:
        head = pad16(S.cat(b0, enc, aad))
        out.append((cond & (S.len_(msg) == 0), head))
        out.append((cond & (S.len_(msg) > 0), S.cat(head, pad16(msg))))
    return out


ZERO16 = VSeq(smt.s_rep(z3.IntVal(0), z3.IntVal(16)), 'byte')


CcmB = S.uf('CcmB', [I, Seq, Seq, Seq], Seq, seq_ext=[1, 2, 3])     # M, nonce, aad, msg -> CBC-MAC input B


def _ccm_axioms():
    M = z3.Int('cM')
    n, a, m = z3.Consts('cn ca cm', Seq)
    b = CcmB(M, n, a, m)
    cases = ccm_blocks_cases(VInt(M), VSeq(n), VSeq(a), VSeq(m))
    return [FA([M, n, a, m], z3.And([z3.Implies(truthy(c), b == B.t) for c, B in cases]), [b])]


smt.AXIOMS.extend(_ccm_axioms())


def ccm_B(M, nonce, aad, msg):
    return VSeq(CcmB(_lift(M).t, nonce.t, aad.t, msg.t), 'byte')


def ccm_mac_is(k, M, nonce, aad, msg, t):
    """t == T: the first M bytes of the last CBC block of B under a zero IV"""
    B = ccm_B(M, nonce, aad, msg)
    last = cbc_block(k, ZERO16, B, S.len_(B) / 16 - 1)
    M = _lift(M)
    i = z3.Int(fresh_name('i'))
    # the same statement at a symbolic position (the disjunction is valid for 0 <= i < 16; it hands the solver the
    # case split that connects a symbolic position with the literal ones)
    body = z3.Implies(z3.And(0 <= i, i < M.t, z3.Or([i == q for q in range(16)]), Unfold((S.len_(B) / 16 - 1).t)),
                      sat(t.t, i) == sat(last.t, i))
    try:
        sym = z3.ForAll([i], body, patterns=[sat(t.t, i)])
    except z3.Z3Exception:            # t is not an admissible trigger term (goal side: no trigger needed)
        sym = z3.ForAll([i], body)
    return S.And(S.len_(t) == M, vb(sym),
                 *[S.implies((M > q) & vb(Unfold((S.len_(B) / 16 - 1).t)), at(t, q) == at(last, q))
                   for q in range(16)])


def _ccm_k(ns):
    return ns.f(ns.f(ns.f(ns.self, '_ctr'), 'rijndael'), 'k').t


CCM_MSG_MAX = (1 << 24) - 1         # l(m) < 2^(8L), L = 3
CCM_AAD_MAX = (1 << 61)             # l(a) < 2^64 (RFC 3610); kept below 2^61 like GCM


def _ccm_common_req(ns):
    return S.And(S.Or(ns.f(ns.self, 'tagLength') == 8, ns.f(ns.self, 'tagLength') == 16),
                 ns.f(ns.f(ns.self, '_ctr'), '_counter_bytes') == 0,
                 S.len_(ns.f(ns.f(ns.self, '_ctr'), '_counter')) == 16)


contract(U + 'aesccm.py:AESCCM._cbcmac_calc',
         params={'self': AES_CCM, 'nonce': T.bytes(), 'aad': T.bytes(), 'msg': T.bytes()}, setup=_ccm_setup,
         requires=lambda ns: S.And(_ccm_common_req(ns), S.len_(ns.nonce) == 12, S.len_(ns.msg) <= CCM_MSG_MAX,
                                   S.len_(ns.aad) < CCM_AAD_MAX),
         result=T.bytes(), modifies=[('self._cbc', 'IV')],
         ensures=lambda ns: S.And(S.is_bytes(ns.result), S.len_(ns.result) == ns.f(ns.self, 'tagLength'),
                                  ccm_mac_is(_ccm_k(ns), ns.f(ns.self, 'tagLength'), ns.nonce, ns.aad, ns.msg,
                                             ns.result)),
         prop=PROP,
         doc='RFC 3610 2.2: T = first M bytes of the CBC-MAC (zero IV) over B_0 || l(a)-encoding || a || 0* || m || 0* '
             'with B_0 = flags || nonce || [l(m)]_3, flags = 64*[a non-empty] + 8*((M-2)/2) + 2; a-length encoded on '
             '2 bytes below 2^16-2^8, as FFFE+4 bytes below 2^32, else FFFF+8 bytes')


# case split helper for extensionality witnesses over tags (valid arithmetic: an integer in [0, 16) is one of
# 0..15); lets the solver connect a byte-string disequality found by the code (`!=`, compare_digest) with
# specifications stated byte by byte at literal positions
def _witness_split_axiom():
    a, b = z3.Consts('wa wb', Seq)
    d = smt.s_diff(a, b)
    return [FA([a, b], z3.Implies(z3.And(slen(a) <= 16, 0 <= d, d < slen(a)),
                                  z3.Or([d == t for t in range(16)])), [d])]


smt.AXIOMS.extend(_witness_split_axiom())


def ccm_a0(nonce):
    """bytes of A_0 = (L-1) || nonce || 0^L, L = 3"""
    return [z3.IntVal(2)] + [sat(nonce.t, z3.IntVal(t)) for t in range(12)] + [z3.IntVal(0)] * 3


def ccm_tag(k, M, nonce, aad, msg):
    """T (VSeq of 16 bytes of which the first M count): last CBC block of B"""
    B = ccm_B(M, nonce, aad, msg)
    return cbc_block(k, ZERO16, B, S.len_(B) / 16 - 1)


def _ccm_ct_spec(k, nonce, inp, out):
    """out == inp xor S_1 S_2 ... : CTR started at A_1 = inc(A_0)"""
    a1 = seq_bytes16(ctr_t(ccm_a0(nonce), 1))
    return ctr_xor_spec(k, a1, inp, out)


def _ccm_seal_post(ns):
    k = _ccm_k(ns.old)
    M = ns.f(ns.self, 'tagLength')
    n = S.len_(ns.msg)
    r = ns.result
    T_ = ccm_tag(k, M, ns.nonce, ns.aad, ns.msg)
    a0 = ccm_a0(ns.nonce)
    a1 = seq_bytes16(ctr_t(a0, 1))
    # C = m xor S_1 S_2 ...;  U = first M bytes of (T xor S_0)
    return S.And(S.len_(r) == n + M, S.is_bytes(r),
                 r == S.cat(ctr_xor(k, a1, ns.msg), ctr_xor(k, a0, T_)[0:M]))


contract(U + 'aesccm.py:AESCCM.seal',
         params={'self': AES_CCM, 'nonce': T.bytes(), 'msg': T.bytes(), 'aad': T.bytes()}, setup=_ccm_setup,
         requires=lambda ns: S.And(_ccm_common_req(ns), S.len_(ns.msg) <= CCM_MSG_MAX, S.len_(ns.aad) < CCM_AAD_MAX),
         result=T.bytes(), modifies=[('self._ctr', '_counter'), ('self._cbc', 'IV')],
         raises={ValueError: ('iff', lambda ns: S.len_(ns.nonce) != 12)},
         ensures=_ccm_seal_post,
         prop=PROP,
         doc='RFC 3610 2.3: seal = (m xor S_1 S_2 ...) || (T xor first M bytes of S_0), S_i = E(A_i), '
             'A_0 = 02 || nonce || 000000, A_{i+1} = inc(A_i), T the CBC-MAC of 2.2; M = 8 truncates the tag')


def _ccm_open_post(ns):
    k = _ccm_k(ns.old)
    M = ns.f(ns.self, 'tagLength')
    c = ns.ciphertext
    n = S.len_(c) - M
    s0 = ctr_ks(k, ccm_a0(ns.nonce), 0)
    # the (unique) candidate plaintext: C xor S_1 S_2 ...
    if isinstance(ns.result, VNone):
        # refused: shorter than a tag, or for the candidate plaintext m = C xor S_1 S_2 ... the received tag
        # U xor S_0 differs from T(nonce, aad, m) in at least one of its M bytes
        m = ctr_xor(k, seq_bytes16(ctr_t(ccm_a0(ns.nonce), 1)), c)[0:n]     # == (C xor S_1 S_2 ...), tag part dropped
        T_ = ccm_tag(k, M, ns.nonce, ns.aad, m)
        same = S.And(*[S.implies(M > q, vxor(at(c, n + q), at(s0, q)) == at(T_, q)) for q in range(16)])
        return S.Or(S.len_(c) < M, S.Not(same))
    m = ns.result
    T_ = ccm_tag(k, M, ns.nonce, ns.aad, m)
    return S.And(S.len_(c) >= M, S.is_bytes(m),
                 m == ctr_xor(k, seq_bytes16(ctr_t(ccm_a0(ns.nonce), 1)), c)[0:n],
                 *[S.implies(M > q, vxor(at(c, n + q), at(s0, q)) == at(T_, q)) for q in range(16)])


contract(U + 'aesccm.py:AESCCM.open',
         params={'self': AES_CCM, 'nonce': T.bytes(), 'ciphertext': T.bytes(), 'aad': T.bytes()}, setup=_ccm_setup,
         requires=lambda ns: S.And(_ccm_common_req(ns), S.len_(ns.ciphertext) <= CCM_MSG_MAX, S.len_(ns.aad) < CCM_AAD_MAX),
         result=T.bytes(), modifies=[('self._ctr', '_counter'), ('self._cbc', 'IV')],
         raises={ValueError: ('iff', lambda ns: S.len_(ns.nonce) != 12)},
         ensures=_ccm_open_post,
         prop=('C09', 'C02'),
         doc='RFC 3610 2.5/2.6: open returns m = C xor S_1 S_2 ... only if all M bytes of U xor S_0 equal '
             'T(nonce, aad, m); it returns None if the input is shorter than M or any tag byte differs')


def make_ccm(api, name, M):
    g = api.make(name, AES_CCM)
    st = api.st
    h = st.heap
    rc = h[(h[(g.oid, '_ctr')].oid, 'rijndael')]
    rb = h[(h[(g.oid, '_cbc')].oid, 'rijndael')]
    h[(rb.oid, 'k')] = h[(rc.oid, 'k')]
    ns = api.ns(st)
    st.assume(S.And(ns.f(g, 'tagLength') == M, ns.f(ns.f(g, '_ctr'), '_counter_bytes') == 0,
                    S.len_(ns.f(ns.f(g, '_ctr'), '_counter')) == 16))
    return g


def _ccm_roundtrip(M):
    def body(api):
        snd, rcv = make_ccm(api, 'snd', M), make_ccm(api, 'rcv', M)
        h = api.st.heap
        for fld in ('_ctr', '_cbc'):
            ra = h[(h[(snd.oid, fld)].oid, 'rijndael')]
            rb = h[(h[(rcv.oid, fld)].oid, 'rijndael')]
            h[(rb.oid, 'k')] = h[(ra.oid, 'k')]
        nonce, p, a = api.make('nonce', T.bytes()), api.make('p', T.bytes()), api.make('a', T.bytes())
        api.st.assume(S.And(S.len_(nonce) == 12, S.len_(p) <= CCM_MSG_MAX - 16, S.len_(a) < CCM_AAD_MAX))
        for o in api.call(U + 'aesccm.py:AESCCM.seal', [snd, nonce, p, a], api.st, inline=False):
            if o.kind != 'normal':
                api.unreachable(o.st, 'seal-does-not-raise')
                continue
            for o2 in api.call(U + 'aesccm.py:AESCCM.open', [rcv, nonce, o.val, a], o.st.fork()):
                if o2.kind != 'normal':
                    api.unreachable(o2.st, 'open-does-not-raise')
                elif isinstance(o2.val, VNone):
                    api.unreachable(o2.st, 'open-accepts-untouched-ciphertext')
                else:
                    api.oblige(o2.st, 'length', S.len_(o2.val) == S.len_(p))
                    api.oblige(o2.st, 'plaintext-equal', forallq(lambda q: at(o2.val, q) == at(p, q), S.len_(p)))
    return body


for _M in (16, 8):
    scenario('ccm%s-open-seal' % ('' if _M == 16 else '_8'), ('C09', 'C02'),
             doc='AESCCM (tag length %d): open(nonce, seal(nonce, P, A), A) == P for every P, A, 12-byte nonce, two '
                 'objects with the same key' % _M, opts={'prune': False})(_ccm_roundtrip(_M))


# ---------------------------------------------------------------------------
# ChaCha20 (RFC 8439 2.1 - 2.3) in bit-vector arithmetic.  The code computes on Python ints with explicit
# `& 0xffffffff`; it is executed on 64-bit vectors with no-overflow side obligations and compared with a
# transcription of the RFC on 32-bit vectors.
import tlslite.utils.chacha as CHA

BVW = 64


class TWords(T):
    """list of n 32-bit words (VList of bit-vector / Int values in [0, 2^32))"""

    def __init__(self, n):
        T.__init__(self, 'words', n=n)

    def make(self, name, st, bv=None):
        items = []
        for i in range(self.kw['n']):
            if bv:
                v = VInt(z3.BitVec(fresh_name('%s_%d' % (name, i)), bv))
                st.assume(z3.ULT(v.t, z3.BitVecVal(1 << 32, bv)))
            else:
                v = VInt(z3.Int(fresh_name('%s_%d' % (name, i))))
                st.assume(z3.And(0 <= v.t, v.t < (1 << 32)))
            items.append(v)
        return VList(items)


def _w32(v):
    """low 32 bits of a 64-bit value; zero_extend(w) gives w back (keeps nested applications syntactically
    identical to the RFC composition)"""
    t = v.t
    if z3.is_app_of(t, z3.Z3_OP_ZERO_EXT) and t.arg(0).size() == 32:
        return t.arg(0)
    return z3.Extract(31, 0, t)


def rfc_qr(a, b, c, d):
    """RFC 8439 2.1 on 32-bit vectors"""
    a = a + b; d = d ^ a; d = z3.RotateLeft(d, 16)
    c = c + d; b = b ^ c; b = z3.RotateLeft(b, 12)
    a = a + b; d = d ^ a; d = z3.RotateLeft(d, 8)
    c = c + d; b = b ^ c; b = z3.RotateLeft(b, 7)
    return a, b, c, d


def rfc_quarterround(s, x, y, z, w):
    s = list(s)
    s[x], s[y], s[z], s[w] = rfc_qr(s[x], s[y], s[z], s[w])
    return s


def rfc_double_round(s):
    """RFC 8439 2.3: inner_block = 4 column rounds then 4 diagonal rounds"""
    for (x, y, z, w) in ((0, 4, 8, 12), (1, 5, 9, 13), (2, 6, 10, 14), (3, 7, 11, 15),
                         (0, 5, 10, 15), (1, 6, 11, 12), (2, 7, 8, 13), (3, 4, 9, 14)):
        s = rfc_quarterround(s, x, y, z, w)
    return s


def _words_eq(final, spec32):
    # low 32 bits equal the RFC word and nothing above them is set
    return S.And(*([vb(z3.Extract(31, 0, f.t) == w) for f, w in zip(final.items, spec32)] +
                   [vb(z3.Extract(BVW - 1, 32, f.t) == 0) for f in final.items]))


for _t in ((0, 4, 8, 12), (1, 5, 9, 13), (2, 6, 10, 14), (3, 7, 11, 15),
           (0, 5, 10, 15), (1, 6, 11, 12), (2, 7, 8, 13), (3, 4, 9, 14)):
    contract(U + 'chacha.py:ChaCha.quarter_round', name='ChaCha.quarter_round[%d,%d,%d,%d]' % _t,
             params={'x': TWords(16), 'a': T.const(_t[0]), 'b': T.const(_t[1]), 'c': T.const(_t[2]), 'd': T.const(_t[3])},
             mode='bv', width=BVW, result=T.none(),
             ensures=(lambda t: lambda ns: _words_eq(ns.final('x'),
                                                     rfc_quarterround([_w32(v) for v in ns.x.items], *t)))(_t),
             prop=PROP, doc='QUARTERROUND(%d,%d,%d,%d) of RFC 8439 2.1/2.2 on the 16-word state, in place' % _t)


def _dr_apply(c, ex, args, kwargs, st, fr, node):
    """double_round mutates its list argument in place: the caller's variable is rebound to the new state"""
    x = args[-1]
    argn = node.args[0]
    if not isinstance(argn, _ast.Name) or not isinstance(x, VList) or len(x.items) != 16:
        raise Unsupported('double_round on a non-local argument')
    new = []
    cuts = []
    bvw = ex.bv
    x = VList([v if v.is_bv() else VInt(z3.BitVecVal(v.concrete(), bvw)) for v in x.items]) if bvw else x
    spec = rfc_double_round([_w32(v) for v in x.items]) if ex.bv else None
    if spec is None:
        raise Unsupported('double_round contract is bit-vector only')
    for i in range(16):
        # cut point: a fresh 32-bit constant defined as the RFC word; the new state word is its zero extension
        fw = z3.BitVec(fresh_name('dr_%d' % i), 32)
        cuts.append((fw, spec[i]))
        new.append(VInt(z3.ZeroExt(ex.bv - 32, fw)))
    # the definitions fw == RFC word are NOT assumed in the path condition (safety obligations are then shown
    # for arbitrary words: stronger, and cheap); they are recorded for the caller's ensures, which is stated
    # under these definitions (see _block_staged)
    st.ghost['$dr_cuts'] = list(st.ghost.get('$dr_cuts') or []) + [cuts]
    outs = ex.assign(_ast.Name(id=argn.id, ctx=_ast.Store()), VList(new), st, fr)
    return [Outcome('normal', o.st, VNone()) for o in outs]


_M32 = z3.BitVecVal(0xffffffff, BVW)


def _c64(n):
    return z3.BitVecVal(n, BVW)


def code_qr64(xa, xb, xc, xd):
    """the quarter-round statements of chacha.py transcribed operator by operator on 64-bit vectors (used only
    to introduce cut points; it must produce exactly the terms the executor produces -- checked below)"""
    xa = (xa + xb) & _M32
    xd = xd ^ xa
    xd = ((xd << _c64(16)) & _M32 | (xd >> _c64(16)))
    xc = (xc + xd) & _M32
    xb = xb ^ xc
    xb = ((xb << _c64(12)) & _M32 | (xb >> _c64(20)))
    xa = (xa + xb) & _M32
    xd = xd ^ xa
    xd = ((xd << _c64(8)) & _M32 | (xd >> _c64(24)))
    xc = (xc + xd) & _M32
    xb = xb ^ xc
    xb = ((xb << _c64(7)) & _M32 | (xb >> _c64(25)))
    return xa, xb, xc, xd


_DR_ORDER = ((0, 4, 8, 12), (1, 5, 9, 13), (2, 6, 10, 14), (3, 7, 11, 15),
             (0, 5, 10, 15), (1, 6, 11, 12), (2, 7, 8, 13), (3, 4, 9, 14))


def _dr_staged(x0, final):
    """double_round == RFC inner_block, proved in stages with cut variables: after every quarter round the four
    updated words are named by fresh 64-bit constants v (defined as the code's expression) and fresh 32-bit
    constants w (defined as the RFC's expression); stage i shows v == zero_extend(w) from the same relation
    on the stage's inputs (a single quarter round); the last conjunct chains the stages to the terms computed by
    the real body.  Every conjunct is a closed implication, so the conjunction is the plain statement."""
    v = [t.t for t in x0]                         # 64-bit state, stage 0 = the parameter
    w = [z3.Extract(31, 0, t) for t in v]         # 32-bit state, stage 0
    code = list(v)                                # code-shaped terms without cut points
    spec = list(w)                                # RFC terms without cut points
    ze = lambda t: z3.ZeroExt(BVW - 32, t)
    hi0 = [z3.Extract(BVW - 1, 32, t) == 0 for t in v]
    conj = [z3.Implies(z3.And(hi0), z3.And([v[k] == ze(w[k]) for k in range(16)]))]
    link = [v[k] == ze(w[k]) for k in range(16)]              # relation between the two states, per word
    alldefs = list(hi0)
    for st_i, (a, b, c, d) in enumerate(_DR_ORDER):
        idx = (a, b, c, d)
        cq = code_qr64(*[code[k] for k in idx])
        sq = rfc_qr(*[spec[k] for k in idx])
        nv = code_qr64(*[v[k] for k in idx])
        nw = rfc_qr(*[w[k] for k in idx])
        step = [z3.And(z3.Extract(31, 0, nv[pos]) == nw[pos], z3.Extract(BVW - 1, 32, nv[pos]) == 0) for pos in range(4)]
        # A: one quarter round on related inputs gives related outputs
        conj.append(z3.Implies(z3.And([link[k] for k in idx]), z3.And(step)))
        for pos, k in enumerate(idx):
            code[k], spec[k] = cq[pos], sq[pos]
            fv = z3.BitVec(fresh_name('cutv%d_%d' % (st_i, k)), BVW)
            fw = z3.BitVec(fresh_name('cutw%d_%d' % (st_i, k)), 32)
            # B: naming the outputs keeps them related
            conj.append(z3.Implies(z3.And(fv == nv[pos], fw == nw[pos], step[pos]), fv == ze(fw)))
            alldefs += [fv == nv[pos], fw == nw[pos]]
        # the cut constants become the state of the next stage
        for pos, k in enumerate(idx):
            v[k] = alldefs[-8 + 2 * pos].arg(0)
            w[k] = alldefs[-8 + 2 * pos + 1].arg(0)
            link[k] = v[k] == ze(w[k])
    # the real body computed exactly the code-shaped terms (structural identity of the ASTs)
    if not all(final[k].t.eq(code[k]) for k in range(16)):
        # the body no longer computes the transcribed terms: no staging, the solver gets the plain statement
        return VBool(z3.And([final[k].t == ze(spec[k]) for k in range(16)]))
    # chaining: under the definitions of the cut constants the body's terms are the last v, the RFC terms the last w
    conj.append(z3.Implies(z3.And(alldefs + link), z3.And([final[k].t == ze(spec[k]) for k in range(16)])))
    # ... and the plain statement (the cut constants are fresh and defined, so this conjunct alone is equivalent
    # to: high halves zero ==> final state == zero_extend(RFC inner_block(low halves)))
    conj.append(z3.Implies(z3.And(alldefs), z3.And([final[k].t == ze(spec[k]) for k in range(16)])))
    return VBool(z3.And(conj))


contract(U + 'chacha.py:ChaCha.double_round',
         params={'cls': T.const(None), 'x': TWords(16)}, mode='bv', width=BVW, result=T.none(),
         setup=lambda ex, st, ns: st.env.__setitem__('cls', VPy(CHA.ChaCha)),
         ensures=lambda ns: _dr_staged(ns.x.items, ns.final('x').items),
         apply_fn=_dr_apply, opts={'sequential_conjuncts': True},
         prop=PROP, doc='one column round followed by one diagonal round (RFC 8439 2.3 inner_block), in place')


def rfc_block(key, counter, nonce):
    """RFC 8439 2.3: state = constants | key | counter | nonce; 10 double rounds; state += initial state"""
    init = [z3.BitVecVal(c, 32) for c in (0x61707865, 0x3320646e, 0x79622d32, 0x6b206574)] + key + [counter] + nonce
    s = list(init)
    for _ in range(10):
        s = rfc_double_round(s)
    return [a + b for a, b in zip(s, init)]


def _block_staged(ns):
    """chacha_block == RFC 8439 2.3, chained over the ten double-round cut points (sequential conjuncts)"""
    key = [_w32(v) for v in ns.key.items]
    ctr = _w32(ns.counter)
    nonce = [_w32(v) for v in ns.nonce.items]
    init = [z3.BitVecVal(c, 32) for c in (0x61707865, 0x3320646e, 0x79622d32, 0x6b206574)] + key + [ctr] + nonce
    cuts = ns.ghost('$dr_cuts') or []
    if len(cuts) != 10:
        raise Unsupported('chacha_block: expected 10 applications of double_round, saw %d' % len(cuts))
    s = list(init)
    for _ in range(10):
        s = rfc_double_round(s)
    want = [a + b for a, b in zip(s, init)]
    assert all(w.eq(r) for w, r in zip(want, rfc_block(key, ctr, nonce)))        # the RFC term of rfc_block
    res = ns.result.items
    phi = z3.And([z3.And(z3.Extract(31, 0, res[k].t) == want[k], z3.Extract(BVW - 1, 32, res[k].t) == 0)
                  for k in range(16)])
    # The cut constants introduced by the ten applications of the double_round contract are fresh and defined
    # (fw == RFC inner_block word over the previous state): `defs ==> phi` is equivalent to phi with every
    # constant replaced by its definition, last stage first (let-elimination); the result is a closed formula over
    # the parameters only.
    for cut in reversed(cuts):
        phi = z3.substitute(phi, *[(fw, t) for (fw, t) in cut])
    return S.And(S.len_(ns.result) == 16, VBool(phi))


contract(U + 'chacha.py:ChaCha.chacha_block',
         params={'key': TWords(8), 'counter': TWords(1), 'nonce': TWords(3), 'rounds': T.const(20)},
         setup=lambda ex, st, ns: st.env.__setitem__('counter', st.env['counter'].items[0]),
         mode='bv', width=BVW, result=TWords(16),
         ensures=_block_staged,
         prop=PROP,
         doc='chacha20_block of RFC 8439 2.3 for 20 rounds: state layout constants|key|counter|nonce, ten double '
             'rounds, final word-wise addition of the initial state mod 2^32')


# ---------------------------------------------------------------------------
# Poly1305 (RFC 8439 2.5), mathematical integers.
#   r = clamp(le(key[0:16])), s = le(key[16:32]);  acc = 0;  per 16-byte block (last one may be shorter):
#   acc = ((acc + le(block || 01)) * r) mod (2^130 - 5);  tag = low 128 bits of (acc + s), little-endian
import tlslite.utils.poly1305 as POLY

LeS = S.uf('LeS', [Seq, I], I, seq_ext=[0])         # little-endian value of the suffix data[i:]
PolyAcc = S.uf('PolyAcc', [I, I, Seq, I], I, seq_ext=[2])   # r, initial acc, data, number of blocks absorbed
P1305 = (1 << 130) - 5
CLAMP = 0x0ffffffc0ffffffc0ffffffc0fffffff


def le_val(d):
    return VInt(LeS(d.t, z3.IntVal(0)))


def _poly_block(d, i):
    """z3 term: block i of d (16 bytes, the last one possibly shorter) followed by the byte 01"""
    n = slen(d)
    hi = z3.If(16 * i + 16 <= n, 16 * i + 16, n)
    return smt.s_concat(smt.s_slice(d, 16 * i, hi), smt.s_single(z3.IntVal(1)))


def _poly_axioms():
    d = z3.Const('pd', Seq)
    i, r, a = z3.Ints('pi pr pa')
    return [
        FA([d, i], z3.Implies(i >= slen(d), LeS(d, i) == 0), [LeS(d, i)]),
        FA([d, i], z3.Implies(z3.And(0 <= i, i < slen(d)), LeS(d, i) == sat(d, i) + 256 * LeS(d, i + 1)),
           [_mp(LeS(d, i), MkU(i))]),
        FA([d, i], z3.Implies(z3.And(isb(d), 0 <= i), LeS(d, i) >= 0), [LeS(d, i)]),
        FA([r, a, d], PolyAcc(r, a, d, z3.IntVal(0)) == a, [PolyAcc(r, a, d, z3.IntVal(0))]),
        FA([r, a, d, i], z3.Implies(i == 0, PolyAcc(r, a, d, i) == a), [PolyAcc(r, a, d, i)]),
        FA([r, a, d, i], z3.Implies(i >= 0, PolyAcc(r, a, d, i + 1) ==
                                    (r * (PolyAcc(r, a, d, i) + LeS(_poly_block(d, i), z3.IntVal(0)))) % P1305),
           [_mp(PolyAcc(r, a, d, i), MkU(i))]),
    ]


smt.AXIOMS.extend(_poly_axioms())

contract(U + 'poly1305.py:Poly1305.le_bytes_to_num',
         params={'data': T.bytes()}, result=T.int(),
         ensures=lambda ns: S.And(ns.result == le_val(ns.data), ns.result >= 0),
         loops={1: LoopSpec(lambda ns: S.And(ns.ret == VInt(LeS(ns.data.t, ns.idx.t + 1)), ns.ret >= 0,
                                             ns.idx >= -1, ns.idx < S.len_(ns.data), unfold(ns.idx)),
                            fingerprint='len(data) - 1, -1, -1')},
         prop=PROP, doc='little-endian value of a byte string: sum data[i] * 256^i')


def le16(x):
    """16 bytes, little-endian, of x mod 2^128"""
    x = _lift(x).t
    out = []
    for i in range(16):                 # byte i = floor(x / 256^i) mod 256, written as i successive divisions by 256
        out.append(VInt(x % 256))       # (floor(floor(x/a)/b) == floor(x/(a*b)) for positive a, b)
        x = x / 256
    return S.cat(out)


contract(U + 'poly1305.py:Poly1305.num_to_16_le_bytes',
         params={'num': T.int(0)}, result=T.bytes(),
         ensures=lambda ns: S.And(ns.result == le16(ns.num), S.len_(ns.result) == 16, S.is_bytes(ns.result)),
         prop=PROP, doc='the low 128 bits of num as 16 little-endian bytes')

POLY_OBJ = T.obj(POLY.Poly1305, acc=T.int(0), r=T.int(0), s=T.int(0))


def poly_acc(r, a, d, i):
    return VInt(PolyAcc(_lift(r).t, _lift(a).t, d.t, _lift(i).t))


def _nblocks16(n):
    return VInt((_lift(n).t + 15) / 16)


contract(U + 'poly1305.py:Poly1305.create_tag',
         params={'self': POLY_OBJ, 'data': T.bytes()}, result=T.bytes(), modifies=[('self', 'acc')],
         ensures=lambda ns: (lambda r, a0, s_: S.And(
             ns.result == le16(poly_acc(r, a0, ns.data, _nblocks16(S.len_(ns.data))) + s_),
             S.len_(ns.result) == 16, S.is_bytes(ns.result)))(
                 ns.old.f(ns.self, 'r'), ns.old.f(ns.self, 'acc'), ns.old.f(ns.self, 's')),
         loops={1: LoopSpec(lambda ns: S.And(ns.idx >= 0, unfold(ns.idx), ns.f(ns.self, 'acc') >= 0,
                                             ns.f(ns.self, 'acc') == poly_acc(ns.f(ns.self, 'r'), ns.old.f(ns.self, 'acc'),
                                                                              ns.data, ns.idx)),
                            modifies_fields=[('self', 'acc')], fingerprint='divceil(len(data), 16)')},
         prop=PROP,
         doc='tag = low 128 bits (little-endian) of acc_n + s, acc_{i+1} = ((acc_i + le(block_i || 01)) * r) mod 2^130-5 over '
             'the 16-byte blocks of data (the last one may be shorter)')


# ---------------------------------------------------------------------------
# ChaCha20-Poly1305 AEAD (RFC 8439 2.8).  The ChaCha20 stream layer (ChaCha.__init__ word conversion and
# ChaCha.encrypt block splitting) is abstract here: ChaChaX(key, nonce, counter, data) = data xor key stream
# (the block function itself is verified above; the stream layer is covered by the bounded run `chacha`).
import tlslite.utils.chacha20_poly1305 as CP

ChaChaX = S.uf('ChaChaX', [Seq, Seq, I, Seq], Seq, seq_ext=[0, 1, 3])


def _chx_axioms():
    k, n, d = z3.Consts('xk xn xd', Seq)
    c = z3.Int('xc')
    x = ChaChaX(k, n, c, d)
    return [FA([k, n, c, d], z3.And(slen(x) == slen(d), z3.Implies(isb(d), isb(x))), [x]),
            # xor with a key stream that depends on (key, nonce, counter) only: applying it twice gives the data back
            FA([k, n, c, d], z3.Implies(isb(d), ChaChaX(k, n, c, x) == d), [ChaChaX(k, n, c, x)])]


smt.AXIOMS.extend(_chx_axioms())
from pyvc.contract import EXT_PAIRS as _EXT_PAIRS
_EXT_PAIRS.append(('ChaChaX', 3, 'ChaChaX'))     # the data argument may be (extensionally) a ChaChaX output: involution


class _ChaChaStreamModel(object):
    def getattr(self, ex, v, name, st):
        if name in ('encrypt', 'decrypt'):
            def f(ex_, args, kw, st_, fr, node, v=v):
                d = args[0]
                if not isinstance(d, VSeq):
                    raise Unsupported('ChaCha.%s(%r)' % (name, d))
                h = st_.heap
                out = VSeq(ChaChaX(h[(v.oid, 'key')].t, h[(v.oid, 'nonce')].t, h[(v.oid, 'counter')].t, d.t), 'byte', 'bytearray')
                st_.assume(z3.And(slen(out.t) == slen(d.t), isb(out.t) == isb(d.t)))
                return [Outcome('normal', st_, out)]
            from pyvc.executor import SpecFn
            return VPy(SpecFn(f, name))
        return None


REG.models['ChaChaStream'] = _ChaChaStreamModel()


def _chacha_ctor(ex, args, kwargs, st, fr, node):
    key, nonce = args[0], args[1]
    counter = args[2] if len(args) > 2 else kwargs.get('counter', VInt(0))
    if not (isinstance(key, VSeq) and isinstance(nonce, VSeq)):
        raise Unsupported('ChaCha(%r, %r)' % (key, nonce))
    res = []
    ok, bad = ex.split(st, z3.And(slen(key.t) == 32, slen(nonce.t) == 12))
    if bad is not None:
        res.append(ex.raise_(bad, ValueError, 'ChaCha key/nonce length line %d' % getattr(node, 'lineno', 0)))
    if ok is not None:
        o = ok.alloc('ChaChaStream')
        ok.heap[(o.oid, 'key')] = key
        ok.heap[(o.oid, 'nonce')] = nonce
        ok.heap[(o.oid, 'counter')] = ex._as_int(counter)
        res.append(Outcome('normal', ok, o))
    return res


REG.class_models[CHA.ChaCha] = _chacha_ctor

CP_OBJ = T.obj(CP.CHACHA20_POLY1305, key=T.bytes())


def chx(key, nonce, counter, data):
    return VSeq(ChaChaX(key.t, nonce.t, _lift(counter).t, data.t), 'byte')


def _cp_pad16(x):
    """zero bytes up to the next multiple of 16 (none if already aligned)"""
    n = S.len_(x)
    return S.rep(0, S.ite(n % 16 == 0, 0, 16 - n % 16))


def le64(x):
    x = _lift(x)
    return S.cat([VInt((x.t / (1 << (8 * i))) % 256) for i in range(8)])


def cp_mac_data(aad, ct):
    return S.cat(aad, _cp_pad16(aad), ct, _cp_pad16(ct), le64(S.len_(aad)), le64(S.len_(ct)))


def poly_tag(otk, msg):
    """Poly1305 tag of msg under the 32-byte one-time key otk (VSeq)"""
    r = VInt(smt.band(le_val(otk[0:16]).t, z3.IntVal(CLAMP)))
    s_ = le_val(otk[16:32])
    return le16(poly_acc(r, 0, msg, _nblocks16(S.len_(msg))) + s_)


def cp_tag(key, nonce, aad, ct):
    otk = chx(key, nonce, 0, S.rep(0, 32))            # first 32 bytes of the key stream block with counter 0
    return poly_tag(otk, cp_mac_data(aad, ct))


LEN64 = 1 << 64


def _cp_req(ns, inp):
    return S.And(S.len_(ns.f(ns.self, 'key')) == 32, S.len_(inp) < LEN64, S.len_(ns.data) < LEN64)


contract(U + 'chacha20_poly1305.py:CHACHA20_POLY1305.seal',
         params={'self': CP_OBJ, 'nonce': T.bytes(), 'plaintext': T.bytes(), 'data': T.bytes()},
         requires=lambda ns: _cp_req(ns, ns.plaintext),
         result=T.bytes(),
         raises={ValueError: ('iff', lambda ns: S.len_(ns.nonce) != 12)},
         ensures=lambda ns: (lambda key, ct: S.And(
             S.len_(ns.result) == S.len_(ns.plaintext) + 16, S.is_bytes(ns.result),
             ns.result == S.cat(ct, cp_tag(key, ns.nonce, ns.data, ct))))(
                 ns.f(ns.self, 'key'), chx(ns.f(ns.self, 'key'), ns.nonce, 1, ns.plaintext)),
         prop=PROP,
         doc='RFC 8439 2.8: seal = C || T, C = ChaCha20(key, nonce, counter 1) xor P, one-time key = first 32 bytes of '
             'the counter-0 block, T = Poly1305(otk, A || pad16 || C || pad16 || le64(len A) || le64(len C))')


def _cp_open_post(ns):
    key = ns.f(ns.self, 'key')
    c = ns.ciphertext
    ct, tag = c[:-16], c[-16:]
    want = cp_tag(key, ns.nonce, ns.data, ct)
    if isinstance(ns.result, VNone):
        return S.Or(S.len_(c) < 16, tag != want)
    return S.And(S.len_(c) >= 16, tag == want, ns.result == chx(key, ns.nonce, 1, ct))


contract(U + 'chacha20_poly1305.py:CHACHA20_POLY1305.open',
         params={'self': CP_OBJ, 'nonce': T.bytes(), 'ciphertext': T.bytes(), 'data': T.bytes()},
         requires=lambda ns: _cp_req(ns, ns.ciphertext),
         result=T.bytes(),
         raises={ValueError: ('iff', lambda ns: S.len_(ns.nonce) != 12)},
         ensures=_cp_open_post,
         prop=('C09', 'C02'),
         doc='open returns None exactly when the input is shorter than a tag or its last 16 bytes differ (as a whole) '
             'from the Poly1305 tag recomputed over (nonce, aad, ciphertext); only otherwise the ChaCha20 decryption')


@scenario('chacha20poly1305-open-seal', ('C09', 'C02'),
          doc='CHACHA20_POLY1305: open(nonce, seal(nonce, P, A), A) == P for every P, A, 12-byte nonce (ChaCha20 stream '
              'layer abstract: xor with a key stream determined by key, nonce, counter)', opts={'prune': False})
def cp_open_seal(api):
    snd, rcv = api.make('snd', CP_OBJ), api.make('rcv', CP_OBJ)
    api.st.heap[(rcv.oid, 'key')] = api.st.heap[(snd.oid, 'key')]
    nonce, p, a = api.make('nonce', T.bytes()), api.make('p', T.bytes()), api.make('a', T.bytes())
    ns = api.ns(api.st)
    api.st.assume(S.And(S.len_(nonce) == 12, S.len_(ns.f(snd, 'key')) == 32, S.len_(p) < LEN64 - 16, S.len_(a) < LEN64))
    for o in api.call(U + 'chacha20_poly1305.py:CHACHA20_POLY1305.seal', [snd, nonce, p, a], api.st, inline=False):
        if o.kind != 'normal':
            api.unreachable(o.st, 'seal-does-not-raise')
            continue
        for o2 in api.call(U + 'chacha20_poly1305.py:CHACHA20_POLY1305.open', [rcv, nonce, o.val, a], o.st.fork()):
            if o2.kind != 'normal':
                api.unreachable(o2.st, 'open-does-not-raise')
            elif isinstance(o2.val, VNone):
                api.unreachable(o2.st, 'open-accepts-untouched-ciphertext')
            else:
                # shown from the facts known right after seal (a subset of this path's facts: fewer assumptions,
                # same conclusion); the returned value is a term over the sealed output
                api.oblige(o.st, 'plaintext-equal', S.And(S.len_(o2.val) == S.len_(p), S.seq_eq(o2.val, p)))


# ---------------------------------------------------------------------------
# GCM bit-level helpers (bit-vector mode).  Field elements are 128-bit integers with the coefficient of x^0 in
# the most significant bit (SP 800-38D 6.3).
GW = 140


def _bit(v, i):
    return z3.Extract(i, i, v.t)


contract(U + 'aesgcm.py:AESGCM._reverseBits',
         params={'i': T.int()}, mode='bv', width=GW,
         requires=lambda ns: (ns.i >= 0) & (ns.i < 16), result=T.int(),
         ensures=lambda ns: vb(z3.And([_bit(ns.result, k) == _bit(ns.i, 3 - k) for k in range(4)] +
                                      [z3.Extract(GW - 1, 4, ns.result.t) == 0])),
         prop=PROP, doc='reversal of the 4 low bits')

contract(U + 'aesgcm.py:AESGCM._gcmAdd',
         params={'x': T.int(), 'y': T.int()}, mode='bv', width=GW, result=T.int(),
         ensures=lambda ns: vb(ns.result.t == (ns.x.t ^ ns.y.t)),
         prop=PROP, doc='addition in GF(2^128) is bit-wise xor')


def _gcm_shift_spec(x):
    """SP 800-38D 6.3 (multiplication by the polynomial x): V >> 1, xor R = 11100001 || 0^120 if the bit of x^127
    (the least significant bit) was set"""
    R = z3.BitVecVal(0xe1 << 120, GW)
    return z3.If(z3.Extract(0, 0, x) == 1, z3.LShR(x, 1) ^ R, z3.LShR(x, 1))


contract(U + 'aesgcm.py:AESGCM._gcmShift',
         params={'x': T.int()}, mode='bv', width=GW,
         requires=lambda ns: vb(z3.And(ns.x.t >= 0, z3.ULT(ns.x.t, z3.BitVecVal(TWO128, GW)))), result=T.int(),
         ensures=lambda ns: vb(z3.And(ns.result.t == _gcm_shift_spec(ns.x.t),
                                      z3.ULT(ns.result.t, z3.BitVecVal(TWO128, GW)))),
         prop=PROP, doc='multiplication by x in GF(2^128) = GF(2)[x]/(x^128+x^7+x^2+x+1), GCM bit order')


# ---------------------------------------------------------------------------
# bounded differential runs (specs/ciphers.py) -- never counted as proved
def _more_budget(c, factor):
    """these bodies unroll 16-step inner loops (about 300 path facts); the solver resource limit is scaled"""
    orig = c.verify
    c.verify = lambda reg, budget_ms=10000: orig(reg, int(budget_ms * factor))


# all tasks of this module: the resource caps of the solver portfolio are scaled by 4 (several obligations were
# measured at 60-90 % of the default cap; the verdicts must not depend on the numbering of fresh names)
for _k, _c in list(REG.tasks.items()):
    if (':' in _k and _k.split(':')[0].startswith(U) and _k.split(':')[0][len(U):] in (
            'python_aes.py', 'aesgcm.py', 'aesccm.py', 'chacha.py', 'poly1305.py', 'chacha20_poly1305.py')) or \
            _k in ('scenario:cbc-roundtrip', 'scenario:gcm-open-seal', 'scenario:ccm-open-seal', 'scenario:ccm_8-open-seal',
                   'scenario:chacha20poly1305-open-seal'):
        _more_budget(_c, 4)


for _name, _fn in (('aes_block', 'rijndael.py:Rijndael.encrypt'), ('aes_cbc', 'python_aes.py:Python_AES.encrypt'),
                   ('aes_ctr', 'python_aes.py:Python_AES_CTR.encrypt'), ('gcm_mul', 'aesgcm.py:AESGCM._mul'),
                   ('aesgcm', 'aesgcm.py:AESGCM.seal'), ('aesccm', 'aesccm.py:AESCCM.seal'),
                   ('chacha', 'chacha.py:ChaCha.encrypt'), ('poly1305', 'poly1305.py:Poly1305.create_tag'),
                   ('chacha20poly1305', 'chacha20_poly1305.py:CHACHA20_POLY1305.seal')):
    REG.xchecks.append({'prop': 'C09', 'module': 'specs.ciphers', 'name': _name, 'function': U + _fn})
for _name, _fn in (('aesgcm', 'aesgcm.py:AESGCM.open'), ('aesccm', 'aesccm.py:AESCCM.open'),
                   ('chacha20poly1305', 'chacha20_poly1305.py:CHACHA20_POLY1305.open')):
    REG.xchecks.append({'prop': 'C02', 'module': 'specs.ciphers', 'name': _name, 'function': U + _fn})

_N = lambda kind, text: REG.note('C09', kind, text)
_N('trusted', 'AES block function (rijndael.py Rijndael.encrypt/decrypt, 16-byte blocks) is the uninterpreted AesE/AesD(k, b0..b15) '
   'with the single algebraic assumption AesD(k, AesE(k, x)) == x on byte blocks and output length 16; the key schedule and '
   'the T-table rounds are covered only by the bounded run specs.ciphers:aes_block against a plain FIPS-197 implementation')
_N('trusted', 'the abstract key k of a Rijndael object stands for Rijndael(key, 16) built from the key bytes; AESGCM/AESCCM use one key for '
   'their raw block function, CTR object and CBC object (python_aesgcm.new / python_aesccm.new / __init__ wiring read, not verified)')
_N('trusted', 'AESGCM._mul(y) is the uninterpreted GMul(h, y) = y*H in GF(2^128) with range [0, 2^128) (AssertionError outside it); the product '
   'table construction in __init__ and the 4-bit reduction table are covered only by the bounded run specs.ciphers:gcm_mul against '
   'the bit-wise field multiplication; _reverseBits/_gcmShift/_gcmAdd are proved in bit-vector arithmetic')
_N('trusted', 'ChaCha20 stream layer (ChaCha.__init__ little-endian word conversion, ChaCha.encrypt 64-byte block splitting with counter+i, '
   'word_to_bytearray) is abstract in the AEAD proofs: ChaChaX(key, nonce, counter, data) with length preservation and '
   'ChaChaX(k,n,c,ChaChaX(k,n,c,x)) == x; covered by the bounded run specs.ciphers:chacha; the block function '
   '(quarter_round, double_round, chacha_block) is proved against RFC 8439 in 64-bit vectors')
_N('trusted', 'bytearray in-place growth: `data += ...` inside AESCCM._pad_with_zeroes and the in-place list update of '
   'ChaCha.double_round change the caller\'s object; modelled by rebinding the caller\'s local variable (only call sites passing a '
   'plain local name are accepted)')
_N('trusted', 'hmac.compare_digest(a, b) == (a == b) on byte strings (the definition of ct_compare_digest in force under Python >= 3.3); '
   'bytearray != bytearray in AESCCM.open is content comparison')
_N('trusted', 'integer <-> bytes helpers: int.from_bytes / numberToByteArray modelled as s_val / s_be (pyvc/smt.py, pyvc/models_crypto.py); '
   'added facts: s_be(2^128, 16) == s_be(0, 16) element-wise (numberToByteArray keeps the low-order bytes), value of a 16-byte block '
   '< 2^128 and re-encoding gives the block back; xor lemmas (involution, commutativity, byte/128-bit range, '
   'or == + on disjoint 64-bit halves) proved in bit-vector arithmetic at import')
_N('trusted', 'spec functions introduced by definitional axioms (primitive recursion / explicit definition, conservative): CbcC/CbcP (CBC chain), '
   'CtrT/CtrKS/CtrX (counter blocks, key stream, CTR transformation), GFold/GUpd (GHASH), CcmB (CCM block string), LeS, PolyAcc; '
   'trigger markers MkJ/MkU/MkD are constant-zero functions used only to steer quantifier instantiation')
_N('trusted', 'ChaCha.double_round: the staged proof introduces cut constants for the state after every quarter round; its last conjunct is '
   'the plain statement under the definitions of these fresh constants (equivalent to the unconditional statement); '
   'ChaCha.chacha_block eliminates the cut constants of the ten double_round applications by substitution (let-elimination) before '
   'the solver is called')
_N('assumptions', 'Python_AES_CTR.encrypt/decrypt: precondition _counter_bytes == 0 and a 16-byte counter (the only construction in the tree: '
   'python_aes.new(key, 6, 16 zero bytes) by AESGCM and AESCCM, which set .counter before every use); the overflow rule for a '
   'dedicated counter field is stated and proved on _counter_update alone')
_N('assumptions', 'AES-GCM: len(plaintext) <= 2^36 - 32 bytes and len(aad) < 2^61 (SP 800-38D limits); within them the 128-bit counter increment '
   'used by the code coincides with inc32 (the low word starts at 2 and takes at most 2^32 - 2 steps) -- this coincidence is an '
   'arithmetic remark, not a discharged obligation')
_N('assumptions', 'AES-CCM: nonce length 12 (L = 3, enforced by seal/open), tagLength in {8, 16}, len(msg) < 2^24 (RFC 3610 l(m) < 2^(8L)), '
   'len(aad) < 2^61; the message key stream is specified as CTR from A_1 := inc(A_0) (equal to 02 || nonce || [i]_3 while i < 2^24)')
_N('assumptions', 'AEAD "refuses every other ciphertext/nonce/AAD combination" is stated as: open returns None unless the recomputed tag '
   'equals the received one in all of its bytes (an attacker-chosen collision of the tag is a cryptographic matter, not expressible '
   'over uninterpreted primitives); open(seal(x)) == x is proved for all three AEADs')
_N('assumptions', 'ChaCha20: 32-bit words, block counter < 2^32 (chacha_block requires it; ChaCha.encrypt does not reduce counter + i mod 2^32, '
   'RFC 8439 leaves the wrap undefined); Poly1305: acc, r, s non-negative')
_N('not_built', 'ChaCha.encrypt / ChaCha.__init__ / word_to_bytearray / _bytearray_to_words (enumerate over a generator of slices, '
   'struct.pack with *args, struct.unpack): no deductive contract, bounded run specs.ciphers:chacha only')
_N('not_built', 'AESGCM.__init__ product table construction and AESGCM._mul against the bit-level GF(2^128) definition (planned in bit-vector mode): '
   'bounded run specs.ciphers:gcm_mul only; AESGCM._inc32 is dead code (not called) and has no contract')
_N('not_built', 'Python_AES / Python_AES_CTR / AESGCM / AESCCM / CHACHA20_POLY1305 constructors (key-length checks, name selection) and the '
   'cipherfactory wiring; Python_RC4 / Python_TripleDES chaining frames (DESIGN C09) are not in this module')
REG.note('C02', 'trusted', 'AEAD open(): see the C09 notes of contracts/ciphers.py (abstract block cipher, GHASH multiplication, ChaCha20 stream layer, '
         'compare_digest == equality)')
REG.note('C02', 'assumptions', 'AEAD open() contracts: None is returned unless the whole tag matches (GCM / ChaCha20-Poly1305: 16 bytes via '
         'compare_digest; CCM: all tagLength bytes via bytearray !=); for GCM the CTR counter is untouched on refusal')


def consistency_witnesses():
    """ground terms exercising the axioms added by this module (pyvc.smt.axioms_consistency_selftest)"""
    k = z3.Const('cw_k', Val)
    a, b = z3.Consts('cw_a cw_b', Seq)
    big = smt.s_single(z3.IntVal(300))
    bs = [z3.IntVal(7)] * 16
    wide = [z3.IntVal(300)] * 16
    e = AesE(k, *bs)
    ts = [e, AesD(k, *[sat(e, z3.IntVal(t)) for t in range(16)]), AesE(k, *wide), AesD(k, *wide),
          CbcC(k, a, b, z3.IntVal(-1)), CbcC(k, a, b, z3.IntVal(0)), CbcC(k, a, big, z3.IntVal(1)), CbcP(k, a, b, z3.IntVal(0)),
          CtrT(*(bs + [z3.IntVal(0)])), CtrT(*(wide + [z3.IntVal(0)])), CtrT(*(bs + [z3.IntVal(2)])), CtrKS(k, *(bs + [z3.IntVal(1)])),
          CtrX(k, *(bs + [a])), CtrX(k, *(wide + [big])), CcmB(z3.IntVal(8), a, b, a), ChaChaX(a, b, z3.IntVal(1), big),
          ChaChaX(a, b, z3.IntVal(1), ChaChaX(a, b, z3.IntVal(1), a)), smt.s_be(z3.IntVal(TWO128), z3.IntVal(16))]
    ints = [GMul(k, z3.IntVal(5)), GMul(k, z3.IntVal(-1)), GFold(k, z3.IntVal(3), big, z3.IntVal(2)), GUpd(k, z3.IntVal(3), big),
            LeS(big, z3.IntVal(0)), LeS(a, z3.IntVal(1)), PolyAcc(z3.IntVal(3), z3.IntVal(0), big, z3.IntVal(2)),
            smt.bxor(smt.bxor(z3.IntVal(300), z3.IntVal(-5)), z3.IntVal(-5)), smt.bor(z3.IntVal(1 << 64), z3.IntVal(5)),
            smt.s_val(a), smt.s_diff(a, b), MkJ(z3.IntVal(1)), MkU(z3.IntVal(2)), MkD(a)]
    return ([slen(t) >= 0 for t in ts] + [sat(t, z3.IntVal(0)) == sat(t, z3.IntVal(0)) for t in ts] + [x == x for x in ints] +
            [slen(a) == 16, isb(a), slen(b) == 33, isb(b), MkU(z3.IntVal(0)) == 0, MkU(z3.IntVal(1)) == 0, MkJ(z3.IntVal(0)) == 0])


_orig_cw = S.consistency_witnesses
S.consistency_witnesses = lambda: _orig_cw() + consistency_witnesses()
