"""M2 tasks on the public I/O and post-handshake functions of tlslite/tlsrecordlayer.py and on
TLSConnection._handshakeWrapperAsync / request_post_handshake_auth (C01 read FIFO, C05/C16 post-handshake
authentication and KeyUpdate, C17 closure and transport failures).

Fault model (C17 "a transport fault at every I/O index"): every callee that can touch the socket
(_getMsg, _sendMsg, _sendMsgs, _getNextRecord, sendRecord, and the handlers built on them) is a hook that
returns normally AND leaves with each of the exception classes in its list; the obligations are stated on
every resulting exit.  What the *callee* has done before raising (e.g. _getMsg has called _shutdown before it
raises TLSRemoteAlert) is taken from that callee's own task and listed as an assumption.
"""
import ast
import os
import socket

import z3

from tlslite.errors import (TLSAbruptCloseError, TLSRemoteAlert, TLSLocalAlert, TLSClosedConnectionError,
                            TLSIllegalParameterException, TLSInternalError, TLSAuthenticationError, TLSAlert,
                            TLSFaultError)
from tlslite.constants import (AlertDescription, AlertLevel, ContentType, HandshakeType, KeyUpdateMessageType,
                               HeartbeatMessageType, CertificateType)

from pyvc.m2 import M2Spec, m2task, NoReturn, fresh_opaque, FrameScan
from pyvc.executor import Outcome
from pyvc.values import (VBool, VInt, VNone, VOpaque, VExc, VObj, VTuple, VPy, VStr, V, Unsupported, truthy, to_val,
                         eq_op, v_truthy)
from pyvc import smt, source
from pyvc.asttask import AstTask
from pyvc.contract import REG
from contracts.m2_common import TRL, TC, h_sendError

RLQ = 'tlslite/recordlayer.py:RecordLayer.'


# ---------------------------------------------------------------------------------------------------
# helpers

def TRUE():
    return VBool(z3.BoolVal(True))


def FALSE():
    return VBool(z3.BoolVal(False))


def B(v):
    """z3 Bool of a ghost / python bool / V"""
    if v is None:
        return z3.BoolVal(False)
    if isinstance(v, bool):
        return z3.BoolVal(v)
    if isinstance(v, V):
        return truthy(v)
    return v


def gint(st, name):
    v = st.ghost.get(name)
    return v if isinstance(v, VInt) else VInt(0)


def ginc(st, name):
    st.ghost[name] = VInt(z3.simplify(gint(st, name).t + 1))


def same(a, b):
    """z3 Bool: the two values are the same value (False when one is missing)"""
    if a is None or b is None:
        return z3.BoolVal(False)
    try:
        return to_val(a) == to_val(b)
    except Unsupported:
        return z3.BoolVal(a is b)


def is_int(v, k):
    if v is None:
        return z3.BoolVal(False)
    try:
        return to_val(v) == to_val(VInt(k))
    except Unsupported:
        return z3.BoolVal(False)


def attr(v, name):
    return VOpaque(z3.Function('v_attr_' + name, smt.Val, smt.Val)(to_val(v)))


def item(v, k):
    return VOpaque(z3.Function('v_getitem', smt.Val, smt.Val, smt.Val)(to_val(v), to_val(VInt(k))))


def field(ex, st, fr, obj, *names):
    """current value of obj.n1.n2... (reads through the heap, materialises unknown fields)"""
    v = obj
    for n in names:
        outs = ex.getattr_(v, n, st, fr)
        v = outs[0].val
    return v


def ev(ex, st, fr, src):
    """value of a Python expression in state st (scratch copy: no effects on st)"""
    outs = ex.eval(ast.parse(src, mode='eval').body, st.fork(), fr)
    ok = [o for o in outs if o.kind == 'normal']
    return ok[0].val


INT_GHOSTS = ('shut_n', 'n__sendMsg', 'n__getMsg', 'n__sendMsgs', 'n_sendRecord', 'n__getNextRecord')


def base_setup(extra=None):
    def setup(ex, st, fr):
        for g in INT_GHOSTS:
            st.ghost[g] = VInt(0)
        for g in ('shut_last_res', 'shut_any_false', 'shut_any_true', 'closed_by_callee', 'faulted'):
            st.ghost[g] = FALSE()
        if extra:
            extra(ex, st, fr)
    return setup


def h_shutdown(ex, recv, args, kwargs, st, fr, node):
    """_shutdown(resumable): closed := True; session.resumable := False iff not resumable (and a session exists);
    never sets resumable back (task m2:_shutdown proves this on the real body)."""
    a = args[0] if args else kwargs.get('resumable')
    ginc(st, 'shut_n')
    st.ghost['shut_last_res'] = VBool(truthy(a))
    st.ghost['shut_any_false'] = VBool(z3.Or(B(st.ghost.get('shut_any_false')), z3.Not(truthy(a))))
    st.ghost['shut_any_true'] = VBool(z3.Or(B(st.ghost.get('shut_any_true')), truthy(a)))
    st.ghost['shut_arg'] = a
    st.events.append(('_shutdown', [a], None))
    self_ = st.env.get('self')
    if isinstance(self_, VObj):
        st.heap[(self_.oid, 'closed')] = TRUE()
    return [Outcome('normal', st, VNone())]


class Choice(object):
    """nondeterministic choice of a forking hook made visible in the path condition: outcome i assumes sel == i.
    Without it two forks of one call have the same path condition and M2's state merge (if-then-else over the
    path-condition suffixes) would silently keep only one of them when both reach the same join point."""

    def __init__(self, what):
        from pyvc.values import fresh_name
        self.sel = z3.Int(fresh_name('choice_' + what))
        self.k = 0

    def pick(self, st):
        self.k += 1
        st.assume(self.sel == self.k)
        return st


def io_hook(name, raises=(), on_normal=None, on_raise=None, havoc=True):
    """callee that may touch the transport: one normal outcome + one raising outcome per class"""
    def h(ex, recv, args, kwargs, st, fr, node):
        line = getattr(node, 'lineno', 0)
        outs = []
        ch = Choice(name)
        for cls in raises:
            s2 = ch.pick(st.fork())
            if havoc:
                ex.havoc_call(name, s2)
            s2.events.append((name + '!', args, None))
            s2.ghost['faulted'] = TRUE()
            s2.ghost['fault_line'] = VInt(line)
            exc = VExc(cls, [], '%s line %d' % (name, line))
            if on_raise is not None:
                on_raise(ex, s2, cls, exc, recv, args, kwargs, fr, node)
            outs.append(Outcome('raise', s2, exc))
        ch.pick(st)
        if havoc:
            ex.havoc_call(name, st)
        r = fresh_opaque('ret_' + name)
        st.events.append((name, args, r))
        ginc(st, 'n_' + name)
        if on_normal is not None:
            rr = on_normal(ex, st, r, recv, args, kwargs, fr, node)
            if rr is not None:
                r = rr
        outs.append(Outcome('normal', st, r))
        return outs
    return h


def callee_has_shut_down(ex, s2, cls, exc, recv, args, kwargs, fr, node):
    """TLSLocalAlert leaves a callee only through _sendError (alert sent, _shutdown(False): task m2:_sendError);
    TLSRemoteAlert leaves _getMsg only after _shutdown (task m2:_getMsg/alert-branch)."""
    if cls in (TLSLocalAlert, TLSRemoteAlert):
        s2.ghost['closed_by_callee'] = TRUE()
        self_ = s2.env.get('self')
        if isinstance(self_, VObj):
            s2.heap[(self_.oid, 'closed')] = TRUE()


# user-set configuration of the connection object: written only by TLSRecordLayer.__init__ (checked by the AST task
# `config-writers` below), so no callee changes them
CONFIG_FIELDS = ('ignoreAbruptClose', 'closeSocket', 'fault', 'client_cert_required')

TRANSPORT = (socket.error, TLSAbruptCloseError)
ANY_EXC = (socket.error, TLSAbruptCloseError, TLSRemoteAlert, TLSLocalAlert, ValueError)

ASSUME_FAULTS = ('fault model: _getMsg/_sendMsg/_sendMsgs/_getNextRecord/sendRecord and the handlers built on them return '
                 'normally or raise one of OSError(socket.error), TLSAbruptCloseError, TLSRemoteAlert, TLSLocalAlert, '
                 'ValueError (standing for every other class); GeneratorExit (caller closes the generator) is not a fault '
                 'and is not injected')
ASSUME_RAISERS = ('TLSLocalAlert leaves a callee only via _sendError (after _shutdown(False): task m2:_sendError); '
                  'TLSRemoteAlert leaves _getMsg only after _shutdown (task m2:_getMsg/alert-branch)')


def shut_facts(st):
    return (gint(st, 'shut_n').t, B(st.ghost.get('shut_last_res')), B(st.ghost.get('shut_any_false')))


def cls_of(o):
    c = getattr(o.val, 'cls', None)
    return c


# ---------------------------------------------------------------------------------------------------
# 1. _shutdown  (C17 / C13)

def shutdown_task():
    flags = {}

    def on_resumable(ex, obj, val, st, fr, node):
        p = st.env.get('resumable')
        sess = field(ex, st, fr, st.env['self'], 'session')
        ex.oblige(st, 'resumable-store:value-is-False', same(val, FALSE()), kind='m2')
        ex.oblige(st, 'resumable-store:only-when-argument-is-false', z3.Not(truthy(p)), kind='m2')
        ex.oblige(st, 'resumable-store:on-the-connection-session', same(obj, sess), kind='m2')
        st.ghost['res_stored'] = TRUE()
        flags['res'] = flags.get('res', 0) + 1

    def on_closed(ex, obj, val, st, fr, node):
        ex.oblige(st, 'closed-store:value-is-True', same(val, TRUE()), kind='m2')
        ex.oblige(st, 'closed-store:on-self', z3.BoolVal(obj is st.env.get('self')), kind='m2')
        flags['closed'] = flags.get('closed', 0) + 1

    def h_rl_shutdown(ex, recv, args, kwargs, st, fr, node):
        st.ghost['keys_dropped'] = TRUE()
        st.ghost['rl_recv_ok'] = VBool(same(recv, field(ex, st, fr, st.env['self'], '_recordLayer')))
        return [Outcome('normal', st, VNone())]

    def h_close(ex, recv, args, kwargs, st, fr, node):
        st.ghost['sock_closed'] = TRUE()
        return [Outcome('normal', st, VNone())]

    spec = M2Spec(hooks={'shutdown': h_rl_shutdown, 'close': h_close},
                  on_store={'resumable': on_resumable, 'closed': on_closed})

    def check(api):
        ex, fr = api.ex, api.fr
        ns = api.normal_exits()
        api.oblige(api.entry, 'has-normal-exit', len(ns) >= 1)
        api.oblige(api.entry, 'store-sites-seen(closed>=1,resumable>=1)', flags.get('closed', 0) >= 1 and flags.get('res', 0) >= 1)
        for o in api.raise_exits():
            api.unreachable(o.st, 'no-exception-exit(%s)' % o.val.origin)
        for k, o in enumerate(ns, 1):
            st = o.st
            self_ = st.env['self']
            p = st.env.get('resumable')
            api.oblige(st, 'exit#%d:closed-is-True' % k, same(st.heap.get((self_.oid, 'closed')), TRUE()))
            api.oblige(st, 'exit#%d:record-layer-keys-dropped' % k,
                       z3.And(B(st.ghost.get('keys_dropped')), B(st.ghost.get('rl_recv_ok'))))
            # resumable argument true: the session's flag is left alone (C17: orderly close keeps the session resumable)
            api.oblige(st, 'exit#%d:resumable=True-never-touches-session.resumable' % k,
                       z3.Implies(truthy(p), z3.Not(B(st.ghost.get('res_stored')))))
            # resumable argument false and a session exists: invalidated
            sess = field(ex, st, fr, self_, 'session')
            api.oblige(st, 'exit#%d:resumable=False-invalidates-an-existing-session' % k,
                       z3.Implies(z3.And(z3.Not(truthy(p)), truthy(sess)), B(st.ghost.get('res_stored'))))
            cs = field(ex, st, fr, self_, 'closeSocket')
            api.oblige(st, 'exit#%d:socket-closed-iff-closeSocket' % k, truthy(cs) == B(st.ghost.get('sock_closed')))

    m2task('_shutdown', ('C17', 'C13'), TRL + '_shutdown', spec, check=check, setup=base_setup(),
           doc='_shutdown(resumable): drops the record-layer keys, sets closed = True, closes the socket iff closeSocket; '
               'stores session.resumable only with the value False and only when the argument is false; never sets it back')


shutdown_task()


# ---------------------------------------------------------------------------------------------------
# 2. whole-repository store scans (AST): closed / _readBuffer writers

def _repo_files():
    root = os.path.join(source.REPO, 'tlslite')
    for dp, dn, fn in os.walk(root):
        for f in sorted(fn):
            if f.endswith('.py'):
                yield os.path.join(dp, f)


def _functions_with_class(tree):
    """(class name or None, FunctionDef) for every def, innermost class"""
    out = []

    def rec(node, cls):
        for ch in ast.iter_child_nodes(node):
            if isinstance(ch, ast.ClassDef):
                rec(ch, ch.name)
            elif isinstance(ch, (ast.FunctionDef, ast.AsyncFunctionDef)):
                out.append((cls, ch))
                rec(ch, cls)
            else:
                rec(ch, cls)
    rec(tree, None)
    return out


def _attr_stores(attrname):
    """every syntactic store to <expr>.<attrname> in tlslite/: (file, class, function, line, value node or None)"""
    res = []
    for path in _repo_files():
        tree = source.module_ast(path)
        rel = os.path.relpath(path, source.REPO)
        owners = {}
        for cls, fn in _functions_with_class(tree):
            for n in ast.walk(fn):
                owners.setdefault(id(n), (cls, fn.name))
        # innermost function wins: walk functions from outermost to innermost
        for cls, fn in _functions_with_class(tree):
            for n in ast.walk(fn):
                owners[id(n)] = (cls, fn.name)
        for n in ast.walk(tree):
            tgts = []
            val = None
            if isinstance(n, ast.Assign):
                tgts, val = n.targets, n.value
            elif isinstance(n, ast.AugAssign):
                tgts, val = [n.target], n
            elif isinstance(n, ast.AnnAssign):
                tgts, val = [n.target], n.value
            elif isinstance(n, (ast.Delete,)):
                tgts, val = n.targets, None
            flat = []
            for t in tgts:
                if isinstance(t, (ast.Tuple, ast.List)):
                    flat.extend((e, None) for e in t.elts)
                else:
                    flat.append((t, val))
            for t, v in flat:
                if isinstance(t, ast.Attribute) and t.attr == attrname:
                    cls, fn = owners.get(id(n), (None, None))
                    res.append((rel, cls, fn, n.lineno, v))
    return res


def _dynamic_attr_writes():
    """setattr(...) / __dict__ writes anywhere in tlslite/ (would defeat the syntactic store scan)"""
    res = []
    for path in _repo_files():
        tree = source.module_ast(path)
        rel = os.path.relpath(path, source.REPO)
        for n in ast.walk(tree):
            if isinstance(n, ast.Call) and isinstance(n.func, ast.Name) and n.func.id == 'setattr':
                res.append((rel, n.lineno, 'setattr'))
            if isinstance(n, ast.Attribute) and n.attr == '__dict__' and isinstance(n.ctx, ast.Load):
                res.append((rel, n.lineno, '__dict__'))
    return res


RL_FILES = ('tlslite/tlsrecordlayer.py', 'tlslite/tlsconnection.py')


class ClosedWriters(AstTask):
    """C17: `closed` is set to False only by _handshakeDone; every other store writes the constant True"""

    def run(self, reg, meta):
        stores = _attr_stores('closed')
        self.holds('store-sites-found', 'ast', len(stores) >= 3, reason='expected >= 3 stores, found %d' % len(stores))
        false_sites = []
        for (rel, cls, fn, line, v) in stores:
            const = isinstance(v, ast.Constant) and isinstance(v.value, bool)
            self.holds('closed-store@%s:%s.%s:L%d:is-a-boolean-constant' % (rel, cls, fn, line), 'ast', const,
                       reason='value is not a literal True/False', where=line)
            if const and v.value is False:
                false_sites.append((rel, cls, fn, line))
            if const and v.value is False:
                self.holds('closed=False@%s:L%d:only-in-_handshakeDone' % (rel, line), 'ast',
                           fn == '_handshakeDone' and cls == 'TLSRecordLayer',
                           reason='closed = False in %s.%s' % (cls, fn), where=line)
        self.holds('exactly-one-site-opens-the-connection', 'ast', len(false_sites) == 1,
                   reason='sites: %r' % (false_sites,))
        dyn = [d for d in _dynamic_attr_writes() if d[0] in RL_FILES]
        self.holds('no-dynamic-attribute-writes-in-tlsrecordlayer/tlsconnection', 'ast', not dyn, reason=repr(dyn))
        # _handshakeDone itself: two stores, nothing else
        fs = source.load(TRL + '_handshakeDone')
        body = source.strip_docstring(fs.node.body)
        shape = (len(body) == 2 and all(isinstance(s, ast.Assign) for s in body)
                 and [s.targets[0].attr for s in body] == ['resumed', 'closed']
                 and isinstance(body[0].value, ast.Name) and body[0].value.id == 'resumed')
        self.holds('_handshakeDone:records-resumed-argument-then-opens', 'ast', shape, reason='body changed')
        # who calls _handshakeDone
        callers = []
        for path in _repo_files():
            tree = source.module_ast(path)
            for cls, fn in _functions_with_class(tree):
                for n in source._walk_own(fn):
                    if isinstance(n, ast.Call) and isinstance(n.func, ast.Attribute) and n.func.attr == '_handshakeDone':
                        callers.append((os.path.relpath(path, source.REPO), cls, fn.name, n.lineno))
        ok = all(rel == 'tlslite/tlsconnection.py' and cls == 'TLSConnection' for (rel, cls, fn, line) in callers)
        self.holds('_handshakeDone:called-only-from-TLSConnection-handshake-functions', 'ast', ok and len(callers) >= 1,
                   reason=repr(callers))
        meta['assumptions'] = ['callers of _handshakeDone: %s' % ', '.join('%s:L%d' % (c[2], c[3]) for c in callers)]


REG.add_task(ClosedWriters('closed-writers', ('C17',), TRL + '_handshakeDone',
                           doc='whole-repository scan: closed = False is written only by TLSRecordLayer._handshakeDone; every other '
                               'store of `closed` writes the literal True'))


class ConfigWriters(AstTask):
    """the user-set configuration fields are assigned only in TLSRecordLayer.__init__ (so M2 tasks may keep them across calls)"""

    def run(self, reg, meta):
        for f in CONFIG_FIELDS:
            # tlslite/integration/* are application-side wrappers (HTTPTLSConnection, XMLRPCTransport) that configure a
            # connection they own; nothing in the record layer / handshake code calls them
            w = sorted(set((rel, cls, fn) for (rel, cls, fn, line, v) in _attr_stores(f)
                           if not rel.startswith('tlslite/integration/')))
            self.holds('%s:written-only-by-TLSRecordLayer.__init__' % f, 'ast',
                       w == [('tlslite/tlsrecordlayer.py', 'TLSRecordLayer', '__init__')], reason=repr(w))


REG.add_task(ConfigWriters('config-writers', ('C17', 'C16'), TRL + '__init__',
                           doc='ignoreAbruptClose, closeSocket, fault, client_cert_required are assigned nowhere in tlslite/ '
                               '(outside the application-side wrappers in tlslite/integration/) except TLSRecordLayer.__init__'))


def _method_table():
    """name -> FunctionDef for the methods of TLSRecordLayer and TLSConnection (TLSConnection overrides win)"""
    tbl = {}
    for rel, cname in (('tlslite/tlsrecordlayer.py', 'TLSRecordLayer'), ('tlslite/tlsconnection.py', 'TLSConnection')):
        tree = source.module_ast(os.path.join(source.REPO, rel))
        for n in tree.body:
            if isinstance(n, ast.ClassDef) and n.name == cname:
                for m in n.body:
                    if isinstance(m, (ast.FunctionDef,)):
                        tbl[m.name] = m
                    elif isinstance(m, ast.Assign) and isinstance(m.value, ast.Name):
                        # alias such as `_decref_socketios = close`
                        for t in m.targets:
                            if isinstance(t, ast.Name) and m.value.id in tbl:
                                tbl[t.id] = tbl[m.value.id]
    return tbl


def self_reach(start, tbl):
    """methods of the connection object reachable from `start` through calls / property reads on the NAME `self`
    (typed call graph: receivers other than `self` are other objects)"""
    seen, todo = set(), list(start)
    while todo:
        m = todo.pop()
        if m in seen or m not in tbl:
            continue
        seen.add(m)
        for n in ast.walk(tbl[m]):
            if isinstance(n, ast.Attribute) and isinstance(n.value, ast.Name) and n.value.id == 'self' and n.attr in tbl:
                todo.append(n.attr)
    return seen


def self_escapes(methods, tbl):
    """places where `self` itself is handed to something else (could call back into the connection)"""
    out = []
    for m in methods:
        for n in ast.walk(tbl[m]):
            if isinstance(n, ast.Call):
                for a in list(n.args) + [k.value for k in n.keywords]:
                    if isinstance(a, ast.Name) and a.id == 'self':
                        out.append((m, n.lineno))
    return out


class ReadBufferWriters(AstTask):
    """C01/C16 O-control-frame: nothing but readAsync's two stores, unread and clearReadBuffer writes _readBuffer,
    and none of the functions readAsync calls on the connection can reach those"""

    CALLEES = ('_getMsg', '_handle_keyupdate_request', '_handle_srv_pha', '_handle_pha', '_shutdown', '_sendError')

    def run(self, reg, meta):
        stores = _attr_stores('_readBuffer')
        where = sorted(set((rel, cls, fn) for (rel, cls, fn, line, v) in stores))
        want = [('tlslite/tlsrecordlayer.py', 'TLSRecordLayer', 'clearReadBuffer'),
                ('tlslite/tlsrecordlayer.py', 'TLSRecordLayer', 'readAsync'),
                ('tlslite/tlsrecordlayer.py', 'TLSRecordLayer', 'unread')]
        self.holds('_readBuffer-writers-are-exactly(clearReadBuffer,readAsync,unread)', 'ast', where == want, reason=repr(where))
        in_read = [(line, v) for (rel, cls, fn, line, v) in stores if fn == 'readAsync']
        self.holds('readAsync:exactly-two-store-sites', 'ast', len(in_read) == 2, reason=repr([l for l, v in in_read]))
        tbl = _method_table()
        writers = set(fn for (rel, cls, fn) in where) | set(['read', 'recv', 'recv_into', 'makefile', '__init__'])
        reach = self_reach(self.CALLEES, tbl)
        for c in self.CALLEES:
            r = self_reach([c], tbl)
            bad = sorted(r & writers)
            self.holds('%s:cannot-reach-a-_readBuffer-writer-through-self' % c, 'ast', not bad, reason='reaches %r' % bad)
        esc = self_escapes(reach, tbl)
        self.holds('callees:self-is-not-passed-to-other-objects', 'ast', not esc, reason=repr(esc), undecided=True)
        dyn = [d for d in _dynamic_attr_writes() if d[0] in RL_FILES]
        self.holds('no-dynamic-attribute-writes', 'ast', not dyn, reason=repr(dyn))
        meta['assumptions'] = ['typed call graph: a call whose receiver is not the name `self` does not run a method of this '
                               'connection object (sock, _recordLayer, session, messages are other objects); reachable '
                               'methods: %s' % ', '.join(sorted(reach))]


REG.add_task(ReadBufferWriters('_readBuffer-writers', ('C01', 'C16'), TRL + 'readAsync',
                               doc='O-control-frame (frame part): _readBuffer is written only by readAsync (two sites), unread and '
                                   'clearReadBuffer; _getMsg, the KeyUpdate/PHA handlers, _shutdown and _sendError cannot reach any '
                                   'of them through calls on self'))


# ---------------------------------------------------------------------------------------------------
# 3. writeAsync (C17)

def _entry_closed(api):
    self_ = api.entry.env['self']
    return api.entry.heap.get((self_.oid, 'closed'))


def closed_setup(ex, st, fr):
    """materialise self.closed / ignoreAbruptClose / closeSocket at entry so that all paths talk about the same values"""
    self_ = st.env['self']
    for f in ('closed', 'ignoreAbruptClose', 'closeSocket', '_refCount', 'session', 'fault'):
        st.heap[(self_.oid, f)] = fresh_opaque('entry_' + f)


def write_task():
    def sendmsg_args(ex, st, r, recv, args, kwargs, fr, node):
        st.ghost['sent_msg'] = args[0]
        st.ghost['sent_rfb'] = kwargs.get('randomizeFirstBlock', args[1] if len(args) > 1 else TRUE())

    def h_create(ex, recv, args, kwargs, st, fr, node):
        r = fresh_opaque('appdata')
        st.ghost['created'] = r
        st.ghost['created_from'] = args[0]
        return [Outcome('normal', st, r)]

    def h_bytearray(ex, recv, args, kwargs, st, fr, node):
        return [Outcome('normal', st, VOpaque(z3.Function('copy_as_bytearray', smt.Val, smt.Val)(to_val(args[0]))))]

    spec = M2Spec(hooks={'_sendMsg': io_hook('_sendMsg', ANY_EXC, on_normal=sendmsg_args, on_raise=callee_has_shut_down),
                         '_shutdown': h_shutdown, 'create': h_create, 'bytearray': h_bytearray},
                  stable_fields=CONFIG_FIELDS)

    def check(api):
        ex, fr = api.ex, api.fr
        c0 = truthy(_entry_closed(api))
        self_ = api.entry.env['self']
        iac = api.entry.heap[(self_.oid, 'ignoreAbruptClose')]
        ns, rs = api.normal_exits(), api.raise_exits()
        api.oblige(api.entry, 'has-normal-and-raising-exits', len(ns) >= 1 and len(rs) >= 2)
        closed_exits = [o for o in rs if o.val.cls is TLSClosedConnectionError]
        api.oblige(api.entry, 'has-closed-connection-exit', len(closed_exits) == 1)
        for k, o in enumerate(rs, 1):
            st = o.st
            cname = getattr(o.val.cls, '__name__', '?')
            tag = 'raise#%d[%s]' % (k, cname)
            n, last, anyf = shut_facts(st)
            if o.val.cls is TLSClosedConnectionError:
                # property C17: after an orderly close "writes raise the closed-connection error and the session stays
                # resumable": the refusal itself is no failure of the connection -- nothing is shut down or invalidated
                # (the connection is closed already: entry value of `closed`); fixed in /repo (F47)
                api.oblige(st, tag + ':the-refused-write-does-not-touch-the-session(no-_shutdown)', n == 0)
                api.oblige(st, tag + ':connection-stays-closed', z3.And(c0, same(st.heap.get((self_.oid, 'closed')), _entry_closed(api))))
            else:
                # DESIGN C17: failure => _shutdown(ignoreAbruptClose), exactly once, then the same exception leaves
                api.oblige(st, tag + ':_shutdown-called-exactly-once', n == 1)
                api.oblige(st, tag + ':_shutdown-argument-is-ignoreAbruptClose', same(st.ghost.get('shut_arg'), iac))
                api.oblige(st, tag + ':connection-closed', same(st.heap.get((self_.oid, 'closed')), TRUE()))
            if o.val.cls is TLSClosedConnectionError:
                api.oblige(st, tag + ':only-when-closed-at-entry', c0)
                api.oblige(st, tag + ':raised-before-any-send', gint(st, 'n__sendMsg').t == 0)
                api.oblige(st, tag + ':no-send-was-even-attempted', z3.Not(B(st.ghost.get('faulted'))))
            else:
                api.oblige(st, tag + ':send-fault-only-on-an-open-connection', z3.Not(c0))
        for k, o in enumerate(ns, 1):
            st = o.st
            tag = 'normal#%d' % k
            api.oblige(st, tag + ':connection-was-open', z3.Not(c0))
            api.oblige(st, tag + ':exactly-one-_sendMsg', gint(st, 'n__sendMsg').t == 1)
            api.oblige(st, tag + ':no-shutdown', gint(st, 'shut_n').t == 0)
            api.oblige(st, tag + ':sends-ApplicationData-created-from-bytearray(s)',
                       z3.And(same(st.ghost.get('sent_msg'), st.ghost.get('created')),
                              same(st.ghost.get('created_from'),
                                   VOpaque(z3.Function('copy_as_bytearray', smt.Val, smt.Val)(to_val(api.entry.env['s']))))))
            api.oblige(st, tag + ':with-the-1/n-1-split-enabled', same(st.ghost.get('sent_rfb'), TRUE()))

    m2task('writeAsync', ('C17', 'C01'), TRL + 'writeAsync', spec, check=check, setup=base_setup(closed_setup),
           doc='writeAsync: on a closed connection TLSClosedConnectionError is raised before any send is attempted; on an open '
               'one exactly one _sendMsg(ApplicationData(bytearray(s)), randomizeFirstBlock=True); every OTHER exception leaves '
               'after exactly one _shutdown(ignoreAbruptClose); the refusal on a closed connection leaves the session untouched')


write_task()
REG.note('C17', 'trusted', 'M2 post-handshake tasks: ' + ASSUME_FAULTS + '; ' + ASSUME_RAISERS)
REG.note('C17', 'assumptions', '_shutdown itself does not raise (sock.close() on a dead socket): not modelled')


# ---------------------------------------------------------------------------------------------------
# 4. close / closeAsync / _decrefAsync (C17)

def decref_task():
    def h_create(ex, recv, args, kwargs, st, fr, node):
        r = fresh_opaque('alert')
        st.ghost['alert_created'] = r
        st.ghost['alert_desc'] = args[0]
        st.ghost['alert_level'] = args[1] if len(args) > 1 else VInt(AlertLevel.fatal)
        return [Outcome('normal', st, r)]

    def on_send(ex, st, r, recv, args, kwargs, fr, node):
        st.ghost['sent_msg'] = args[0]

    spec = M2Spec(hooks={'_sendMsg': io_hook('_sendMsg', ANY_EXC, on_normal=on_send, on_raise=callee_has_shut_down),
                         '_getMsg': io_hook('_getMsg', ANY_EXC, on_raise=callee_has_shut_down),
                         '_shutdown': h_shutdown, 'create': h_create}, stable_fields=CONFIG_FIELDS)

    def check(api):
        ex, fr = api.ex, api.fr
        self_ = api.entry.env['self']
        c0 = truthy(api.entry.heap[(self_.oid, 'closed')])
        rc0 = api.entry.heap[(self_.oid, '_refCount')]
        # the decrement reaches 0 (the term the executor builds for `self._refCount -= 1; self._refCount == 0`)
        last_ref = z3.Function('v_binop_Sub', smt.Val, smt.Val, smt.Val)(to_val(rc0), to_val(VInt(1))) == to_val(VInt(0))
        ns, rs = api.normal_exits(), api.raise_exits()
        api.oblige(api.entry, 'has-normal-and-raising-exits', len(ns) >= 1 and len(rs) >= 1)
        for k, o in enumerate(ns, 1):
            st = o.st
            tag = 'normal#%d' % k
            n, last, anyf = shut_facts(st)
            active = z3.And(last_ref, z3.Not(c0))
            # last reference on an open connection: closed afterwards, close_notify(warning) was handed to _sendMsg at most once
            api.oblige(st, tag + ':last-close-of-open-connection-ends-closed',
                       z3.Implies(active, same(st.heap.get((self_.oid, 'closed')), TRUE())))
            api.oblige(st, tag + ':last-close-shuts-down-exactly-once', z3.Implies(active, n == 1))
            api.oblige(st, tag + ':orderly-or-transport-failure-keeps-session-resumable', z3.Implies(active, last))
            api.oblige(st, tag + ':close_notify-sent-at-most-once', gint(st, 'n__sendMsg').t <= 1)
            api.oblige(st, tag + ':not-last-reference-or-already-closed=>nothing-sent-nothing-shut-down',
                       z3.Implies(z3.Not(active), z3.And(gint(st, 'n__sendMsg').t == 0, n == 0, z3.Not(B(st.ghost.get('faulted'))))))
            # what is sent is Alert(close_notify, warning)
            sent = gint(st, 'n__sendMsg').t == 1
            api.oblige(st, tag + ':the-message-sent-is-close_notify-warning',
                       z3.Implies(sent, z3.And(same(st.ghost.get('sent_msg'), st.ghost.get('alert_created')),
                                               is_int(st.ghost.get('alert_desc'), AlertDescription.close_notify),
                                               is_int(st.ghost.get('alert_level'), AlertLevel.warning))))
        for k, o in enumerate(rs, 1):
            st = o.st
            cname = getattr(o.val.cls, '__name__', '?')
            tag = 'raise#%d[%s]' % (k, cname)
            n, last, anyf = shut_facts(st)
            # DESIGN C17: transport error during close => _shutdown(True) and NO exception; other => _shutdown(False), re-raise
            api.oblige(st, tag + ':transport-errors-never-leave-close', z3.BoolVal(not issubclass(o.val.cls, TRANSPORT)))
            api.oblige(st, tag + ':_shutdown(False)-exactly-once-before-the-exception-leaves', z3.And(n == 1, z3.Not(last)))
            api.oblige(st, tag + ':connection-closed', same(st.heap.get((self_.oid, 'closed')), TRUE()))
        # every injected transport fault is swallowed into a normal exit with _shutdown(True)
        for k, o in enumerate(ns, 1):
            n, last, anyf = shut_facts(o.st)
            api.oblige(o.st, 'normal#%d:swallowed-transport-fault=>_shutdown(True)-exactly-once' % k,
                       z3.Implies(B(o.st.ghost.get('faulted')), z3.And(n == 1, last)))

    m2task('_decrefAsync', ('C17',), TRL + '_decrefAsync', spec, check=check, setup=base_setup(closed_setup),
           doc='last close of an open connection: Alert(close_notify, warning) sent once, then _shutdown(True) (immediately when '
               'closeSocket, else after the peer\'s close_notify); socket.error/TLSAbruptCloseError during the exchange => '
               '_shutdown(True) and no exception; any other exception (incl. a non-close_notify alert) => _shutdown(False) and re-raise')


decref_task()


def close_tasks():
    for fname in ('close', 'closeAsync'):
        def mk(fname):
            spec = M2Spec(hooks={'_decrefAsync': io_hook('_decrefAsync', (ValueError,), havoc=False)})

            def check(api):
                self_ = api.entry.env['self']
                c0 = truthy(api.entry.heap[(self_.oid, 'closed')])
                ns = api.normal_exits()
                api.oblige(api.entry, 'has-normal-exit', len(ns) >= 1)
                for k, o in enumerate(ns, 1):
                    api.oblige(o.st, 'normal#%d:_decrefAsync-iff-open' % k,
                               z3.And(z3.Implies(c0, gint(o.st, 'n__decrefAsync').t == 0),
                                      z3.Implies(z3.Not(c0), gint(o.st, 'n__decrefAsync').t == 1)))
                for k, o in enumerate(api.raise_exits(), 1):
                    api.oblige(o.st, 'raise#%d:only-from-_decrefAsync-on-an-open-connection' % k,
                               z3.And(z3.Not(c0), B(o.st.ghost.get('faulted'))))
            m2task(fname, ('C17',), TRL + fname, spec, check=check,
                   setup=base_setup(lambda ex, st, fr: (closed_setup(ex, st, fr), st.ghost.__setitem__('n__decrefAsync', VInt(0)))),
                   doc='%s: a closed connection is left alone (no second close_notify); an open one runs _decrefAsync once' % fname)
        mk(fname)


close_tasks()


# ---------------------------------------------------------------------------------------------------
# 5. TLSConnection._handshakeWrapperAsync (C17 / C08 / C05)

def wrapper_task():
    HS_EXC = (socket.error, TLSAbruptCloseError, ValueError, AssertionError, TLSLocalAlert, TLSRemoteAlert)

    def it_handshaker(ex, st, fr, node):
        outs = []
        ch = Choice('handshaker')
        for cls in HS_EXC:
            s2 = ch.pick(st.fork())
            s2.ghost['faulted'] = TRUE()
            s2.ghost['hs_raised'] = TRUE()
            exc = VExc(cls, [], 'handshaker')
            callee_has_shut_down(ex, s2, cls, exc, None, [], {}, fr, node)
            outs.append(Outcome('raise', s2, exc))
        ch.pick(st)
        st.ghost['hs_ok'] = TRUE()
        outs.append(Outcome('normal', st, fresh_opaque('hs_last_yield')))
        return outs

    def h_checker(ex, recv, args, kwargs, st, fr, node):
        outs = []
        ch = Choice('checker')
        for cls in (TLSAuthenticationError, ValueError):
            s2 = ch.pick(st.fork())
            s2.ghost['checker_failed'] = TRUE()
            outs.append(Outcome('raise', s2, VExc(cls, [], 'checker')))
        ch.pick(st)
        st.ghost['checker_ok'] = TRUE()
        st.ghost['checker_arg_is_self'] = VBool(z3.BoolVal(len(args) == 1 and args[0] is st.env.get('self')))
        outs.append(Outcome('normal', st, VNone()))
        return outs

    def h_create(ex, recv, args, kwargs, st, fr, node):
        r = fresh_opaque('alert')
        st.ghost['alert_created'] = r
        st.ghost['alert_desc'] = args[0]
        st.ghost['alert_level'] = args[1] if len(args) > 1 else VInt(AlertLevel.fatal)
        return [Outcome('normal', st, r)]

    def on_send(ex, st, r, recv, args, kwargs, fr, node):
        st.ghost['sent_msg'] = args[0]

    def on_closed(ex, obj, val, st, fr, node):
        ex.oblige(st, 'wrapper-never-stores-closed', z3.BoolVal(False), kind='m2')

    spec = M2Spec(hooks={'checker': h_checker, '_shutdown': h_shutdown, 'create': h_create,
                         '_sendMsg': io_hook('_sendMsg', (socket.error, ValueError), on_normal=on_send)},
                  stable_fields=CONFIG_FIELDS, on_store={'closed': on_closed})
    spec.on_iter = {'handshaker': it_handshaker}

    def setup(ex, st, fr):
        closed_setup(ex, st, fr)
        for g in ('hs_ok', 'hs_raised', 'checker_ok', 'checker_failed'):
            st.ghost[g] = FALSE()

    def check(api):
        ex, fr = api.ex, api.fr
        self_ = api.entry.env['self']
        fault = truthy(api.entry.heap[(self_.oid, 'fault')])
        chk = truthy(api.entry.env['checker'])
        ns, rs = api.normal_exits(), api.raise_exits()
        api.oblige(api.entry, 'has-normal-and-raising-exits', len(ns) >= 1 and len(rs) >= len(HS_EXC))
        seen = set()
        for k, o in enumerate(rs, 1):
            st = o.st
            cls = o.val.cls
            seen.add(cls)
            tag = 'raise#%d[%s]' % (k, getattr(cls, '__name__', '?'))
            n, last, anyf = shut_facts(st)
            if inspect_isclass(cls) and issubclass(cls, TLSAlert):
                # re-raised as is: the raiser has already shut the connection down (assumption ASSUME_RAISERS);
                # the wrapper must not soften that (no _shutdown(True), no store to closed)
                api.oblige(st, tag + ':alert-propagates-closed-by-its-raiser', z3.Implies(z3.Not(fault), B(st.ghost.get('closed_by_callee'))))
                api.oblige(st, tag + ':wrapper-does-not-mark-resumable', z3.Not(B(st.ghost.get('shut_any_true'))))
            elif cls is TLSFaultError:
                api.oblige(st, tag + ':only-in-fault-injection-mode', fault)
            else:
                # C17: any other exception => _shutdown(False) (closed, session not resumable), then the same exception
                api.oblige(st, tag + ':_shutdown(False)-exactly-once', z3.And(n == 1, z3.Not(last)))
                api.oblige(st, tag + ':connection-closed', same(st.heap.get((self_.oid, 'closed')), TRUE()))
            if cls is TLSAuthenticationError:
                # C05: a Checker mismatch fails the call; the peer is told with a fatal alert first (if the send works)
                api.oblige(st, tag + ':comes-from-the-checker-after-a-complete-handshake',
                           z3.And(B(st.ghost.get('checker_failed')), B(st.ghost.get('hs_ok')), chk))
                api.oblige(st, tag + ':fatal-alert-handed-to-_sendMsg-before-shutdown',
                           z3.And(gint(st, 'n__sendMsg').t == 1, same(st.ghost.get('sent_msg'), st.ghost.get('alert_created')),
                                  is_int(st.ghost.get('alert_level'), AlertLevel.fatal)))
        for cls in HS_EXC + (TLSAuthenticationError,):
            api.oblige(api.entry, 'exception-class-%s-is-not-swallowed' % cls.__name__, cls in seen)
        for k, o in enumerate(ns, 1):
            st = o.st
            tag = 'normal#%d' % k
            # no handshake is reported complete after a fault
            api.oblige(st, tag + ':only-after-the-handshaker-finished-and-the-checker-accepted',
                       z3.Implies(z3.Not(fault), z3.And(B(st.ghost.get('hs_ok')), z3.Not(B(st.ghost.get('hs_raised'))),
                                                        z3.Implies(chk, B(st.ghost.get('checker_ok'))))))
            api.oblige(st, tag + ':no-shutdown-on-success', z3.Implies(z3.Not(fault), gint(st, 'shut_n').t == 0))
            api.oblige(st, tag + ':checker-is-given-the-connection',
                       z3.Implies(z3.And(chk, z3.Not(fault)), B(st.ghost.get('checker_arg_is_self'))))

    m2task('_handshakeWrapperAsync', ('C17', 'C08', 'C05'), TC + '_handshakeWrapperAsync', spec, check=check,
           setup=base_setup(setup),
           doc='every exception of the handshake generator or of the checker leaves the wrapper: non-alert classes after exactly '
               'one _shutdown(False); TLSAlert subclasses as raised (their raisers have shut down); a normal exit (without '
               'fault injection) only after the generator finished and the checker accepted; checker mismatch => fatal alert, '
               '_shutdown(False), TLSAuthenticationError')


def inspect_isclass(c):
    import inspect
    return inspect.isclass(c)


wrapper_task()
REG.note('C17', 'assumptions', '_handshakeWrapperAsync re-raises TLSAlert subclasses WITHOUT calling _shutdown itself: that the '
         'connection is closed then rests on every raise site of TLSLocalAlert/TLSRemoteAlert shutting down first '
         '(_sendError: task m2:_sendError; _getMsg: task m2:_getMsg/alert-branch; _sendMsgThroughSocket, _decrefAsync: tasks here); '
         'self.fault (test-only fault injection) is None')


# ---------------------------------------------------------------------------------------------------
# 6. KeyUpdate (C16; RFC 8446 4.6.3, 7.2)

def _sess(ex, st, fr):
    return field(ex, st, fr, st.env['self'], 'session')


def keyupdate_setup(ex, st, fr):
    closed_setup(ex, st, fr)
    self_ = st.env['self']
    sess = st.heap[(self_.oid, 'session')]
    # the stored secrets at entry, under names the obligations can refer to
    for f in ('cl_app_secret', 'sr_app_secret', 'cipherSuite'):
        st.heap[('o', sess.t.get_id(), f)] = fresh_opaque('entry_' + f)
        st.ghost['entry_' + f] = st.heap[('o', sess.t.get_id(), f)]
    st.ghost['entry_session'] = sess
    for g in ('rx_updated', 'tx_updated', 'reply_sent', 'ku_sent'):
        st.ghost[g] = FALSE()
    for g in ('n_rx', 'n_tx', 'n_send_keyupdate_request'):
        st.ghost[g] = VInt(0)


def _mk_calc_hook(kind):
    """calcTLS1_3KeyUpdate_sender (updates the READ state) / _reciever (updates the WRITE state)"""
    def h(ex, recv, args, kwargs, st, fr, node):
        r = fresh_opaque('new_secrets_' + kind)
        ginc(st, 'n_' + kind)
        st.ghost[kind + '_updated'] = TRUE()
        st.ghost[kind + '_result'] = r
        # called on the connection's record layer with the stored suite and the stored (client, server) secrets, in this order
        sess = st.ghost['entry_session']
        cur = lambda f: field(ex, st, fr, sess, f)
        ex.oblige(st, '%s-key-update:on-the-connection-record-layer' % kind,
                  same(recv, field(ex, st, fr, st.env['self'], '_recordLayer')), kind='m2')
        ex.oblige(st, '%s-key-update:arguments-are(cipherSuite,cl_app_secret,sr_app_secret)-of-the-session' % kind,
                  z3.And(z3.BoolVal(len(args) == 3), same(args[0], cur('cipherSuite')), same(args[1], cur('cl_app_secret')),
                         same(args[2], cur('sr_app_secret'))) if len(args) == 3 else z3.BoolVal(False), kind='m2')
        if kind == 'tx':
            # RFC 8446 4.6.3: the KeyUpdate message itself goes out under the OLD key: send first, then update
            ex.oblige(st, 'tx-key-update:only-after-the-KeyUpdate-message-was-sent', B(st.ghost.get('ku_sent')), kind='m2')
        return [Outcome('normal', st, r)]
    return h


def handle_keyupdate_task():
    def h_send_ku(ex, recv, args, kwargs, st, fr, node):
        ginc(st, 'n_send_keyupdate_request')
        st.ghost['reply_sent'] = TRUE()
        st.ghost['reply_type'] = args[0]
        # the reply is produced after our read keys were switched (order is immaterial for correctness of either direction,
        # but the stored secrets must already be the new ones because send_keyupdate_request reads them)
        ex.oblige(st, 'reply:after-the-read-key-update', B(st.ghost.get('rx_updated')), kind='m2')
        outs = []
        ch = Choice('send_keyupdate_request')
        for cls in ANY_EXC:
            outs.append(Outcome('raise', ch.pick(st.fork()), VExc(cls, [], 'send_keyupdate_request')))
        outs.append(Outcome('normal', ch.pick(st), fresh_opaque('ret_send_ku')))
        return outs

    def sendError(ex, recv, args, kwargs, st, fr, node):
        mt = attr(st.env['request'], 'message_type')
        ex.oblige(st, '_sendError:illegal_parameter', is_int(args[0], AlertDescription.illegal_parameter), kind='m2')
        ex.oblige(st, '_sendError:only-for-an-unknown-message_type',
                  z3.And(z3.Not(is_int(mt, KeyUpdateMessageType.update_not_requested)),
                         z3.Not(is_int(mt, KeyUpdateMessageType.update_requested))), kind='m2')
        ex.oblige(st, '_sendError:keys-untouched', z3.Not(B(st.ghost.get('rx_updated'))), kind='m2')
        return h_sendError(ex, recv, args, kwargs, st, fr, node)

    spec = M2Spec(hooks={'calcTLS1_3KeyUpdate_sender': _mk_calc_hook('rx'), 'calcTLS1_3KeyUpdate_reciever': _mk_calc_hook('tx'),
                         'send_keyupdate_request': h_send_ku, '_sendError': sendError},
                  stable_fields=CONFIG_FIELDS)

    def check(api):
        ex, fr = api.ex, api.fr
        ns = api.normal_exits()
        api.oblige(api.entry, 'has-normal-exit', len(ns) >= 1)
        api.oblige(api.entry, 'has-illegal_parameter-exit', len([o for o in api.raise_exits() if o.val.cls is NoReturn]) == 1)
        for k, o in enumerate(ns, 1):
            st = o.st
            tag = 'normal#%d' % k
            mt = attr(st.env['request'], 'message_type')
            req = is_int(mt, KeyUpdateMessageType.update_requested)
            notreq = is_int(mt, KeyUpdateMessageType.update_not_requested)
            api.oblige(st, tag + ':message_type-is-0-or-1', z3.Or(req, notreq))
            api.oblige(st, tag + ':read-keys-updated-exactly-once-write-keys-not-here',
                       z3.And(gint(st, 'n_rx').t == 1, gint(st, 'n_tx').t == 0))
            # the stored pair is replaced by the pair the record layer returned, client first, server second
            sess = st.ghost['entry_session']
            r = st.ghost.get('rx_result')
            # (on paths through send_keyupdate_request the reply may have advanced them again: state it before the reply)
            api.oblige(st, tag + ':update_requested<=>exactly-one-reply', z3.And(z3.Implies(req, gint(st, 'n_send_keyupdate_request').t == 1),
                                                                              z3.Implies(z3.Not(req), gint(st, 'n_send_keyupdate_request').t == 0)))
            api.oblige(st, tag + ':reply-is-update_not_requested',
                       z3.Implies(req, is_int(st.ghost.get('reply_type'), KeyUpdateMessageType.update_not_requested)))

    def on_secret(which, idx):
        def h(ex, obj, val, st, fr, node):
            r = st.ghost.get('rx_result')
            ex.oblige(st, 'store-%s:is-element-%d-of-the-record-layer-result' % (which, idx),
                      z3.BoolVal(False) if r is None else same(val, item(r, idx)), kind='m2')
            ex.oblige(st, 'store-%s:on-the-connection-session' % which, same(obj, st.ghost['entry_session']), kind='m2')
        return h
    spec.on_store = {'cl_app_secret': on_secret('cl_app_secret', 0), 'sr_app_secret': on_secret('sr_app_secret', 1)}

    m2task('_handle_keyupdate_request', ('C16',), TRL + '_handle_keyupdate_request', spec, check=check,
           setup=base_setup(keyupdate_setup),
           doc='received KeyUpdate: unknown message_type => illegal_parameter with keys untouched; otherwise the READ state is '
               'advanced once via calcTLS1_3KeyUpdate_sender(session.cipherSuite, cl, sr), the returned (cl, sr) pair is stored '
               'in that order, and exactly when update_requested one update_not_requested KeyUpdate is sent back')


handle_keyupdate_task()


def send_keyupdate_task():
    def h_create(ex, recv, args, kwargs, st, fr, node):
        r = fresh_opaque('keyupdate')
        st.ghost['ku_created'] = r
        st.ghost['ku_type'] = args[0]
        return [Outcome('normal', st, r)]

    def on_send(ex, st, r, recv, args, kwargs, fr, node):
        st.ghost['ku_sent'] = TRUE()
        st.ghost['sent_msg'] = args[0]
        ex.oblige(st, '_sendMsg:before-the-write-key-update', z3.Not(B(st.ghost.get('tx_updated'))), kind='m2')

    spec = M2Spec(hooks={'calcTLS1_3KeyUpdate_sender': _mk_calc_hook('rx'), 'calcTLS1_3KeyUpdate_reciever': _mk_calc_hook('tx'),
                         '_sendMsg': io_hook('_sendMsg', ANY_EXC, on_normal=on_send, on_raise=callee_has_shut_down, havoc=False),
                         'create': h_create},
                  stable_fields=CONFIG_FIELDS, props_as_fields=('version',))

    def on_secret(which, idx):
        def h(ex, obj, val, st, fr, node):
            r = st.ghost.get('tx_result')
            ex.oblige(st, 'store-%s:is-element-%d-of-the-record-layer-result' % (which, idx),
                      z3.BoolVal(False) if r is None else same(val, item(r, idx)), kind='m2')
            ex.oblige(st, 'store-%s:on-the-connection-session' % which, same(obj, st.ghost['entry_session']), kind='m2')
        return h
    spec.on_store = {'cl_app_secret': on_secret('cl_app_secret', 0), 'sr_app_secret': on_secret('sr_app_secret', 1)}

    def check(api):
        ex, fr = api.ex, api.fr
        self_ = api.entry.env['self']
        c0 = truthy(api.entry.heap[(self_.oid, 'closed')])
        ns, rs = api.normal_exits(), api.raise_exits()
        api.oblige(api.entry, 'has-normal-exit', len(ns) >= 1)
        for k, o in enumerate(rs, 1):
            st = o.st
            tag = 'raise#%d[%s]' % (k, getattr(o.val.cls, '__name__', '?'))
            # whatever goes wrong: the write keys are NOT advanced unless the message went out (else the peer could not follow)
            api.oblige(st, tag + ':write-keys-untouched', gint(st, 'n_tx').t == 0)
            if o.val.cls is TLSClosedConnectionError:
                api.oblige(st, tag + ':only-when-closed', c0)
                api.oblige(st, tag + ':before-any-send', z3.And(gint(st, 'n__sendMsg').t == 0, z3.Not(B(st.ghost.get('faulted')))))
            elif o.val.cls is TLSIllegalParameterException:
                api.oblige(st, tag + ':before-any-send', z3.And(gint(st, 'n__sendMsg').t == 0, z3.Not(B(st.ghost.get('faulted')))))
                v = field(ex, st, fr, self_, 'version')
                api.oblige(st, tag + ':only-when-version-is-not-TLS1.3', z3.Not(truthy(eq_op(v, VTuple([VInt(3), VInt(4)])))))
        for k, o in enumerate(ns, 1):
            st = o.st
            tag = 'normal#%d' % k
            v = field(ex, st, fr, self_, 'version')
            api.oblige(st, tag + ':open-TLS1.3-connection', z3.And(z3.Not(c0), truthy(eq_op(v, VTuple([VInt(3), VInt(4)])))))
            api.oblige(st, tag + ':one-KeyUpdate(message_type)-sent', z3.And(
                gint(st, 'n__sendMsg').t == 1, same(st.ghost.get('sent_msg'), st.ghost.get('ku_created')),
                same(st.ghost.get('ku_type'), api.entry.env['message_type'])))
            api.oblige(st, tag + ':write-keys-updated-exactly-once-read-keys-not-here',
                       z3.And(gint(st, 'n_tx').t == 1, gint(st, 'n_rx').t == 0))

    m2task('send_keyupdate_request', ('C16',), TRL + 'send_keyupdate_request', spec, check=check,
           setup=base_setup(keyupdate_setup),
           doc='sending KeyUpdate: closed => TLSClosedConnectionError, not TLS 1.3 => TLSIllegalParameterException, both before any '
               'send; otherwise KeyUpdate(message_type) goes out under the old key, THEN the WRITE state is advanced once via '
               'calcTLS1_3KeyUpdate_reciever(session.cipherSuite, cl, sr) and the returned pair stored in order; a failed send '
               'leaves the write keys alone')


send_keyupdate_task()


def _recordlayer_ku_task(fname, state_field, other_field):
    """RecordLayer.calcTLS1_3KeyUpdate_sender/_reciever: which secret drives which state for which role"""
    def h_calc(ex, recv, args, kwargs, st, fr, node):
        r = fresh_opaque('calc')
        ginc(st, 'n_calc')
        st.ghost['calc_result'] = r
        st.ghost['calc_suite'] = args[0]
        st.ghost['calc_secret'] = args[1]
        return [Outcome('normal', st, r)]

    flags = {}

    def on_state(ex, obj, val, st, fr, node):
        r = st.ghost.get('calc_result')
        ex.oblige(st, '%s-store:is-the-new-state-from-_calcTLS1_3KeyUpdate' % state_field,
                  z3.BoolVal(False) if r is None else same(val, item(r, 1)), kind='m2')
        st.ghost['state_stored'] = TRUE()
        flags['n'] = flags.get('n', 0) + 1

    def on_other(ex, obj, val, st, fr, node):
        ex.oblige(st, '%s-is-not-touched' % other_field, z3.BoolVal(False), kind='m2')

    spec = M2Spec(hooks={'_calcTLS1_3KeyUpdate': h_calc}, on_store={state_field: on_state, other_field: on_other})

    def setup(ex, st, fr):
        st.ghost['n_calc'] = VInt(0)
        st.ghost['state_stored'] = FALSE()
        st.heap[(st.env['self'].oid, 'client')] = fresh_opaque('entry_client')

    def check(api):
        ex, fr = api.ex, api.fr
        e = api.entry.env
        client = truthy(api.entry.heap[(e['self'].oid, 'client')])
        ns = [o for o in api.outs if o.kind == 'return']
        api.oblige(api.entry, 'has-two-return-exits-and-no-other', len(ns) == 2 and len(api.outs) == 2)
        api.oblige(api.entry, 'state-store-sites-seen', flags.get('n', 0) == 2)
        # RFC 8446 7.2 / 4.6.3: the side that SENDS KeyUpdate advances its own sending secret; the receiver advances its
        # receiving secret = the sender's.  A client writes with client_application_traffic_secret and reads with the server's.
        reads = (state_field == '_readState')
        for k, o in enumerate(ns, 1):
            st = o.st
            tag = 'return#%d' % k
            r = st.ghost.get('calc_result')
            uses_server_secret = z3.And(client, z3.BoolVal(reads)) if reads else z3.And(z3.Not(client), z3.BoolVal(True))
            uses_server_secret = client if reads else z3.Not(client)
            api.oblige(st, tag + ':exactly-one-derivation-with-the-given-suite',
                       z3.And(gint(st, 'n_calc').t == 1, same(st.ghost.get('calc_suite'), e['cipherSuite'])))
            api.oblige(st, tag + ':secret-of-the-right-direction-for-the-role',
                       z3.And(z3.Implies(uses_server_secret, same(st.ghost.get('calc_secret'), e['sr_app_secret'])),
                              z3.Implies(z3.Not(uses_server_secret), same(st.ghost.get('calc_secret'), e['cl_app_secret']))))
            ok_t = isinstance(o.val, VTuple) and len(o.val.items) == 2
            new = item(r, 0) if r is not None else None
            api.oblige(st, tag + ':returns(client,server)-pair-with-only-that-secret-replaced',
                       z3.BoolVal(False) if not ok_t else z3.And(
                           z3.Implies(uses_server_secret, z3.And(same(o.val.items[0], e['cl_app_secret']), same(o.val.items[1], new))),
                           z3.Implies(z3.Not(uses_server_secret), z3.And(same(o.val.items[0], new), same(o.val.items[1], e['sr_app_secret'])))))
            api.oblige(st, tag + ':%s-replaced' % state_field, B(st.ghost.get('state_stored')))

    m2task('RecordLayer.' + fname, ('C16', 'C01'), RLQ + fname, spec, check=check, setup=setup,
           doc='%s: one _calcTLS1_3KeyUpdate(cipherSuite, secret) with the %s secret for a client and the %s secret for a server; '
               'its new state replaces %s (never %s); the returned (cl, sr) pair differs from the input only in that secret'
               % (fname, 'server' if state_field == '_readState' else 'client',
                  'client' if state_field == '_readState' else 'server', state_field, other_field))


_recordlayer_ku_task('calcTLS1_3KeyUpdate_sender', '_readState', '_writeState')
_recordlayer_ku_task('calcTLS1_3KeyUpdate_reciever', '_writeState', '_readState')
REG.note('C16', 'trusted', 'M2 KeyUpdate tasks: RecordLayer._calcTLS1_3KeyUpdate(suite, secret) -> (new secret, new ConnectionState) by '
         'its own contract (contracts/suites.py: HKDF-Expand-Label(secret, "traffic upd"), key/iv from the new secret, seqnum 0); '
         + ASSUME_FAULTS)
REG.note('C16', 'not_built', 'KeyUpdate as a relational two-endpoint lemma (A.send_keyupdate_request ; B._handle_keyupdate_request => '
         'A._writeState == B._readState): shown here per function (direction, secret, order of send and key switch), not composed')


# ---------------------------------------------------------------------------------------------------
# 7. post-handshake client authentication, server side: _handle_srv_pha (C05 / C16; RFC 8446 4.6.2, 4.4.3)

UPD = z3.Function('ghost_transcript_update', smt.Val, smt.Val, smt.Val)      # transcript after feeding one more message
CPY = z3.Function('ghost_transcript_copy', smt.Val, smt.Val)


def pha_transcript_hooks():
    """`ctx = self._first_handshake_hashes.copy(); ctx.update(x) ...` tracked as a ghost term"""
    def h_copy(ex, recv, args, kwargs, st, fr, node):
        r = fresh_opaque('handshake_context')
        st.ghost['ctx_obj'] = r
        st.ghost['ctx'] = VOpaque(CPY(to_val(recv)))
        st.ghost['ctx_src'] = recv
        return [Outcome('normal', st, r)]

    def h_update(ex, recv, args, kwargs, st, fr, node):
        if st.ghost.get('ctx_obj') is None or not z3.is_true(z3.simplify(same(recv, st.ghost['ctx_obj']))):
            return None
        st.ghost['ctx'] = VOpaque(UPD(to_val(st.ghost['ctx']), to_val(args[0])))
        return [Outcome('normal', st, VNone())]

    def h_digest(ex, recv, args, kwargs, st, fr, node):
        if st.ghost.get('ctx_obj') is None or not z3.is_true(z3.simplify(same(recv, st.ghost['ctx_obj']))):
            return None
        r = fresh_opaque('transcript_hash')
        st.ghost['digest_result'] = r
        st.ghost['digest_of'] = st.ghost['ctx']
        st.ghost['digest_prf'] = args[0]
        return [Outcome('normal', st, r)]
    return {'copy': h_copy, 'update': h_update, 'digest': h_digest}


def WRITE(v):
    """the term the executor builds for v.write() when `write` is declared pure"""
    return VOpaque(z3.Function('pure_write_1', smt.Val, smt.Val)(to_val(attr(v, 'write'))))


def srv_pha_task():
    def h_pop(ex, recv, args, kwargs, st, fr, node):
        """dict.pop(key): removes and returns, or KeyError"""
        reqs = field(ex, st, fr, st.env['self'], '_cert_requests')
        if not z3.is_true(z3.simplify(same(recv, reqs))):
            return None
        ch = Choice('pop')
        bad = ch.pick(st.fork())
        bad.ghost['pop_failed'] = TRUE()
        ch.pick(st)
        r = fresh_opaque('popped_request')
        st.ghost['cr_popped'] = TRUE()
        st.ghost['cr'] = r
        st.ghost['pop_key'] = args[0]
        return [Outcome('raise', bad, VExc(KeyError, [], 'pop line %d' % node.lineno)), Outcome('normal', st, r)]

    def h_bytes(ex, recv, args, kwargs, st, fr, node):
        return [Outcome('normal', st, VOpaque(z3.Function('copy_as_bytes', smt.Val, smt.Val)(to_val(args[0]))))]

    def sendError(ex, recv, args, kwargs, st, fr, node):
        line = node.lineno
        cert = st.env['cert']
        ctxv = attr(cert, 'certificate_request_context')
        d = args[0]
        want = {}
        if B(st.ghost.get('pop_failed')) is not None and z3.is_true(z3.simplify(B(st.ghost.get('pop_failed')))):
            # a context we never issued, or one that was already used (popped): illegal_parameter, nothing recorded
            ex.oblige(st, 'unknown-or-replayed-context@L%d:illegal_parameter' % line,
                      is_int(d, AlertDescription.illegal_parameter), kind='m2')
        st.ghost['abort_desc'] = d
        return h_sendError(ex, recv, args, kwargs, st, fr, node)

    def h_getMsg(ex, recv, args, kwargs, st, fr, node):
        outs = []
        ch = Choice('_getMsg')
        for cls in ANY_EXC:
            outs.append(Outcome('raise', ch.pick(st.fork()), VExc(cls, [], '_getMsg line %d' % node.lineno)))
        ch.pick(st)
        r = fresh_opaque('msg')
        ginc(st, 'n__getMsg')
        if len(args) >= 2 and z3.is_true(z3.simplify(is_int(args[1], HandshakeType.certificate_verify))):
            st.ghost['cv_msg'] = r
            st.ghost['cv_ctype_ok'] = VBool(is_int(args[0], ContentType.handshake))
        elif len(args) >= 2 and z3.is_true(z3.simplify(is_int(args[1], HandshakeType.finished))):
            st.ghost['fin_msg'] = r
            st.ghost['fin_ctype_ok'] = VBool(is_int(args[0], ContentType.handshake))
            st.ghost['fin_size'] = args[2] if len(args) > 2 else None
            st.ghost['ctx_at_finished_read'] = st.ghost.get('ctx')
        outs.append(Outcome('normal', st, r))
        return outs

    def h_calcVerifyBytes(ex, recv, args, kwargs, st, fr, node):
        r = fresh_opaque('verify_bytes')
        g = st.ghost.get
        st.ghost['cvb'] = r
        st.ghost['cvb_prf'] = args[6] if len(args) > 6 else None
        O = lambda name, goal: ex.oblige(st, 'calcVerifyBytes:' + name, goal, kind='m2')
        O('version-is-TLS1.3', truthy(eq_op(args[0], VTuple([VInt(3), VInt(4)]))))
        O('hashes-argument-is-the-PHA-transcript-object', same(args[1], g('ctx_obj')))
        O('label-is-client', z3.BoolVal(len(args) > 7 and _is_bytes_lit(args[7], b'client')))
        cv = g('cv_msg')
        scheme_val = ev(ex, st, fr, 'getattr(SignatureScheme, SignatureScheme.toRepr(cert_verify.signatureAlgorithm))')
        O('scheme-is-the-one-named-in-CertificateVerify', z3.And(z3.BoolVal(cv is not None), same(args[2], scheme_val),
                                                                 same(st.env.get('cert_verify'), cv)))
        # RFC 8446 4.4.3 / 4.6.2: Transcript-Hash(first handshake, CertificateRequest, Certificate)
        fhh = field(ex, st, fr, st.env['self'], '_first_handshake_hashes')
        cr = g('cr')
        want = None if cr is None else UPD(UPD(CPY(to_val(fhh)), to_val(WRITE(cr))), to_val(WRITE(st.env['cert'])))
        O('signed-transcript-is(first-handshake||CertificateRequest||Certificate)',
          z3.BoolVal(False) if (want is None or g('ctx') is None) else to_val(g('ctx')) == want)
        return [Outcome('normal', st, r)]

    def h_ver_func(ex, recv, args, kwargs, st, fr, node):
        r = fresh_opaque('sig_ok')
        st.ghost['ver_called'] = TRUE()
        st.ghost['ver_result'] = r
        st.ghost['ver_fn'] = st.env.get('ver_func')
        st.ghost['ver_sig'] = args[0]
        st.ghost['ver_data'] = args[1]
        return [Outcome('normal', st, r)]

    def h_hkdf(ex, recv, args, kwargs, st, fr, node):
        r = fresh_opaque('finished_key')
        st.ghost['fk'] = r
        st.ghost['fk_prf'] = args[4] if len(args) > 4 else None
        sess = field(ex, st, fr, st.env['self'], 'session')
        # RFC 8446 4.4.4: finished_key = HKDF-Expand-Label(BaseKey, "finished", "", Hash.length); BaseKey for
        # post-handshake authentication is client_application_traffic_secret_N
        ex.oblige(st, 'finished_key:HKDF-Expand-Label(client_application_traffic_secret,"finished","",prf_size,prf_name)',
                  z3.And(same(args[0], field(ex, st, fr, sess, 'cl_app_secret')),
                         z3.BoolVal(_is_bytes_lit(args[1], b'finished') and _is_bytes_lit(args[2], b'')),
                         same(args[3], st.env.get('prf_size')), same(args[4], st.env.get('prf_name'))), kind='m2')
        return [Outcome('normal', st, r)]

    def h_hmac(ex, recv, args, kwargs, st, fr, node):
        r = fresh_opaque('verify_data')
        st.ghost['vd'] = r
        st.ghost['vd_key'] = args[0]
        st.ghost['vd_msg'] = args[1]
        st.ghost['vd_prf'] = args[2] if len(args) > 2 else None
        return [Outcome('normal', st, r)]

    def h_sigHashes(ex, recv, args, kwargs, st, fr, node):
        r = fresh_opaque('avail_sig_algs')
        st.ghost['avail'] = r
        st.ghost['avail_chain'] = args[2] if len(args) > 2 else None
        st.ghost['avail_key'] = args[1] if len(args) > 1 else None
        return [Outcome('normal', st, r)]

    def h_getEE(ex, recv, args, kwargs, st, fr, node):
        r = VOpaque(z3.Function('end_entity_key_of', smt.Val, smt.Val)(to_val(recv)))
        return [Outcome('normal', st, r)]

    flags = {}

    def on_chain(ex, obj, val, st, fr, node):
        """THE store: session.clientCertChain = cert.cert_chain"""
        flags['n'] = flags.get('n', 0) + 1
        g = st.ghost.get
        cert = st.env['cert']
        chain = attr(cert, 'cert_chain')
        has_chain = truthy(chain)
        sess = field(ex, st, fr, st.env['self'], 'session')
        O = lambda name, goal: ex.oblige(st, 'clientCertChain-store:' + name, goal, kind='m2')
        O('on-the-connection-session', same(obj, sess))
        O('value-is-the-chain-of-the-received-Certificate', same(val, chain))
        # --- the request: found under the echoed context and REMOVED (single use, RFC 8446 4.6.2)
        O('request-was-popped-from-_cert_requests', B(g('cr_popped')))
        O('pop-key-is-the-context-echoed-in-the-Certificate',
          same(g('pop_key'), VOpaque(z3.Function('copy_as_bytes', smt.Val, smt.Val)(to_val(attr(cert, 'certificate_request_context'))))))
        O('echoed-context-is-non-empty', truthy(attr(cert, 'certificate_request_context')))
        cr = g('cr')
        # --- CertificateVerify (only when a certificate was presented)
        cv = g('cv_msg')
        O('non-empty-chain=>CertificateVerify-was-read-as-handshake/certificate_verify',
          z3.Implies(has_chain, z3.And(z3.BoolVal(cv is not None), B(g('cv_ctype_ok')))))
        if cv is not None and cr is not None:
            alg = attr(cv, 'signatureAlgorithm')
            vin = z3.Function('v_in', smt.Val, smt.Val, smt.B)
            O('non-empty-chain=>scheme-is-in-the-request\'s-signature_algorithms',
              z3.Implies(has_chain, vin(to_val(alg), to_val(attr(cr, 'supported_signature_algs')))))
            O('non-empty-chain=>scheme-is-consistent-with-the-certificate-key',
              z3.Implies(has_chain, z3.And(z3.BoolVal(g('avail') is not None), vin(to_val(alg), to_val(g('avail'))) if g('avail') is not None else z3.BoolVal(False),
                                           same(g('avail_chain'), chain))))
            O('non-empty-chain=>signature-verified', z3.Implies(has_chain, z3.And(B(g('ver_called')), truthy(g('ver_result')) if g('ver_result') is not None else z3.BoolVal(False))))
            eek = VOpaque(z3.Function('end_entity_key_of', smt.Val, smt.Val)(to_val(chain)))
            O('non-empty-chain=>verified-with-the-end-entity-key-of-that-chain',
              z3.Implies(has_chain, z3.Or(same(g('ver_fn'), attr(eek, 'verify')), same(g('ver_fn'), attr(eek, 'hashAndVerify')))))
            O('non-empty-chain=>signature-is-the-CertificateVerify-signature', z3.Implies(has_chain, same(g('ver_sig'), attr(cv, 'signature'))))
            O('non-empty-chain=>signed-content-is-the-calcVerifyBytes-result', z3.Implies(has_chain, same(g('ver_data'), g('cvb'))))
            fhh = field(ex, st, fr, st.env['self'], '_first_handshake_hashes')
            want = UPD(UPD(CPY(to_val(fhh)), to_val(WRITE(cr))), to_val(WRITE(cert)))
            want_fin = z3.If(has_chain, UPD(want, to_val(WRITE(cv))), want)
        else:
            fhh = field(ex, st, fr, st.env['self'], '_first_handshake_hashes')
            want_fin = None
            O('CertificateVerify-and-request-known', z3.BoolVal(False))
        # --- Finished
        fin = g('fin_msg')
        O('Finished-was-read-as-handshake/finished', z3.And(z3.BoolVal(fin is not None), B(g('fin_ctype_ok'))))
        if fin is not None:
            O('Finished.verify_data-equals-the-expected-value', same(attr(fin, 'verify_data'), g('vd')))
            O('expected-value-is-HMAC(finished_key,Transcript-Hash)', z3.And(same(g('vd_key'), g('fk')), same(g('vd_msg'), g('digest_result'))))
            if want_fin is not None:
                O('Finished-transcript-is(first-handshake||CR||Certificate[||CertificateVerify])',
                  z3.BoolVal(False) if g('digest_of') is None else to_val(g('digest_of')) == want_fin)
            O('one-hash-throughout', z3.And(same(g('digest_prf'), g('fk_prf')), same(g('vd_prf'), g('fk_prf')),
                                            z3.Implies(has_chain, same(g('cvb_prf'), g('fk_prf')))))
        # --- empty Certificate
        req = field(ex, st, fr, st.env['self'], 'client_cert_required')
        O('empty-chain-is-recorded-only-when-a-certificate-is-not-required', z3.Implies(z3.Not(has_chain), z3.Not(truthy(req))))

    hooks = {'pop': h_pop, 'bytes': h_bytes, '_sendError': sendError, '_getMsg': h_getMsg, 'calcVerifyBytes': h_calcVerifyBytes,
             'ver_func': h_ver_func, 'HKDF_expand_label': h_hkdf, 'secureHMAC': h_hmac, '_sigHashesToList': h_sigHashes,
             'getEndEntityPublicKey': h_getEE}
    hooks.update(pha_transcript_hooks())
    spec = M2Spec(hooks=hooks, pure={'write', 'toRepr', 'getPadding', 'getHash', 'getattr', 'HandshakeSettings'},
                  on_store={'clientCertChain': on_chain}, stable_fields=CONFIG_FIELDS + ('_first_handshake_hashes',))

    def setup(ex, st, fr):
        closed_setup(ex, st, fr)
        self_ = st.env['self']
        for f in ('_cert_requests', '_first_handshake_hashes', 'client_cert_required'):
            st.heap[(self_.oid, f)] = fresh_opaque('entry_' + f)
        for g in ('cr_popped', 'pop_failed', 'ver_called', 'cv_ctype_ok', 'fin_ctype_ok'):
            st.ghost[g] = FALSE()

    def check(api):
        ns = api.normal_exits()
        api.oblige(api.entry, 'has-normal-exit', len(ns) >= 1)
        api.oblige(api.entry, 'the-store-site-was-reached-exactly-once-per-path', flags.get('n', 0) >= 1)
        aborts = [o for o in api.raise_exits() if o.val.cls is NoReturn]
        api.oblige(api.entry, 'has-abort-exits(>=7)', len(aborts) >= 7)
        # every abort path leaves session.clientCertChain alone
        for k, o in enumerate(aborts, 1):
            evs = [e[0] for e in o.st.events]
            api.oblige(o.st, 'abort#%d[%s]:nothing-recorded' % (k, o.val.origin), 'setattr:clientCertChain' not in evs)

    m2task('_handle_srv_pha', ('C05', 'C16'), TRL + '_handle_srv_pha', spec, check=check, setup=base_setup(setup),
           doc='post-handshake client authentication (server): session.clientCertChain is assigned only after the echoed, non-empty '
               'certificate_request_context was POPPED from _cert_requests (single use), the CertificateVerify scheme is in the '
               'request\'s list and fits the key, the signature verified under the end-entity key of the presented chain over '
               'first-handshake || CertificateRequest || Certificate, and the Finished MAC under the client application traffic '
               'secret matched; an unknown/replayed context => illegal_parameter')


def _is_bytes_lit(v, lit):
    """is the symbolic value the bytes literal `lit`?"""
    from pyvc.values import VSeq
    from pyvc.seqlit import literal_items
    if not isinstance(v, VSeq):
        return False
    items = literal_items(v.t)
    return items is not None and bytes(items) == lit


srv_pha_task()
REG.note('C05', 'trusted', 'M2 _handle_srv_pha: the transcript object is tracked as a ghost term (copy of _first_handshake_hashes, '
         'then update(x) in program order); X.write() is a pure function of the message object; KeyExchange.calcVerifyBytes / '
         'HKDF_expand_label / secureHMAC / key.verify by their own contracts (C09/C10); _sigHashesToList(settings, None, chain) returns '
         'the schemes usable with the chain\'s key; dict.pop(k) returns the stored value and removes it or raises KeyError; ' + ASSUME_FAULTS)
REG.note('C05', 'not_built', '_handle_srv_pha: "TODO: verify that the extensions used by client were sent by us" is also a TODO in the code; '
         'certificate chain validation is the application\'s (Checker)')


# ---------------------------------------------------------------------------------------------------
# 8. readAsync (C01 read FIFO, C16 O-control-frame and admitted post-handshake messages, C17 exits)

V_ADD = z3.Function('v_binop_Add', smt.Val, smt.Val, smt.Val)
V_SLICE = z3.Function('v_slice', smt.Val, smt.Val, smt.Val, smt.Val)
AS_BYTES = z3.Function('copy_as_bytes', smt.Val, smt.Val)
V_ISINST = None


def tup(*ks):
    return VTuple([VInt(k) for k in ks])


def tuple_is(v, *ks):
    """z3 Bool: v is the tuple of these integers (element-wise; False for any other shape)"""
    if not isinstance(v, VTuple) or len(v.items) != len(ks):
        return z3.BoolVal(False)
    return z3.And([is_int(x, k) for x, k in zip(v.items, ks)])


def read_task():
    NST, KU, CERT, CCERT, CREQ = (HandshakeType.new_session_ticket, HandshakeType.key_update, HandshakeType.certificate,
                                  HandshakeType.compressed_certificate, HandshakeType.certificate_request)
    flags = {'getmsg': 0, 'append': 0, 'split': 0}

    def h_getMsg(ex, recv, args, kwargs, st, fr, node):
        flags['getmsg'] += 1
        self_ = st.env['self']
        e = st.ghost
        v13 = B(e.get('v13'))
        kp = truthy(e['entry_keypair'])
        crs = truthy(e['entry_cert_requests'])
        a0, a1 = args[0], args[1]
        a2 = args[2] if len(args) > 2 else None
        O = lambda name, goal: ex.oblige(st, '_getMsg:' + name, goal, kind='m2')
        # TLS <= 1.2: only application data; no handshake message is admitted after the handshake (renegotiation is refused in _getMsg)
        O('<=TLS1.2:admits-application_data-only', z3.Implies(z3.Not(v13), z3.And(is_int(a0, ContentType.application_data), same(a1, VNone()))))
        O('TLS1.3:admits-application_data-and-handshake-records',
          z3.Implies(v13, tuple_is(a0, ContentType.application_data, ContentType.handshake)))
        # RFC 8446 4.6: NewSessionTicket and KeyUpdate always; CertificateRequest only for a client that can answer it
        # (post_handshake_auth is offered only with a key pair); Certificate only for a server with an outstanding request
        O('TLS1.3-client-with-keypair:admits(NST,KeyUpdate,CertificateRequest)', z3.Implies(z3.And(v13, kp), tuple_is(a1, NST, KU, CREQ)))
        O('TLS1.3-outstanding-request:admits(NST,KeyUpdate,Certificate[,CompressedCertificate])',
          z3.Implies(z3.And(v13, z3.Not(kp), crs), z3.Or(tuple_is(a1, NST, KU, CERT), tuple_is(a1, NST, KU, CERT, CCERT))))
        O('TLS1.3-otherwise:admits(NST,KeyUpdate)-only:unsolicited-Certificate/CertificateRequest-is-refused-by-_getMsg',
          z3.Implies(z3.And(v13, z3.Not(kp), z3.Not(crs)), tuple_is(a1, NST, KU)))
        O('Certificate-is-parsed-as-x509-only-when-admitted',
          z3.Implies(z3.And(v13, z3.Not(kp), crs), is_int(a2, CertificateType.x509)))
        outs = []
        ch = Choice('_getMsg')
        for cls in ANY_EXC:
            for variant in (('close_notify', 'other') if cls is TLSRemoteAlert else ('',)):
                s2 = ch.pick(st.fork())
                s2.ghost['faulted'] = TRUE()
                s2.ghost['fault_cls'] = VStr(cls.__name__ + variant)
                exc = VExc(cls, [], '_getMsg%s line %d' % (variant, node.lineno))
                callee_has_shut_down(ex, s2, cls, exc, recv, args, kwargs, fr, node)
                if cls is TLSRemoteAlert:
                    d = VInt(AlertDescription.close_notify) if variant == 'close_notify' else fresh_opaque('alert_description')
                    if variant == 'other':
                        s2.assume(z3.Not(is_int(d, AlertDescription.close_notify)))
                    exc.attrs = {'description': d}
                    s2.ghost['got_close_notify'] = VBool(z3.BoolVal(variant == 'close_notify'))
                outs.append(Outcome('raise', s2, exc))
        ch.pick(st)
        r = fresh_opaque('msg')
        st.ghost['cur_msg'] = r
        ginc(st, 'n__getMsg')
        outs.append(Outcome('normal', st, r))
        return outs

    def handler_hook(name):
        def on_normal(ex, st, r, recv, args, kwargs, fr, node):
            ex.oblige(st, '%s:argument-is-the-message-just-received' % name, same(args[0], st.ghost.get('cur_msg')), kind='m2')
        return io_hook(name, ANY_EXC, on_normal=on_normal, on_raise=callee_has_shut_down)

    def isinst(ex, st, fr, v, clsname):
        return truthy(ev_with(ex, st, fr, 'isinstance(_x, %s)' % clsname, _x=v))

    def on_buffer(ex, obj, val, st, fr, node):
        self_ = st.env['self']
        before = st.heap.get((self_.oid, '_readBuffer'))
        t = to_val(val)
        name = t.decl().name() if z3.is_app(t) else ''
        if name == 'v_binop_Add':
            flags['append'] += 1
            msg = st.ghost.get('cur_msg')
            O = lambda n, goal: ex.oblige(st, '_readBuffer+=:' + n, goal, kind='m2')
            O('appends-to-the-current-buffer', z3.BoolVal(before is not None) if before is None else t.arg(0) == to_val(before))
            O('appends-exactly-the-payload-of-the-message-just-received',
              z3.BoolVal(False) if msg is None else t.arg(1) == to_val(WRITE(msg)))
            O('only-for-ApplicationData', z3.BoolVal(False) if msg is None else isinst(ex, st, fr, msg, 'ApplicationData'))
            for other in ('NewSessionTicket', 'KeyUpdate', 'CompressedCertificate', 'Certificate', 'CertificateRequest'):
                O('never-for-%s' % other, z3.BoolVal(False) if msg is None else z3.Not(isinst(ex, st, fr, msg, other)))
            O('at-most-once-per-received-message', z3.Not(B(st.ghost.get('appended_this_iteration'))))
            st.ghost['appended_this_iteration'] = TRUE()
        elif name == 'v_slice':
            flags['split'] += 1
            O = lambda n, goal: ex.oblige(st, '_readBuffer-split:' + n, goal, kind='m2')
            rb = st.env.get('returnBytes')
            O('remainder-is-a-suffix-of-the-current-buffer', z3.And(t.arg(0) == to_val(before), t.arg(2) == to_val(VNone())))
            rt = to_val(rb) if rb is not None else None
            ok_shape = rt is not None and z3.is_app(rt) and rt.decl().name() == 'v_slice'
            O('returned-bytes-are-the-prefix-of-the-same-buffer-cut-at-the-same-index',
              z3.BoolVal(False) if not ok_shape else z3.And(rt.arg(0) == to_val(before), rt.arg(1) == to_val(VNone()),
                                                            rt.arg(2) == t.arg(1)))
            st.ghost['split_done'] = TRUE()
            st.ghost['returned'] = rb
        else:
            ex.oblige(st, '_readBuffer-store-of-unknown-shape(%s)' % name, z3.BoolVal(False), kind='m2')

    def on_yield(ex, val, st, fr, node):
        if B(st.ghost.get('split_done')) is not None and z3.is_true(z3.simplify(B(st.ghost.get('split_done')))):
            st.ghost['final_yield'] = val
            ex.oblige(st, 'final-yield:is-bytes(returnBytes)', same(val, VOpaque(AS_BYTES(to_val(st.ghost['returned'])))), kind='m2')

    def h_bytes(ex, recv, args, kwargs, st, fr, node):
        return [Outcome('normal', st, VOpaque(AS_BYTES(to_val(args[0]))))]

    def sendError(ex, recv, args, kwargs, st, fr, node):
        st.ghost['own_abort'] = TRUE()
        return h_sendError(ex, recv, args, kwargs, st, fr, node)

    hooks = {'_getMsg': h_getMsg, '_shutdown': h_shutdown, '_sendError': sendError, 'bytes': h_bytes}
    for n in ('_handle_keyupdate_request', '_handle_srv_pha', '_handle_pha'):
        hooks[n] = handler_hook(n)
    spec = M2Spec(hooks=hooks, pure={'write', 'getExtension', 'len'}, on_store={'_readBuffer': on_buffer}, on_yield=on_yield,
                  stable_fields=CONFIG_FIELDS + ('_readBuffer',), props_as_fields=('version',))

    def setup(ex, st, fr):
        closed_setup(ex, st, fr)
        self_ = st.env['self']
        for f, g in (('_client_keypair', 'entry_keypair'), ('_cert_requests', 'entry_cert_requests'), ('_readBuffer', 'entry_buffer')):
            st.heap[(self_.oid, f)] = fresh_opaque(g)
            st.ghost[g] = st.heap[(self_.oid, f)]
        ver = fresh_opaque('entry_version')
        st.heap[(self_.oid, 'version')] = ver
        st.ghost['v13'] = VBool(truthy(ev_with(ex, st, fr, '_v > (3, 3)', _v=ver)))
        for g in ('appended_this_iteration', 'split_done', 'own_abort', 'got_close_notify'):
            st.ghost[g] = FALSE()

    def check(api):
        ex, fr = api.ex, api.fr
        self_ = api.entry.env['self']
        iac = truthy(api.entry.heap[(self_.oid, 'ignoreAbruptClose')])
        ns, rs = api.normal_exits(), api.raise_exits()
        api.oblige(api.entry, 'has-normal-and-raising-exits', len(ns) >= 1 and len(rs) >= 5)
        api.oblige(api.entry, 'sites-seen(_getMsg,+=,split)', flags['getmsg'] >= 1 and flags['append'] >= 1 and flags['split'] >= 1)
        classes = set()
        for k, o in enumerate(rs, 1):
            st = o.st
            cls = o.val.cls
            cname = getattr(cls, '__name__', '?')
            tag = 'raise#%d[%s]' % (k, cname)
            n, last, anyf = shut_facts(st)
            own = z3.is_true(z3.simplify(B(st.ghost.get('own_abort'))))
            if cls is NoReturn and own:
                continue                       # readAsync's own _sendError (before the try): shut down by _sendError itself
            fc = st.ghost.get('fault_cls')
            classes.add(fc.s if isinstance(fc, VStr) else cname)
            # DESIGN C17: any exception => _shutdown(False), then re-raise
            api.oblige(st, tag + ':last-_shutdown-before-the-exception-leaves-is-_shutdown(False)', z3.And(n >= 1, z3.Not(last)))
            api.oblige(st, tag + ':connection-closed', same(st.heap.get((self_.oid, 'closed')), TRUE()))
            if cls is TLSAbruptCloseError:
                # truncation is reported unless the user opted out
                api.oblige(st, tag + ':only-when-abrupt-close-is-not-ignored', z3.Not(iac))
            if cls is TLSRemoteAlert:
                api.oblige(st, tag + ':never-for-close_notify', z3.Not(B(st.ghost.get('got_close_notify'))))
        for want in ('OSError', 'TLSAbruptCloseError', 'TLSRemoteAlertother', 'TLSLocalAlert', 'ValueError'):
            api.oblige(api.entry, 'fault-class-%s-reaches-the-caller' % want, want in classes)
        api.oblige(api.entry, 'close_notify-never-reaches-the-caller-as-an-exception', 'TLSRemoteAlertclose_notify' not in classes)
        for k, o in enumerate(ns, 1):
            st = o.st
            tag = 'normal#%d' % k
            n, last, anyf = shut_facts(st)
            # orderly close / ignored abrupt close: the session stays resumable (readAsync itself never invalidates it on a normal return)
            api.oblige(st, tag + ':no-_shutdown(False)-on-a-normal-return', z3.Not(anyf))
            api.oblige(st, tag + ':returns-through-the-buffer-split', B(st.ghost.get('split_done')))
            api.oblige(st, tag + ':_shutdown-only-for-an-ignored-abrupt-close', z3.Implies(n >= 1, iac))

    m2task('readAsync', ('C01', 'C16', 'C17'), TRL + 'readAsync', spec, check=check, setup=base_setup(setup),
           opts={'pure_slice': True, 'no_merge': True, 'ground_feasible': True},
           doc='readAsync: admitted content/handshake types per version and PHA state; per received message the buffer is '
               'extended only for ApplicationData and exactly by its payload; the result is the prefix and the new buffer the '
               'suffix of the same buffer at the same cut; close_notify ends the read normally, every other exception leaves '
               'after _shutdown(False); TLSAbruptCloseError leaves unless ignoreAbruptClose (then _shutdown(True))')


def ev_with(ex, st, fr, src, **binds):
    s2 = st.fork()
    s2.env = dict(s2.env)
    s2.env.update(binds)
    outs = ex.eval(ast.parse(src, mode='eval').body, s2, fr)
    return [o for o in outs if o.kind == 'normal'][0].val


read_task()
REG.note('C01', 'trusted', 'M2 readAsync: `a + b` / `a[i:j]` on the opaque read buffer are the uninterpreted terms v_binop_Add / v_slice; '
         'that prefix ++ suffix at one cut is the buffer is the sequence lemma `read-split` (M1 scenario below); induction over the '
         'loop iterations (buffer at exit = buffer at entry ++ payloads of the ApplicationData messages in arrival order) is a '
         'meta-argument over the per-iteration obligations and the frame task _readBuffer-writers')
REG.note('C16', 'assumptions', 'readAsync: with an outstanding request (_cert_requests non-empty) the loop over the requests reads '
         '`.algorithms` of the LAST examined request\'s compress_certificate extension; a request without that extension would make it '
         'None.algorithms (AttributeError before the try block).  request_post_handshake_auth always adds the extension, and it is the '
         'only writer of _cert_requests, so this is unreachable through the public API; not checked by M2 (opaque attribute reads never fail)')


# ---------------------------------------------------------------------------------------------------
# 9. M1 companions: the sequence facts the M2 read task leaves uninterpreted; unread; heartbeat response

from pyvc.contract import contract, scenario
from pyvc.state import T
from pyvc import spec as S
import tlslite.tlsrecordlayer as _TRLM
import tlslite.messages as _MSG


@scenario('read-split', ('C01',),
          doc='for every buffer b and every cut m (None is len(b); negative and oversized values as Python slices them): '
              'b[:m] ++ b[m:] == b and, for m >= 0, len(b[:m]) <= m  -- nothing dropped, duplicated or reordered by the split '
              'at the end of readAsync')
def read_split(api):
    st = api.st
    b = api.make('b', T.bytes(pytype='bytes'))
    m = api.make('m', T.int())
    pre = api.ex.slice_(b, None, m, st)
    suf = api.ex.slice_(b, m, None, st)
    api.oblige(st, 'prefix++suffix==buffer', S.seq_eq(S.cat(pre, suf), b))
    api.oblige(st, 'lengths-add-up', S.len_(pre) + S.len_(suf) == S.len_(b))
    api.oblige(st, 'at-most-max-bytes-returned', S.implies(m >= 0, S.len_(pre) <= m))
    full = api.ex.slice_(b, None, S.len_(b), st)
    api.oblige(st, 'max=None-returns-everything', S.seq_eq(full, b))


contract(TRL + 'unread',
         params={'self': T.obj(_TRLM.TLSRecordLayer, _readBuffer=T.bytes(pytype='bytes')), 'b': T.bytes(pytype='bytes')},
         modifies=[('self', '_readBuffer')],
         ensures=lambda ns: S.seq_eq(ns.f(ns.self, '_readBuffer'), S.cat(ns.b, ns.old.f(ns.self, '_readBuffer'))),
         raises={}, prop=('C01',),
         doc='unread(b) puts b in FRONT of the buffered bytes: the next reads return b, then what was buffered')


def _x_getRandomBytes(ex, args, kwargs, st, fr, node):
    n = args[0]
    r = T.bytes().make('random_bytes', st, ex.bv)
    st.assume((S.len_(r) == S.max_(n, 0)).t)
    return [Outcome('normal', st, r)]


if 'tlslite/utils/cryptomath.py:getRandomBytes' not in REG.external:
    REG.external['tlslite/utils/cryptomath.py:getRandomBytes'] = _x_getRandomBytes
    REG.note('C16', 'trusted', 'getRandomBytes(n) returns n bytes (os.urandom)')

_HB = T.obj(_MSG.Heartbeat, message_type=T.int(), payload=T.bytes(), padding=T.bytes())
contract('tlslite/messages.py:Heartbeat.create_response', params={'self': _HB}, result=T.opaque(),
         ensures=lambda ns: S.And(S.seq_eq(ns.f(ns.result, 'payload'), ns.old.f(ns.self, 'payload')),
                                  ns.f(ns.result, 'message_type') == HeartbeatMessageType.heartbeat_response,
                                  S.len_(ns.f(ns.result, 'padding')) >= 16,
                                  ns.f(ns.result, 'contentType') == ContentType.heartbeat,
                                  S.seq_eq(ns.f(ns.self, 'payload'), ns.old.f(ns.self, 'payload'))),
         raises={}, prop=('C16',),
         doc='RFC 6520 4: the response carries an exact copy of the request payload, type heartbeat_response, and at least 16 '
             'bytes of (fresh random) padding; the request object is unchanged')


# ---------------------------------------------------------------------------------------------------
# 10. _sendMsgThroughSocket (C17: a send failure during the handshake looks for the peer's alert)

def send_through_socket_task():
    def h_sendRecord(ex, recv, args, kwargs, st, fr, node):
        st.ghost['record_arg_is_msg'] = VBool(same(args[0], st.env.get('msg')))
        st.ghost['on_record_layer'] = VBool(same(recv, field(ex, st, fr, st.env['self'], '_recordLayer')))
        outs = []
        ch = Choice('sendRecord')
        for cls in (socket.error, ValueError):
            s2 = ch.pick(st.fork())
            s2.ghost['send_failed'] = VBool(z3.BoolVal(cls is socket.error))
            s2.ghost['faulted'] = TRUE()
            outs.append(Outcome('raise', s2, VExc(cls, [], 'sendRecord')))
        ch.pick(st)
        ginc(st, 'n_sendRecord')
        outs.append(Outcome('normal', st, fresh_opaque('sendRecord_last')))
        return outs

    def h_getNextRecord(ex, recv, args, kwargs, st, fr, node):
        outs = []
        ch = Choice('_getNextRecord')
        for cls in TRANSPORT:
            s2 = ch.pick(st.fork())
            s2.ghost['recv_failed'] = TRUE()
            outs.append(Outcome('raise', s2, VExc(cls, [], '_getNextRecord')))
        ch.pick(st)
        ginc(st, 'n__getNextRecord')
        outs.append(Outcome('normal', st, fresh_opaque('next_record')))
        return outs

    def h_parse(ex, recv, args, kwargs, st, fr, node):
        r = fresh_opaque('peer_alert')
        st.ghost['alert_parsed_from'] = args[0]
        st.ghost['alert_obj'] = r
        return [Outcome('normal', st, r)]

    spec = M2Spec(hooks={'sendRecord': h_sendRecord, '_getNextRecord': h_getNextRecord, '_shutdown': h_shutdown, 'parse': h_parse},
                  stable_fields=CONFIG_FIELDS)

    def setup(ex, st, fr):
        closed_setup(ex, st, fr)
        for g in ('send_failed', 'recv_failed', 'record_arg_is_msg', 'on_record_layer'):
            st.ghost[g] = FALSE()

    def check(api):
        ex, fr = api.ex, api.fr
        self_ = api.entry.env['self']
        msg = api.entry.env['msg']
        is_hs = is_int(attr(msg, 'contentType'), ContentType.handshake)
        ns, rs = api.normal_exits(), api.raise_exits()
        api.oblige(api.entry, 'has-normal-and-raising-exits', len(ns) >= 1 and len(rs) >= 4)
        for k, o in enumerate(ns, 1):
            st = o.st
            tag = 'normal#%d' % k
            api.oblige(st, tag + ':the-record-layer-was-given-exactly-this-message',
                       z3.Implies(z3.Not(B(st.ghost.get('send_failed'))),
                                  z3.And(gint(st, 'n_sendRecord').t == 1, B(st.ghost.get('record_arg_is_msg')), B(st.ghost.get('on_record_layer')))))
            # C17: "If the transport fails at any point of a handshake or data transfer, the call raises a socket or
            # abrupt-close error": a failed send must not look like a successful one
            api.oblige(st, tag + ':a-failed-send-never-returns-normally', z3.Not(B(st.ghost.get('send_failed'))))
        for k, o in enumerate(rs, 1):
            st = o.st
            cls = o.val.cls
            tag = 'raise#%d[%s]' % (k, getattr(cls, '__name__', '?'))
            n, last, anyf = shut_facts(st)
            failed = B(st.ghost.get('send_failed'))
            if cls is TLSRemoteAlert:
                api.oblige(st, tag + ':only-after-a-failed-handshake-send', z3.And(failed, is_hs))
                api.oblige(st, tag + ':_shutdown(False)-before-the-alert-is-raised', z3.And(n == 1, z3.Not(last)))
                rec = st.env.get('result')
                api.oblige(st, tag + ':the-pending-record-is-an-alert-and-the-exception-carries-its-parse',
                           z3.And(is_int(attr(item(rec, 0), 'type'), ContentType.alert) if rec is not None else z3.BoolVal(False),
                                  same(st.ghost.get('alert_parsed_from'), item(rec, 1)) if rec is not None else z3.BoolVal(False),
                                  z3.BoolVal(len(o.val.args) == 1) if hasattr(o.val, 'args') else z3.BoolVal(False),
                                  same(o.val.args[0], st.ghost.get('alert_obj')) if getattr(o.val, 'args', None) else z3.BoolVal(False)))
            elif inspect_isclass(cls) and issubclass(cls, socket.error):
                # re-raised as is for non-handshake messages (the caller's wrapper shuts down); or the look-ahead read failed too
                api.oblige(st, tag + ':socket.error-is-passed-on',
                           z3.Or(z3.And(failed, z3.Not(is_hs), n == 0), z3.And(failed, is_hs, B(st.ghost.get('recv_failed'))),
                                 # handshake message, look-ahead read succeeded but found no alert: the original socket
                                 # error is re-raised after _shutdown(False) (fix bd9ebee; before it this case returned normally)
                                 z3.And(failed, is_hs, n == 1, z3.Not(last))))
            elif cls is TLSAbruptCloseError:
                api.oblige(st, tag + ':only-from-the-look-ahead-read', z3.And(failed, is_hs, B(st.ghost.get('recv_failed'))))
            else:
                api.oblige(st, tag + ':other-exceptions-of-sendRecord-pass-through-untouched', z3.And(z3.Not(failed), n == 0))

    m2task('_sendMsgThroughSocket', ('C17',), TRL + '_sendMsgThroughSocket', spec, check=check, setup=base_setup(setup),
           doc='the message goes to RecordLayer.sendRecord unchanged; socket.error on a non-handshake message is re-raised; on a '
               'handshake message the next record is read, _shutdown(False) is called and a pending alert is raised as '
               'TLSRemoteAlert; (obligation a-failed-send-never-returns-normally: the C17 reading that a transport failure is '
               'always reported)')


send_through_socket_task()


# ---------------------------------------------------------------------------------------------------
# 11. TLSConnection.request_post_handshake_auth (C16 / C05)

def request_pha_task():
    from pyvc.m2x import m2xtask

    def h_random(ex, recv, args, kwargs, st, fr, node):
        r = fresh_opaque('random_context')
        st.ghost['rand'] = r
        st.ghost['rand_len'] = args[0]
        return [Outcome('normal', st, r)]

    def h_bytes(ex, recv, args, kwargs, st, fr, node):
        return [Outcome('normal', st, VOpaque(AS_BYTES(to_val(args[0]))))]

    def h_CertificateRequest(ex, recv, args, kwargs, st, fr, node):
        r = fresh_opaque('certificate_request')
        st.ghost['cr_obj'] = r
        st.ghost['cr_version'] = args[0] if args else None
        return [Outcome('normal', st, r)]

    def h_create(ex, recv, args, kwargs, st, fr, node):
        if 'context' not in kwargs:
            return None
        st.ghost['cr_created_on'] = recv
        st.ghost['cr_context'] = kwargs.get('context')
        st.ghost['cr_sig_algs'] = kwargs.get('sig_algs')
        return [Outcome('normal', st, recv)]

    def h_sigHashes(ex, recv, args, kwargs, st, fr, node):
        r = fresh_opaque('valid_sig_algs')
        st.ghost['sig_algs'] = r
        return [Outcome('normal', st, r)]

    def on_send(ex, st, r, recv, args, kwargs, fr, node):
        st.ghost['sent_msg'] = args[0]
        # the request must be on record before it can be answered
        ex.oblige(st, '_sendMsg:request-registered-before-it-is-sent', B(st.ghost.get('registered')), kind='m2')

    def on_subscript_store(ex, base, tgt, val, st, fr):
        reqs = field(ex, st, fr, st.env['self'], '_cert_requests')
        if not z3.is_true(z3.simplify(same(base, reqs))):
            return
        key = ev(ex, st, fr, ast.unparse(tgt.slice))
        st.ghost['registered'] = TRUE()
        st.ghost['reg_key'] = key
        st.ghost['reg_val'] = val

    spec = M2Spec(hooks={'getRandomBytes': h_random, 'bytes': h_bytes, 'CertificateRequest': h_CertificateRequest, 'create': h_create,
                         '_sigHashesToList': h_sigHashes,
                         '_sendMsg': io_hook('_sendMsg', ANY_EXC, on_normal=on_send, on_raise=callee_has_shut_down, havoc=False)},
                  stable_fields=CONFIG_FIELDS, props_as_fields=('version', '_client'))
    spec.on_subscript_store = on_subscript_store

    def setup(ex, st, fr):
        closed_setup(ex, st, fr)
        self_ = st.env['self']
        for f in ('_cert_requests', '_pha_supported', 'version', '_client'):
            st.heap[(self_.oid, f)] = fresh_opaque('entry_' + f)
        st.ghost['registered'] = FALSE()

    def check(api):
        ex, fr = api.ex, api.fr
        e = api.entry
        self_ = e.env['self']
        v = e.heap[(self_.oid, 'version')]
        is13 = truthy(eq_op(v, VTuple([VInt(3), VInt(4)])))
        client = truthy(e.heap[(self_.oid, '_client')])
        pha = truthy(e.heap[(self_.oid, '_pha_supported')])
        ns, rs = api.normal_exits(), api.raise_exits()
        api.oblige(e, 'has-normal-exit-and-four-refusals', len(ns) >= 1 and len([o for o in rs if o.val.cls is ValueError]) >= 4)
        for k, o in enumerate(rs, 1):
            st = o.st
            tag = 'raise#%d[%s]' % (k, getattr(o.val.cls, '__name__', '?'))
            if o.val.cls is ValueError and not z3.is_true(z3.simplify(B(st.ghost.get('faulted')))):
                api.oblige(st, tag + ':refusal-before-anything-is-registered-or-sent',
                           z3.And(z3.Not(B(st.ghost.get('registered'))), gint(st, 'n__sendMsg').t == 0))
                api.oblige(st, tag + ':refusal-has-a-reason',
                           z3.Or(z3.Not(is13), client, z3.Not(pha), z3.Not(truthy(st.ghost['sig_algs'])) if st.ghost.get('sig_algs') is not None else z3.BoolVal(False)))
        for k, o in enumerate(ns, 1):
            st = o.st
            g = st.ghost.get
            tag = 'normal#%d' % k
            # RFC 8446 4.6.2: server only, TLS 1.3 only, only if the client sent post_handshake_auth
            api.oblige(st, tag + ':TLS1.3-server-and-client-offered-post_handshake_auth', z3.And(is13, z3.Not(client), pha))
            api.oblige(st, tag + ':context-is-32-fresh-random-bytes',
                       z3.And(same(g('cr_context'), VOpaque(AS_BYTES(to_val(g('rand'))))) if g('rand') is not None else z3.BoolVal(False),
                              is_int(g('rand_len'), 32)))
            api.oblige(st, tag + ':request-carries-the-enabled-signature-algorithms(non-empty)',
                       z3.And(same(g('cr_sig_algs'), g('sig_algs')), truthy(g('sig_algs')) if g('sig_algs') is not None else z3.BoolVal(False)))
            api.oblige(st, tag + ':registered-under-its-own-context', z3.And(B(g('registered')), same(g('reg_key'), g('cr_context')),
                                                                            same(g('reg_val'), g('cr_obj')), same(g('cr_created_on'), g('cr_obj'))))
            api.oblige(st, tag + ':the-registered-message-is-the-one-sent-exactly-once',
                       z3.And(gint(st, 'n__sendMsg').t == 1, same(g('sent_msg'), g('cr_obj'))))

    m2xtask('request_post_handshake_auth', ('C16', 'C05'), TC + 'request_post_handshake_auth', spec, check=check,
            setup=base_setup(setup),
            doc='PHA request: refused (ValueError, nothing registered or sent) unless TLS 1.3 server whose client offered '
                'post_handshake_auth and some signature algorithm is enabled; otherwise a CertificateRequest with a fresh 32-byte '
                'context and those algorithms is registered in _cert_requests[context] and then sent once')


request_pha_task()
REG.note('C16', 'assumptions', 'request_post_handshake_auth: uniqueness of the 32 random context bytes within the connection (RFC 8446 '
         '4.3.2) is probabilistic; a failed send leaves the request registered (the connection is closed by the caller\'s handling)')


# ---------------------------------------------------------------------------------------------------
# 12. write_heartbeat (C16) -- request side; the response side is in _getMsg (contracts/m2_getmsg.py) + Heartbeat.create_response above

def write_heartbeat_task():
    def h_create(ex, recv, args, kwargs, st, fr, node):
        r = fresh_opaque('heartbeat')
        st.ghost['hb'] = r
        st.ghost['hb_args'] = VTuple(list(args)) if len(args) == 3 else None
        return [Outcome('normal', st, r)]

    def on_send(ex, st, r, recv, args, kwargs, fr, node):
        st.ghost['sent_msg'] = args[0]
        st.ghost['sent_rfb'] = kwargs.get('randomizeFirstBlock')

    spec = M2Spec(hooks={'create': h_create,
                         '_sendMsg': io_hook('_sendMsg', ANY_EXC, on_normal=on_send, on_raise=callee_has_shut_down, havoc=False)},
                  stable_fields=CONFIG_FIELDS)

    def setup(ex, st, fr):
        closed_setup(ex, st, fr)
        self_ = st.env['self']
        for f in ('heartbeat_supported', 'heartbeat_can_send'):
            st.heap[(self_.oid, f)] = fresh_opaque('entry_' + f)

    def check(api):
        e = api.entry
        self_ = e.env['self']
        c0 = truthy(e.heap[(self_.oid, 'closed')])
        sup = truthy(e.heap[(self_.oid, 'heartbeat_supported')])
        can = truthy(e.heap[(self_.oid, 'heartbeat_can_send')])
        ns, rs = api.normal_exits(), api.raise_exits()
        api.oblige(e, 'has-normal-exit', len(ns) >= 1)
        for k, o in enumerate(rs, 1):
            st = o.st
            tag = 'raise#%d[%s]' % (k, getattr(o.val.cls, '__name__', '?'))
            if o.val.cls is TLSClosedConnectionError:
                api.oblige(st, tag + ':only-when-closed-and-before-any-send', z3.And(c0, gint(st, 'n__sendMsg').t == 0, z3.Not(B(st.ghost.get('faulted')))))
            elif o.val.cls is TLSInternalError:
                # RFC 6520 2: a peer_not_allowed_to_send endpoint (or no negotiation at all) must not send requests
                api.oblige(st, tag + ':only-when-heartbeat-not-negotiated-or-not-allowed-and-before-any-send',
                           z3.And(z3.Or(z3.Not(sup), z3.Not(can)), gint(st, 'n__sendMsg').t == 0, z3.Not(B(st.ghost.get('faulted')))))
        for k, o in enumerate(ns, 1):
            st = o.st
            g = st.ghost.get
            tag = 'normal#%d' % k
            api.oblige(st, tag + ':open-and-negotiated-and-allowed', z3.And(z3.Not(c0), sup, can))
            ha = g('hb_args')
            api.oblige(st, tag + ':one-heartbeat_request(payload,padding_length)-sent', z3.And(
                gint(st, 'n__sendMsg').t == 1, same(g('sent_msg'), g('hb')),
                z3.BoolVal(False) if not isinstance(ha, VTuple) else z3.And(
                    is_int(ha.items[0], HeartbeatMessageType.heartbeat_request), same(ha.items[1], e.env['payload']),
                    same(ha.items[2], e.env['padding_length']))))

    m2task('write_heartbeat', ('C16',), TRL + 'write_heartbeat', spec, check=check, setup=base_setup(setup),
           doc='heartbeat request: closed => TLSClosedConnectionError, not negotiated / peer_not_allowed_to_send => TLSInternalError, '
               'both before any send; otherwise exactly one Heartbeat(heartbeat_request, payload, padding_length) is sent')


write_heartbeat_task()
REG.note('C16', 'not_built', 'write_heartbeat does not enforce RFC 6520 4 "padding_length MUST be at least 16" for requests it sends '
         '(caller obligation); heartbeat response path and the Heartbleed bound are in contracts/m2_getmsg.py and '
         'contracts/messages_simple.py (Heartbeat.parse)')


# ---------------------------------------------------------------------------------------------------
# 13. post-handshake client authentication, client side: _handle_pha (C16; RFC 8446 4.6.2, 4.4.2-4.4.4)

def client_pha_task():
    def h_create_cert_msg(ex, recv, args, kwargs, st, fr, node):
        r = fresh_opaque('client_certificate')
        st.ghost['cert_msg'] = r
        cr = st.env['cert_request']
        O = lambda n, goal: ex.oblige(st, '_create_cert_msg:' + n, goal, kind='m2')
        O('as-client-for-this-request', z3.And(z3.BoolVal(isinstance(args[0], VStr) and args[0].s == 'client'), same(args[1], cr)))
        O('chain-is-the-configured-client-chain', same(args[3], st.env.get('cert')))
        # RFC 8446 4.4.2: certificate_request_context ... "SHALL be echoed in the client's Certificate message"
        O('context-echoes-the-request', same(args[5], attr(cr, 'certificate_request_context')) if len(args) > 5 else z3.BoolVal(False))
        return [Outcome('normal', st, r)]

    def h_calcVerifyBytes(ex, recv, args, kwargs, st, fr, node):
        r = fresh_opaque('verify_bytes')
        g = st.ghost.get
        st.ghost['cvb'] = r
        O = lambda n, goal: ex.oblige(st, 'calcVerifyBytes:' + n, goal, kind='m2')
        O('version-is-TLS1.3', truthy(eq_op(args[0], VTuple([VInt(3), VInt(4)]))))
        O('hashes-argument-is-the-PHA-transcript-object', same(args[1], g('ctx_obj')))
        O('label-is-client', z3.BoolVal(len(args) > 7 and _is_bytes_lit(args[7], b'client')))
        fhh = field(ex, st, fr, st.env['self'], '_first_handshake_hashes')
        cm = g('cert_msg')
        want = None if cm is None else UPD(UPD(CPY(to_val(fhh)), to_val(WRITE(st.env['cert_request']))), to_val(WRITE(cm)))
        O('signed-transcript-is(first-handshake||CertificateRequest||Certificate)',
          z3.BoolVal(False) if (want is None or g('ctx') is None) else to_val(g('ctx')) == want)
        st.ghost['cvb_scheme'] = args[2]
        return [Outcome('normal', st, r)]

    def h_sig_func(ex, recv, args, kwargs, st, fr, node):
        r = fresh_opaque('signature')
        st.ghost['signature'] = r
        pk = st.env.get('p_key')
        ex.oblige(st, 'sign:with-the-configured-private-key-over-the-calcVerifyBytes-result',
                  z3.And(z3.Or(same(st.env.get('sig_func'), attr(pk, 'sign')), same(st.env.get('sig_func'), attr(pk, 'hashAndSign'))),
                         same(args[0], st.ghost.get('cvb'))), kind='m2')
        return [Outcome('normal', st, r)]

    def h_ver_func(ex, recv, args, kwargs, st, fr, node):
        r = fresh_opaque('self_check')
        st.ghost['self_check'] = r
        ex.oblige(st, 'self-check:verifies-the-signature-just-made-over-the-same-bytes',
                  z3.And(same(args[0], st.ghost.get('signature')), same(args[1], st.ghost.get('cvb'))), kind='m2')
        return [Outcome('normal', st, r)]

    def h_first_matching(ex, recv, args, kwargs, st, fr, node):
        r = fresh_opaque('chosen_scheme')
        st.ghost['chosen'] = r
        cr = st.env['cert_request']
        # RFC 8446 4.4.3: the scheme must be one the server listed in the CertificateRequest
        ex.oblige(st, 'scheme:chosen-among-the-request\'s-signature_algorithms',
                  same(args[1], attr(cr, 'supported_signature_algs')), kind='m2')
        st.assume(z3.Function('v_in', smt.Val, smt.Val, smt.B)(to_val(r), to_val(args[1])))
        return [Outcome('normal', st, r)]

    def h_CertificateVerify(ex, recv, args, kwargs, st, fr, node):
        r = fresh_opaque('certificate_verify')
        st.ghost['cv_obj'] = r
        return [Outcome('normal', st, r)]

    def h_Finished(ex, recv, args, kwargs, st, fr, node):
        r = fresh_opaque('finished')
        st.ghost['fin_obj'] = r
        return [Outcome('normal', st, r)]

    def h_create(ex, recv, args, kwargs, st, fr, node):
        g = st.ghost.get
        if g('cv_obj') is not None and z3.is_true(z3.simplify(same(recv, g('cv_obj')))):
            ex.oblige(st, 'CertificateVerify.create:carries-the-checked-signature-and-its-scheme',
                      z3.And(same(args[0], g('signature')), same(args[1], g('cvb_scheme')), truthy(g('self_check'))), kind='m2')
            return [Outcome('normal', st, recv)]
        if g('fin_obj') is not None and z3.is_true(z3.simplify(same(recv, g('fin_obj')))):
            ex.oblige(st, 'Finished.create:verify_data-is-the-HMAC-result', same(args[0], g('vd')), kind='m2')
            return [Outcome('normal', st, recv)]
        return None

    def h_hkdf(ex, recv, args, kwargs, st, fr, node):
        r = fresh_opaque('finished_key')
        st.ghost['fk'] = r
        sess = field(ex, st, fr, st.env['self'], 'session')
        ex.oblige(st, 'finished_key:HKDF-Expand-Label(client_application_traffic_secret,"finished","",prf_size,prf_name)',
                  z3.And(same(args[0], field(ex, st, fr, sess, 'cl_app_secret')),
                         z3.BoolVal(_is_bytes_lit(args[1], b'finished') and _is_bytes_lit(args[2], b'')),
                         same(args[3], st.env.get('prf_size')), same(args[4], st.env.get('prf_name'))), kind='m2')
        return [Outcome('normal', st, r)]

    def h_hmac(ex, recv, args, kwargs, st, fr, node):
        r = fresh_opaque('verify_data')
        g = st.ghost.get
        st.ghost['vd'] = r
        fhh = field(ex, st, fr, st.env['self'], '_first_handshake_hashes')
        cm, cv = g('cert_msg'), g('cv_obj')
        base = None if cm is None else UPD(UPD(CPY(to_val(fhh)), to_val(WRITE(st.env['cert_request']))), to_val(WRITE(cm)))
        signed = B(g('signed'))
        want = None if base is None else (z3.If(signed, UPD(base, to_val(WRITE(cv))), base) if cv is not None else base)
        ex.oblige(st, 'verify_data:HMAC(finished_key,Transcript-Hash(first-handshake||CR||Certificate[||CertificateVerify]))',
                  z3.And(same(args[0], g('fk')), same(args[1], g('digest_result')),
                         z3.BoolVal(False) if (want is None or g('digest_of') is None) else to_val(g('digest_of')) == want), kind='m2')
        return [Outcome('normal', st, r)]

    def on_sendMsgs(ex, st, r, recv, args, kwargs, fr, node):
        from pyvc.values import VList
        msgs = args[0]
        g = st.ghost.get
        signed = B(g('signed'))
        ok = z3.BoolVal(False)
        if isinstance(msgs, VList):
            if len(msgs.items) == 3:
                ok = z3.And(signed, same(msgs.items[0], g('cert_msg')), same(msgs.items[1], g('cv_obj')), same(msgs.items[2], g('fin_obj')))
            elif len(msgs.items) == 2:
                ok = z3.And(z3.Not(signed), same(msgs.items[0], g('cert_msg')), same(msgs.items[1], g('fin_obj')))
        ex.oblige(st, '_sendMsgs:flight-is(Certificate,[CertificateVerify,]Finished)-in-this-order', ok, kind='m2')

    def sendError(ex, recv, args, kwargs, st, fr, node):
        d = args[0]
        g = st.ghost.get
        if g('self_check') is not None:
            ex.oblige(st, 'abort-after-signing:internal_error-because-the-self-check-failed',
                      z3.And(is_int(d, AlertDescription.internal_error), z3.Not(truthy(g('self_check')))), kind='m2')
        return h_sendError(ex, recv, args, kwargs, st, fr, node)

    def on_append(ex, recv, args, kwargs, st, fr, node):
        return None

    hooks = {'_create_cert_msg': h_create_cert_msg, 'calcVerifyBytes': h_calcVerifyBytes, 'sig_func': h_sig_func, 'ver_func': h_ver_func,
             'getFirstMatching': h_first_matching, 'CertificateVerify': h_CertificateVerify, 'Finished': h_Finished, 'create': h_create,
             'HKDF_expand_label': h_hkdf, 'secureHMAC': h_hmac, '_sendError': sendError,
             '_sendMsgs': io_hook('_sendMsgs', ANY_EXC, on_normal=on_sendMsgs, on_raise=callee_has_shut_down, havoc=False)}
    hooks.update(pha_transcript_hooks())
    spec = M2Spec(hooks=hooks, pure={'write', 'toRepr', 'getPadding', 'getHash', 'getattr', 'HandshakeSettings', 'getExtension',
                                     '_sigHashesToList'},
                  stable_fields=CONFIG_FIELDS + ('_first_handshake_hashes',), props_as_fields=('version',))

    def on_yield(ex, val, st, fr, node):
        pass

    def setup(ex, st, fr):
        closed_setup(ex, st, fr)
        self_ = st.env['self']
        for f in ('_client_keypair', '_first_handshake_hashes'):
            st.heap[(self_.oid, f)] = fresh_opaque('entry_' + f)
        st.ghost['signed'] = FALSE()

    # `signed` := the path went through the signing branch: set when the CertificateVerify object is built
    _hcv = hooks['CertificateVerify']

    def h_CertificateVerify2(ex, recv, args, kwargs, st, fr, node):
        st.ghost['signed'] = TRUE()
        return _hcv(ex, recv, args, kwargs, st, fr, node)
    hooks['CertificateVerify'] = h_CertificateVerify2

    def check(api):
        ns = api.normal_exits()
        api.oblige(api.entry, 'has-normal-exit', len(ns) >= 1)
        for k, o in enumerate(ns, 1):
            st = o.st
            api.oblige(st, 'normal#%d:exactly-one-flight-sent' % k, gint(st, 'n__sendMsgs').t == 1)
            x509 = truthy(attr(st.env['cert'], 'x509List'))
            pk = truthy(st.env['p_key'])
            # a client that has a certificate and a key proves possession; otherwise it sends an empty/unsigned answer
            api.oblige(st, 'normal#%d:signs-iff-it-has-a-certificate-and-a-key' % k, B(st.ghost.get('signed')) == z3.And(x509, pk))

    m2task('_handle_pha', ('C16',), TRL + '_handle_pha', spec, check=check, setup=base_setup(setup),
           opts={'no_merge': True, 'ground_feasible': True},
           doc='post-handshake authentication (client): Certificate echoes the request context; CertificateVerify is made with the '
               'configured key over first-handshake || CertificateRequest || Certificate with a scheme from the request\'s list and '
               'is self-checked before use (else internal_error); Finished is the HMAC under the client application traffic secret '
               'over the transcript including CertificateVerify; the flight goes out once, in order')


client_pha_task()


# ---------------------------------------------------------------------------------------------------
# 14. every raise site of a TLSAlert subclass (the exceptions _handshakeWrapperAsync passes on without its own _shutdown)

class AlertRaiseSites(AstTask):
    COVERED = {          # function -> how the "connection is shut down before the alert exception leaves" fact is established
        '_sendError': 'syntactic',                       # self._shutdown(False) is the statement before the raise (+ task m2:_sendError)
        '_serverCertKeyExchange': 'syntactic',           # SSLv3 no_certificate handling: self._shutdown(False); raise
        '_getMsg': 'task m2:_getMsg/alert-branch',
        '_sendMsgThroughSocket': 'task m2:_sendMsgThroughSocket',
        '_decrefAsync': 'task m2:_decrefAsync',
    }

    def run(self, reg, meta):
        sites = []
        for path in _repo_files():
            tree = source.module_ast(path)
            rel = os.path.relpath(path, source.REPO)
            pm = {}
            for n in ast.walk(tree):
                for c in ast.iter_child_nodes(n):
                    pm[id(c)] = n
            for n in ast.walk(tree):
                if isinstance(n, ast.Raise) and n.exc is not None:
                    e = n.exc.func if isinstance(n.exc, ast.Call) else n.exc
                    nm = e.id if isinstance(e, ast.Name) else (e.attr if isinstance(e, ast.Attribute) else None)
                    if nm in ('TLSRemoteAlert', 'TLSLocalAlert', 'TLSAlert'):
                        fn = n
                        while fn is not None and not isinstance(fn, (ast.FunctionDef, ast.AsyncFunctionDef)):
                            fn = pm.get(id(fn))
                        blk = pm.get(id(n))
                        prev = None
                        for fld in ('body', 'orelse', 'finalbody'):
                            lst = getattr(blk, fld, None)
                            if isinstance(lst, list) and n in lst:
                                i = lst.index(n)
                                prev = lst[i - 1] if i > 0 else None
                        sites.append((rel, fn.name if fn is not None else None, n.lineno, nm, prev))
        self.holds('raise-sites-found', 'ast', len(sites) >= 4, reason=repr([(s[0], s[1], s[2]) for s in sites]))
        for (rel, fn, line, nm, prev) in sites:
            how = self.COVERED.get(fn)
            self.holds('raise-%s@%s:%s:L%d:in-a-function-with-a-shutdown-proof' % (nm, rel, fn, line), 'ast', how is not None,
                       reason='new raise site of %s in %s' % (nm, fn), where=line)
            if how == 'syntactic':
                ok = (isinstance(prev, ast.Expr) and isinstance(prev.value, ast.Call) and isinstance(prev.value.func, ast.Attribute)
                      and prev.value.func.attr == '_shutdown' and len(prev.value.args) == 1
                      and isinstance(prev.value.args[0], ast.Constant) and prev.value.args[0].value is False)
                self.holds('raise-%s@%s:%s:L%d:statement-before-is-self._shutdown(False)' % (nm, rel, fn, line), 'ast', ok, where=line)
        meta['assumptions'] = ['%s:L%d %s -> %s' % (s[1], s[2], s[3], self.COVERED.get(s[1])) for s in sites]


REG.add_task(AlertRaiseSites('alert-raise-sites', ('C17',), TC + '_handshakeWrapperAsync',
                             doc='whole-repository scan: TLSLocalAlert / TLSRemoteAlert are raised only in _sendError, _getMsg, '
                                 '_sendMsgThroughSocket, _decrefAsync and _serverCertKeyExchange, each with a proof (syntactic or M2 task) '
                                 'that _shutdown ran first -- the premise under which _handshakeWrapperAsync may re-raise TLSAlert '
                                 'without shutting down itself'))

# FINDING (C17, reproduced on the pinned tree: /verif/specs/posthandshake.py check `send_failure`, class
# `send-failure-swallowed`): obligation _sendMsgThroughSocket::a-failed-send-never-returns-normally is refuted.  A socket.error
# while sending a handshake-type record with a non-alert record pending is swallowed after _shutdown(False);
# send_keyupdate_request() / request_post_handshake_auth() on a dead transport return normally, the pending application data is
# dropped and the next read() returns b'' without TLSAbruptCloseError.
for _name, _prop, _fn in (('read_fifo', 'C01', TRL + 'readAsync'), ('read_fifo', 'C16', TRL + 'readAsync'),
                          ('send_failure', 'C17', TRL + '_sendMsgThroughSocket')):
    REG.xchecks.append({'prop': _prop, 'module': 'specs.posthandshake', 'name': _name, 'function': _fn})
