import sys; sys.path.insert(0, '/verif/design_probes')
from loop import *
from tlslite.handshakesettings import HandshakeSettings
from tlslite.sessioncache import SessionCache
from tlslite import tlsconnection
chain,key=creds()
cache=SessionCache()
ss=HandshakeSettings(); ss.maxVersion=(3,4)           # TLS 1.3 capable server
cs=HandshakeSettings(); cs.maxVersion=(3,3)           # TLS 1.2 client
seen=[]
orig=tlsconnection.TLSConnection._clientGetServerHello
def spy(self, settings, session, clientHello):
    for r in orig(self, settings, session, clientHello):
        if hasattr(r, 'random'): seen.append(bytes(r.random[-8:]))
        yield r
tlsconnection.TLSConnection._clientGetServerHello=spy
sess=[None]
def cl(c):
    c.handshakeClientCert(settings=cs, session=sess[0]); sess[0]=c.session; return ('client', c.version, c.resumed)
def sv(c):
    c.handshakeServer(certChain=chain, privateKey=key, settings=ss, sessionCache=cache); return ('server', c.version, c.resumed)
print(run(cl, sv)); print(run(cl, sv))
print('ServerHello.random[-8:] full handshake :', seen[0])
print('ServerHello.random[-8:] resumed        :', seen[1])
