"""M2 (guard-dominance) tasks on the message-receiving machinery of tlslite/tlsrecordlayer.py:
TLSRecordLayer._getMsg, _getNextRecord, _getNextRecordFromSocket, and the transcript update of
_sendMsg / _queue_message / _queue_flush.

Every expectation below is taken from the property text (/verif/properties.jsonl C02 C04 C06 C08 C16 C17)
and the RFCs (5246 s6.2.1 s7.2 s7.4.1.1, 5077, 6520 s4, 8446 s4.2.10 s5 s5.1 App.D.4), not from the code:
the tables CONTENT_CLASS / HS_CLASS / KEY_CHANGE / EXC_ALERT / RECORD_EXC_ALERT are the specification.

How obligations are written: `ev(ex, st, fr, '<python expression over the function's own locals>')`
evaluates the expression with the engine in the state of the *site* (a final `yield`, a `continue`, a
call), so `pc => fact` is posed in the vocabulary of the code under analysis.  Callee effects are
modelled by the hooks in this file; each hook that stands for an I/O callee havocs the heap fields
the callee may assign (frame scan) and can additionally *inject* exceptions, which is how the
`except` arms and the "transport failure at every I/O call" quantifier are exercised.
"""
import ast

import z3

from tlslite.errors import (TLSLocalAlert, TLSRemoteAlert, TLSAbruptCloseError, TLSIllegalParameterException,
                            TLSUnexpectedMessage, TLSRecordOverflow, TLSDecryptionFailed, TLSBadRecordMAC)
from tlslite.utils.codec import BadCertificateError, DecodeError
from tlslite.constants import ContentType, HandshakeType, AlertDescription, AlertLevel, HeartbeatMessageType

from pyvc.m2 import M2Spec, m2task, NoReturn, fresh_opaque
from pyvc.executor import Outcome
from pyvc.values import VBool, VInt, VNone, VOpaque, VExc, VObj, VTuple, truthy, to_val, eq_op
from pyvc.contract import REG
from pyvc import smt
from contracts.m2_common import TRL

OPTS = {'ground_feasible': True}


class OtherError(Exception):
    """stands for 'any exception class the except arms do not name' (KeyError, AssertionError, ...)"""


# ----------------------------------------------------------------------------------------------
# specification tables

# which message class may be returned for which record content type (RFC 5246 s6.2.1, RFC 8446 s5.1)
CONTENT_CLASS = {'ChangeCipherSpec': 'change_cipher_spec', 'Alert': 'alert', 'ApplicationData': 'application_data'}
# handshake message class <-> HandshakeType code point (RFC 5246 s7.4, RFC 5077 s3.3, RFC 8446 s4, NPN draft,
# RFC 8879); NewSessionTicket has two wire formats, selected by the protocol version
HS_CLASS = {'ClientHello': 'client_hello', 'ServerHello': 'server_hello', 'Certificate': 'certificate',
            'CompressedCertificate': 'compressed_certificate', 'CertificateRequest': 'certificate_request',
            'CertificateVerify': 'certificate_verify', 'ServerKeyExchange': 'server_key_exchange',
            'ServerHelloDone': 'server_hello_done', 'ClientKeyExchange': 'client_key_exchange',
            'Finished': 'finished', 'NextProtocol': 'next_protocol', 'EncryptedExtensions': 'encrypted_extensions',
            'NewSessionTicket': 'new_session_ticket', 'NewSessionTicket1_0': 'new_session_ticket',
            'KeyUpdate': 'key_update'}
MSG_CLASSES = sorted(set(CONTENT_CLASS) | set(HS_CLASS) | {'Heartbeat'})
# RFC 8446 s5.1: "Handshake messages MUST NOT span key changes ... ClientHello, EndOfEarlyData, ServerHello,
# Finished, and KeyUpdate"
KEY_CHANGE = ('client_hello', 'end_of_early_data', 'server_hello', 'finished', 'key_update')
KEY_CHANGE_EXPR = '(%s)' % ', '.join('HandshakeType.%s' % n for n in KEY_CHANGE)
# the handshake types for which the receive path has a message class at all
DISPATCHABLE_EXPR = '(%s,)' % ', '.join('HandshakeType.%s' % n for n in sorted(set(HS_CLASS.values())))
RETURNABLE_CONTENT_EXPR = '(ContentType.change_cipher_spec, ContentType.alert, ContentType.handshake, ' \
                          'ContentType.application_data)'

# parser / message exception -> alert (RFC 5246 s7.2.2: decode_error "could not be decoded because some field
# was out of the specified range or the length of the message was incorrect", illegal_parameter, bad_certificate)
EXC_ALERT = [(TLSIllegalParameterException, 'illegal_parameter'),
             (BadCertificateError, 'bad_certificate'),
             (DecodeError, 'decode_error'),
             (SyntaxError, 'decode_error')]
# record layer exception -> alert (RFC 5246 s7.2.2, RFC 8446 s6.2)
RECORD_EXC_ALERT = [(TLSUnexpectedMessage, 'unexpected_message'),
                    (TLSRecordOverflow, 'record_overflow'),
                    (TLSIllegalParameterException, 'illegal_parameter'),
                    (TLSDecryptionFailed, 'decryption_failed'),
                    (TLSBadRecordMAC, 'bad_record_mac')]
TRANSPORT_EXC = [OSError, TLSAbruptCloseError, TLSLocalAlert, OtherError]      # must propagate unchanged


def expected_alert(cls, table):
    for c, name in table:
        if issubclass(cls, c):
            return name
    return None


# ----------------------------------------------------------------------------------------------
# helpers

def ev(ex, st, fr, src):
    """truthiness (z3 Bool) of a Python expression evaluated by the engine in a copy of state `st`;
    None when the expression cannot be evaluated there (unknown local, raising sub-expression)."""
    node = ast.parse(src, mode='eval').body
    for n in ast.walk(node):
        n.lineno, n.col_offset, n.end_lineno, n.end_col_offset = 0, 0, 0, 0
    n_ob = len(ex.obligations)
    n_len = len(ex.lenient)
    try:
        outs = ex.eval(node, st.fork(), fr)
    finally:
        del ex.obligations[n_ob:]
    if len(ex.lenient) != n_len:            # something was evaluated leniently as an unconstrained value
        del ex.lenient[n_len:]
        return None
    normal = [o for o in outs if o.kind == 'normal']
    if len(normal) != 1 or len(outs) != 1:
        return None
    return truthy(normal[0].val)


def val_of(ex, st, fr, src):
    node = ast.parse(src, mode='eval').body
    for n in ast.walk(node):
        n.lineno, n.col_offset, n.end_lineno, n.end_col_offset = 0, 0, 0, 0
    outs = ex.eval(node, st.fork(), fr)
    normal = [o for o in outs if o.kind == 'normal']
    if len(normal) != 1 or len(outs) != 1:
        return None
    return normal[0].val


def F(x):
    """missing fact -> False (an obligation about something the site does not even define is refuted)"""
    return z3.BoolVal(False) if x is None else x


def same(a, b):
    if a is None or b is None:
        return z3.BoolVal(False)
    try:
        return to_val(a) == to_val(b)
    except Exception:
        return z3.BoolVal(False)


def TRUE():
    return VBool(z3.BoolVal(True))


def FALSE():
    return VBool(z3.BoolVal(False))


def attr(v, name):
    return VOpaque(z3.Function('v_attr_' + name, smt.Val, smt.Val)(to_val(v)))


def item(v, k):
    return VOpaque(z3.Function('v_getitem', smt.Val, smt.Val, smt.Val)(to_val(v), to_val(VInt(k))))


def to_int(v):
    return v.t if isinstance(v, VInt) else z3.IntVal(0)


def ev_on(ex, st, fr, src, **binds):
    s = st.fork()
    for k, v in binds.items():
        s.env[k] = v
    return ev(ex, s, fr, src)


class Ctx(object):
    """per-run side tables keyed by the (unique, fresh) terms the hooks create"""

    def __init__(self):
        self.reset()

    def reset(self):
        self.cls_of = {}        # id(new object term) -> (class name, ctor args)
        self.msg = {}           # id(parse result term) -> (class name, parse argument, receiver)
        self.alert = {}         # id(alert object term) -> (description, level) concrete ints or None
        self.response_of = {}   # id(create_response result) -> request value
        self.writes = {}        # id(write() result) -> receiver
        self.created = {}       # id(create() result) -> (receiver class, args)
        self.is_empty_calls = []
        self.injected = []      # (exception class, site label)
        self.handled = []       # (exception class, site label, alert name | None): reached a _sendError in an except arm
        self.keep = []          # keeps terms alive so that ids stay unique
        self.yields = 0
        self.continues = 0
        self.counts = {}
        self.names = {}

    def ordinal(self, what):
        self.counts[what] = self.counts.get(what, 0) + 1
        return self.counts[what]

    def tid(self, v):
        if isinstance(v, VOpaque):
            self.keep.append(v.t)
            return v.t.get_id()
        return None

    def uniq(self, name):
        n = self.names.get(name, 0) + 1
        self.names[name] = n
        return name if n == 1 else '%s@%d' % (name, n)


def oblige(ex, st, name, goal, ctx=None):
    if isinstance(goal, bool):
        goal = z3.BoolVal(goal)
    ex.oblige(st, ctx.uniq(name) if ctx is not None else name, F(goal), kind='m2')


def inject(ctx, st, classes, site):
    """raise outcomes for every class in `classes` at an opaque callee (the callee 'may raise these')"""
    outs = []
    for cls in classes:
        s = st.fork()
        ctx.injected.append((cls, site))
        outs.append(Outcome('raise', s, VExc(cls, [], 'inject:%s' % site)))
    return outs


def alert_name(d):
    for n in dir(AlertDescription):
        if not n.startswith('_') and isinstance(getattr(AlertDescription, n), int) and getattr(AlertDescription, n) == d:
            return n
    return None


# fields of the connection object that the obligations talk about: (re)materialised in the state itself
# after every havoc so that the value tested by the code is the value the obligation sees
FIELDS = ('_defragmenter', 'session', '_middlebox_compat_mode', 'heartbeat_supported', 'heartbeat_can_receive',
          'version', '_client', '_handshake_hash', '_recordLayer', '_buffer', '_buffer_content_type', 'recordSize')


def materialise(ex, st, fr):
    me = st.env.get('self')
    if isinstance(me, VObj):
        for f in FIELDS:
            if (me.oid, f) not in st.heap:
                st.heap[(me.oid, f)] = fresh_opaque('fld_' + f)


def ctor_hook(ctx, name, extra=None):
    def h(ex, recv, args, kwargs, st, fr, node):
        o = fresh_opaque('new_' + name)
        ctx.cls_of[ctx.tid(o)] = (name, list(args))
        if extra is not None:
            extra(ex, o, args, st, fr, node)
        st.events.append(('new:' + name, args, o))
        return [Outcome('normal', st, o)]
    return h


def cls_name(ctx, v):
    c = ctx.cls_of.get(ctx.tid(v))
    return c[0] if c else None


def mk_sendError(ctx, aspects, on_abort=None):
    def h_sendError(ex, recv, args, kwargs, st, fr, node):
        desc = args[0] if args else kwargs.get('alertDescription')
        st.ghost['alert_sent'] = desc
        st.events.append(('_sendError', [desc], None))
        exc = st.env.get('$exc')
        d = desc.concrete() if isinstance(desc, VInt) else None
        if exc is not None and isinstance(exc, VExc):
            site = exc.origin[len('inject:'):] if str(exc.origin).startswith('inject:') else str(exc.origin)
            ctx.handled.append((exc.cls, site, alert_name(d)))
        else:
            k = ctx.ordinal('_sendError')
            if 'gate' in aspects:
                # not in an except arm: a protocol-order violation (RFC 5246 s7.2.2 unexpected_message)
                oblige(ex, st, 'abort#%d:alert-is-unexpected_message' % k, d == AlertDescription.unexpected_message, ctx)
                # C14: "handshake messages split across or packed into records in any way are processed identically wherever
                # the protocol allows such framing" -- only TLS 1.3 forbids bytes after a key-change message (RFC 8446 5.1);
                # in TLS <= 1.2 a ServerHello may share its record with the messages that follow
                msg = args[1] if len(args) > 1 else None
                txt = msg.s if isinstance(getattr(msg, 's', None), str) else (ast.unparse(node.args[1]) if len(node.args) > 1 else '')
                if 'aligned' in txt:
                    oblige(ex, st, 'abort#%d:record-boundary-alignment-is-demanded-only-in-TLS1.3' % k,
                           F(ev(ex, st, fr, 'self.version > (3, 3)')), ctx)
            if on_abort is not None:
                on_abort(ex, st, fr, node, d, k)
        return [Outcome('raise', st, VExc(NoReturn, [desc], '_sendError line %d' % getattr(node, 'lineno', 0)))]
    return h_sendError


def not_interleaved(ex, st, fr):
    """RFC 8446 s5.1 for the record at hand: TLS 1.3 and not a handshake record => no handshake bytes are buffered"""
    return z3.Implies(z3.And(F(ev(ex, st, fr, 'self.version > (3, 3)')),
                             F(ev(ex, st, fr, 'recordHeader.type != ContentType.handshake'))),
                      F(ev(ex, st, fr, 'not self._defragmenter.buffers[ContentType.handshake]')))


def mk_hooks(ctx, aspects=(), parser_exc=(), transport_exc=()):
    """hooks shared by the _getMsg tasks.  `aspects`: which obligation families the hooks pose;
    `parser_exc`: classes every parse()/Parser.get() may raise; `transport_exc`: classes every
    socket-touching callee (_getNextRecord, _sendMsg) may raise."""

    def hb_extra(ex, o, args, st, fr, node):
        # facts about the connection when the heartbeat record is taken up (the sends below may assign any
        # field as far as the frame scan can tell)
        st.ghost['hb_dispatch'] = TRUE()          # key present <=> the path is inside the heartbeat branch
        st.ghost['interleave_ok_at_dispatch'] = VBool(not_interleaved(ex, st, fr))
        st.ghost['hb_supported_at_dispatch'] = VBool(F(ev(ex, st, fr, 'bool(self.heartbeat_supported)')))
        st.ghost['hb_can_receive_at_dispatch'] = VBool(F(ev(ex, st, fr, 'bool(self.heartbeat_can_receive)')))

    def h_getNextRecord(ex, recv, args, kwargs, st, fr, node):
        r = fresh_opaque('record')
        st.events.append(('_getNextRecord', args, r))
        ex.havoc_call('_getNextRecord', st)
        materialise(ex, st, fr)
        return [Outcome('normal', st, r)] + inject(ctx, st, list(transport_exc) + list(parser_exc), '_getNextRecord')

    def h_parse(ex, recv, args, kwargs, st, fr, node):
        cls = cls_name(ctx, recv) or '?'
        r = fresh_opaque('msg_' + cls)
        ctx.msg[ctx.tid(r)] = (cls, args[0] if args else None, recv)
        st.events.append(('parse', [recv] + list(args), r))
        if cls == 'ChangeCipherSpec':
            st.ghost['ccs_msg'] = r
        return [Outcome('normal', st, r)] + inject(ctx, st, parser_exc, cls + '.parse')

    def h_get(ex, recv, args, kwargs, st, fr, node):
        r = fresh_opaque('hs_type')
        st.events.append(('get', [recv] + list(args), r))
        return [Outcome('normal', st, r)] + inject(ctx, st, parser_exc, 'Parser.get')

    def h_is_empty(ex, recv, args, kwargs, st, fr, node):
        r = fresh_opaque('defrag_is_empty')
        st.events.append(('is_empty', [recv], r))
        ctx.is_empty_calls.append((recv, r))
        return [Outcome('normal', st, r)]

    def h_update(ex, recv, args, kwargs, st, fr, node):
        st.events.append(('update', [recv] + list(args), None))
        st.ghost['hash_updates'] = VInt(to_int(st.ghost.get('hash_updates')) + 1)
        st.ghost['hashed_bytes'] = args[0] if args else VNone()
        st.ghost['hash_recv'] = recv
        if 'transcript' in aspects:
            # a dropped record is not part of the handshake: the call site is outside every `while`
            in_loop = any(isinstance(w, ast.While) and w.lineno <= node.lineno <= w.end_lineno
                          for w in ast.walk(fr.fs.node))
            oblige(ex, st, 'transcript:updated-outside-the-record-skipping-loop', not in_loop, ctx)
        return [Outcome('normal', st, VNone())]

    def h_create(ex, recv, args, kwargs, st, fr, node):
        if cls_name(ctx, recv) != 'Alert':
            return None
        d = args[0].concrete() if len(args) > 0 and isinstance(args[0], VInt) else None
        lv = args[1].concrete() if len(args) > 1 and isinstance(args[1], VInt) else None
        ctx.alert[ctx.tid(recv)] = (d, lv)
        st.events.append(('create', [recv] + list(args), recv))
        return [Outcome('normal', st, recv)]

    def h_create_response(ex, recv, args, kwargs, st, fr, node):
        r = fresh_opaque('heartbeat_response')
        ctx.response_of[ctx.tid(r)] = recv
        st.events.append(('create_response', [recv], r))
        st.ghost['hb_req'] = recv
        if 'heartbeat' in aspects:
            # RFC 6520 s4: only a permitted, well-formed HeartbeatRequest is answered
            oblige(ex, st, 'heartbeat:response-only-to-a-heartbeat-record',
                   ev(ex, st, fr, 'recordHeader.type == ContentType.heartbeat'), ctx)
            oblige(ex, st, 'heartbeat:response-only-if-extension-negotiated', ev(ex, st, fr, 'self.heartbeat_supported'), ctx)
            oblige(ex, st, 'heartbeat:response-only-if-peer_allowed_to_send', ev(ex, st, fr, 'self.heartbeat_can_receive'), ctx)
            info = ctx.msg.get(ctx.tid(recv))
            oblige(ex, st, 'heartbeat:response-created-from-the-request-parsed-from-this-record',
                   z3.And(z3.BoolVal(info is not None and info[0] == 'Heartbeat'),
                          same(info[1] if info else None, st.env.get('p'))), ctx)
            oblige(ex, st, 'heartbeat:response-only-to-message_type-request',
                   eq_op(attr(recv, 'message_type'), VInt(HeartbeatMessageType.heartbeat_request)).t, ctx)
            oblige(ex, st, 'heartbeat:response-only-if-padding-at-least-16-bytes',
                   ev_on(ex, st, fr, 'len(m.padding) >= 16', m=recv), ctx)
        return [Outcome('normal', st, r)]

    def h_callback(ex, recv, args, kwargs, st, fr, node):
        st.events.append(('heartbeat_response_callback', args, None))
        m = args[0] if args else None
        if 'heartbeat' in aspects:
            oblige(ex, st, 'heartbeat:callback-only-for-message_type-response',
                   eq_op(attr(m, 'message_type'), VInt(HeartbeatMessageType.heartbeat_response)).t
                   if m is not None else False, ctx)
            info = ctx.msg.get(ctx.tid(m))
            oblige(ex, st, 'heartbeat:callback-gets-the-message-parsed-from-this-record',
                   z3.And(z3.BoolVal(info is not None and info[0] == 'Heartbeat'),
                          same(info[1] if info else None, st.env.get('p'))), ctx)
            oblige(ex, st, 'heartbeat:callback-only-if-extension-negotiated',
                   truthy(st.ghost.get('hb_supported_at_dispatch', FALSE())), ctx)
        ex.havoc_call('heartbeat_response_callback', st)
        return [Outcome('normal', st, VNone())]

    def h_sendMsg(ex, recv, args, kwargs, st, fr, node):
        m = args[0] if args else None
        kind = 'other'
        a = ctx.alert.get(ctx.tid(m))
        if a is not None:
            kind = {(AlertDescription.close_notify, AlertLevel.warning): 'close_notify-reply',
                    (AlertDescription.no_renegotiation, AlertLevel.warning): 'no_renegotiation-warning'}.get(a, 'alert')
        elif ctx.tid(m) in ctx.response_of:
            kind = 'heartbeat-response'
        st.events.append(('_sendMsg', args, None))
        if kind == 'no_renegotiation-warning':
            # facts at the moment of the refusal (before the send, which may assign any field)
            st.ghost['reneg_refusal_legit'] = VBool(z3.And(
                F(ev(ex, st, fr, 'bool(self.session)')),
                F(ev(ex, st, fr, '(bool(self._client) and subType == HandshakeType.hello_request) or '
                                 '((not self._client) and subType == HandshakeType.client_hello)'))))
        if 'heartbeat' in aspects and 'hb_dispatch' in st.ghost:
            # whatever is sent from inside the heartbeat branch must be the response built from the request
            oblige(ex, st, 'heartbeat:the-response-sent-is-create_response-of-the-request',
                   same(ctx.response_of.get(ctx.tid(m)), st.ghost.get('hb_req')), ctx)
        if kind in ('other', 'alert') and 'gate' in aspects:
            oblige(ex, st, 'send-sites-closed:_sendMsg#%d-sends-one-of-the-enumerated-messages'
                   % ctx.ordinal('_sendMsg-other'), False, ctx)
        if 'alert' in aspects:
            oblige(ex, st, 'alert:nothing-sent-after-the-connection-was-shut-down[%s]' % kind,
                   z3.Not(truthy(st.ghost.get('shutdown_called', FALSE()))), ctx)
        ex.havoc_call('_sendMsg', st)
        materialise(ex, st, fr)
        st.ghost['sent_' + kind] = TRUE()
        st.ghost['sent_any'] = TRUE()
        return [Outcome('normal', st, VNone())] + inject(ctx, st, transport_exc, '_sendMsg:' + kind)

    def h_shutdown(ex, recv, args, kwargs, st, fr, node):
        st.events.append(('_shutdown', args, None))
        ex.havoc_call('_shutdown', st)
        materialise(ex, st, fr)
        st.ghost['shutdown_calls'] = VInt(to_int(st.ghost.get('shutdown_calls')) + 1)
        st.ghost['shutdown_called'] = TRUE()
        st.ghost['shutdown_resumable'] = VBool(truthy(args[0])) if args else FALSE()
        return [Outcome('normal', st, VNone())]

    hooks = {n: ctor_hook(ctx, n, hb_extra if n == 'Heartbeat' else None) for n in MSG_CLASSES}
    hooks.update({'_getNextRecord': h_getNextRecord, 'parse': h_parse, 'get': h_get, 'is_empty': h_is_empty,
                  'update': h_update, 'create': h_create, 'create_response': h_create_response,
                  'heartbeat_response_callback': h_callback, '_sendMsg': h_sendMsg, '_shutdown': h_shutdown,
                  '_sendError': mk_sendError(ctx, aspects)})
    return hooks


PURE = {'toStr', 'to_str_delimiter', 'format', 'formatExceptionTrace'}
PROPS_AS_FIELDS = {'version', '_client', 'recordSize'}

ASSUME_GETMSG = ('M2 _getMsg: callee models (hooks in contracts/m2_getmsg.py): _getNextRecord returns an arbitrary '
                 '(header, parser) pair and may assign any field the frame scan finds; <Msg>().parse(p) returns an '
                 'arbitrary message object (its fields are NOT related to the bytes: that is C15); Parser.get(1) '
                 'returns an arbitrary value; Defragmenter.is_empty() and HandshakeHashes.update() assign no '
                 'TLSRecordLayer field; attributes of the local record header / parser / message objects are not '
                 'changed by _sendMsg/_shutdown; constructors, Alert.create, create_response, toStr, '
                 'to_str_delimiter, formatExceptionTrace do not raise; the version/_client/recordSize @property '
                 'getters are side-effect free reads of _recordLayer fields')


def entry_setup(ctx, extra=None):
    def setup(ex, st, fr):
        ctx.reset()
        materialise(ex, st, fr)
        for g in ('hash_updates', 'n_msgs', 'shutdown_calls'):
            st.ghost[g] = VInt(0)
        if extra is not None:
            extra(ex, st, fr)
    return setup


def msg_info(ctx, val):
    return ctx.msg.get(ctx.tid(val)) if isinstance(val, VOpaque) else None


# ----------------------------------------------------------------------------------------------
# 1. C06: the gate

def gate_task(exp_is_tuple, sec_is_tuple):
    ctx = Ctx()
    label = 'expectedType:%s,secondaryType:%s' % ('tuple' if exp_is_tuple else 'scalar',
                                                  'tuple' if sec_is_tuple else 'scalar')

    def assume_shapes(ex, st, fr):
        for name, is_t in (('expectedType', exp_is_tuple), ('secondaryType', sec_is_tuple)):
            c = ev(ex, st, fr, 'isinstance(%s, tuple)' % name)
            st.assume(c if is_t else z3.Not(c))

    def on_yield(ex, val, st, fr, ynode):
        info = msg_info(ctx, val)
        ctx.yields += 1
        st.ghost['n_msgs'] = VInt(to_int(st.ghost.get('n_msgs')) + 1)
        if info is None:
            oblige(ex, st, 'return#%d:is-a-message-parsed-from-the-record' % ctx.yields, False, ctx)
            return
        cls, parg, recv = info
        tag = 'return[%s]' % cls
        oblige(ex, st, tag + ':content-type-is-one-of-expectedType', ev(ex, st, fr, 'recordHeader.type in expectedType'), ctx)
        oblige(ex, st, tag + ':parsed-from-this-record', same(parg, st.env.get('p')), ctx)
        ct = CONTENT_CLASS.get(cls, 'handshake' if cls in HS_CLASS else None)
        oblige(ex, st, tag + ':message-class-matches-record-content-type',
               ev(ex, st, fr, 'recordHeader.type == ContentType.%s' % ct) if ct else False, ctx)
        # RFC 8446 s5.1: no other record type while a handshake message is partially buffered
        oblige(ex, st, tag + ':tls13-not-interleaved-with-a-partial-handshake-message', not_interleaved(ex, st, fr), ctx)
        if cls in HS_CLASS:
            oblige(ex, st, tag + ':handshake-type-is-one-of-secondaryType', ev(ex, st, fr, 'subType in secondaryType'), ctx)
            oblige(ex, st, tag + ':message-class-matches-handshake-type',
                   ev(ex, st, fr, 'subType == HandshakeType.%s' % HS_CLASS[cls]), ctx)
            if cls == 'NewSessionTicket':
                oblige(ex, st, tag + ':tls13-format-only-in-tls13', ev(ex, st, fr, 'not (self.version < (3, 4))'), ctx)
            if cls == 'NewSessionTicket1_0':
                oblige(ex, st, tag + ':rfc5077-format-only-before-tls13', ev(ex, st, fr, 'self.version < (3, 4)'), ctx)
            # RFC 8446 s5.1 key-change alignment.  (The result term of an is_empty() call is fresh: the path
            # condition can only make it true on a path that went through that call and branched on it.)
            defrag = val_of(ex, st, fr, 'self._defragmenter')
            aligned = z3.Or([z3.And(truthy(r), same(rc, defrag)) for rc, r in ctx.is_empty_calls] + [z3.BoolVal(False)])
            oblige(ex, st, tag + ':tls13-key-change-message-ends-on-a-record-boundary',
                   z3.Implies(z3.And(F(ev(ex, st, fr, 'self.version > (3, 3)')),
                                     F(ev(ex, st, fr, 'subType in ' + KEY_CHANGE_EXPR))), aligned), ctx)

    def on_continue(ex, st, fr, node):
        ctx.continues += 1
        k = ctx.continues
        t13 = F(ev(ex, st, fr, 'self.version > (3, 3)'))
        # (R1) RFC 8446 App. D.4 / s5: a compatibility ChangeCipherSpec (single byte 0x01) is dropped, during the
        #      handshake only (the caller expects handshake messages) and only while compatibility mode is on
        ccs = st.ghost.get('ccs_msg')
        info = msg_info(ctx, ccs) if ccs is not None else None
        r1 = z3.And(t13, F(ev(ex, st, fr, 'ContentType.handshake in expectedType')),
                    F(ev(ex, st, fr, 'bool(self._middlebox_compat_mode)')),
                    F(ev(ex, st, fr, 'recordHeader.type == ContentType.change_cipher_spec')),
                    z3.BoolVal(info is not None), same(info[1] if info else None, st.env.get('p')),
                    eq_op(attr(ccs, 'type'), VInt(1)).t if ccs is not None else z3.BoolVal(False))
        # (R2) renegotiation attempt after a completed handshake: refused with a no_renegotiation warning
        #      (RFC 5246 s7.2.2 "always a warning"), the message is dropped
        r2 = z3.And(F(ev(ex, st, fr, 'recordHeader.type == ContentType.handshake')),
                    F(ev(ex, st, fr, 'recordHeader.type not in expectedType')),
                    truthy(st.ghost.get('reneg_refusal_legit', FALSE())),
                    truthy(st.ghost.get('sent_no_renegotiation-warning', FALSE())))
        # (R3) RFC 6520: heartbeat traffic is consumed inside the record layer when the extension was negotiated
        r3 = z3.And(F(ev(ex, st, fr, 'recordHeader.type == ContentType.heartbeat')),
                    F(ev(ex, st, fr, 'recordHeader.type not in expectedType')),
                    truthy(st.ghost.get('hb_supported_at_dispatch', FALSE())))
        # (R4) RFC 5246 s6.2.1: zero-length application_data fragments are legal and carry nothing
        r4 = z3.And(F(ev(ex, st, fr, 'recordHeader.type == ContentType.application_data')),
                    F(ev(ex, st, fr, 'recordHeader.type in expectedType')),
                    F(ev(ex, st, fr, 'p.index == len(p.bytes)')))
        oblige(ex, st, 'skip#%d:record-dropped-only-for-an-enumerated-reason' % k, z3.Or(r1, r2, r3, r4), ctx)
        oblige(ex, st, 'skip#%d:tls13-ccs-dropped-only-in-compat-mode-during-handshake-with-payload-01' % k,
               z3.Implies(z3.And(t13, F(ev(ex, st, fr, 'recordHeader.type == ContentType.change_cipher_spec'))), r1), ctx)
        # RFC 8446 s5.1: "if a handshake message is split over two or more records, there MUST NOT be any other
        # records between them" -- also for records that are consumed here rather than returned (the compatibility
        # CCS is the one record the RFC says to drop "at any time", s5)
        # (inside the heartbeat branch the fact is taken when the record is taken up: the response send may
        #  assign any field, including the version)
        fact = truthy(st.ghost['interleave_ok_at_dispatch']) if 'hb_dispatch' in st.ghost else not_interleaved(ex, st, fr)
        oblige(ex, st, 'skip#%d:tls13-no-other-record-consumed-while-a-handshake-message-is-partially-buffered' % k,
               z3.Or(r1, fact), ctx)

    spec = M2Spec(hooks=mk_hooks(ctx, aspects=('gate',)), pure=PURE, props_as_fields=PROPS_AS_FIELDS,
                  on_yield=on_yield, on_continue=on_continue)

    def check(api):
        ex = api.ex
        ns = api.normal_exits()
        api.oblige(api.entry, 'has-normal-exit', len(ns) >= 1)
        api.oblige(api.entry, 'has-return-sites', ctx.yields >= 18)
        api.oblige(api.entry, 'has-skip-sites', ctx.continues >= 4)
        for o in ns:
            st = o.st
            # call sites pass only content types for which a message class exists (AST task getmsg-call-sites)
            pre = z3.Implies(F(ev(ex, st, api.fr, 'recordHeader.type in expectedType')),
                             F(ev(ex, st, api.fr, 'recordHeader.type in ' + RETURNABLE_CONTENT_EXPR)))
            oblige(ex, st, 'normal-exit:exactly-one-message-returned',
                   z3.Implies(pre, to_int(st.ghost.get('n_msgs')) == 1), ctx)
        k = 0
        for o in api.raise_exits():
            cls = o.val.cls
            if cls is NoReturn:
                continue
            k += 1
            if cls is TLSRemoteAlert:
                oblige(ex, o.st, 'raise#%d[TLSRemoteAlert]:only-for-an-unexpected-alert-record' % k,
                       z3.And(F(ev(ex, o.st, api.fr, 'recordHeader.type == ContentType.alert')),
                              F(ev(ex, o.st, api.fr, 'recordHeader.type not in expectedType'))), ctx)
            elif cls is AssertionError:
                # precondition from the call sites (AST task getmsg-call-sites): secondaryType only names types
                # that have a message class
                pre = z3.Implies(F(ev(ex, o.st, api.fr, 'subType in secondaryType')),
                                 F(ev(ex, o.st, api.fr, 'subType in ' + DISPATCHABLE_EXPR)))
                oblige(ex, o.st, 'raise#%d[AssertionError]:unreachable-for-dispatchable-secondaryType' % k,
                       z3.Not(pre), ctx)
            else:
                oblige(ex, o.st, 'raise#%d[%s]:only-documented-exceptions-leave' % (k, cls.__name__), False, ctx)

    return m2task('_getMsg/gate[%s]' % label, ('C06', 'C14'), TRL + '_getMsg', spec, check=check,
                  setup=entry_setup(ctx, assume_shapes), opts=OPTS,
                  doc='_getMsg returns only a message whose content type is in expectedType and, for handshake, whose '
                      'type is in secondaryType; records are dropped only for the enumerated reasons; TLS 1.3 '
                      'key-change alignment and no-interleaving dominate every return')


for _e in (True, False):
    for _s in (True, False):
        gate_task(_e, _s)

REG.note('C06', 'trusted', ASSUME_GETMSG)
REG.note('C06', 'assumptions', 'M2 _getMsg/gate: case split expectedType / secondaryType is a tuple or a scalar (4 tasks); '
         'preconditions taken from the call sites and checked by the AST task getmsg-call-sites: expectedType only '
         'names change_cipher_spec/alert/handshake/application_data, secondaryType only names handshake types that '
         'have a message class')


# ----------------------------------------------------------------------------------------------
# 2. C04: transcript completeness on the receive side

def transcript_task():
    ctx = Ctx()

    def on_yield(ex, val, st, fr, ynode):
        info = msg_info(ctx, val)
        ctx.yields += 1
        cls = info[0] if info else '?%d' % ctx.yields
        tag = 'return[%s]' % cls
        n = to_int(st.ghost.get('hash_updates'))
        if cls in HS_CLASS:
            # RFC 5246 s7.4.9 / RFC 8446 s4.4.1: the transcript is the concatenation of every handshake message
            oblige(ex, st, tag + ':transcript-extended-exactly-once-before-return', n == 1, ctx)
            oblige(ex, st, tag + ':hashed-bytes-are-the-bytes-of-this-message',
                   same(st.ghost.get('hashed_bytes'), val_of(ex, st, fr, 'p.bytes')), ctx)
            oblige(ex, st, tag + ':hash-object-is-the-connection-transcript',
                   same(st.ghost.get('hash_recv'), val_of(ex, st, fr, 'self._handshake_hash')), ctx)
            oblige(ex, st, tag + ':message-parsed-from-the-hashed-parser', same(info[1], st.env.get('p')), ctx)
        else:
            oblige(ex, st, tag + ':non-handshake-record-not-hashed', n == 0, ctx)

    def on_continue(ex, st, fr, node):
        ctx.continues += 1
        oblige(ex, st, 'skip#%d:transcript-untouched-by-dropped-record' % ctx.continues,
               to_int(st.ghost.get('hash_updates')) == 0, ctx)

    spec = M2Spec(hooks=mk_hooks(ctx, aspects=('transcript',)), pure=PURE, props_as_fields=PROPS_AS_FIELDS,
                  on_yield=on_yield, on_continue=on_continue)

    def check(api):
        api.oblige(api.entry, 'has-return-sites', ctx.yields >= 18)
        api.oblige(api.entry, 'has-skip-sites', ctx.continues >= 4)
        k = 0
        for o in api.raise_exits():
            k += 1
            if o.val.cls is AssertionError:
                continue                  # unreachable under the call-site precondition (gate task)
            # an aborted read must not leave a half-consumed message in the transcript: the transcript is
            # extended only after every gate check passed
            oblige(api.ex, o.st, 'abort#%d:transcript-untouched-when-the-record-is-rejected' % k,
                   to_int(o.st.ghost.get('hash_updates')) == 0, ctx)

    return m2task('_getMsg/transcript', ('C04',), TRL + '_getMsg', spec, check=check, setup=entry_setup(ctx), opts=OPTS,
                  doc='every handshake message _getMsg returns was fed to self._handshake_hash (its own bytes, exactly '
                      'once) before the return; dropped / rejected / non-handshake records never touch the transcript')


transcript_task()
REG.note('C04', 'trusted', ASSUME_GETMSG)


# ----------------------------------------------------------------------------------------------
# 3. C08 (C02): malformed input -> alert mapping of the except arms, nothing else swallowed

def escaped(api):
    out = set()
    for o in api.raise_exits():
        org = str(getattr(o.val, 'origin', ''))
        if org.startswith('inject:'):
            out.add((o.val.cls, org[len('inject:'):]))
    return out


def mapping_check(ctx, api, table, allowed_swallow, injected_classes):
    """python-level facts about the executed paths: every injected (class, site) either reaches
    _sendError(<alert of the table>) in an except arm, or leaves the function unchanged, or is one of
    the enumerated swallow sites."""
    esc = escaped(api)
    handled = {}
    for cls, site, alert in ctx.handled:
        handled.setdefault((cls, site), set()).add(alert)
    injected = sorted(set(ctx.injected), key=lambda x: (x[0].__name__, x[1]))
    for cls in injected_classes:
        sites = [s for (c, s) in injected if c is cls]
        want = expected_alert(cls, table)
        nm = cls.__name__
        api.oblige(api.entry, 'inject[%s]:raised-at-some-site' % nm, len(sites) >= 1)
        if want is not None:
            bad = [s for s in sites if handled.get((cls, s)) != {want} and (cls, s) not in allowed_swallow]
            api.oblige(api.entry, 'except-arm[%s]:alert-is-%s-at-every-site' % (nm, want), not bad)
            leak = [s for s in sites if (cls, s) in esc]
            api.oblige(api.entry, 'except-arm[%s]:never-leaves-as-a-raw-exception' % nm, not leak)
        else:
            bad = [s for s in sites if (cls, s) not in esc and (cls, s) not in allowed_swallow]
            api.oblige(api.entry, 'propagates-unchanged[%s]:not-swallowed-at-any-site' % nm, not bad)
            conv = [s for s in sites if (cls, s) in handled]
            api.oblige(api.entry, 'propagates-unchanged[%s]:not-converted-into-an-alert' % nm, not conv)
    sw = [(c, s) for (c, s) in injected if (c, s) not in esc and (c, s) not in handled]
    extra = [(c.__name__, s) for (c, s) in sw if (c, s) not in allowed_swallow]
    api.oblige(api.entry, 'swallowed-exceptions-are-exactly-the-enumerated-ones', not extra)
    missing = [(c.__name__, s) for (c, s) in allowed_swallow if (c, s) in set(injected) and (c, s) not in sw]
    api.oblige(api.entry, 'enumerated-swallow-sites-do-swallow', not missing)
    return sw


PARSER_EXC = [TLSIllegalParameterException, BadCertificateError, DecodeError, SyntaxError, OtherError]
# RFC 6520 s4: a malformed HeartbeatMessage "MUST be discarded silently"
SWALLOW_HEARTBEAT = {(c, 'Heartbeat.parse') for c in (BadCertificateError, DecodeError, SyntaxError)}
# C17 (orderly close): the peer may already be gone when the courtesy close_notify is sent
SWALLOW_CLOSE_REPLY = {(OSError, '_sendMsg:close_notify-reply')}
# pinned-tree behaviour not backed by the property text; posed separately in the alert task (C17)
SWALLOW_HB_SEND = {(OSError, '_sendMsg:heartbeat-response')}


def malformed_task():
    ctx = Ctx()
    spec = M2Spec(hooks=mk_hooks(ctx, aspects=(), parser_exc=PARSER_EXC, transport_exc=TRANSPORT_EXC), pure=PURE,
                  props_as_fields=PROPS_AS_FIELDS)

    def check(api):
        mapping_check(ctx, api, EXC_ALERT, SWALLOW_HEARTBEAT | SWALLOW_CLOSE_REPLY | SWALLOW_HB_SEND,
                      PARSER_EXC + [c for c in TRANSPORT_EXC if c not in PARSER_EXC])
        # the three arms are the only places where an exception becomes an alert
        arms = sorted(set(a for (_, _, a) in ctx.handled), key=str)
        api.oblige(api.entry, 'except-arms-send-only-illegal_parameter/bad_certificate/decode_error',
                   set(arms) <= {'illegal_parameter', 'bad_certificate', 'decode_error'})
        # O-getmsg-raises: besides what the callees raise, only TLSLocalAlert (via _sendError) and TLSRemoteAlert
        # leave; AssertionError is excluded by the call-site precondition (gate task)
        own = [o.val.cls.__name__ for o in api.raise_exits()
               if not str(getattr(o.val, 'origin', '')).startswith('inject:')
               and o.val.cls not in (NoReturn, TLSRemoteAlert, AssertionError)]
        api.oblige(api.entry, 'own-raises-are-TLSLocalAlert-or-TLSRemoteAlert', not own)

    return m2task('_getMsg/malformed-input', ('C08', 'C02'), TRL + '_getMsg', spec, check=check, setup=entry_setup(ctx),
                  opts=OPTS,
                  doc='exceptions of the parsers map to the RFC alert (TLSIllegalParameterException -> '
                      'illegal_parameter, BadCertificateError -> bad_certificate, other SyntaxError -> decode_error) at '
                      'every parse site; transport / foreign exceptions are neither swallowed nor converted')


malformed_task()
REG.note('C08', 'trusted', ASSUME_GETMSG + '; exception injection: every parse()/Parser.get() site may raise '
         'TLSIllegalParameterException, BadCertificateError, DecodeError, SyntaxError or a foreign exception; '
         '_getNextRecord/_sendMsg may raise OSError, TLSAbruptCloseError, TLSLocalAlert or a foreign exception')
REG.note('C08', 'not_built', 'O-getmsg-raises through the parsers: that the parse() methods themselves raise only '
         'SyntaxError/TLSIllegalParameterException subclasses is the M1 parser contracts (known findings F7, F10)')


# ----------------------------------------------------------------------------------------------
# 4. C17: the alert branch

def alert_task():
    ctx = Ctx()
    spec = M2Spec(hooks=mk_hooks(ctx, aspects=('alert',), transport_exc=[OSError, TLSAbruptCloseError]), pure=PURE,
                  props_as_fields=PROPS_AS_FIELDS)

    def check(api):
        ex, fr = api.ex, api.fr
        rs = api.raise_exits(TLSRemoteAlert)
        api.oblige(api.entry, 'has-TLSRemoteAlert-exit', len(rs) >= 1)
        for k, o in enumerate(rs, 1):
            st = o.st
            tag = 'remote-alert#%d' % k
            warn = F(ev(ex, st, fr, 'alert.level == AlertLevel.warning'))
            cn = F(ev(ex, st, fr, 'alert.description == AlertDescription.close_notify'))
            res = truthy(st.ghost.get('shutdown_resumable', FALSE()))
            oblige(ex, st, tag + ':connection-shut-down-exactly-once-on-every-path',
                   to_int(st.ghost.get('shutdown_calls')) == 1, ctx)
            # property: "a fatal alert received from the peer is surfaced as such", session not resumable
            oblige(ex, st, tag + ':fatal-alert-invalidates-the-session', z3.Implies(z3.And(z3.Not(warn), z3.Not(cn)), z3.Not(res)), ctx)
            # property: "After an orderly close (close_notify) ... the session stays resumable"
            oblige(ex, st, tag + ':close_notify-keeps-the-session-resumable', z3.Implies(cn, res), ctx)
            # DESIGN C17: a warning other than close_notify also ends the connection without resumption
            oblige(ex, st, tag + ':other-warning-invalidates-the-session', z3.Implies(z3.And(warn, z3.Not(cn)), z3.Not(res)), ctx)
            # RFC 5246 s7.2.1: "the other party MUST respond with a close_notify alert of its own"; a fatal
            # alert is not answered (both sides close immediately, s7.2.2)
            oblige(ex, st, tag + ':close_notify-or-warning-is-answered-with-a-close_notify-warning',
                   z3.Implies(z3.Or(warn, cn), truthy(st.ghost.get('sent_close_notify-reply', FALSE()))), ctx)
            oblige(ex, st, tag + ':fatal-alert-is-not-answered',
                   z3.Implies(z3.And(z3.Not(warn), z3.Not(cn)), z3.Not(truthy(st.ghost.get('sent_any', FALSE())))), ctx)
            a = o.val.args[0] if getattr(o.val, 'args', None) else None
            info = msg_info(ctx, a)
            oblige(ex, st, tag + ':exception-carries-the-alert-parsed-from-this-record',
                   z3.And(z3.BoolVal(info is not None and info[0] == 'Alert'),
                          same(info[1] if info else None, st.env.get('p'))), ctx)
            oblige(ex, st, tag + ':only-for-an-alert-record-the-caller-did-not-ask-for',
                   z3.And(F(ev(ex, st, fr, 'recordHeader.type == ContentType.alert')),
                          F(ev(ex, st, fr, 'recordHeader.type not in expectedType'))), ctx)
        esc = escaped(api)
        # orderly close: a failing courtesy reply must not turn close_notify into a transport error
        api.oblige(api.entry, 'close_notify-reply:socket-error-does-not-mask-the-remote-alert',
                   (OSError, '_sendMsg:close_notify-reply') not in esc and
                   (OSError, '_sendMsg:close_notify-reply') in set(ctx.injected))
        # property C17: "If the transport fails ... at any point of a handshake or data transfer, the call raises a
        # socket or abrupt-close error"
        for site in sorted(set(s for (c, s) in ctx.injected if s != '_sendMsg:close_notify-reply')):
            for cls in (OSError, TLSAbruptCloseError):
                if (cls, site) in set(ctx.injected):
                    api.oblige(api.entry, 'transport-failure[%s@%s]:surfaces-to-the-caller' % (cls.__name__, site),
                               (cls, site) in esc)
        api.oblige(api.entry, 'transport-failure[TLSAbruptCloseError@_sendMsg:close_notify-reply]:surfaces-to-the-caller',
                   (TLSAbruptCloseError, '_sendMsg:close_notify-reply') in esc)

    return m2task('_getMsg/alert-branch', ('C17',), TRL + '_getMsg', spec, check=check, setup=entry_setup(ctx), opts=OPTS,
                  doc='an alert record the caller did not ask for always ends in _shutdown + TLSRemoteAlert(alert): '
                      'close_notify keeps the session resumable, everything else invalidates it; the courtesy '
                      'close_notify reply may fail with socket.error without masking the alert')


alert_task()
REG.note('C17', 'trusted', ASSUME_GETMSG + '; _sendMsg / _getNextRecord may raise OSError (socket.error) or '
         'TLSAbruptCloseError at every call; _shutdown(resumable) effects are its own contract (m2:_sendError task '
         'and DESIGN C02 bullet), here only "called with which argument" is tracked')


# ----------------------------------------------------------------------------------------------
# 5. C16: heartbeat

def heartbeat_task():
    ctx = Ctx()

    def on_continue(ex, st, fr, node):
        ctx.continues += 1
        hm = st.env.get('heartbeat_message')
        if hm is None or 'hb_dispatch' not in st.ghost:
            return                                # a `continue` outside the heartbeat branch
        k = ctx.ordinal('hb-continue')
        is_req = eq_op(attr(hm, 'message_type'), VInt(HeartbeatMessageType.heartbeat_request)).t
        # property C16: control messages "not permitted by the negotiated mode are answered with a fatal alert"
        oblige(ex, st, 'heartbeat:request-from-a-peer-not-allowed-to-send-is-never-silently-dropped#%d' % k,
               z3.Implies(is_req, truthy(st.ghost.get('hb_can_receive_at_dispatch', FALSE()))), ctx)
        # RFC 6520 s4: an answered request is answered once; a short-padding request is not answered at all
        pad_ok = F(ev_on(ex, st, fr, 'len(m.padding) >= 16', m=hm))
        sent = truthy(st.ghost.get('sent_heartbeat-response', FALSE()))
        oblige(ex, st, 'heartbeat:request-with-short-padding-gets-no-response#%d' % k,
               z3.Implies(z3.And(is_req, z3.Not(pad_ok)), z3.Not(sent)), ctx)
        oblige(ex, st, 'heartbeat:a-non-request-gets-no-response#%d' % k, z3.Implies(z3.Not(is_req), z3.Not(sent)), ctx)

    hooks = mk_hooks(ctx, aspects=('heartbeat',))

    def on_abort2(ex, st, fr, node, d, k):
        # aborts inside the heartbeat branch (the local heartbeat_message exists on the path)
        if 'heartbeat_message' not in st.env or 'hb_dispatch' not in st.ghost:
            return
        j = ctx.ordinal('hb-abort')
        hm = st.env['heartbeat_message']
        oblige(ex, st, 'heartbeat:abort#%d-is-unexpected_message' % j, d == AlertDescription.unexpected_message, ctx)
        oblige(ex, st, 'heartbeat:abort#%d-only-for-a-request-while-peer_not_allowed_to_send' % j,
               z3.And(eq_op(attr(hm, 'message_type'), VInt(HeartbeatMessageType.heartbeat_request)).t,
                      z3.Not(F(ev(ex, st, fr, 'bool(self.heartbeat_can_receive)')))), ctx)
        oblige(ex, st, 'heartbeat:abort#%d-sends-no-response-first' % j,
               z3.Not(truthy(st.ghost.get('sent_heartbeat-response', FALSE()))), ctx)

    hooks['_sendError'] = mk_sendError(ctx, ('heartbeat',), on_abort2)
    spec = M2Spec(hooks=hooks, pure=PURE, props_as_fields=PROPS_AS_FIELDS, on_continue=on_continue)

    def check(api):
        api.oblige(api.entry, 'has-heartbeat-continue-sites', ctx.counts.get('hb-continue', 0) >= 2)
        api.oblige(api.entry, 'has-heartbeat-abort-site', ctx.counts.get('hb-abort', 0) >= 1)
        api.oblige(api.entry, 'has-response-site', len(ctx.response_of) >= 1)

    return m2task('_getMsg/heartbeat', ('C16',), TRL + '_getMsg', spec, check=check, setup=entry_setup(ctx), opts=OPTS,
                  doc='RFC 6520: a HeartbeatRequest is answered only when the extension was negotiated, the peer is '
                      'allowed to send, and the padding is >= 16 bytes; the answer is create_response() of the request '
                      'parsed from this record; a request from a peer that may not send is a fatal unexpected_message')


heartbeat_task()
REG.note('C16', 'trusted', ASSUME_GETMSG + '; Heartbeat.create_response echoes the payload (M1 contract on '
         'messages.Heartbeat, not in this module)')


# ----------------------------------------------------------------------------------------------
# 6. _getNextRecordFromSocket (C08, C02): record-layer errors -> alert, returned records are well-formed

RECORD_EXC = [c for c, _ in RECORD_EXC_ALERT]


def record_socket_task():
    ctx = Ctx()

    def h_recvRecord(ex, recv, args, kwargs, st, fr, node):
        r = fresh_opaque('recv_record')
        st.events.append(('recvRecord', [recv], r))
        st.ghost['recv_result'] = r
        st.ghost['recv_on'] = recv
        ex.havoc_call('recvRecord', st)
        materialise(ex, st, fr)
        return [Outcome('normal', st, r)] + inject(ctx, st, RECORD_EXC + TRANSPORT_EXC + [DecodeError], 'recvRecord')

    def h_remaining(ex, recv, args, kwargs, st, fr, node):
        r = fresh_opaque('remaining')
        ctx.created[ctx.tid(r)] = ('getRemainingLength', [recv])
        st.ghost['remaining'] = r
        st.ghost['remaining_of'] = recv
        return [Outcome('normal', st, r)]

    def on_abort(ex, st, fr, node, d, k):
        # RFC 5246 s6.2.1: an unknown record type / a zero-length non-application_data fragment is answered with
        # unexpected_message
        oblige(ex, st, 'abort#%d:alert-is-unexpected_message' % k, d == AlertDescription.unexpected_message, ctx)
        rem = st.ghost.get('remaining')
        empty = z3.And(F(ev(ex, st, fr, 'header.type != ContentType.application_data')),
                       eq_op(rem, VInt(0)).t if rem is not None else z3.BoolVal(False))
        unknown = F(ev(ex, st, fr, 'header.type not in (20, 21, 22, 23, 24)'))
        oblige(ex, st, 'abort#%d:only-for-an-empty-non-application-record-or-an-unknown-content-type' % k,
               z3.Or(empty, unknown), ctx)

    def on_yield(ex, val, st, fr, ynode):
        ctx.yields += 1
        tag = 'return#%d' % ctx.yields
        rec = st.ghost.get('recv_result')
        ok = isinstance(val, VTuple) and len(val.items) == 2 and rec is not None
        oblige(ex, st, tag + ':is-the-(header,parser)-pair-recvRecord-produced',
               z3.And(same(val.items[0], item(rec, 0)), same(val.items[1], item(rec, 1))) if ok else False, ctx)
        oblige(ex, st, tag + ':record-came-from-this-connections-record-layer',
               same(st.ghost.get('recv_on'), val_of(ex, api_entry['st'], fr, 'self._recordLayer')), ctx)
        # RFC 5246 s6.2.1 / RFC 8446 s5.1: the five assigned content types (20..24, RFC 6520 adds 24)
        oblige(ex, st, tag + ':content-type-is-an-assigned-one', ev(ex, st, fr, 'header.type in (20, 21, 22, 23, 24)'), ctx)
        rem = st.ghost.get('remaining')
        nonempty = z3.And(same(st.ghost.get('remaining_of'), st.env.get('parser')),
                          z3.Not(eq_op(rem, VInt(0)).t)) if rem is not None else z3.BoolVal(False)
        oblige(ex, st, tag + ':zero-length-fragment-only-for-application_data',
               z3.Implies(F(ev(ex, st, fr, 'header.type != ContentType.application_data')), nonempty), ctx)

    api_entry = {}

    def setup(ex, st, fr):
        entry_setup(ctx)(ex, st, fr)
        api_entry['st'] = st.fork()

    hooks = {'recvRecord': h_recvRecord, 'getRemainingLength': h_remaining,
             '_sendError': mk_sendError(ctx, (), on_abort)}
    spec = M2Spec(hooks=hooks, pure=PURE, props_as_fields=PROPS_AS_FIELDS, on_yield=on_yield)

    def check(api):
        api.oblige(api.entry, 'has-return-site', ctx.yields >= 1)
        mapping_check(ctx, api, RECORD_EXC_ALERT, set(), RECORD_EXC + TRANSPORT_EXC + [DecodeError])
        arms = set(a for (_, _, a) in ctx.handled)
        api.oblige(api.entry, 'except-arms-send-only-the-five-record-alerts',
                   arms <= set(n for _, n in RECORD_EXC_ALERT))
        own = [o.val.cls.__name__ for o in api.raise_exits()
               if not str(getattr(o.val, 'origin', '')).startswith('inject:') and o.val.cls is not NoReturn]
        api.oblige(api.entry, 'own-raises-are-TLSLocalAlert-only', not own)

    return m2task('_getNextRecordFromSocket/errors-and-wellformedness', ('C08', 'C02'), TRL + '_getNextRecordFromSocket',
                  spec, check=check, setup=setup, opts=OPTS,
                  doc='each record-layer exception is answered with its RFC alert (five arms), everything else '
                      'propagates; a returned record is the one recvRecord produced, has an assigned content type and '
                      'is non-empty unless application_data')


record_socket_task()
REG.note('C02', 'trusted', 'M2 _getNextRecordFromSocket: RecordLayer.recvRecord is an opaque generator that returns an '
         'arbitrary (header, parser) pair or raises one of TLSUnexpectedMessage, TLSRecordOverflow, '
         'TLSIllegalParameterException, TLSDecryptionFailed, TLSBadRecordMAC, OSError, TLSAbruptCloseError, '
         'TLSLocalAlert, DecodeError or a foreign exception (its own contracts: contracts/recordlayer.py)')


# ----------------------------------------------------------------------------------------------
# 7. _getNextRecord (C02 early-data flag, C14 framing, C06): defragmentation loop

def next_record_task():
    ctx = Ctx()
    box = {}

    def h_get_message(ex, recv, args, kwargs, st, fr, node):
        r = fresh_opaque('defrag_msg')
        st.events.append(('get_message', [recv], r))
        ctx.created[ctx.tid(r)] = ('get_message', [recv])
        oblige(ex, st, 'defragmenter:get_message-on-the-connections-defragmenter',
               same(recv, val_of(ex, st, fr, 'self._defragmenter')), ctx)
        return [Outcome('normal', st, r)]

    def h_create(ex, recv, args, kwargs, st, fr, node):
        r = fresh_opaque('hdr')
        ctx.created[ctx.tid(r)] = (cls_name(ctx, recv), list(args))
        return [Outcome('normal', st, r)]

    def h_from_socket(ex, recv, args, kwargs, st, fr, node):
        k = ctx.ordinal('socket-read')
        # C14: buffered complete messages are handed out before the socket is touched again
        oblige(ex, st, 'socket-read#%d:only-after-the-defragmenter-has-no-complete-message' % k,
               z3.And(F(ev(ex, st, fr, 'ret is None')),
                      z3.BoolVal(ctx.created.get(ctx.tid(st.env.get('ret')), ('',))[0] == 'get_message')), ctx)
        st.ghost['edo_before_read'] = val_of(ex, st, fr, 'self._recordLayer.early_data_ok')
        st.ghost['read_calls'] = VInt(to_int(st.ghost.get('read_calls')) + 1)
        r = fresh_opaque('socket_record')
        st.events.append(('_getNextRecordFromSocket', [], r))
        ex.havoc_call('_getNextRecordFromSocket', st)
        materialise(ex, st, fr)
        st.ghost['socket_record'] = r
        # RecordLayer.recvRecord clears early_data_ok for every record it accepts (recordlayer.py): after the
        # call the flag is an arbitrary new value
        rl = val_of(ex, st, fr, 'self._recordLayer')
        st.heap[('o', ctx.tid(rl), 'early_data_ok')] = fresh_opaque('early_data_ok_after_read')
        # contract of _getNextRecordFromSocket (task above): assigned content type
        h = item(r, 0)
        st.assume(z3.Or([eq_op(attr(h, 'type'), VInt(c)).t for c in (20, 21, 22, 23, 24)]))
        return [Outcome('normal', st, r)]

    def h_add_data(ex, recv, args, kwargs, st, fr, node):
        k = ctx.ordinal('add_data')
        st.events.append(('add_data', [recv] + list(args), None))
        st.ghost['buffered'] = TRUE()
        rec = st.ghost.get('socket_record')
        tag = 'buffer#%d' % k
        oblige(ex, st, tag + ':into-the-connections-defragmenter', same(recv, val_of(ex, st, fr, 'self._defragmenter')), ctx)
        oblige(ex, st, tag + ':under-the-records-own-content-type',
               same(args[0], attr(item(rec, 0), 'type')) if rec is not None and len(args) == 2 else False, ctx)
        oblige(ex, st, tag + ':exactly-the-records-payload',
               same(args[1], attr(item(rec, 1), 'bytes')) if rec is not None and len(args) == 2 else False, ctx)
        # Defragmenter.add_data raises ValueError for a type that was not registered (TLSRecordLayer.__init__
        # registers change_cipher_spec, alert, handshake -- AST task defragmenter-registration)
        oblige(ex, st, tag + ':content-type-is-registered-with-the-defragmenter (no ValueError)',
               ev(ex, st, fr, 'header.type in (ContentType.change_cipher_spec, ContentType.alert, ContentType.handshake)'), ctx)
        # application data and heartbeat are not message-structured (RFC 5246 s6.2.1, RFC 6520 s3)
        oblige(ex, st, tag + ':never-application_data-or-heartbeat',
               ev(ex, st, fr, 'header.type != ContentType.application_data and header.type != ContentType.heartbeat'), ctx)
        return [Outcome('normal', st, VNone())]

    def on_store(ex, obj, val, st, fr, node):
        k = ctx.ordinal('edo-store')
        tag = 'early_data_ok-store#%d' % k
        # RFC 8446 s4.2.10 / App. D.4: the plaintext compatibility CCS "doesn't change the status of undecryptable
        # records": after it the flag has the value it had just before this record was read
        oblige(ex, st, tag + ':restores-the-value-read-just-before-this-record-was-received',
               same(val, st.ghost.get('edo_before_read')), ctx)
        oblige(ex, st, tag + ':only-for-a-tls13-change_cipher_spec-record',
               z3.And(F(ev(ex, st, fr, 'self.version > (3, 3)')),
                      F(ev(ex, st, fr, 'header.type == ContentType.change_cipher_spec'))), ctx)
        oblige(ex, st, tag + ':on-the-connections-record-layer', same(obj, val_of(ex, st, fr, 'self._recordLayer')), ctx)
        oblige(ex, st, tag + ':the-record-is-the-one-just-read',
               same(st.env.get('header'), item(st.ghost.get('socket_record'), 0)) if st.ghost.get('socket_record') is not None
               else False, ctx)
        st.ghost['edo_restored'] = TRUE()

    def on_yield(ex, val, st, fr, ynode):
        ctx.yields += 1
        k = ctx.yields
        if not (isinstance(val, VTuple) and len(val.items) == 2):
            oblige(ex, st, 'yield#%d:is-a-(header,parser)-pair' % k, False, ctx)
            return
        h, p = val.items
        hc = ctx.created.get(ctx.tid(h))
        if hc is not None:
            # a message taken out of the defragmenter
            tag = 'yield#%d[defragmented]' % k
            ret = st.env.get('ret')
            pc_ = ctx.cls_of.get(ctx.tid(p))
            oblige(ex, st, tag + ':message-came-from-get_message',
                   z3.BoolVal(ctx.created.get(ctx.tid(ret), ('',))[0] == 'get_message'), ctx)
            oblige(ex, st, tag + ':header-carries-the-message-type-and-the-connection-version',
                   z3.And(z3.BoolVal(hc[0] == 'RecordHeader3' and len(hc[1]) == 3),
                          same(hc[1][0], val_of(ex, st, fr, 'self.version')) if len(hc[1]) == 3 else z3.BoolVal(False),
                          same(hc[1][1], item(ret, 0)) if len(hc[1]) == 3 and ret is not None else z3.BoolVal(False)), ctx)
            oblige(ex, st, tag + ':parser-is-over-exactly-the-message-bytes',
                   z3.And(z3.BoolVal(pc_ is not None and pc_[0] == 'Parser' and len(pc_[1]) == 1),
                          same(pc_[1][0], item(ret, 1)) if pc_ and len(pc_[1]) == 1 and ret is not None
                          else z3.BoolVal(False)), ctx)
            oblige(ex, st, tag + ':before-any-socket-read-of-this-iteration',
                   to_int(st.ghost.get('read_calls')) == 0, ctx)
        else:
            tag = 'yield#%d[pass-through]' % k
            rec = st.ghost.get('socket_record')
            oblige(ex, st, tag + ':is-the-record-just-read',
                   z3.And(same(h, item(rec, 0)), same(p, item(rec, 1))) if rec is not None else False, ctx)
            # C14/C06: only record kinds that are not made of messages bypass the defragmenter
            oblige(ex, st, tag + ':only-application_data,tls13-ccs,heartbeat-or-sslv2-bypass-the-defragmenter',
                   z3.Or(F(ev(ex, st, fr, 'header.type == ContentType.application_data')),
                         z3.And(F(ev(ex, st, fr, 'self.version > (3, 3)')),
                                F(ev(ex, st, fr, 'header.type == ContentType.change_cipher_spec'))),
                         F(ev(ex, st, fr, 'header.type == ContentType.heartbeat')),
                         F(ev(ex, st, fr, 'bool(header.ssl2)'))), ctx)
            oblige(ex, st, tag + ':not-also-buffered', z3.Not(truthy(st.ghost.get('buffered', FALSE()))), ctx)
            # the flag is restored for every TLS 1.3 CCS that is handed on (not only on some paths)
            oblige(ex, st, tag + ':tls13-ccs-handed-on-with-early_data_ok-restored',
                   z3.Implies(z3.And(F(ev(ex, st, fr, 'self.version > (3, 3)')),
                                     F(ev(ex, st, fr, 'header.type == ContentType.change_cipher_spec'))),
                              truthy(st.ghost.get('edo_restored', FALSE()))), ctx)

    def setup(ex, st, fr):
        entry_setup(ctx)(ex, st, fr)
        st.ghost['read_calls'] = VInt(0)
        # the flag is a mutable attribute of the record layer object: give it an explicit heap cell so that the
        # loop cut and the callee models havoc it (M2 reads attributes of opaque objects as pure terms otherwise)
        rl = val_of(ex, st, fr, 'self._recordLayer')
        st.heap[('o', ctx.tid(rl), 'early_data_ok')] = fresh_opaque('early_data_ok_at_entry')

    hooks = {'get_message': h_get_message, 'create': h_create, '_getNextRecordFromSocket': h_from_socket,
             'add_data': h_add_data, 'RecordHeader3': ctor_hook(ctx, 'RecordHeader3'), 'Parser': ctor_hook(ctx, 'Parser')}
    spec = M2Spec(hooks=hooks, pure=PURE, props_as_fields=PROPS_AS_FIELDS, on_yield=on_yield,
                  on_store={'early_data_ok': on_store})
    spec.loop_ghost_havoc = {'read_calls', 'buffered', 'edo_restored', 'socket_record', 'edo_before_read'}

    def check(api):
        api.oblige(api.entry, 'has-defragmented-and-pass-through-yields', ctx.yields >= 4)
        api.oblige(api.entry, 'has-socket-read-site', ctx.counts.get('socket-read', 0) >= 1)
        api.oblige(api.entry, 'has-buffer-site', ctx.counts.get('add_data', 0) >= 1)
        api.oblige(api.entry, 'has-early_data_ok-store-site', ctx.counts.get('edo-store', 0) >= 1)
        for o in api.normal_exits():
            api.unreachable(o.st, 'never-ends-without-a-record (infinite loop, leaves only by yield or exception)')

    return m2task('_getNextRecord/defragmentation', ('C02', 'C14', 'C06'), TRL + '_getNextRecord', spec, check=check,
                  setup=setup, opts=OPTS,
                  doc='buffered messages first, then one socket record; handshake/alert/(<=1.2 CCS) payloads always go '
                      'through the defragmenter under their own type, only application_data / TLS 1.3 CCS / heartbeat / '
                      'SSLv2 records are handed on directly; early_data_ok is restored after a TLS 1.3 CCS to the '
                      'value read just before that record was received')


next_record_task()
REG.note('C14', 'trusted', 'M2 _getNextRecord: Defragmenter.get_message/add_data by their M1 contracts '
         '(contracts/defragmenter.py); _getNextRecordFromSocket by its task (assigned content type); loops cut with '
         'the trivial invariant (arbitrary iteration)')


# ----------------------------------------------------------------------------------------------
# 8. C04: transcript on the send side (_sendMsg, _queue_message, _queue_flush)

def send_hooks(ctx):
    def h_write(ex, recv, args, kwargs, st, fr, node):
        r = fresh_opaque('serialised')
        ctx.writes[ctx.tid(r)] = recv
        st.events.append(('write', [recv], r))
        return [Outcome('normal', st, r)]

    def h_update(ex, recv, args, kwargs, st, fr, node):
        k = ctx.ordinal('update')
        st.events.append(('update', [recv] + list(args), None))
        st.ghost['hash_updates'] = VInt(to_int(st.ghost.get('hash_updates')) + 1)
        st.ghost['hashed_bytes'] = args[0] if args else VNone()
        tag = 'transcript-update#%d' % k
        oblige(ex, st, tag + ':on-the-connection-transcript', same(recv, val_of(ex, st, fr, 'self._handshake_hash')), ctx)
        w = ctx.writes.get(ctx.tid(args[0])) if args else None
        oblige(ex, st, tag + ':hashes-exactly-the-serialisation-of-the-message-being-sent',
               same(w, st.env.get('msg')), ctx)
        # RFC 5246 s7.4.9 / RFC 8446 s4.4.1: only handshake messages are part of the transcript
        oblige(ex, st, tag + ':only-for-a-handshake-message', ev(ex, st, fr, 'msg.contentType == ContentType.handshake'), ctx)
        return [Outcome('normal', st, VNone())]
    return {'write': h_write, 'update': h_update, 'Message': ctor_hook(ctx, 'Message')}


def sendmsg_task():
    ctx = Ctx()

    def h_through(ex, recv, args, kwargs, st, fr, node):
        k = ctx.ordinal('fragment')
        tag = 'fragment#%d' % k
        m = args[0] if args else None
        hs = z3.And(truthy(st.env['update_hashes']), F(ev(ex, st, fr, 'msg.contentType == ContentType.handshake')))
        n = to_int(st.ghost.get('hash_updates'))
        # nothing of a handshake message reaches the wire before the message is in the transcript, and a
        # message is hashed once however many fragments it needs
        oblige(ex, st, tag + ':handshake-message-hashed-exactly-once-before-any-of-it-is-sent', z3.Implies(hs, n == 1), ctx)
        oblige(ex, st, tag + ':otherwise-the-transcript-is-untouched', z3.Implies(z3.Not(hs), n == 0), ctx)
        c = ctx.cls_of.get(ctx.tid(m))
        if c is not None and c[0] == 'Message':
            oblige(ex, st, tag + ':fragment-keeps-the-content-type-of-the-message',
                   same(c[1][0], attr(st.env['msg'], 'contentType')) if len(c[1]) == 2 else False, ctx)
        st.events.append(('_sendMsgThroughSocket', args, None))
        ex.havoc_call('_sendMsgThroughSocket', st)
        materialise(ex, st, fr)
        return [Outcome('normal', st, VNone())]

    hooks = send_hooks(ctx)
    hooks['_sendMsgThroughSocket'] = h_through
    spec = M2Spec(hooks=hooks, pure=PURE | {'isCBCMode'}, props_as_fields=PROPS_AS_FIELDS)

    def check(api):
        ns = api.normal_exits()
        api.oblige(api.entry, 'has-normal-exit', len(ns) >= 1)
        api.oblige(api.entry, 'has-fragment-sites', ctx.counts.get('fragment', 0) >= 3)
        api.oblige(api.entry, 'has-update-site', ctx.counts.get('update', 0) >= 1)
        for k, o in enumerate(ns, 1):
            st = o.st
            hs = z3.And(truthy(st.env['update_hashes']), F(ev(api.ex, st, api.fr, 'msg.contentType == ContentType.handshake')))
            oblige(api.ex, st, 'exit#%d:a-sent-handshake-message-is-in-the-transcript-exactly-once' % k,
                   z3.Implies(hs, to_int(st.ghost.get('hash_updates')) == 1), ctx)
            oblige(api.ex, st, 'exit#%d:update_hashes=False-or-non-handshake-leaves-the-transcript-alone' % k,
                   z3.Implies(z3.Not(hs), to_int(st.ghost.get('hash_updates')) == 0), ctx)

    return m2task('_sendMsg/transcript', ('C04',), TRL + '_sendMsg', spec, check=check, setup=entry_setup(ctx), opts=OPTS,
                  doc='a handshake message sent with update_hashes is fed to the transcript (its own serialisation, '
                      'once) before its first fragment is sent; nothing else touches the transcript')


def queue_message_task():
    ctx = Ctx()
    box = {}

    def setup(ex, st, fr):
        entry_setup(ctx)(ex, st, fr)
        box['buf0'] = val_of(ex, st, fr, 'self._buffer')
        box['bct0'] = val_of(ex, st, fr, 'self._buffer_content_type')

    spec = M2Spec(hooks=send_hooks(ctx), pure=PURE, props_as_fields=PROPS_AS_FIELDS)

    def check(api):
        ex, fr = api.ex, api.fr
        ns = api.normal_exits()
        api.oblige(api.entry, 'has-normal-exit', len(ns) >= 1)
        for k, o in enumerate(ns, 1):
            st = o.st
            hs = F(ev(ex, st, fr, 'msg.contentType == ContentType.handshake'))
            n = to_int(st.ghost.get('hash_updates'))
            oblige(ex, st, 'exit#%d:queued-handshake-message-is-hashed-exactly-once-at-queue-time' % k, z3.Implies(hs, n == 1), ctx)
            oblige(ex, st, 'exit#%d:non-handshake-message-not-hashed' % k, z3.Implies(z3.Not(hs), n == 0), ctx)
            ser = st.env.get('serialised_msg')
            oblige(ex, st, 'exit#%d:queued-bytes-are-the-serialisation-of-msg' % k,
                   same(ctx.writes.get(ctx.tid(ser)), st.env.get('msg')), ctx)
            oblige(ex, st, 'exit#%d:hashed-bytes-are-the-queued-bytes' % k,
                   z3.Implies(hs, same(st.ghost.get('hashed_bytes'), ser)), ctx)
            add = z3.Function('v_binop_Add', smt.Val, smt.Val, smt.Val)
            oblige(ex, st, 'exit#%d:buffer-is-the-old-buffer-plus-these-bytes' % k,
                   same(val_of(ex, st, fr, 'self._buffer'), VOpaque(add(to_val(box['buf0']), to_val(ser)))) if ser is not None
                   else False, ctx)
            oblige(ex, st, 'exit#%d:buffer-holds-a-single-content-type' % k,
                   F(ev(ex, st, fr, 'self._buffer_content_type == msg.contentType')), ctx)
        rs = api.raise_exits()
        for k, o in enumerate(rs, 1):
            st = o.st
            oblige(ex, st, 'raise#%d:is-ValueError' % k, o.val.cls is ValueError, ctx)
            oblige(ex, st, 'raise#%d:only-when-mixing-content-types' % k,
                   z3.And(z3.Not(to_val(box['bct0']) == to_val(VNone())),
                          z3.Not(to_val(box['bct0']) == to_val(attr(st.env['msg'], 'contentType')))), ctx)
            oblige(ex, st, 'raise#%d:leaves-buffer-and-transcript-untouched' % k,
                   z3.And(to_int(st.ghost.get('hash_updates')) == 0,
                          same(val_of(ex, st, fr, 'self._buffer'), box['buf0']),
                          same(val_of(ex, st, fr, 'self._buffer_content_type'), box['bct0'])), ctx)

    return m2task('_queue_message/transcript', ('C04',), TRL + '_queue_message', spec, check=check, setup=setup, opts=OPTS,
                  doc='a queued handshake message is hashed at queue time (the same bytes that are appended to the '
                      'coalescing buffer); the buffer never mixes content types')


def is_empty_bytes(v):
    from pyvc.values import VSeq
    return isinstance(v, VSeq) and v.t.eq(smt.s_empty)


def queue_flush_task():
    ctx = Ctx()
    box = {}

    def setup(ex, st, fr):
        entry_setup(ctx)(ex, st, fr)
        box['buf0'] = val_of(ex, st, fr, 'self._buffer')
        box['bct0'] = val_of(ex, st, fr, 'self._buffer_content_type')

    def h_sendMsg(ex, recv, args, kwargs, st, fr, node):
        k = ctx.ordinal('flush-send')
        m = args[0] if args else None
        uh = kwargs.get('update_hashes', args[2] if len(args) > 2 else None)
        # the queued bytes were hashed when they were queued (_queue_message task): hashing them again would put
        # every coalesced handshake message into the transcript twice
        oblige(ex, st, 'flush#%d:sends-with-update_hashes=False' % k,
               z3.Not(truthy(uh)) if uh is not None else False, ctx)
        c = ctx.cls_of.get(ctx.tid(m))
        oblige(ex, st, 'flush#%d:sends-the-whole-buffer-under-its-content-type' % k,
               z3.And(same(c[1][0], box['bct0']), same(c[1][1], box['buf0'])) if c and c[0] == 'Message' and len(c[1]) == 2
               else False, ctx)
        ex.havoc_call('_sendMsg', st)
        st.ghost['flushed'] = TRUE()
        return [Outcome('normal', st, VNone())]

    def on_store_buf(ex, obj, val, st, fr, node):
        oblige(ex, st, 'buffer-reset#%d:only-after-the-flush' % ctx.ordinal('reset'),
               truthy(st.ghost.get('flushed', FALSE())), ctx)

    hooks = send_hooks(ctx)
    hooks['_sendMsg'] = h_sendMsg
    spec = M2Spec(hooks=hooks, pure=PURE, props_as_fields=PROPS_AS_FIELDS,
                  on_store={'_buffer': on_store_buf, '_buffer_content_type': on_store_buf})

    def check(api):
        ex, fr = api.ex, api.fr
        ns = api.normal_exits()
        api.oblige(api.entry, 'has-normal-exit', len(ns) >= 1)
        api.oblige(api.entry, 'has-flush-send', ctx.counts.get('flush-send', 0) == 1)
        for k, o in enumerate(ns, 1):
            st = o.st
            oblige(ex, st, 'exit#%d:transcript-untouched-by-the-flush' % k, to_int(st.ghost.get('hash_updates')) == 0, ctx)
            oblige(ex, st, 'exit#%d:buffer-empty-and-untyped-afterwards' % k,
                   z3.And(F(ev(ex, st, fr, 'self._buffer_content_type is None')),
                          z3.BoolVal(is_empty_bytes(val_of(ex, st, fr, 'self._buffer')))), ctx)

    return m2task('_queue_flush/transcript', ('C04',), TRL + '_queue_flush', spec, check=check, setup=setup, opts=OPTS,
                  doc='the flush sends the whole coalescing buffer with update_hashes=False (its bytes were hashed at '
                      'queue time) and then resets the buffer')


sendmsg_task()
queue_message_task()
queue_flush_task()
REG.note('C04', 'trusted', 'M2 send side: msg.write() returns an arbitrary value that identifies the serialisation of '
         'its receiver (two calls are not assumed equal); HandshakeHashes.update assigns no TLSRecordLayer field; '
         '_sendMsgThroughSocket may assign any field the frame scan finds')
REG.note('C04', 'not_built', 'O-transcript-complete is shown per function (receive: _getMsg; send: _sendMsg, '
         '_queue_message, _queue_flush); that every handshake send in tlsconnection.py goes through one of these three '
         'is a call-site scan that is not in this module')


# ----------------------------------------------------------------------------------------------
# 9. AST tasks: yield transparency (C14), _getMsg call sites (C06/C08), defragmenter registration (C14)

import os as _os

from pyvc import source as _source
from pyvc.asttask import AstTask, dotted

GEN_FILES = ('tlsrecordlayer.py', 'recordlayer.py', 'messagesocket.py', 'tlsconnection.py')


def _own_nodes(fn):
    out = []

    def rec(x):
        for c in ast.iter_child_nodes(x):
            if isinstance(c, (ast.FunctionDef, ast.AsyncFunctionDef, ast.Lambda, ast.ClassDef)):
                continue
            out.append(c)
            rec(c)
    rec(fn)
    return out


def generator_names():
    root = _os.path.join(_source.REPO, 'tlslite')
    gens = set()
    for dp, dn, fns in _os.walk(root):
        for f in fns:
            if f.endswith('.py'):
                tree = _source.module_ast(_os.path.join(dp, f))
                for n in ast.walk(tree):
                    if isinstance(n, ast.FunctionDef) and any(isinstance(x, (ast.Yield, ast.YieldFrom)) for x in _own_nodes(n)):
                        gens.add(n.name)
    return gens


def value_generator_names():
    """generator functions that hand a RESULT to their caller by yielding it: some `yield e` where e is neither the constant
    0/1 nor the loop variable of an enclosing loop over a generator call (that is just forwarding).  Loops over such a
    callee must separate the 0/1 progress values from the final value."""
    root = _os.path.join(_source.REPO, 'tlslite')
    gens = generator_names()
    out = set()
    for dp, dn, fns in _os.walk(root):
        for f in fns:
            if not f.endswith('.py'):
                continue
            tree = _source.module_ast(_os.path.join(dp, f))
            for fn in ast.walk(tree):
                if not isinstance(fn, ast.FunctionDef):
                    continue
                own = _own_nodes(fn)
                fwd = set()
                for lp in own:
                    if isinstance(lp, ast.For) and isinstance(lp.iter, ast.Call) and isinstance(lp.target, ast.Name):
                        callee = lp.iter.func.attr if isinstance(lp.iter.func, ast.Attribute) else getattr(lp.iter.func, 'id', None)
                        if callee in gens:
                            fwd.add(lp.target.id)
                for y in own:
                    if isinstance(y, ast.Yield):
                        v = y.value
                        if v is None or (isinstance(v, ast.Constant) and v.value in (0, 1) and type(v.value) is int):
                            if v is None:
                                out.add(fn.name)
                            continue
                        if isinstance(v, ast.Name) and v.id in fwd:
                            continue
                        out.add(fn.name)
    return out


def _functions(tree):
    """(qualified name, FunctionDef) for every function, methods as Class.name"""
    out = []

    def rec(node, prefix):
        for c in ast.iter_child_nodes(node):
            if isinstance(c, ast.ClassDef):
                rec(c, prefix + c.name + '.')
            elif isinstance(c, (ast.FunctionDef, ast.AsyncFunctionDef)):
                out.append((prefix + c.name, c))
                rec(c, prefix + c.name + '.')
    rec(tree, '')
    return out


def _is_01(test, tgt):
    """exactly `<tgt> in (0, 1)`: both values, nothing else"""
    if not (isinstance(test, ast.Compare) and len(test.ops) == 1 and isinstance(test.ops[0], ast.In)
            and isinstance(test.left, ast.Name) and isinstance(tgt, ast.Name) and test.left.id == tgt.id
            and isinstance(test.comparators[0], (ast.Tuple, ast.List))):
        return False
    elts = test.comparators[0].elts
    if not all(isinstance(e, ast.Constant) and type(e.value) is int for e in elts):
        return False
    return sorted(e.value for e in elts) == [0, 1]


def _is_yield_of(stmt, tgt):
    return isinstance(stmt, ast.Expr) and isinstance(stmt.value, ast.Yield) and isinstance(stmt.value.value, ast.Name) \
        and isinstance(tgt, ast.Name) and stmt.value.value.id == tgt.id


def loop_idiom(loop):
    """name of the idiom the loop over a generator call matches exactly, else (None, why)"""
    tgt, body = loop.target, loop.body
    if loop.orelse:
        return None, 'for/else'
    if len(body) != 1:
        return None, 'body has %d statements' % len(body)
    b = body[0]
    if isinstance(b, ast.Pass):
        return 'drain', None
    if _is_yield_of(b, tgt):
        return 'passthrough', None
    if isinstance(b, ast.If):
        if not _is_01(b.test, tgt):
            return None, 'test is not `%s in (0, 1)`: %s' % (getattr(tgt, 'id', '?'), ast.unparse(b.test))
        then_yield = len(b.body) == 1 and _is_yield_of(b.body[0], tgt)
        then_pass = len(b.body) == 1 and isinstance(b.body[0], ast.Pass)
        if then_yield and not b.orelse:
            return 'await', None
        if then_yield and len(b.orelse) == 1 and isinstance(b.orelse[0], ast.Pass):
            return 'await', None
        if then_yield and len(b.orelse) == 1 and isinstance(b.orelse[0], ast.Break):
            return 'await-break', None
        # blocking wrapper (not a generator itself): swallow 0/1, return the value
        if then_pass and len(b.orelse) == 1 and isinstance(b.orelse[0], ast.Return) \
                and isinstance(b.orelse[0].value, ast.Name) and b.orelse[0].value.id == tgt.id:
            return 'blocking-return', None
        # 0/1 forwarded; a final value is either consumed by a non-yielding arm that returns, or breaks
        if then_yield and len(b.orelse) == 1 and isinstance(b.orelse[0], ast.If):
            e = b.orelse[0]
            arm = e.body
            no_yield = not any(isinstance(x, (ast.Yield, ast.YieldFrom)) for s in arm for x in ast.walk(s))
            if no_yield and arm and isinstance(arm[-1], ast.Return) and len(e.orelse) == 1 \
                    and isinstance(e.orelse[0], ast.Break):
                return 'await-dispatch', None
        return None, 'if-shape: then=%s else=%s' % ([type(x).__name__ for x in b.body], [type(x).__name__ for x in b.orelse])
    return None, 'body is %s' % type(b).__name__


class YieldTransparencyTask(AstTask):
    """C14: every loop over a generator call forwards exactly the callee's 0/1 results, immediately (no statement
    between obtaining and yielding), and treats everything else as the final value."""

    def __init__(self, fname):
        AstTask.__init__(self, 'yield-transparency[%s]' % fname, ('C14',), 'tlslite/%s' % fname,
                         doc='every `for r in <generator call>` in %s is one of the idioms passthrough / await / '
                             'await-break / drain (or the two enumerated variants blocking-return, await-dispatch) '
                             'with the test `r in (0, 1)`' % fname)
        self.fname = fname

    def run(self, reg, meta):
        gens = generator_names()
        valued = value_generator_names()
        path = _os.path.join(_source.REPO, 'tlslite', self.fname)
        tree = _source.module_ast(path)
        n = 0
        counts = {}
        for qn, fn in _functions(tree):
            loops = [x for x in _own_nodes(fn) if isinstance(x, ast.For) and isinstance(x.iter, ast.Call)]
            loops = [x for x in loops if (x.iter.func.attr if isinstance(x.iter.func, ast.Attribute) else
                                          getattr(x.iter.func, 'id', None)) in gens]
            loops.sort(key=lambda x: (x.lineno, x.col_offset))
            for k, lp in enumerate(loops, 1):
                idiom, why = loop_idiom(lp)
                n += 1
                counts[idiom] = counts.get(idiom, 0) + 1
                callee = lp.iter.func.attr if isinstance(lp.iter.func, ast.Attribute) else lp.iter.func.id
                self.holds('loop[%s#%d over %s]:forwards-exactly-0/1-immediately' % (qn, k, callee), 'ast-idiom',
                           idiom is not None, reason='line %d: %s' % (lp.lineno, why),
                           where='tlslite/%s:%d' % (self.fname, lp.lineno), qual='tlslite/%s:%s' % (self.fname, qn))
                in_gen = any(isinstance(x, (ast.Yield, ast.YieldFrom)) for x in _own_nodes(fn))
                # (a blocking wrapper, itself no generator, may drain the callee and use the last value: TLSRecordLayer.read)
                if callee in valued and (idiom == 'passthrough' or (idiom == 'drain' and in_gen)):
                    # the callee ends by yielding its result: forwarding everything (or dropping everything) treats that
                    # result as a progress value -- the asynchronous caller then sees a non-0/1 value / loses the result
                    self.holds('loop[%s#%d over %s]:result-of-a-value-yielding-callee-is-separated-from-0/1' % (qn, k, callee), 'ast-idiom',
                               False, reason='line %d: %s yields a result, the loop is a plain %s' % (lp.lineno, callee, idiom),
                               where='tlslite/%s:%d' % (self.fname, lp.lineno), qual='tlslite/%s:%s' % (self.fname, qn))
        meta['paths'] = n
        meta['assumptions'] = ['generator calls are recognised by callee *name* (any function of that name in tlslite '
                               'that contains yield); idiom counts: %s' % sorted(counts.items(), key=str)]
        self.holds('has-generator-loops', 'ast-cover', n >= 1, reason='no loop over a generator call found')


for _f in GEN_FILES:
    REG.add_task(YieldTransparencyTask(_f))
REG.note('C14', 'assumptions', 'yield-transparency: the two non-standard shapes of the pinned tree are enumerated as idioms '
         'of their own (blocking-return in MessageSocket.recvMessageBlocking: not a generator, swallows 0/1 and returns '
         'the value; await-dispatch in _handshakeServerAsyncHelper: 0/1 forwarded, None -> finish, else break)')


def _const_names(node, cls):
    """set of attribute names for an expression made of <cls>.<name> and tuples of them; None if not of that form"""
    if isinstance(node, ast.Attribute) and isinstance(node.value, ast.Name) and node.value.id == cls:
        return {node.attr}
    if isinstance(node, ast.Constant) and node.value is None:
        return set()
    if isinstance(node, (ast.Tuple, ast.List)):
        out = set()
        for e in node.elts:
            r = _const_names(e, cls)
            if r is None:
                return None
            out |= r
        return out
    if isinstance(node, ast.IfExp):                 # a if c else b: either
        a, b = _const_names(node.body, cls), _const_names(node.orelse, cls)
        return None if a is None or b is None else a | b
    return None


def _resolve(node, fn, cls):
    """names an argument can denote: literal, or a local name assigned only literals in the enclosing function"""
    r = _const_names(node, cls)
    if r is not None:
        return r
    if isinstance(node, ast.Name):
        vals = [a.value for a in _own_nodes(fn) if isinstance(a, ast.Assign)
                and any(isinstance(t, ast.Name) and t.id == node.id for t in a.targets)]
        if not vals:
            return None
        out = set()
        for v in vals:
            r = _const_names(v, cls)
            if r is None:
                return None
            out |= r
        return out
    return None


class GetMsgCallSitesTask(AstTask):
    """preconditions of the _getMsg gate contract, discharged at every call site"""

    def __init__(self):
        AstTask.__init__(self, 'getmsg-call-sites', ('C06', 'C08'), TRL + '_getMsg',
                         doc='every _getMsg call names only content types that have a message class '
                             '(ccs/alert/handshake/application_data) and only handshake types the dispatch knows, so '
                             'the AssertionError / fall-through exits of _getMsg are unreachable')

    def run(self, reg, meta):
        root = _os.path.join(_source.REPO, 'tlslite')
        ok_ct = {'change_cipher_spec', 'alert', 'handshake', 'application_data'}
        ok_hs = set(HS_CLASS.values())
        n = 0
        for f in sorted(_os.listdir(root)):
            if not f.endswith('.py'):
                continue
            tree = _source.module_ast(_os.path.join(root, f))
            for qn, fn in _functions(tree):
                calls = [c for c in _own_nodes(fn) if isinstance(c, ast.Call) and isinstance(c.func, ast.Attribute)
                         and c.func.attr == '_getMsg']
                calls.sort(key=lambda c: (c.lineno, c.col_offset))
                for k, c in enumerate(calls, 1):
                    n += 1
                    kw = {x.arg: x.value for x in c.keywords}
                    a0 = c.args[0] if c.args else kw.get('expectedType')
                    a1 = c.args[1] if len(c.args) > 1 else kw.get('secondaryType')
                    where = 'tlslite/%s:%d' % (f, c.lineno)
                    cts = _resolve(a0, fn, 'ContentType') if a0 is not None else None
                    self.holds('call[%s:%s#%d]:expectedType-names-only-content-types-with-a-message-class' % (f, qn, k),
                               'ast-callsite', cts is not None and cts <= ok_ct and len(cts) >= 1,
                               reason='expectedType = %s' % (ast.unparse(a0) if a0 is not None else None), where=where)
                    hts = _resolve(a1, fn, 'HandshakeType') if a1 is not None else set()
                    need = cts is not None and 'handshake' in cts
                    self.holds('call[%s:%s#%d]:secondaryType-names-only-dispatchable-handshake-types' % (f, qn, k),
                               'ast-callsite', hts is not None and hts <= ok_hs and (len(hts) >= 1 or not need),
                               reason='secondaryType = %s' % (ast.unparse(a1) if a1 is not None else None), where=where)
        meta['paths'] = n
        self.holds('has-call-sites', 'ast-cover', n >= 30, reason='%d call sites' % n)


REG.add_task(GetMsgCallSitesTask())


class DefragRegistrationTask(AstTask):
    """what _getNextRecord relies on when it calls add_data: TLSRecordLayer.__init__ registers exactly
    change_cipher_spec (1 byte), alert (2 bytes, RFC 5246 s7.2) and handshake (1 byte type + 3 byte length,
    RFC 5246 s7.4) with the defragmenter, in that priority order"""

    def __init__(self):
        AstTask.__init__(self, 'defragmenter-registration', ('C14', 'C08'), TRL + '__init__',
                         doc='the connection defragmenter knows exactly CCS/alert/handshake with the RFC framing')

    def run(self, reg, meta):
        tree = _source.module_ast(_os.path.join(_source.REPO, 'tlslite', 'tlsrecordlayer.py'))
        init = [fn for qn, fn in _functions(tree) if qn == 'TLSRecordLayer.__init__'][0]
        regs = []
        for c in sorted([c for c in _own_nodes(init) if isinstance(c, ast.Call)], key=lambda c: c.lineno):
            d = dotted(c.func)
            if d in ('self._defragmenter.add_static_size', 'self._defragmenter.add_dynamic_size'):
                regs.append((d.split('.')[-1],) + tuple(ast.unparse(a) for a in c.args))
        want = [('add_static_size', 'ContentType.change_cipher_spec', '1'),
                ('add_static_size', 'ContentType.alert', '2'),
                ('add_dynamic_size', 'ContentType.handshake', '1', '3')]
        self.holds('registers-ccs(1)-alert(2)-handshake(1+3)-in-priority-order', 'ast', regs == want,
                   reason='found %r' % (regs,))
        # the defragmenter object is created once: nobody replaces it by an unconfigured one
        root = _os.path.join(_source.REPO, 'tlslite')
        stores = []
        for f in sorted(_os.listdir(root)):
            if f.endswith('.py'):
                t = _source.module_ast(_os.path.join(root, f))
                for qn, fn in _functions(t):
                    for x in _own_nodes(fn):
                        if isinstance(x, ast.Attribute) and isinstance(x.ctx, ast.Store) and x.attr == '_defragmenter':
                            stores.append('%s:%s' % (f, qn))
        self.holds('_defragmenter-assigned-only-in-TLSRecordLayer.__init__', 'ast',
                   stores == ['tlsrecordlayer.py:TLSRecordLayer.__init__'], reason='stores: %r' % (stores,))


REG.add_task(DefragRegistrationTask())


# ----------------------------------------------------------------------------------------------
# bounded differential runs (specs/getmsg.py): real _getMsg against the reference gate decision; the three sends
# _getMsg performs on its own under a failing socket
REG.xchecks.append({'prop': 'C06', 'module': 'specs.getmsg', 'name': 'getmsg_gate', 'function': TRL + '_getMsg'})
REG.xchecks.append({'prop': 'C17', 'module': 'specs.getmsg', 'name': 'getmsg_transport_failure', 'function': TRL + '_getMsg'})


# ----------------------------------------------------------------------------------------------
# 10. C06: "renegotiation attempts are refused and never start a second handshake" -- the entry gate of every
#     handshake, TLSRecordLayer._handshakeStart

def handshake_start_task():
    ctx = Ctx()
    box = {}

    def setup(ex, st, fr):
        entry_setup(ctx)(ex, st, fr)
        me = st.env['self']
        st.heap[(me.oid, 'closed')] = fresh_opaque('fld_closed')
        box['closed0'] = st.heap[(me.oid, 'closed')]
        box['hash0'] = st.heap[(me.oid, '_handshake_hash')]
        box['client0'] = st.heap[(me.oid, '_client')]

    def h_clear(ex, recv, args, kwargs, st, fr, node):
        st.ghost['defrag_cleared'] = VBool(same(recv, val_of(ex, st, fr, 'self._defragmenter')))
        return [Outcome('normal', st, VNone())]

    spec = M2Spec(hooks={'HandshakeHashes': ctor_hook(ctx, 'HandshakeHashes'), 'clear_buffers': h_clear}, pure=PURE,
                  props_as_fields=PROPS_AS_FIELDS)

    def check(api):
        ex, fr = api.ex, api.fr
        ns, rs = api.normal_exits(), api.raise_exits()
        api.oblige(api.entry, 'has-normal-and-refusing-exit', len(ns) >= 1 and len(rs) >= 1)
        for k, o in enumerate(ns, 1):
            st = o.st
            oblige(ex, st, 'start#%d:only-on-a-closed-connection (no handshake is in progress or complete)' % k,
                   truthy(box['closed0']), ctx)
            oblige(ex, st, 'start#%d:transcript-starts-from-a-fresh-HandshakeHashes' % k,
                   cls_name(ctx, val_of(ex, st, fr, 'self._handshake_hash')) == 'HandshakeHashes', ctx)
            oblige(ex, st, 'start#%d:no-stale-message-fragments-survive' % k,
                   truthy(st.ghost.get('defrag_cleared', FALSE())), ctx)
            oblige(ex, st, 'start#%d:role-recorded' % k, same(val_of(ex, st, fr, 'self._client'), st.env.get('client')), ctx)
        for k, o in enumerate(rs, 1):
            st = o.st
            oblige(ex, st, 'refuse#%d:raises-ValueError' % k, o.val.cls is ValueError, ctx)
            oblige(ex, st, 'refuse#%d:only-when-the-connection-is-not-closed' % k, z3.Not(truthy(box['closed0'])), ctx)
            oblige(ex, st, 'refuse#%d:running-connection-untouched (transcript, role, fragments)' % k,
                   z3.And(same(val_of(ex, st, fr, 'self._handshake_hash'), box['hash0']),
                          same(val_of(ex, st, fr, 'self._client'), box['client0']),
                          z3.Not(truthy(st.ghost.get('defrag_cleared', FALSE())))), ctx)

    return m2task('_handshakeStart/no-second-handshake', ('C06',), TRL + '_handshakeStart', spec, check=check, setup=setup,
                  opts=OPTS,
                  doc='a handshake can only start on a closed connection (ValueError otherwise, nothing touched); it '
                      'starts from a fresh transcript and an empty defragmenter')


handshake_start_task()
