"""M2 tasks on the SERVER side of tlslite/tlsconnection.py (C03, C04, C05, C08, C11, C13, C19).

Executor: pyvc/m2x.py (M2 + site hooks, loop refinement, 3-way generator idiom).  Every obligation is taken
from the property text / the RFC named in its comment, not from what the code does.  Expected refutations on
the pinned tree (each reproduced on the real code, see specs/m2_server.py and design_probes/f17..f19):
  F8  AlertDescription.decoder_error does not exist (two sites)                       -> AttributeError
  F9  sni_ext.hostNames[0] with an SNI extension without host_name entries            -> IndexError
  F17 version floor: a ClientHello without supported_versions and legacy version > (3,3) is answered with
      TLS 1.2 even when settings.minVersion == (3,4)                                   -> C03 violated
  F18 `supported.groups` on a missing supported_groups extension (psk_ke only ClientHello with key_share)
                                                                                       -> AttributeError
  F19 `selected_group` unbound in _serverTLS13Handshake (psk_ke only, PSK not accepted, no key_share)
                                                                                       -> UnboundLocalError
"""
import ast

import z3

from tlslite.constants import (AlertDescription, CipherSuite, ExtensionType, ContentType, HandshakeType)
from pyvc.m2 import M2Spec, NoReturn, fresh_opaque
from pyvc.m2x import (m2xtask, term_mentions, V_CONCAT, V_EMPTY_LIST, V_IN, V_GETITEM)
from pyvc.executor import Outcome
from pyvc.values import (V, VBool, VPy, VOpaque, VInt, VNone, VTuple, VList, VObj, VStr, VExc, truthy, to_val, eq_op,
                         v_truthy, v_none, v_int, v_tup2, val_int, Unsupported)
from pyvc.contract import REG
from pyvc import smt
from contracts.m2_common import TC, h_sendError

Val = smt.Val
PROPS_ALL = ('C03', 'C04', 'C05', 'C08', 'C11', 'C13', 'C19')


# ---------------------------------------------------------------------------------------------------
# term helpers

def UF(name, *sorts):
    return z3.Function(name, *sorts)


def attr_t(name, t):
    return UF('v_attr_' + name, Val, Val)(t)


def A(name, v):
    return VOpaque(attr_t(name, to_val(v)))


GETEXT = UF('pure_getExtension_2', Val, Val, Val)
V_LEN = UF('v_len', Val, smt.I)
CMP = dict((k, UF('v_cmp_' + k, Val, Val, smt.B)) for k in ('lt', 'le', 'gt', 'ge'))


def ext_of(ch, etype):
    """term of `ch.getExtension(etype)` (getExtension is modelled as a pure method)"""
    return GETEXT(attr_t('getExtension', to_val(ch)), v_int(z3.IntVal(int(etype))))


def tup(a, b):
    return v_tup2(v_int(z3.IntVal(a)), v_int(z3.IntVal(b)))


def T(v):
    return to_val(v)


def is_const_int(v, n):
    if not isinstance(v, VInt):
        return False
    s = z3.simplify(v.t)
    return z3.is_int_value(s) and s.as_long() == n


def apps(formulas, pred):
    """all sub-terms t of the formulas with pred(t)"""
    seen, out, stack = set(), [], list(formulas)
    while stack:
        e = stack.pop()
        k = e.get_id()
        if k in seen:
            continue
        seen.add(k)
        if z3.is_quantifier(e):
            continue
        if z3.is_app(e):
            if pred(e):
                out.append(e)
            stack.extend(e.children())
    return out


# ---- protocol versions are (major, minor) int pairs ordered lexicographically ------------------------------
# Python compares tuples lexicographically; for pairs of small non-negative ints that is the order of
# rank(v) = 256*major + minor.  The M2 abstraction keeps `a < b` on opaque values as the uninterpreted
# predicate v_cmp_lt(a, b); the facts below are ground instances (for the comparison terms that occur in the
# formulas at hand) of:  v_cmp_op(a, b) <=> rank(a) op rank(b);  rank((x, y)) = 256 x + y for literals;
# a == b <=> rank(a) == rank(b) for values that are compared with a version.
RANK = UF('version_rank', Val, smt.I)


def order_facts(formulas):
    cmps = apps(formulas, lambda e: e.decl().name() in ('v_cmp_lt', 'v_cmp_le', 'v_cmp_gt', 'v_cmp_ge'))
    facts, terms = [], {}
    for c in cmps:
        a, b = c.arg(0), c.arg(1)
        op = c.decl().name()[-2:]
        ra, rb = RANK(a), RANK(b)
        facts.append(c == {'lt': ra < rb, 'le': ra <= rb, 'gt': ra > rb, 'ge': ra >= rb}[op])
        terms[a.get_id()] = a
        terms[b.get_id()] = b
    # literal pairs
    lits = apps(list(formulas), lambda e: e.decl().name() == 'v_tup2' and all(
        z3.is_app(x) and x.decl().name() == 'v_int' and z3.is_int_value(z3.simplify(x.arg(0))) for x in e.children()))
    for l in lits:
        x, y = [z3.simplify(c.arg(0)).as_long() for c in l.children()]
        facts.append(RANK(l) == 256 * x + y)
        terms[l.get_id()] = l
    # if-then-else terms among the compared values: look inside
    todo = list(terms.values())
    while todo:
        t = todo.pop()
        if z3.is_app(t) and t.decl().kind() == z3.Z3_OP_ITE:
            for ch in t.children()[1:]:
                if ch.get_id() not in terms:
                    terms[ch.get_id()] = ch
                    todo.append(ch)
    ts = list(terms.values())
    for i in range(len(ts)):
        for j in range(i + 1, len(ts)):
            facts.append((ts[i] == ts[j]) == (RANK(ts[i]) == RANK(ts[j])))
    return facts


def oblige_ordered(ex, st, name, goal, extra=()):
    """obligation `goal` under the version-order facts for the comparison terms of pc and goal"""
    fs = order_facts(list(st.pc) + [goal] + list(extra))
    ex.oblige(st, name, z3.Implies(z3.And(fs + list(extra) + [z3.BoolVal(True)]), goal), kind='m2')


REG.note('C03', 'assumptions',
         'm2_server: protocol versions (ClientHello.client_version, entries of supported_versions, '
         'settings.minVersion/maxVersion/versions) are (int, int) tuples; their Python order is the order of '
         '256*major+minor (ground instances of this are added to the version obligations)')


# ---- site naming: ordinal of an AST node among the nodes of the same kind in the function -----------------

def site(fr, node, pred, label):
    nodes = [n for n in ast.walk(fr.fs.node) if pred(n)]
    nodes.sort(key=lambda n: (getattr(n, 'lineno', 0), getattr(n, 'col_offset', 0)))
    for k, n in enumerate(nodes):
        if n is node:
            return '%s#%d' % (label, k + 1)
    return '%s#?' % label


def src(node):
    try:
        return ast.unparse(node)
    except Exception:
        return '?'


# ---- names that may be unbound ----------------------------------------------------------------------------

def UNBOUND(name):
    return z3.Const('UNBOUND_' + name, Val)


def prebind(*names):
    def setup(ex, st, fr):
        for n in names:
            st.env[n] = VOpaque(UNBOUND(n))
    return setup


def unbound_cond(t, u):
    if t.eq(u):
        return z3.BoolVal(True)
    if z3.is_app(t) and t.decl().kind() == z3.Z3_OP_ITE:
        c, a, b = t.children()
        return z3.Or(z3.And(c, unbound_cond(a, u)), z3.And(z3.Not(c), unbound_cond(b, u)))
    return z3.BoolVal(False)


def make_on_name(names, done=None):
    """C08: a local that is assigned only on some paths must be bound at every load (else UnboundLocalError,
    an undocumented exception).  The M2 merge would silently drop such a name; the tasks bind it to a marker
    at entry and this hook demands that the marker is not what a load sees."""
    def on_name(ex, name, val, st, fr, node):
        if name in names and isinstance(val, VOpaque) and term_mentions(val.t, [UNBOUND(name)]):
            where = site(fr, node, lambda n: isinstance(n, ast.Name) and n.id == name and isinstance(n.ctx, ast.Load),
                         name)
            ex.oblige(st, 'C08:local-bound-at-use:%s' % where,
                      z3.Not(unbound_cond(val.t, UNBOUND(name))), kind='m2')
    return on_name


# ---------------------------------------------------------------------------------------------------
# shared hooks

def h_getFirstMatching(ex, recv, args, kwargs, st, fr, node):
    """utils/lists.py getFirstMatching(values, matches): None, or an element of `values` that is in `matches`
    (contract proved on the real body by task m2:getFirstMatching)."""
    r = fresh_opaque('firstMatching')
    st.events.append(('getFirstMatching', args, r))
    try:
        st.assume(z3.Or(r.t == v_none, z3.And(V_IN(r.t, T(args[0])), V_IN(r.t, T(args[1])))))
    except Unsupported:
        pass
    return [Outcome('normal', st, r)]


# ===================================================================================================
# _serverGetClientHello
# ===================================================================================================

SGC = TC + '_serverGetClientHello'
SUITE_GETTERS = ('getSrpCertSuites', 'getSrpSuites', 'getTLS13Suites', 'getEcdsaSuites', 'getEcdheCertSuites',
                 'getDheCertSuites', 'getDheDsaSuites', 'getCertSuites', 'getAnonSuites', 'getEcdhAnonSuites')
SGC_PURE = {'getExtension', 'copy', 'digest', 'decode', 'is_valid_hostname', 'toStr', 'intersection',
            '_curveNamesToList', '_groupNamesToList', '_getPRFParams', 'len', 'set', 'str', 'format'}
REG.note('C03', 'trusted',
         'm2_server/_serverGetClientHello: pure callees (results are functions of receiver and arguments, no heap '
         'effect; read): ClientHello.getExtension (scan of self.extensions), HandshakeHashes.copy/digest, '
         'bytearray.decode, is_valid_hostname, GroupName.toStr, frozenset.intersection, _curveNamesToList, '
         '_groupNamesToList, _getPRFParams.  getFirstMatching(values, matches) returns None or an element of '
         'values that is in matches (utils/lists.py, 3 lines, read).')


class Exits(object):
    """exit states of a coroutine that signals its result with `yield <value>`"""

    def __init__(self):
        self.resumed = []       # (st, value)  `yield None`
        self.full = []          # (st, VTuple) `yield (clientHello, version, ...)`
        self.other = []

    def on_yield(self, ex, val, st, fr, ynode):
        # the generator idioms `yield result` pass values of sub-coroutines through: not exits
        if isinstance(ynode.value, ast.Name):
            return
        if isinstance(val, VNone):
            self.resumed.append((st.fork(), val))
        elif isinstance(val, VTuple):
            self.full.append((st.fork(), val))
        else:
            self.other.append((st.fork(), val))


def alert_exits(api, desc):
    """_sendError exits whose alert description is the constant `desc`"""
    out = []
    for o in api.raise_exits(NoReturn):
        a = o.val.args[0] if o.val.args else None
        if is_const_int(a, int(desc)):
            out.append(o)
    return out


def h_select_certificate(ex, recv, args, kwargs, st, fr, node):
    """_server_select_certificate(settings, client_hello, cipher_suites, cert_chain, private_key, version)
    -> (cipher, sig_scheme, cert, key) with cipher in cipher_suites and in client_hello.cipher_suites
    (task m2:_server_select_certificate/selection); raises TLSHandshakeFailure / TLSInsufficientSecurity /
    TLSIllegalParameterException."""
    from tlslite.errors import TLSHandshakeFailure, TLSInsufficientSecurity, TLSIllegalParameterException
    r = fresh_opaque('select_certificate')
    st.events.append(('_server_select_certificate', args, r))
    st.ghost['select_args'] = VTuple(list(args))
    st.ghost['select_result'] = r
    outs = []
    for cls in (TLSHandshakeFailure, TLSInsufficientSecurity, TLSIllegalParameterException):
        outs.append(Outcome('raise', st.fork(), VExc(cls, [], '_server_select_certificate raises %s' % cls.__name__)))
    c = V_GETITEM(r.t, v_int(z3.IntVal(0)))
    st.assume(z3.And(V_IN(c, T(args[2])), V_IN(c, attr_t('cipher_suites', T(args[1])))))
    outs.append(Outcome('normal', st, r))
    return outs


def sgc_setup(ex, st, fr):
    prebind('selected_group', 'cl_key_share', 'cookie', 'name')(ex, st, fr)
    me = st.env['self']
    for f in ('_send_record_limit', '_recv_record_limit', '_peer_record_size_limit'):
        st.heap[(me.oid, f)] = VOpaque(z3.Const('initial_' + f, Val))


# ---------------------------------------------------------------------------------------------------
# T1  version negotiation, TLS_FALLBACK_SCSV (C03, C04)

def _t1():
    exits = Exits()
    spec = M2Spec(hooks={'_sendError': h_sendError, 'getFirstMatching': h_getFirstMatching,
                         '_server_select_certificate': h_select_certificate},
                  pure=SGC_PURE | set(SUITE_GETTERS) | {'filterForVersion'}, on_yield=exits.on_yield)

    def version_facts(st, version):
        s = st.env['settings']
        ch = exits.ch1 if hasattr(exits, 'ch1') else st.env['clientHello']
        return s, ch

    def check(api):
        entry = api.entry
        settings = entry.env['settings']
        minv, maxv = attr_t('minVersion', T(settings)), attr_t('maxVersion', T(settings))
        versions = attr_t('versions', T(settings))
        SCSV = v_int(z3.IntVal(CipherSuite.TLS_FALLBACK_SCSV))
        api.oblige(entry, 'cover:full-handshake-exit-reached', len(exits.full) >= 1)
        api.oblige(entry, 'cover:resumed-exit-reached', len(exits.resumed) >= 1)
        for kind, lst in (('full', exits.full), ('resumed', exits.resumed)):
            for (st, val) in lst:
                v = T(st.env['version'])
                ch = st.ghost.get('first_client_hello')
                ch = T(ch) if ch is not None else None
                # C03: "every negotiated parameter (version ...) lies inside what each side's own settings allow"
                oblige_ordered(api.ex, st, 'C03:%s-exit:version-within-server-settings' % kind,
                               z3.Or(V_IN(v, versions), z3.And(CMP['le'](minv, v), CMP['le'](v, maxv))))
                if kind == 'full':
                    api.oblige(st, 'C03:full-exit:yielded-version-is-the-negotiated-one', T(val.items[1]) == v)
        # the ClientHello the version was negotiated from: the first one (a second one after HelloRetryRequest must
        # equal it, task hello-retry); use the events of _getMsg
        for kind, lst in (('full', exits.full), ('resumed', exits.resumed)):
            for (st, val) in lst:
                v = T(st.env['version'])
                ch1 = T(st.ghost['ch1'])
                suites = attr_t('cipher_suites', ch1)
                cver = attr_t('client_version', ch1)
                vext = ext_of(st.ghost['ch1'], ExtensionType.supported_versions)
                # RFC 7507 section 3: SCSV present and the server's highest version is higher than the one
                # negotiated => MUST abort (so no exit with both)
                oblige_ordered(api.ex, st, 'C04:%s-exit:no-exit-with-FALLBACK_SCSV-and-version-below-maxVersion' % kind,
                               z3.Not(z3.And(V_IN(SCSV, suites), CMP['lt'](v, maxv))))
                # RFC 8446 4.2.1 / D.1: TLS 1.3 is negotiated only through supported_versions
                oblige_ordered(api.ex, st, 'C03:%s-exit:TLS13-only-via-supported_versions' % kind,
                               z3.Implies(CMP['ge'](v, tup(3, 4)), V_IN(v, attr_t('versions', vext))))
                # C03 (client policy): the version is one the client offered, or not above its legacy version
                oblige_ordered(api.ex, st, 'C03:%s-exit:version-offered-by-client' % kind,
                               z3.Or(V_IN(v, attr_t('versions', vext)), CMP['le'](v, cver)))
        # the abort with inappropriate_fallback happens only under the RFC 7507 condition
        fb = alert_exits(api, AlertDescription.inappropriate_fallback)
        api.oblige(entry, 'cover:inappropriate_fallback-abort-exists', len(fb) >= 1)
        for o in fb:
            st = o.st
            ch1 = T(st.ghost['ch1'])
            oblige_ordered(api.ex, st, 'C04:inappropriate_fallback-alert-only-if-SCSV-and-version-below-maxVersion',
                           z3.And(V_IN(SCSV, attr_t('cipher_suites', ch1)), CMP['lt'](T(st.env['version']), maxv)))
        pv = alert_exits(api, AlertDescription.protocol_version)
        api.oblige(entry, 'cover:protocol_version-abort-exists', len(pv) >= 2)
    return spec, check


def h_getMsg_ch(ex, recv, args, kwargs, st, fr, node):
    """_getMsg(handshake, client_hello): remember the first ClientHello"""
    r = fresh_opaque('clientHello_msg')
    st.events.append(('_getMsg', args, r))
    ex.havoc_call('_getMsg', st)
    if 'ch1' not in st.ghost:
        st.ghost['ch1'] = r
    else:
        st.ghost['ch2'] = r
    return [Outcome('normal', st, r)]


_spec1, _check1 = _t1()
_spec1.hooks['_getMsg'] = h_getMsg_ch
m2xtask('_serverGetClientHello/version-negotiation', ('C03', 'C04'), SGC, _spec1, check=_check1, setup=sgc_setup,
        doc='server: negotiated version inside settings (versions / [minVersion, maxVersion]) and inside what the '
            'client offered; TLS 1.3 only via supported_versions; TLS_FALLBACK_SCSV aborts iff version < maxVersion '
            '(RFC 7507)')
