"""M2 tasks on tlslite/tlsrecordlayer.py."""
import z3

from tlslite.errors import TLSLocalAlert
from pyvc.m2 import M2Spec, m2task, NoReturn
from pyvc.values import VBool, VPy, VOpaque, VInt, truthy, to_val, eq_op
from pyvc.contract import REG
from contracts.m2_common import TRL, TC


def _check_sendError(api):
    # 1. never returns normally
    for o in api.normal_exits():
        api.unreachable(o.st, 'never-returns-normally')
    rs = api.raise_exits()
    for o in rs:
        api.oblige(o.st, 'raises-TLSLocalAlert', o.val.cls is TLSLocalAlert)
        ev = [e[0] for e in o.st.events]
        ok_order = ('_sendMsg' in ev and '_shutdown' in ev and ev.index('_sendMsg') < ev.index('_shutdown'))
        api.oblige(o.st, 'alert-sent-before-shutdown', ok_order)
        sh = api.events(o.st, '_shutdown')
        api.oblige(o.st, 'shutdown-not-resumable',
                   len(sh) == 1 and eq_op(sh[0][1][-1], VBool(z3.BoolVal(False))).t)
        cr = api.events(o.st, 'create')
        # the alert object is created with (alertDescription, AlertLevel.fatal)
        from tlslite.constants import AlertLevel
        good = len(cr) >= 1 and eq_op(cr[0][1][-1], VInt(AlertLevel.fatal)).t
        api.oblige(o.st, 'alert-level-fatal', good)
        same = len(cr) >= 1 and eq_op(cr[0][1][-2], api.entry.env['alertDescription']).t
        api.oblige(o.st, 'alert-description-is-argument', same)
    api.oblige(api.entry, 'has-a-raising-exit', len(rs) >= 1)


m2task('_sendError', ('C02', 'C08', 'C17'), TRL + '_sendError', M2Spec(), check=_check_sendError,
       doc='_sendError never returns normally: it sends one fatal alert with the given description, then '
           '_shutdown(False), then raises TLSLocalAlert')
