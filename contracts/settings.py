"""C19 -- HandshakeSettings.validate(): frame (AST alias analysis) and rejection
of out-of-domain values (deductive contracts on the _sanityCheck* helpers).
"""
from pyvc.contract import contract, REG
from pyvc.framecheck import FrameTask

HS = 'tlslite/handshakesettings.py:HandshakeSettings.'

# --------------------------------------------------------------------------
# O-validate-frame.  Element types of receiver containers whose elements get a method called on them are taken
# from the class docstrings (virtual_hosts: list of VirtualHost, VirtualHost.keys: list of Keypair).
REG.add_task(FrameTask(HS + 'validate', 'C19',
                       elem_types={'virtual_hosts': 'VirtualHost', 'keys': 'Keypair'},
                       pure_calls=('ECPointFormat.toStr',)))

REG.note('C19', 'trusted', 'O-validate-frame is decided by a flow- and context-sensitive points-to analysis of the real '
         'AST of validate() and of every helper it reaches in tlslite/handshakesettings.py (pyvc/framecheck.py): '
         'allocation-site abstraction, strong updates on objects allocated once in the activation; list / set / dict '
         'displays, comprehensions, slices x[a:b], list()/set()/sorted()/.copy() and + build new objects; attribute '
         'loads from the receiver denote the receiver\'s own field objects')
REG.note('C19', 'assumptions', 'elements of self.virtual_hosts are VirtualHost objects and VirtualHost.keys holds Keypair '
         'objects (class docstrings); ECPointFormat.toStr is pure (reads class constants); builtins len/any/all/'
         'isinstance/str.format/set()/list() do not mutate their arguments')
REG.note('C19', 'assumptions', 'both values of the installation flags (cryptomath.m2cryptoLoaded, pycryptoLoaded, '
         'cipherfactory.tripleDESPresent) are analysed: a mutation site under `if not <flag>` counts as reachable')

# --------------------------------------------------------------------------
# O-validate-reject on the helpers that check integer / range / flag fields.
# Specification side: the documented domains (class docstring; RFC 8446 4.6.1 for the ticket lifetime,
# RFC 8449 for record_size_limit), *not* the code.  `raises={ValueError: ('iff', out_of_domain)}` states both
# directions: out of domain => ValueError, in domain => accepted; every other exception is a safety obligation.
import tlslite.handshakesettings as HSM
from pyvc.state import T
from pyvc import spec as S
from pyvc import symcoll            # T.vlist, set()/any()/all() models
from pyvc.values import VStr
from pyvc.executor import Outcome

H = HSM.HandshakeSettings
VERSION = T.tuple(T.int(), T.int())
KNOWN = ((3, 0), (3, 1), (3, 2), (3, 3), (3, 4))


def _f(ns, name):
    return ns.f(ns.other, name)


def _unchanged(ns, *names):
    return S.And(*[_f(ns, n) == _f(ns.old, n) for n in names])


# -- key sizes ---------------------------------------------------------------
# domain: bit lengths; 512 <= minKeySize <= maxKeySize <= 16384 (no range is documented beyond "bit length";
# the bounds are the library's declared limits, see assumptions)
contract(HS + '_sanityCheckKeySizes',
         params={'other': T.obj(H, minKeySize=T.int(), maxKeySize=T.int(), virtual_hosts=T.vlist())},
         raises={ValueError: ('iff', lambda ns: S.Not(S.And(512 <= _f(ns, 'minKeySize'),
                                                             _f(ns, 'minKeySize') <= _f(ns, 'maxKeySize'),
                                                             _f(ns, 'maxKeySize') <= 16384)))},
         ensures=lambda ns: _unchanged(ns, 'minKeySize', 'maxKeySize'),
         exc_ensures=lambda ns: _unchanged(ns, 'minKeySize', 'maxKeySize'),
         prop='C19', doc='ValueError exactly when not 512 <= minKeySize <= maxKeySize <= 16384 (no virtual hosts); '
                         'nothing else is raised; the fields are not modified')


# -- protocol versions -------------------------------------------------------
def _known(v):
    return S.Or(*[v == k for k in KNOWN])


def _versions_post(ns):
    new = _f(ns, 'versions')
    old = _f(ns.old, 'versions')
    mx = _f(ns.old, 'maxVersion')
    below = mx < (3, 4)
    kept = [S.Or(*[n == o for o in old.items]) for n in new.items]                     # nothing invented
    cut = [S.implies(below, n < (3, 4)) for n in new.items]                            # TLS 1.3 removed below 1.3
    # every old entry that is allowed is still there
    stay = [S.implies(S.Or(S.Not(below), o < (3, 4)), S.Or(*[n == o for n in new.items])) for o in old.items]
    return S.And(*(kept + cut + stay))


contract(HS + '_sanityCheckProtocolVersions',
         params={'other': T.obj(H, minVersion=VERSION, maxVersion=VERSION,
                                versions=T.vlist(VERSION, VERSION, VERSION))},
         raises={ValueError: ('iff', lambda ns: S.Not(S.And(_known(_f(ns, 'minVersion')), _known(_f(ns, 'maxVersion')),
                                                             _f(ns, 'minVersion') <= _f(ns, 'maxVersion'))))},
         ensures=lambda ns: S.And(_versions_post(ns), _unchanged(ns, 'minVersion', 'maxVersion')),
         exc_ensures=lambda ns: _unchanged(ns, 'minVersion', 'maxVersion'),
         prop='C19', doc='ValueError exactly when minVersion/maxVersion are not known versions with min <= max; '
                         'versions is filtered to < (3,4) exactly when maxVersion < (3,4); min/max are not modified')


# -- extended master secret flags --------------------------------------------
contract(HS + '_sanityCheckEMSExtension',
         params={'other': T.obj(H, useExtendedMasterSecret=T.bool(), requireExtendedMasterSecret=T.bool())},
         raises={ValueError: ('iff', lambda ns: S.And(_f(ns, 'requireExtendedMasterSecret'),
                                                      S.Not(_f(ns, 'useExtendedMasterSecret'))))},
         prop='C19', doc='ValueError exactly when requireExtendedMasterSecret is set without useExtendedMasterSecret')


# -- session ticket settings -------------------------------------------------
def _ticket_in_domain(ns, cipher_ok):
    keys = _f(ns, 'ticketKeys')
    return S.And(cipher_ok,
                 *([S.Or(S.len_(k) == 16, S.len_(k) == 32) for k in keys.items] +
                   [0 < _f(ns, 'ticketLifetime'), _f(ns, 'ticketLifetime') <= 7 * 24 * 3600,       # RFC 8446 4.6.1
                    0 < _f(ns, 'max_early_data'), _f(ns, 'max_early_data') <= 2 ** 64,
                    0 <= _f(ns, 'ticket_count'), _f(ns, 'ticket_count') < 2 ** 16]))


def _ticket_params(cipher, nkeys):
    return {'other': T.obj(H, ticketCipher=T.const(cipher), ticketKeys=T.vlist(*[T.bytes() for _ in range(nkeys)]),
                           ticketLifetime=T.int(), max_early_data=T.int(), ticket_count=T.int())}


for _cipher, _ok in (('aes256gcm', True), ('chacha20-poly1305', True), ('aes128ccm_8', True), ('aes192gcm', False),
                     ('3des', False)):
    for _nk in (0, 2):
        contract(HS + '_sanityCheckTicketSettings', name='_sanityCheckTicketSettings[%s,%d keys]' % (_cipher, _nk),
                 params=_ticket_params(_cipher, _nk),
                 raises={ValueError: ('iff', (lambda ok: lambda ns: S.Not(_ticket_in_domain(ns, ok)))(_ok))},
                 exc_ensures=lambda ns: _unchanged(ns, 'ticketLifetime', 'max_early_data', 'ticket_count'),
                 ensures=lambda ns: _unchanged(ns, 'ticketLifetime', 'max_early_data', 'ticket_count'),
                 cover=_ok,
                 prop='C19', doc='ValueError exactly when the ticket cipher is not a ticket AEAD, a key is not 16/32 bytes, '
                                 'ticketLifetime not in 1..604800, max_early_data not in 1..2**64 or ticket_count not '
                                 'in 0..65535')


# -- extension settings ------------------------------------------------------
def _tostr(ex, args, kwargs, st, fr, node):
    return [Outcome('normal', st, VStr('<enum name>'))]


REG.external['tlslite/constants.py:TLSEnum.toStr'] = _tostr
REG.note('C19', 'trusted', 'TLSEnum.toStr (used only to format error messages) modelled as a pure function returning a string')

_EXT_FIELDS = dict(useEncryptThenMAC=T.bool(), usePaddingExtension=T.bool(), use_heartbeat_extension=T.bool(),
                   heartbeat_response_callback=T.none(), dc_sig_algs=T.vlist(), dc_valid_time=T.int(),
                   useExtendedMasterSecret=T.bool(), requireExtendedMasterSecret=T.bool(),
                   certificate_compression_send=T.vlist(T.const('zlib')),
                   certificate_compression_receive=T.vlist())


def _ext_in_domain(ns, rsl_none):
    fm = _f(ns, 'ec_point_formats').items
    rsl = S.And(True) if rsl_none else S.And(64 <= _f(ns, 'record_size_limit'),
                                            _f(ns, 'record_size_limit') <= 2 ** 14 + 1)       # RFC 8449 / docstring
    return S.And(rsl,
                 *([S.Or(f == 0, f == 1) for f in fm] +                                          # RFC 8422 5.1.2 formats
                   [S.Or(*[f == 0 for f in fm]),                                                 # uncompressed offered
                    _f(ns, 'dc_valid_time') <= 7 * 24 * 3600,                                    # RFC 9345: 7 days
                    S.implies(_f(ns, 'requireExtendedMasterSecret'), _f(ns, 'useExtendedMasterSecret'))]))


for _name, _rsl, _none in (('int', T.int(), False), ('None', T.none(), True)):
    for _nf in (1, 2):
        contract(HS + '_sanityCheckExtensions', name='_sanityCheckExtensions[record_size_limit:%s,%d formats]' % (_name, _nf),
                 params={'other': T.obj(H, record_size_limit=_rsl,
                                        ec_point_formats=T.vlist(*[T.int() for _ in range(_nf)]), **_EXT_FIELDS)},
                 raises={ValueError: ('iff', (lambda nn: lambda ns: S.Not(_ext_in_domain(ns, nn)))(_none))},
                 prop='C19', doc='ValueError exactly when record_size_limit is not None/64..2**14+1, an EC point format is '
                                 'unknown, uncompressed is missing, dc_valid_time > 7 days or requireEMS without useEMS')

REG.xchecks.append({'prop': 'C19', 'module': 'specs.cache_settings', 'name': 'validate_frame',
                    'function': HS + 'validate'})
REG.xchecks.append({'prop': 'C19', 'module': 'specs.cache_settings', 'name': 'validate_reject',
                    'function': HS + 'validate'})
REG.xchecks.append({'prop': 'C19', 'module': 'specs.cache_settings', 'name': 'validate_idempotent',
                    'function': HS + 'validate'})

REG.note('C19', 'assumptions', 'type precondition of O-validate-reject: int fields hold ints, flags hold bools, '
         'versions hold pairs of ints, ticket keys are bytes-like; ill-typed values (TypeError) are outside the contract')
REG.note('C19', 'assumptions', 'domains without a documented range: key sizes 512..16384 bits and max_early_data <= 2**64 '
         'are the library\'s declared limits (error message says "2GiB", the bound enforced is 2**64); '
         'ticketLifetime <= 604800 is RFC 8446 4.6.1; record_size_limit 64..2**14+1 is the docstring / RFC 8449')
REG.note('C19', 'assumptions', '_sanityCheckKeySizes is verified for settings without virtual hosts; '
         '_sanityCheckTicketSettings for 0 and 2 ticket keys and five cipher names; _sanityCheckExtensions for 1 and 2 '
         'EC point formats, certificate_compression_send == ["zlib"], no heartbeat callback, empty dc_sig_algs')
REG.note('C19', 'not_built', 'O-validate-reject for the string-list fields (cipherNames, macNames, curves, signature hashes, '
         'psk modes ...) is only covered by the bounded differential run specs.cache_settings:validate_reject (50 cases), '
         'not by contracts: the engine represents strings concretely, so a contract would enumerate, not quantify')
REG.note('C19', 'not_built', 'validate() itself is not executed symbolically: the engine models lists as values that are '
         're-bound on mutation, which cannot express the aliasing other.f is self.f; the frame obligation is decided by '
         'the AST alias analysis instead, and reject/idempotence at validate() level by the bounded differential runs')
REG.note('C19', 'not_built', 'O-validate-idem and O-validate-supported as deductive obligations; "compatible settings '
         'connect" (negotiation core) is not part of this module')
